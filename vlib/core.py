"""Shared machinery of ./check: builds (library from /repo's working tree, harness, tables, Lean), running
op files through harness + Lean driver, evidence and findings."""
import os, sys, json, hashlib, subprocess, time, fcntl, shutil, re, random, glob

VERIF = os.path.dirname(os.path.dirname(os.path.abspath(__file__)))
REPO = os.environ.get("VERIF_REPO", "/repo")
BUILD = os.path.join(VERIF, ".build")
RUN = os.path.join(VERIF, ".run")
LEAN = os.path.join(VERIF, "lean")
DRIVER = os.path.join(LEAN, ".lake", "build", "bin", "shm-driver")
ALLOWED_AXIOMS = {"propext", "Classical.choice", "Quot.sound"}
JOBS = os.cpu_count() or 8


def log(*a):
    print("[check]", *a, file=sys.stderr, flush=True)


def sh(cmd, cwd=None, env=None, timeout=None, check=False, inp=None):
    p = subprocess.run(cmd, cwd=cwd, env=env, timeout=timeout, input=inp, shell=isinstance(cmd, str),
                       stdout=subprocess.PIPE, stderr=subprocess.STDOUT, text=True)
    if check and p.returncode != 0:
        raise RuntimeError(f"command failed ({p.returncode}): {cmd}\n{p.stdout[-4000:]}")
    return p.returncode, p.stdout


# ---------------------------------------------------------------------------------------------------
# tree hash and build stamp
# ---------------------------------------------------------------------------------------------------
def tree_hash():
    """content hash of everything the builds read: /repo sources + /verif sources of harness/tools/lean"""
    h = hashlib.sha256()
    roots = [(REPO, ["src", "CMakeLists.txt", "cmake", "config.h.in.cmake"]),
             (VERIF, ["harness", "tools", "lean/Shm", "lean/Main.lean", "lean/Shm.lean", "lean/lakefile.toml", "vlib/core.py"])]
    for base, subs in roots:
        for sub in subs:
            p = os.path.join(base, sub)
            if os.path.isfile(p):
                files = [p]
            else:
                files = []
                for d, dn, fn in os.walk(p):
                    dn[:] = sorted(x for x in dn if x not in ("Gen", "__pycache__", ".lake"))
                    for f in sorted(fn):
                        files.append(os.path.join(d, f))
            for f in files:
                try:
                    with open(f, "rb") as fh:
                        h.update(f.encode()); h.update(b"\0"); h.update(fh.read()); h.update(b"\0")
                except OSError:
                    pass
    return h.hexdigest()


class Lock:
    def __init__(self, name):
        os.makedirs(BUILD, exist_ok=True)
        self.path = os.path.join(BUILD, name + ".lock")
    def __enter__(self):
        self.f = open(self.path, "w")
        fcntl.flock(self.f, fcntl.LOCK_EX)
        return self
    def __exit__(self, *a):
        fcntl.flock(self.f, fcntl.LOCK_UN); self.f.close()


VARIANTS = {
    # name: (cmake options, extra CXX flags, extra link flags)
    "plain": (["-DWITH_OBJECTSTORE_BACKEND_DB=OFF"], "-O1 -g", ""),
    "asan": (["-DWITH_OBJECTSTORE_BACKEND_DB=OFF"], "-O1 -g -fsanitize=address,undefined -fno-sanitize-recover=undefined -fno-omit-frame-pointer", "-fsanitize=address,undefined"),
    "db": (["-DWITH_OBJECTSTORE_BACKEND_DB=ON"], "-O1 -g", "-lsqlite3"),
    # Botan crypto backend: the project's CMake cannot configure it in this sandbox (it injects MSVC flags), so the library is compiled from an own file list
    # (every src/lib .cpp except the OpenSSL ones) against the config.h of the plain variant with WITH_OPENSSL switched to WITH_BOTAN
    "botan": (None, "-O1 -g", "-lbotan-2"),
    "botandb": (None, "-O1 -g", "-lbotan-2 -lsqlite3"),
}


def lib_path(variant):
    return os.path.join(BUILD, variant, "src", "lib", "libsofthsm2-static.a")


def build_botan(variant="botan"):
    """compile src/lib with the Botan back end by hand (make-like: only files newer than their object); `botandb`: with the SQLite object store compiled in"""
    import concurrent.futures
    bdir = os.path.join(BUILD, variant); os.makedirs(os.path.join(bdir, "obj"), exist_ok=True); os.makedirs(os.path.join(bdir, "src", "lib"), exist_ok=True)
    base = "db" if variant == "botandb" else "plain"
    if not os.path.exists(os.path.join(BUILD, base, "config.h")):
        ok, out = build_variant(base)
        if not ok: return False, out
    cfg = open(os.path.join(BUILD, base, "config.h")).read()
    cfg = cfg.replace("#define WITH_OPENSSL 1", "/* #undef WITH_OPENSSL */").replace("/* #undef WITH_BOTAN */", "#define WITH_BOTAN 1")
    for extra in ("WITH_RAW_PSS", ):
        pass
    cp = os.path.join(bdir, "config.h")
    if not os.path.exists(cp) or open(cp).read() != cfg: open(cp, "w").write(cfg)
    files = []
    for d, dn, fn in os.walk(os.path.join(REPO, "src", "lib")):
        dn[:] = [x for x in dn if x not in ("test", "win32")]
        for f in sorted(fn):
            if f.endswith(".cpp") and not f.startswith("OSSL") and f != "main_test.cpp": files.append(os.path.join(d, f))
    incs = [f"-I{bdir}", "-I/usr/include/botan-2"] + [f"-I{os.path.join(REPO, i)}" for i in LIB_INCS]
    def cc(f):
        o = os.path.join(bdir, "obj", os.path.relpath(f, REPO).replace("/", "_")[:-4] + ".o")
        if os.path.exists(o) and os.path.getmtime(o) > max(os.path.getmtime(f), os.path.getmtime(cp)): return o, 0, ""
        rc, out = sh(["g++", "-std=c++17", "-O1", "-g", "-w", "-fPIC", "-DHAVE_CONFIG_H"] + incs + ["-c", f, "-o", o])
        return o, rc, out
    with concurrent.futures.ThreadPoolExecutor(max_workers=JOBS) as ex: res = list(ex.map(cc, files))
    bad = [(o, out) for o, rc, out in res if rc != 0]
    if bad: return False, "\n".join(o + ":\n" + out[-1500:] for o, out in bad[:3])
    lib = lib_path(variant)
    if os.path.exists(lib): os.unlink(lib)
    rc, out = sh(["ar", "rcs", lib] + [o for o, _, _ in res])
    return rc == 0, out


def build_variant(variant):
    """(re)build the static library of `variant` from /repo's current working tree (incremental)"""
    if variant in ("botan", "botandb"):
        return build_botan(variant)
    opts, cxx, _ = VARIANTS[variant]
    bdir = os.path.join(BUILD, variant)
    if not os.path.exists(os.path.join(bdir, "build.ninja")):
        rc, out = sh(["cmake", "-G", "Ninja", "-S", REPO, "-B", bdir, "-DBUILD_TESTS=OFF", "-DCMAKE_BUILD_TYPE=None",
                      f"-DCMAKE_CXX_FLAGS={cxx} -w", "-DENABLE_STATIC=ON", "-DWITH_CRYPTO_BACKEND=openssl",
                      "-DENABLE_ECC=ON", "-DENABLE_EDDSA=ON", "-DENABLE_P11_KIT=OFF", "-DDISABLE_NON_PAGED_MEMORY=ON"] + opts)
        if rc != 0:
            return False, out
    rc, out = sh(["ninja", "-C", bdir, f"-j{JOBS}", "softhsm2-static"])
    return rc == 0, out


def harness_path(variant, name="p11drv"):
    return os.path.join(BUILD, f"{name}-{variant}")


def build_harness(variant, name="p11drv", src=None, extra_inc=()):
    _, cxx, ld = VARIANTS[variant]
    src = src or os.path.join(VERIF, "harness", name + ".cpp")
    out = harness_path(variant, name)
    cmd = (["g++", "-std=c++17"] + cxx.split() + ["-w", "-DCRYPTOKI_VISIBILITY", f"-I{REPO}/src/lib/pkcs11"]
           + [f"-I{i}" for i in extra_inc] + [src, lib_path(variant)] + ld.split()
           + ["-lssl", "-lcrypto", "-ldl", "-lpthread", "-o", out])
    rc, o = sh(cmd)
    return rc == 0, o


LIB_INCS = ["src/lib", "src/lib/common", "src/lib/crypto", "src/lib/data_mgr", "src/lib/handle_mgr", "src/lib/object_store",
            "src/lib/session_mgr", "src/lib/slot_mgr", "src/lib/pkcs11"]


def regen_tables():
    """T-obligations: regenerate lean/Shm/Gen from the code as compiled now"""
    incs = [os.path.join(REPO, i) for i in LIB_INCS] + [os.path.join(BUILD, "plain")]
    ok, out = build_harness("plain", "tabledump", os.path.join(VERIF, "tools", "tabledump.cpp"), incs)
    if not ok:
        return False, "tabledump does not compile against the current tree:\n" + out[-3000:]
    env = dict(os.environ)
    conf = scratch_conf(os.path.join(RUN, "tabledump"))
    env["SOFTHSM2_CONF"] = conf
    rc, js = sh([harness_path("plain", "tabledump")], env=env)
    if rc != 0:
        return False, "tabledump failed:\n" + js[-3000:]
    jp = os.path.join(BUILD, "tables.json")
    open(jp, "w").write(js)
    ap = os.path.join(BUILD, "attrs.json")
    rc, out0 = sh([sys.executable, os.path.join(VERIF, "tools", "translate_attrs.py"), REPO, os.path.join(BUILD, "plain"),
                   os.path.join(VERIF, "tools", "attr_special.json"), ap])
    if rc != 0:
        return False, "translate_attrs failed:\n" + out0[-3000:]
    rc, out = sh([sys.executable, os.path.join(VERIF, "tools", "gen_tables.py"), jp, os.path.join(LEAN, "Shm", "Gen"), ap])
    if rc != 0:
        return False, out0 + out
    rc, out2 = sh([sys.executable, os.path.join(VERIF, "tools", "gen_dbkinds.py"), REPO, os.path.join(BUILD, "plain"), os.path.join(LEAN, "Shm", "Gen")])
    if rc != 0: return False, out0 + out + out2
    # the guards every function of SoftHSM.cpp mentions, from the source text (Props/Facts*.lean are decided against it)
    rc, out3 = sh([sys.executable, os.path.join(VERIF, "tools", "extract_facts.py"), REPO, os.path.join(LEAN, "Shm", "Gen")])
    if rc != 0: return False, out0 + out + out2 + out3
    # how the methods of the shared-table classes take their mutex (Props/FactsC18.lean)
    rc, out4 = sh([sys.executable, os.path.join(VERIF, "tools", "extract_locks.py"), REPO, os.path.join(LEAN, "Shm", "Gen")])
    return rc == 0, out0 + out + out2 + out3 + out4


def lake_build():
    """build the whole Lean library + driver; returns (ok_modules_failed: dict module->error text, raw output)"""
    rc, out = sh(["lake", "build"], cwd=LEAN)
    failed = {}
    cur = None
    for line in out.splitlines():
        m = re.match(r"^✖ \[\d+/\d+\] (?:Building|Compiling|Linking) (\S+)", line)
        if m:
            cur = m.group(1); failed[cur] = []
            continue
        if cur and (line.startswith("error:") or line.startswith("trace:") is False):
            failed[cur].append(line)
        if line.startswith("✔") or line.startswith("⚠") or line.startswith("ℹ"):
            cur = None
    failed = {k: "\n".join(v)[:6000] for k, v in failed.items()}
    return rc == 0, failed, out


def prop_theorems():
    """every `theorem` of lean/Shm/Props/*.lean, by module -> fully qualified names"""
    res = {}
    for f in sorted(glob.glob(os.path.join(LEAN, "Shm", "Props", "*.lean"))):
        mod = "Shm.Props." + os.path.basename(f)[:-5]
        ns = []
        names = []
        for line in open(f):
            m = re.match(r"^namespace\s+(\S+)", line)
            if m: ns.append(m.group(1))
            m = re.match(r"^end\s+(\S+)", line)
            if m and ns and ns[-1] == m.group(1): ns.pop()
            m = re.match(r"^(?:protected\s+|private\s+)?theorem\s+([^\s:({\[]+)", line)
            if m: names.append(".".join(ns + [m.group(1)]))
        res[mod] = names
    return res


FORBIDDEN = re.compile(r"\bsorry\b|\badmit\b|^\s*axiom\s|native_decide|bv_decide|implemented_by|\bunsafe\s|maxHeartbeats\s+0\b")


def grep_forbidden():
    hits = []
    for d, dn, fn in os.walk(os.path.join(LEAN, "Shm")):
        for f in fn:
            if not f.endswith(".lean"): continue
            p = os.path.join(d, f)
            incomment = False
            for i, line in enumerate(open(p), 1):
                s = line
                if "/-" in s and "-/" not in s: incomment = True
                if incomment:
                    if "-/" in s: incomment = False
                    continue
                s = s.split("--")[0]
                if FORBIDDEN.search(s):
                    hits.append(f"{os.path.relpath(p, LEAN)}:{i}: {line.strip()}")
    return hits


def audit_axioms(theorems_by_mod, failed_mods):
    """#print axioms for every property theorem of the modules that built"""
    lines = []
    for mod, names in theorems_by_mod.items():
        if mod in failed_mods or not names: continue
        lines.append(f"import {mod}")
    for mod, names in theorems_by_mod.items():
        if mod in failed_mods: continue
        for n in names:
            lines.append(f"#print axioms {n}")
    path = os.path.join(BUILD, "Audit.lean")
    open(path, "w").write("\n".join(lines) + "\n")
    rc, out = sh(["lake", "env", "lean", path], cwd=LEAN)
    res = {}
    # output: "'Name' depends on axioms: [a, b]" or "'Name' does not depend on any axioms"
    for m in re.finditer(r"'([^']+)' depends on axioms: \[([^\]]*)\]", out.replace("\n ", " ").replace("\n", " ")):
        res[m.group(1)] = sorted(x.strip() for x in m.group(2).split(",") if x.strip())
    for m in re.finditer(r"'([^']+)' does not depend on any axioms", out):
        res[m.group(1)] = []
    return res, out


def ensure_build(variants=("plain",)):
    """Rebuild everything that depends on /repo's working tree; cached by content hash. Returns the stamp dict."""
    os.makedirs(BUILD, exist_ok=True)
    with Lock("build"):
        th = tree_hash()
        stamp_path = os.path.join(BUILD, "stamp.json")
        stamp = {}
        if os.path.exists(stamp_path):
            try: stamp = json.load(open(stamp_path))
            except Exception: stamp = {}
        if stamp.get("tree_hash") != th:
            stamp = {"tree_hash": th, "variants": {}, "t0": time.time()}
        changed = False
        for v in variants:
            if stamp["variants"].get(v, {}).get("ok") is None or not os.path.exists(harness_path(v)) :
                t0 = time.time()
                log(f"building library variant {v} from {REPO} ...")
                ok, out = build_variant(v)
                hok, hout = (False, "") if not ok else build_harness(v)
                stamp["variants"][v] = {"ok": ok and hok, "log": (out + hout)[-3000:] if not (ok and hok) else "", "wall_s": round(time.time() - t0, 1)}
                changed = True
        if "lean" not in stamp and stamp["variants"].get("plain", {}).get("ok"):
            t0 = time.time()
            log("regenerating tables and building the Lean library ...")
            tok, tout = regen_tables()
            ok, failed, out = lake_build()
            thms = prop_theorems()
            ax, axout = audit_axioms(thms, failed) if os.path.exists(DRIVER) or ok else ({}, "")
            stamp["lean"] = {"tables_ok": tok, "tables_log": tout[-3000:], "ok": ok, "failed": failed, "theorems": thms, "axioms": ax,
                             "forbidden": grep_forbidden(), "driver": os.path.exists(DRIVER), "wall_s": round(time.time() - t0, 1),
                             "raw_tail": out[-2000:] if not ok else ""}
            changed = True
        if changed:
            json.dump(stamp, open(stamp_path, "w"), indent=1)
        return stamp


# ---------------------------------------------------------------------------------------------------
# running traces
# ---------------------------------------------------------------------------------------------------
def scratch_conf(d, backend="file", extra=""):
    os.makedirs(os.path.join(d, "tokens"), exist_ok=True)
    conf = os.path.join(d, "softhsm2.conf")
    open(conf, "w").write(f"directories.tokendir = {d}/tokens\nobjectstore.backend = {backend}\nlog.level = ERROR\nslots.removable = false\n{extra}")
    return conf


class Scratch:
    """a private directory under .run, removed at exit"""
    def __init__(self, tag):
        self.dir = os.path.join(RUN, f"{tag}-{os.getpid()}-{random.randrange(1<<30):x}")
    def __enter__(self):
        os.makedirs(self.dir, exist_ok=True); return self
    def __exit__(self, *a):
        shutil.rmtree(self.dir, ignore_errors=True)


def run_harness(ops_text, workdir, variant="plain", backend="file", conf_extra="", timeout=600, env_extra=None, harness="p11drv"):
    """run one op file in a fresh process on the token directory of `workdir`; returns (returncode, transcript)"""
    conf = scratch_conf(workdir, backend, conf_extra)
    opsf = os.path.join(workdir, "ops.txt")
    open(opsf, "w").write(ops_text)
    env = dict(os.environ); env["SOFTHSM2_CONF"] = conf; env["VERIF_TOKENDIR"] = os.path.join(workdir, "tokens")
    env["ASAN_OPTIONS"] = "detect_leaks=0:abort_on_error=0:exitcode=71"; env["UBSAN_OPTIONS"] = "print_stacktrace=1:halt_on_error=1:exitcode=72"
    if env_extra: env.update(env_extra)
    p = subprocess.run([harness_path(variant, harness), opsf], env=env, stdout=subprocess.PIPE, stderr=subprocess.PIPE, timeout=timeout)
    return p.returncode, p.stdout.decode("latin1"), p.stderr.decode("latin1")


def run_driver(transcript, timeout=600, args=()):
    p = subprocess.run([DRIVER] + list(args), input=transcript.encode("latin1"), stdout=subprocess.PIPE, stderr=subprocess.PIPE, timeout=timeout)
    return p.returncode, p.stdout.decode("latin1")


def parse_driver(out):
    """-> (list of mismatch lines, list of unparsed, histogram of op:rv signatures, summary dict)"""
    mism, unp, hist = [], [], {}
    summary = {}
    for line in out.splitlines():
        if line.startswith("ok "):
            k = line[3:]; hist[k] = hist.get(k, 0) + 1
        elif line.startswith("MISMATCH"): mism.append(line)
        elif line.startswith("UNPARSED") or line.startswith("PROTOCOL"): unp.append(line)
        elif line.startswith("SUMMARY"):
            for kv in line.split()[1:]:
                k, v = kv.split("="); summary[k] = int(v)
    return mism, unp, hist, summary


# ---------------------------------------------------------------------------------------------------
# findings and evidence
# ---------------------------------------------------------------------------------------------------
def load_findings():
    """known_findings.txt: lines `known: property=<id> sig=<signature> :: text` and `fixed: property=<id> <commit> text`"""
    known = {}
    p = os.path.join(VERIF, "known_findings.txt")
    if os.path.exists(p):
        for line in open(p):
            line = line.strip()
            m = re.match(r"^known:\s+property=(\S+)\s+sig=(\S+)\s*::\s*(.*)$", line)
            if m: known.setdefault(m.group(1), {})[m.group(2)] = m.group(3)
    return known


def write_evidence(pid, tier, seed, level, coverage, wall_s, violations, assumptions):
    os.makedirs(os.path.join(VERIF, "evidence"), exist_ok=True)
    ev = {"property_id": pid, "tier": tier, "seed": seed, "level": level, "coverage": coverage,
          "assumptions": assumptions, "wall_s": round(wall_s, 2), "violations": violations}
    json.dump(ev, open(os.path.join(VERIF, "evidence", pid + ".json"), "w"), indent=1, sort_keys=True)
