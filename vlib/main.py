"""Entry point of ./check: generic flow shared by all properties (P, T and K obligations; §5 of DESIGN.md)."""
import shutil, os, sys, os, json, time, re, argparse, importlib, concurrent.futures, hashlib
from . import core, multi
from .core import log

PROPS = ["C%02d" % i for i in range(1, 21)]


class Violation:
    def __init__(self, sig, text, replay_text, found_input=True):
        self.sig, self.text, self.replay_text, self.found_input = sig, text, replay_text, found_input


class Trace:
    """one op file to run in a fresh process on a fresh token directory"""
    def __init__(self, name, ops, variant="plain", backend="file", conf_extra="", env=None, fixture=None):
        self.name, self.ops, self.variant, self.backend, self.conf_extra, self.env = name, ops, variant, backend, conf_extra, env
        self.fixture = fixture      # name of a golden token directory under /verif/fixtures: the trace runs on a copy of it, the model starts from its creation transcript


def trace_header(t):
    """first line of a replay file: how the trace has to be run (build variant, backend, extra configuration lines, golden fixture)"""
    return "## trace variant=%s backend=%s fixture=%s conf_extra_hex=%s env_hex=%s\n" % (t.variant, t.backend, getattr(t, "fixture", None) or "", (t.conf_extra or "").encode().hex(),
                                                                                         json.dumps(t.env or {}, sort_keys=True).encode().hex())


class TraceResult:
    def __init__(self, trace, rc, transcript, stderr, mism, unparsed, hist, crashed):
        self.trace, self.rc, self.transcript, self.stderr = trace, rc, transcript, stderr
        self.mism, self.unparsed, self.hist, self.crashed = mism, unparsed, hist, crashed


def run_trace(trace, keepdir=None):
    prefix = ""
    with core.Scratch("k") as sc:
        try:
            if getattr(trace, "fixture", None):
                fx = os.path.join(core.VERIF, "fixtures", trace.fixture)
                shutil.copytree(os.path.join(fx, "tokens"), os.path.join(sc.dir, "tokens"), dirs_exist_ok=True)
                prefix = open(os.path.join(fx, "creation.transcript")).read() + "reexec\n= 0\n"
            if trace.ops.startswith("P") and multi.TAG.match(trace.ops.split("\n", 1)[0]):
                rc, out, err = multi.run_multi(trace.ops, sc.dir, trace.variant, trace.backend, trace.conf_extra, env_extra=trace.env)
            else:
                rc, out, err = core.run_harness(trace.ops, sc.dir, trace.variant, trace.backend, trace.conf_extra, env_extra=trace.env)
        except Exception as e:                      # timeout etc.
            return TraceResult(trace, -1, "", str(e), [], [], {}, True)
    lines = [l for l in out.splitlines() if l.strip()]
    crashed = rc != 0 or (len(lines) > 0 and not lines[-1].startswith("=")) or any("CRASH" in l for l in lines[-2:])
    drc, dout = core.run_driver(prefix + out)
    mism, unp, hist, summ = core.parse_driver(dout)
    return TraceResult(trace, rc, out, err, mism, unp, hist, crashed)


def run_traces(traces, jobs=None):
    jobs = jobs or core.JOBS
    with concurrent.futures.ThreadPoolExecutor(max_workers=jobs) as ex:
        return list(ex.map(run_trace, traces))


MISM_RE = re.compile(r"^MISMATCH line (\d+) cat=(\S+) op=(\S+) :: (.*?) => (.*?) :: (.*?)(?: :: ctx (.*))?$")


def parse_mismatch(line):
    m = MISM_RE.match(line)
    if not m: return None
    ctx = {}
    for kv in (m.group(7) or "").split():
        if "=" in kv:
            k, v = kv.split("=", 1); ctx[k] = v
    res = m.group(5).split()
    return {"line": int(m.group(1)), "cat": m.group(2), "op": m.group(3), "opline": m.group(4), "res": m.group(5), "why": m.group(6),
            "ctx": ctx, "implrv": int(res[0]) if res and res[0].isdigit() else None,
            "modelrv": int(ctx["modelrv"]) if ctx.get("modelrv", "").isdigit() else None}


def shrink(trace, keeps, budget_s=40):
    """ddmin over op lines (removed lines become `nop` so that @k references stay valid).
    `keeps(TraceResult) -> bool` says whether the interesting behaviour is still there."""
    t0 = time.time()
    lines = trace.ops.rstrip("\n").split("\n")
    def mk(ls): return Trace(trace.name, "\n".join(ls) + "\n", trace.variant, trace.backend, trace.conf_extra, trace.env, getattr(trace, 'fixture', None))
    n = 2
    def nopped(l):       # multi-process op files keep the process tag, so that each process's op numbering (the @k references) is unchanged
        m = multi.TAG.match(l)
        return ("P%s nop" % m.group(1)) if m else "nop"
    is_nop = lambda l: l == "nop" or l.endswith(" nop")
    live = [i for i, l in enumerate(lines) if not is_nop(l)]
    while len(live) >= 2 and time.time() - t0 < budget_s:
        chunk = max(1, len(live) // n)
        progressed = False
        for start in range(0, len(live), chunk):
            if time.time() - t0 > budget_s: break
            cand = list(lines)
            for i in live[start:start + chunk]: cand[i] = nopped(cand[i])
            if keeps(run_trace(mk(cand))):
                lines = cand
                live = [i for i, l in enumerate(lines) if not is_nop(l)]
                n = max(n - 1, 2); progressed = True
                break
        if not progressed:
            if chunk == 1: break
            n = min(len(live), n * 2)
    # drop trailing nops
    while lines and is_nop(lines[-1]): lines.pop()
    return mk(lines)


class Ctx:
    def __init__(self, pid, tier, seed, stamp):
        self.pid, self.tier, self.seed, self.stamp = pid, tier, seed, stamp
        self.quick = tier == "quick"


def lean_status(stamp, modules):
    """P/T status of the Lean modules a property depends on"""
    lean = stamp.get("lean", {})
    res = {"theorems": [], "failed": {}, "axioms": {}, "bad_axioms": {}, "forbidden": lean.get("forbidden", []), "tables_ok": lean.get("tables_ok", False)}
    for m in modules:
        # a property module fails also when something it imports failed
        if m in lean.get("failed", {}):
            res["failed"][m] = lean["failed"][m]
        names = lean.get("theorems", {}).get(m, [])
        res["theorems"] += names
        for n in names:
            ax = lean.get("axioms", {}).get(n)
            if ax is None:
                if m not in res["failed"]: res["failed"].setdefault(m, "theorem %s missing from the axiom audit (module did not build?)" % n)
            else:
                res["axioms"][n] = ax
                bad = [a for a in ax if a not in core.ALLOWED_AXIOMS]
                if bad: res["bad_axioms"][n] = bad
    if not lean.get("ok", False):
        for m, e in lean.get("failed", {}).items():
            if m.startswith("Shm.Model") or m.startswith("Shm.Gen") or m.startswith("Shm.Base") or m.startswith("Shm.Proto") or m == "Main" or m.startswith("Shm.Lemmas") or m.startswith("Shm.Store") or m.startswith("Shm.Crypto"):
                res["failed"][m] = e
    return res


def main(argv):
    ap = argparse.ArgumentParser()
    ap.add_argument("pid", nargs="?")
    ap.add_argument("--tier", default=os.environ.get("VERIF_TIER", "quick"))
    ap.add_argument("--replay")
    ap.add_argument("--setup", action="store_true")
    ap.add_argument("--all", action="store_true")
    a = ap.parse_args(argv)
    seed = int(os.environ.get("VERIF_SEED", "1"))
    if a.setup:
        st = core.ensure_build(("plain",))
        ok = st["variants"]["plain"]["ok"] and st.get("lean", {}).get("driver")
        print("setup:", "ok" if ok else "FAILED")
        if not ok: print(json.dumps(st, indent=1)[:6000])
        return 0 if ok else 1
    if a.all:
        rc = 0
        for pid in PROPS:
            try: importlib.import_module("vlib.props." + pid)
            except ImportError: continue
            r = main([pid, "--tier", a.tier]); rc = rc or r
        return rc
    pid = a.pid
    mod = importlib.import_module("vlib.props." + pid)
    t0 = time.time()
    variants = getattr(mod, "VARIANTS", ("plain",))
    if callable(variants): variants = variants(a.tier)
    stamp = core.ensure_build(variants)
    ctx = Ctx(pid, a.tier, seed, stamp)
    if a.replay:
        return replay(mod, ctx, a.replay)
    return run_property(mod, ctx, t0)


def replay(mod, ctx, path):
    if hasattr(mod, "replay"): return mod.replay(ctx, path)
    text = open(path).read()
    if path.endswith(".json"):
        print(text); return 1
    if "## pure" in text:
        from . import pure
        return pure.replay_pure(text)
    ops = "\n".join(l for l in text.splitlines() if not l.startswith("##")) + "\n"
    hdr = dict(kv.split("=", 1) for l in text.splitlines() if l.startswith("## trace ") for kv in l.split()[2:] if "=" in kv)
    tr = Trace("replay", ops, hdr.get("variant", getattr(mod, "REPLAY_VARIANT", "plain")), hdr.get("backend", "file"),
               bytes.fromhex(hdr.get("conf_extra_hex", "")).decode(), json.loads(bytes.fromhex(hdr.get("env_hex", "") or "7b7d").decode()) or None, hdr.get("fixture") or None)
    r = run_trace(tr)
    print(r.transcript)
    for m in r.mism: print(m)
    if r.crashed: print("CRASHED rc=%s\n%s" % (r.rc, r.stderr[-2000:]))
    from . import ksuites
    if "nop expect-login" in ops or "nop expect-label" in ops:
        # suites judged by a fresh process's answers only (two processes: what the long-running process itself sees is not part of the suite)
        viols = [Violation(s, t, ops) for s, t in ksuites.expect_login_direct(r)]
    else:
        viols = mod.judge(ctx, [r]) if hasattr(mod, "judge") else []
        if "nop samevalues" in ops: viols += [Violation(s, t, ops) for s, t in ksuites.samevalues_direct(r)]
        if "nop expect-no-output" in ops: viols += [Violation(s, t, ops) for s, t in ksuites.no_output_direct(r)]
    for v in viols: print("JUDGEMENT: violates %s: %s" % (ctx.pid, v.text))
    if not viols: print("JUDGEMENT: no violation of %s on this replay" % ctx.pid)
    return 1 if viols else 0


def run_property(mod, ctx, t0):
    pid = ctx.pid
    known = core.load_findings().get(pid, {})
    violations = []          # Violation objects
    stamp = ctx.stamp
    # ---- build failures -------------------------------------------------------------------------
    bad_build = [v for v, s in stamp["variants"].items() if not s.get("ok")]
    if bad_build:
        violations.append(Violation("build", "library/harness does not build from the current tree: %s" % bad_build,
                                    json.dumps({"obligation": "build", "variants": {v: stamp["variants"][v] for v in bad_build}}, indent=1), False))
    # ---- P and T obligations ---------------------------------------------------------------------
    ls = lean_status(stamp, getattr(mod, "LEAN_MODULES", []))
    p_broken = []
    for m, e in ls["failed"].items(): p_broken.append(("lean-module " + m, e))
    for n, bad in ls["bad_axioms"].items(): p_broken.append(("axioms of " + n, "depends on non-standard axioms %s" % bad))
    if ls["forbidden"]: p_broken.append(("forbidden constructs", "\n".join(ls["forbidden"])))
    if not ls["tables_ok"]: p_broken.append(("table regeneration", stamp.get("lean", {}).get("tables_log", "")))
    # ---- K obligations ---------------------------------------------------------------------------
    kres = {"suites": 0, "evaluations": 0, "hist": {}, "samples": [], "abandoned": 0, "notes": []}
    kviol = []
    # thorough tier: the compiled property modules are re-checked by `leanchecker` (the toolchain's independent replay of every declaration through the kernel)
    if not ctx.quick and not ls["failed"]:
        import subprocess, concurrent.futures
        def recheck(m):
            try:
                p = subprocess.run(["lake", "env", "leanchecker", m], cwd=core.LEAN, stdout=subprocess.PIPE, stderr=subprocess.STDOUT, timeout=1800)
                return m, p.returncode, p.stdout.decode("latin1")[-1500:]
            except Exception as e:
                return m, 1, "leanchecker could not be run: %r" % (e,)
        with concurrent.futures.ThreadPoolExecutor(max_workers=3) as ex:
            for m, rc, out in ex.map(recheck, getattr(mod, "LEAN_MODULES", [])):
                if rc != 0: p_broken.append(("leanchecker " + m, out))
                else: kres["notes"].append("leanchecker %s: ok" % m)
    if not bad_build and stamp.get("lean", {}).get("driver"):
        try:
            kviol = mod.run_k(ctx, kres)
        except Exception as e:
            # the correspondence machinery itself failed (an answer of the library it could not digest, a generator error): the property is no longer SHOWN to hold on this
            # tree; reported as a broken correspondence obligation (never silently as a bare non-zero exit)
            import traceback
            tb = traceback.format_exc()
            log(tb)
            kviol = [Violation("correspondence-error", "the correspondence check could not be completed: %s: %s" % (type(e).__name__, str(e)[:300]),
                               json.dumps({"property": pid, "broken_obligations": [{"name": "correspondence suites of %s" % pid, "detail": tb[-3000:]}]}, indent=1), False)]
    elif not bad_build:
        p_broken.append(("model driver", "shm-driver did not build; correspondence cannot run"))
    violations += kviol
    # ---- a broken proof obligation: search for a failing input, else report unproved ---------------
    if p_broken:
        found = [v for v in kviol if v.found_input]
        wit = []
        if hasattr(mod, "search_witness"):
            wit = mod.search_witness(ctx, p_broken) or []
        violations += wit
        if not found and not wit:
            violations.append(Violation("unproved", "proof obligation no longer checks and no failing input was found: " + "; ".join(n for n, _ in p_broken),
                                        json.dumps({"property": pid, "broken_obligations": [{"name": n, "detail": e} for n, e in p_broken]}, indent=1), False))
    # ---- report ----------------------------------------------------------------------------------
    os.makedirs(os.path.join(core.VERIF, "replays"), exist_ok=True)
    rc = 0
    nviol = 0
    seen = set()
    for v in violations:
        if v.sig in seen: continue
        seen.add(v.sig)
        if v.sig in known:
            print("KNOWN-FINDING: property=%s %s" % (pid, known[v.sig]))
            continue
        ext = ".ops" if v.found_input else ".json"
        rp = os.path.join("replays", "%s-%s%s" % (pid, re.sub(r"[^A-Za-z0-9_.-]", "_", v.sig)[:80], ext))
        hdr = "## property=%s signature=%s\n## %s\n" % (pid, v.sig, v.text.replace("\n", "\n## ")) if v.found_input else ""
        open(os.path.join(core.VERIF, rp), "w").write(hdr + v.replay_text)
        print("VIOLATION property=%s replay=%s%s" % (pid, rp, "" if v.found_input else " no-failing-input-found"))
        log(v.text[:2000])
        rc = 1; nviol += 1
    for sig, text in known.items():
        if sig not in seen and sig.startswith("always:"):
            print("KNOWN-FINDING: property=%s %s" % (pid, text))
    # ---- evidence --------------------------------------------------------------------------------
    n_thm = len(ls["theorems"])
    n_tab = len(getattr(mod, "GEN_TABLES", []))
    obligations = n_thm + n_tab + kres["suites"]
    new_k = {v.sig for v in kviol if v.sig not in known}
    discharged = (n_thm if not p_broken else max(0, n_thm - len(p_broken))) + (n_tab if ls["tables_ok"] else 0) + (max(0, kres["suites"] - len(new_k)) if kres["suites"] else 0)
    known_reported = sorted({v.sig for v in violations if v.sig in known})
    axs = sorted({a for l in ls["axioms"].values() for a in l})
    cov = {
        "obligations": obligations, "discharged": max(0, discharged),
        "checker_cmd": "cd lean && lake build && lake env lean .build/Audit.lean (#print axioms of every property theorem); ./check %s --tier %s" % (pid, ctx.tier),
        "trusted_base": ["Lean 4.33.0 kernel", "axioms used by the property theorems: %s" % (axs or "none")] + getattr(mod, "TRUSTED", []),
        "known_findings_reported": known_reported,
        "known_findings_note": ("a correspondence / enumeration suite whose only violations are findings listed in known_findings.txt counts as discharged here; the findings "
                                "themselves are printed as KNOWN-FINDING lines and listed above: for them the property does NOT hold on this tree") if known_reported else "",
        "theorems": ls["theorems"], "axioms_by_theorem": ls["axioms"],
        "generated_tables": getattr(mod, "GEN_TABLES", []),
        "k_suites": kres["suites"], "evaluations": kres["evaluations"],
        "distinct_nontrivial": len(kres["hist"]),
        "rule": getattr(mod, "RULE", "") + " distinct_nontrivial = number of distinct (operation, model return code) branch signatures reached with model and implementation agreeing.",
        "samples": kres["samples"][:6], "branch_histogram": dict(sorted(kres["hist"].items())[:400]),
        "traces_abandoned_after_divergence_outside_projection": kres["abandoned"], "notes": kres["notes"],
        "build_wall_s": {"lib": {v: s.get("wall_s") for v, s in stamp["variants"].items()}, "lean": stamp.get("lean", {}).get("wall_s")},
        "tree_hash": stamp.get("tree_hash"),
    }
    core.write_evidence(pid, ctx.tier, ctx.seed, getattr(mod, "LEVEL", "proof"), cov, time.time() - t0, nviol, getattr(mod, "ASSUMPTIONS", []))
    if rc == 0 and any(v.sig in known for v in violations):
        print("%s: no violation beyond the listed known findings (%d theorems, %d tables, %d correspondence suites, %d evaluations)" % (pid, n_thm, n_tab, kres["suites"], kres["evaluations"]))
    elif rc == 0:
        print("%s: holds on everything explored (%d theorems, %d tables, %d correspondence suites, %d evaluations)" % (pid, n_thm, n_tab, kres["suites"], kres["evaluations"]))
    return rc


# -------------------------------------------------------------------------------------------------------
# helper used by most property modules: run traces, classify the first mismatch of each
# -------------------------------------------------------------------------------------------------------
def pick_mismatch(r, in_projection, rank=None):
    if not r.mism: return None
    if rank is None:
        f = parse_mismatch(r.mism[0])
        if f is not None: f["result"] = r
        return f
    best = None
    for l in r.mism:
        f = parse_mismatch(l)
        if f is None: continue
        f["result"] = r
        if not in_projection(f): continue
        if best is None or rank(f) < rank(best): best = f
    if best is None:
        best = parse_mismatch(r.mism[0])
        if best is not None: best["result"] = r
    return best


def k_suite(ctx, kres, suite_name, traces, in_projection, sig_of=None, direct=None, shrink_budget=40, rank=None):
    """Runs the traces, merges coverage into kres, returns Violations.
    in_projection(mismatch dict) -> bool : does this disagreement concern what the property speaks about?
    direct(TraceResult) -> list[(sig, text)] : violations visible on the implementation's observations alone.
    rank(mismatch dict) -> sortable : for traces made of independent cells (fresh session per cell), ALL disagreements are meaningful; the one with
    the smallest rank is reported (e.g. "the implementation accepted what the model refuses" before "both refuse with different codes")."""
    kres["suites"] += 1
    results = run_traces(traces)
    viols = []
    for r in results:
        nops = sum(1 for l in r.transcript.splitlines() if l.startswith("="))
        kres["evaluations"] += nops
        for k, v in r.hist.items(): kres["hist"][k] = kres["hist"].get(k, 0) + v
        if len(kres["samples"]) < 6 and r.transcript:
            ls = r.transcript.splitlines()
            kres["samples"].append({"suite": suite_name, "trace": r.trace.name, "ops": ls[10:22]})
        if r.unparsed:
            kres["notes"].append("%s/%s: %d lines not understood by the model driver: %s" % (suite_name, r.trace.name, len(r.unparsed), r.unparsed[0][:200]))
        dv = direct(r) if direct else []
        first = pick_mismatch(r, in_projection, rank)
        crashed = r.crashed
        interesting = None
        if dv:
            interesting = ("direct", dv[0][0], dv[0][1])
        elif first and in_projection(first):
            s = sig_of(first) if sig_of else "%s.%s" % (first["op"], first["cat"])
            interesting = ("mismatch", s, "model and implementation disagree on %s: `%s` => `%s` (%s)" % (suite_name, first["opline"], first["res"], first["why"]))
        elif first or crashed:
            kres["abandoned"] += 1
            if crashed and getattr(ctx, "crash_is_violation", False):
                interesting = ("crash", "crash", "the library crashed / exited (rc=%s): %s" % (r.rc, r.stderr[-600:]))
        if interesting:
            kind, s, text = interesting
            if any(v.sig == s for v in viols): continue
            def keeps(rr, kind=kind, s=s):
                if kind == "direct":
                    d2 = direct(rr); return bool(d2) and d2[0][0] == s
                if kind == "crash": return rr.crashed
                if not rr.mism: return False
                f2 = pick_mismatch(rr, in_projection, rank)
                return f2 is not None and in_projection(f2) and (sig_of(f2) if sig_of else "%s.%s" % (f2["op"], f2["cat"])) == s
            small = shrink(r.trace, keeps, shrink_budget) if shrink_budget else r.trace
            viols.append(Violation(s, text + "\n(trace %s of suite %s)" % (r.trace.name, suite_name), trace_header(small) + small.ops))
    return viols
