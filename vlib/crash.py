"""C16 / C05: crash-point and fault enumeration.  One harness process sets a scene up, snapshots the token directory, and then, for every
file-system operation index k of ONE mutating call, restores the directory, runs the call in a forked child whose k-th file-system call ends the
process (or fails), and has a FRESH process (exec) open the directory and look at everything.  The Lean model decides: the recovered API view must
be the model state before the call (S0) or after it (S1) — both taken through a restart."""
import os, re, random
from . import core, gen
from .gen import hx, ul, hxb

SO_A, SO_B, USER_A, USER_B = "so-A-pin", "so-B-pin", "user-A-pin", "user-B-pin"
NEW = "the-new-pin"


def scene():
    """-> (setup lines, names: dict name -> @ref)"""
    L = []
    def op(s): L.append(s); return len(L)
    op("init"); op("slots")
    op(f"inittoken free {hx(SO_A)} {hx('tokA')}"); op("slots")
    op(f"inittoken free {hx(SO_B)} {hx('tokB')}"); op("slots")
    n = {}
    for lab, so, user in (("tokA", SO_A, USER_A), ("tokB", SO_B, USER_B)):
        k = op(f"open t:{hx(lab)} 6"); op(f"login @{k} 0 {hx(so)}"); op(f"initpin @{k} {hx(user)}"); op(f"logout @{k}"); op(f"close @{k}")
    ka = op(f"open t:{hx('tokA')} 6"); op(f"login @{ka} 1 {hx(USER_A)}"); n["ka"] = ka
    n["pub"] = op(f"create @{ka} 0={ul(0)} 1=01 2=00 3={hx('pub-data')} 11={'a1' * 40} 12={'0102'}")
    n["priv"] = op(f"create @{ka} 0={ul(0)} 1=01 2=01 3={hx('priv-data')} 11={'b2' * 40}")
    n["big"] = op(f"create @{ka} 0={ul(0)} 1=01 2=01 3={hx('big-data')} 11={'c3' * 10000}")
    n["aes"] = op(f"create @{ka} 0={ul(4)} 100={ul(0x1f)} 1=01 2=01 3={hx('aes-key')} 11={'0f' * 32} 104=01 105=01 162=01 103=00")
    n["ec"] = op(f"genpair @{ka} 1040 180={gen.P256} 1=01 3={hx('ec-pub')} 10a=01 / 1=01 3={hx('ec-priv')} 108=01 2=01")
    n["ed"] = op(f"genpair @{ka} 1055 180={gen.ED25519} 1=01 3={hx('ed-pub')} 10a=01 / 1=01 3={hx('ed-priv')} 108=01 2=01")
    kb = op(f"open t:{hx('tokB')} 6"); op(f"login @{kb} 0 {hx(SO_B)}"); n["kb"] = kb           # SO session on token B
    kp = op(f"open t:{hx('tokA')} 6"); n["kp"] = kp                                                 # second (user) session on A
    return L, n


def scenarios(n):
    ka, kb = n["ka"], n["kb"]
    S = [
        ("create-small-public", [], f"create @{ka} 0={ul(0)} 1=01 2=00 3={hx('new-pub')} 11={'d4' * 20}"),
        ("create-small-private", [], f"create @{ka} 0={ul(0)} 1=01 2=01 3={hx('new-priv')} 11={'d5' * 20}"),
        ("create-big-private", [], f"create @{ka} 0={ul(0)} 1=01 2=01 3={hx('new-big')} 11={'e6' * 10000}"),
        ("setattr-label-private-key", [], f"setattr @{ka} @{n['aes']} 3={hx('aes-key-renamed')}"),
        ("setattr-label-public-data", [], f"setattr @{ka} @{n['pub']} 3={hx('a-much-longer-label-for-the-public-data-object')}"),
        ("setattr-label-big", [], f"setattr @{ka} @{n['big']} 3={hx('big')}"),
        ("copy-big", [], f"copy @{ka} @{n['big']} 3={hx('big-copy')}"),
        ("copy-upgrade-public", [], f"copy @{ka} @{n['pub']} 3={hx('pub-copy')} 2=01"),
        ("destroy-small", [], f"destroy @{ka} @{n['priv']}"),
        ("destroy-key", [], f"destroy @{ka} @{n['aes']}"),
        ("genkey-aes", [], f"genkey @{ka} 1080 1=01 3={hx('gen-aes')} 161={ul(32)}"),
        ("genpair-ec", [], f"genpair @{ka} 1040 180={gen.P256} 1=01 3={hx('gen-pub')} / 1=01 3={hx('gen-priv')}"),
        ("setpin-user", [], f"setpin @{ka} {hx(USER_A)} {hx(NEW)}"),
        ("setpin-so", [], f"setpin @{kb} {hx(SO_B)} {hx(NEW)}"),
        ("initpin", [], f"initpin @{kb} {hx(NEW)}"),
        ("login-wrong-pin", [f"logout @{ka}"], f"login @{ka} 1 {hx('wrong-pin')}"),
        ("login-right-pin-after-wrong", [f"logout @{ka}", f"login @{ka} 1 {hx('wrong-pin')}"], f"login @{ka} 1 {hx(USER_A)}"),
        ("logout", [], f"logout @{ka}"),
        ("reinit-token", [f"closeall t:{hx('tokB')}"], f"inittoken t:{hx('tokB')} {hx(SO_B)} {hx('tokB')}"),
        ("inittoken-free", [], f"inittoken free {hx('so-of-tokC')} {hx('tokC')}"),
        # calls that only READ: whatever file operations they make, a process death at any of them must leave everything as it was
        ("read-aes-key", [], f"getattr @{ka} @{n['aes']} 3:64 11:64 100:8"),
        ("read-ec-private", [], f"getattr @{ka} @{n['ec']}.1 3:64 100:8 180:64"),
        ("read-ed-private", [], f"getattr @{ka} @{n['ed']}.1 3:64 100:8 180:64"),
        ("read-ed-public", [], f"getattr @{ka} @{n['ed']} 3:64 100:8 181:64"),
        ("read-big-data", [], f"getattr @{ka} @{n['big']} 3:64 11:20000"),
        ("search-all", [], f"findinit @{ka}"),
    ]
    # an object file of a little more than 4096 bytes whose LAST records are the attribute maps and the mechanism set: stdio hands the first 4096 bytes to the kernel while
    # the file is written, a process death afterwards leaves exactly them - the cut sweeps (8 bytes a step, `cut<d>` = d bytes missing) through those records
    for d in MECH_CUTS:
        S.append(("create-mechs-cut%d" % d, [], mech_create_line(ka, MECH_BASE[0] + d if MECH_BASE[0] else 0)))
    return S


MECH_CUTS = list(range(8, 208, 8))
MECH_BASE = [0]        # CKA_ID length that makes the object file exactly 4096 bytes (measured once per check, see calibrate_mechs)


def mech_create_line(ka, idlen):
    mechs = "".join(ul(m) for m in (0x1081, 0x1082, 0x1085, 0x1086, 0x1087, 0x2109, 0x210a, 0x108a))
    return (f"create @{ka} 0={ul(4)} 100={ul(0x1f)} 1=01 2=00 3={hx('mech-key')} 102={'5a' * idlen if idlen else '.'} 11={'0f' * 32} 104=01 105=01 106=01 107=01 162=01 103=00 "
            f"40000211={{0={ul(4)};162=01;3={hx('inner')}}} 40000212={{104=01;105=01}} 40000600={mechs}")


def calibrate_mechs(variant="plain"):
    """measure the object file of `mech_create_line` with an empty CKA_ID and set MECH_BASE so that file size = 4096 + d for scenario cut<d>"""
    setup, names = scene()
    with core.Scratch("calib") as scr:
        before = set()
        ops = "\n".join(setup + [mech_create_line(names["ka"], 0), "fini"]) + "\n"
        rc, out, err = core.run_harness(ops, scr.dir, variant)
        best = None
        for root, _, files in os.walk(os.path.join(scr.dir, "tokens")):
            for f in files:
                if f.endswith(".object") and f != "token.object":
                    b = open(os.path.join(root, f), "rb").read()
                    if b"mech-key" in b: best = len(b)
    if best is None or best >= 4096: raise RuntimeError("calibration of the mechanism-set scenario failed (size %s, rc %s)" % (best, rc))
    MECH_BASE[0] = 4096 - best
    return best


def recovery_ops(maxobj=12):
    L = []
    def op(s): L.append(s); return len(L)
    # locking enabled: the loader's error branches run under the objects' mutexes - a recovery that deadlocks on itself is ended by the harness's alarm
    op("initos"); op("slots")
    for lab, sos, users in (("tokA", [SO_A], [NEW, USER_A]), ("tokB", [NEW, SO_B], [NEW, USER_B])):
        k = op(f"open t:{hx(lab)} 6")
        for p in sos: op(f"login @{k} 0 {hx(p)}"); op(f"logout @{k}")
        for p in users: op(f"login @{k} 1 {hx(p)}")
        op(f"sinfo @{k}")
        op(f"findinit @{k}"); f = op(f"find @{k} 200"); op(f"findfinal @{k}")
        for i in range(maxobj):
            op(f"getattr @{k} @{f}.{i} 0:8 3:64 100:8 102:64 162:1 103:1")
            op(f"getattr @{k} @{f}.{i} 11:20000 40000600:80")
        op(f"close @{k}")
    op("fini")
    return "\n".join(L) + "\n"


def pairs_of(transcript):
    """[(op line, result line or None)] — an op line directly followed by another op line had no result (the process died inside it)"""
    out = []
    lines = [l for l in transcript.splitlines() if l.strip()]
    i = 0
    while i < len(lines):
        if lines[i].startswith("="):
            i += 1; continue
        if i + 1 < len(lines) and lines[i + 1].startswith("="):
            out.append((lines[i], lines[i + 1])); i += 2
        else:
            out.append((lines[i], None)); i += 1
    return out


CONTROL = {"forkrun", "fsops", "forkdone", "recover", "recoverdone", "snapshot", "restore"}


def run_scenario(name, pre, call, mode="crash", points=None, variant="plain", last=None):
    """-> dict(n_ops, oplog, results: list of per-point dicts)"""
    setup, names = scene()
    sc = [s for s in scenarios(names) if s[0] == name][0]
    with core.Scratch("crash") as scr:
        rec = os.path.join(scr.dir, "rec.ops")
        open(rec, "w").write(recovery_ops())
        # phase 1: how many file-system operations does the call perform?
        ops1 = "\n".join(setup + sc[1] + ["snapshot a", "forkrun dry", sc[2], "fini"]) + "\n"
        rc, out, err = core.run_harness(ops1, scr.dir, variant)
        P = pairs_of(out)
        fs = [p for p in P if p[0] == "fsops"]
        if rc != 0 or not fs: return {"error": "dry run failed rc=%s: %s" % (rc, out[-600:] + err[-300:]), "results": []}
        nops = int(fs[0][1].split()[1]); oplog = fs[0][1].split()[2].strip(",").split(",") if nops else []
        ks = list(range(1, nops + 1))
        if points is not None: ks = [k for k in ks if k in points]
        if last: ks = [k for k in ks if oplog[k - 1] == "fflush"][-last:]       # the process dies BEFORE one of the last flushes: the file holds what stdio handed over by itself
        # phase 2: one process, all points
        body = []
        for k in ks:
            body += ["restore a", f"forkrun {mode} {k}", sc[2], f"recover {rec}"]
        ops2 = "\n".join(setup + sc[1] + ["snapshot a", "forkrun dry", sc[2]] + body + ["fini"]) + "\n"
        import shutil
        shutil.rmtree(os.path.join(scr.dir, "tokens"), ignore_errors=True)
        for d in os.listdir(scr.dir):
            if d.startswith("tokens.snap"): shutil.rmtree(os.path.join(scr.dir, d), ignore_errors=True)
        rc, out, err = core.run_harness(ops2, scr.dir, variant, timeout=1800)
    P = pairs_of(out)
    # split: setup part = everything before the first `forkrun`; the dry block gives the call's result
    idx = [i for i, p in enumerate(P) if p[0].startswith("forkrun")]
    setup_pairs = [p for p in P[:idx[0]] if p[0].split()[0] not in CONTROL]
    dry_call = P[idx[0] + 1]
    results = []
    for j, k in enumerate(ks):
        a = idx[j + 1]; b = idx[j + 2] if j + 2 < len(idx) else len(P)
        blk = P[a:b]
        fd = [p for p in blk if p[0] == "forkdone"]
        call_pair = blk[1] if len(blk) > 1 else (sc[2], None)
        r0 = [i for i, p in enumerate(blk) if p[0].startswith("recover ")]
        r1 = [i for i, p in enumerate(blk) if p[0] == "recoverdone"]
        recov = blk[r0[0] + 1:r1[0]] if r0 and r1 else []
        rstat = blk[r1[0]][1].split()[1] if r1 else "missing"
        results.append({"k": k, "before": oplog[k - 1] if k - 1 < len(oplog) else "?", "after": (oplog[k - 2] if k - 2 < len(oplog) else "?") if k >= 2 else "start",
                        "child_status": fd[0][1].split()[1] if fd else "?", "call_result": call_pair[1], "recovery": recov, "recovery_status": rstat})
    return {"n_ops": nops, "oplog": oplog, "setup": setup_pairs, "dry_call": dry_call, "results": results, "rc": rc, "stderr": err[-500:], "call": sc[2], "pre": sc[1]}


def text_of(pairs):
    return "".join("%s\n%s\n" % (a, b) for a, b in pairs if b is not None)


def judge_point(run, res):
    """-> (ok, which, detail).  The recovered view must equal S0 (call never happened) or S1 (call completed), seen through a restart."""
    if res["recovery_status"] != "0" or not res["recovery"]:
        return False, "recovery-failed", "the recovery process ended with status %s (the token directory cannot be opened cleanly)" % res["recovery_status"]
    base = text_of(run["setup"])
    recov = res["recovery"]
    fresh_token = run["call"].startswith("inittoken free")
    if fresh_token:
        # a token being created has a serial number drawn at random in every run, and it "may be absent" or unfinished: its own slot is not judged; what is
        # judged is that the directory opens (recovery status) and that the two existing tokens, their PINs and objects are what they were
        recov = [p for p in recov if p[0].split()[0] != "slots"]
    rec = "reexec\n= 0\n" + text_of(recov)
    t0 = base + rec
    t1 = base + text_of([run["dry_call"]]) + rec
    variants = [("S0", t0)] if fresh_token else [("S0", t0), ("S1", t1)]
    # a call that creates TWO objects (C_GenerateKeyPair): each of them may be absent ("an object being created may be absent")
    d = run["dry_call"]
    if d[0].startswith("genpair") and d[1] and d[1].split()[1] == "0" and len(d[1].split()) >= 5:
        _, _, sess, pub, prv = d[1].split()[:5]
        for nm, victim in (("S1-without-private-key", prv), ("S1-without-public-key", pub)):
            variants.append((nm, base + text_of([d, ("destroy @0 @0", "= 0 %s %s" % (sess, victim))]) + rec))
    verdicts = []
    for nm, t in variants:
        drc, dout = core.run_driver(t)
        mism, unp, hist, summ = core.parse_driver(dout)
        # only what the recovery process saw counts (the setup part is identical in both)
        if not mism and not unp: return True, nm, ""
        verdicts.append((nm, (mism + unp)[0]))
    return False, "neither", " | ".join("%s: %s" % (a, b[:300]) for a, b in verdicts)
