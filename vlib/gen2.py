"""Generators added in round 2 (deterministic small-scope suites that close gaps found by seeded changes)."""
import random, itertools
from .gen import History, ObjGen, OpsGen, hx, ul, CK, attr_value, P256


# ---------------------------------------------------------------------------------------------------------
# C09: a rejected template leaves no prefix — every class x every way of being rejected x both positions
# ---------------------------------------------------------------------------------------------------------
def c09_prefix_matrix(tables, seed=1, classes=None):
    """For every object class (session and token object): C_SetAttributeValue / C_CopyObject with a template made of ONE valid, modifiable entry (a new
    label) and ONE entry that makes the call fail (unknown type, attribute of another class, read-only attribute, wrongly sized value, CKA_LOCAL), in both
    orders; after each refused call the label is read back through two sessions, searched for by the old and the new value, and at the end a valid change
    must still be accepted.  The model predicts every answer (in it a refused call changes nothing: theorem C09)."""
    rng = random.Random(seed)
    h = ObjGen(rng, tables)
    h.prologue(1)
    t = h.toks[0]
    k = h.open(t, True); h.login(k, t, 'user'); k2 = h.open(t, True)
    cls = [c for c in h.classes if classes is None or c["name"] in classes]
    nlab = [0]
    def lab():
        nlab[0] += 1; return "m%d" % nlab[0]
    for c in cls:
        own = {a["type"] for a in c["attrs"]}
        foreign = None
        for other in h.classes:
            cand = [a for a in other["attrs"] if a["type"] not in own and a["dkind"] in ("bool", "ulong", "bytes")]
            if cand: foreign = cand[0]; break
        bads = [("unknown", "9999=" + hx("q")), ("class", "0=" + ul((c["cls"] + 1) % 5))]
        if foreign is not None: bads.append(("foreign", f"{foreign['type']:x}={attr_value(rng, foreign)}"))
        fixed = [a for a in c["attrs"] if a["dkind"] == "bool" and a["type"] not in (1, 2) and not a["checks"] & CK[2]]
        if fixed: bads.append(("wrongsize", f"{fixed[0]['type']:x}=0001"))
        if 0x163 in own: bads.append(("local", "163=01"))
        for on_token in (False, True):
            o = h.create_obj(k, t, c=c, on_token=on_token, private=(c["cls"] in (3, 4) and on_token))
            cur = None
            h.op(f"getattr @{k} @{o} 3:64")
            for name, bad in bads:
                for order in (0, 1):
                    nl = lab()
                    tpl = f"3={hx(nl)} {bad}" if order == 0 else f"{bad} 3={hx(nl)}"
                    h.op(f"setattr @{k} @{o} {tpl}")
                    h.op(f"getattr @{k} @{o} 3:64"); h.op(f"getattr @{k2} @{o} 3:64")
                    h.op(f"findinit @{k2} 3={hx(nl)}"); h.minted += 2; h.op(f"find @{k2} 10"); h.op(f"findfinal @{k2}")
                nl = lab()
                cp = h.op(f"copy @{k} @{o} 3={hx(nl)} {bad}"); h.minted += 1
                h.op(f"findinit @{k2} 3={hx(nl)}"); h.minted += 2; h.op(f"find @{k2} 10"); h.op(f"findfinal @{k2}")
            nl = lab()
            h.op(f"setattr @{k} @{o} 3={hx(nl)}")          # the object must still be changeable (no transaction left open by a refused call)
            h.op(f"getattr @{k2} @{o} 3:64")
            if on_token: h.op("dumpdir")
            h.op(f"destroy @{k} @{o}")
    h.op("fini")
    return h.text()


# ---------------------------------------------------------------------------------------------------------
# C07: CKA_ALWAYS_AUTHENTICATE — every short order of logins / logouts / private-key calls
# ---------------------------------------------------------------------------------------------------------
def c07_reauth_scope(seed=1, depth=3, sample=None):
    """A token RSA private key with CKA_ALWAYS_AUTHENTICATE (non-private object, so that its handle survives C_Logout) and a private one; after
    `login user; C_SignInit / C_DecryptInit` EVERY sequence of `depth` calls from: context-specific login with the right / a wrong / the SO PIN, logout,
    user login, SO login, the single-part call, the multi-part calls, a new init.  The model says which calls may produce output: none before a
    SUCCESSFUL context-specific login (theorem C07_always_authenticate)."""
    rng = random.Random(seed)
    h = OpsGen(rng)
    h.prologue(1)
    t = h.toks[0]
    k0 = h.open(t, True); h.login(k0, t, 'user')
    # CKA_ALWAYS_AUTHENTICATE requires CKA_PRIVATE (the template engine refuses the combination otherwise), so the key's handle dies with C_Logout while an
    # operation started before keeps its own copy of the key
    pair = h.op(f"genpair @{k0} 0 121={ul(1024)} 122=010001 1=01 3={hx('aapub')} 104=01 10a=01 / 1=01 2=01 3={hx('aaprv')} 108=01 105=01 202=01"); h.minted += 2
    h.op(f"getattr @{k0} @{pair}.1 120:300 122:300")
    # a ciphertext for the decrypt branch
    h.op(f"encinit @{k0} 1 @{pair}"); ct = h.op(f"enc @{k0} {'5a' * 20} 300")
    h.op(f"logout @{k0}")
    U, S = hx(t.user), hx(t.so)
    def alpha(k, key, kind):
        a = [f"login @{k} 2 {U}", f"login @{k} 2 {hx('nope')}", f"login @{k} 2 {S}", f"logout @{k}", f"login @{k} 1 {U}", f"login @{k} 0 {S}"]
        if kind == "sign":
            a += [f"sign @{k} {'5c' * 20} 300", f"sign @{k} {'5c' * 20} n", f"sigupd @{k} a1a2", f"sigfinal @{k} 300", f"siginit @{k} 40 @{key}"]
        else:
            a += [f"decrelay @{k} {ct} same single 1", f"decinit @{k} 1 @{key}"]
        return a
    n = 0
    for key, kind, mech in ((pair, "sign", "40"), (pair, "sign", "1"), (pair, "dec", "1")):
        k = h.op(f"open t:{hx(t.label)} 6"); h.minted += 1
        seqs = list(itertools.product(range(len(alpha(k, key, kind))), repeat=depth))
        if sample is not None and len(seqs) > sample: seqs = rng.sample(seqs, sample)
        for s in seqs:
            h.op(f"login @{k} 1 {U}")
            # the handle of the (private) key died with the last logout: look the key up again
            h.op(f"findinit @{k} 3={hx('aaprv')}"); h.minted += 1; f = h.op(f"find @{k} 1"); h.op(f"findfinal @{k}")
            h.op(f"{'siginit' if kind == 'sign' else 'decinit'} @{k} {mech} @{f}")
            al = alpha(k, f, kind)
            for i in s: h.op(al[i])
            # back to a known state: operation ended, nobody logged in
            h.op(f"sigfinal @{k} 300" if kind == "sign" else f"decfinal @{k} 300")
            h.op(f"sign @{k} 00 300" if kind == "sign" else f"dec @{k} 00 300")
            h.op(f"logout @{k}")
            n += 1
        h.op(f"close @{k}")
    h.op("fini")
    return h.text(), n


# ---------------------------------------------------------------------------------------------------------
# C03 (also C11 / C14): the shape of the session table — every short order of opens and closes, then the login rules
# ---------------------------------------------------------------------------------------------------------
def c03_session_table(seed=1, depth=4, sample=None):
    """Two tokens.  For EVERY sequence of `depth` calls from {open A read-only, open A read-write, open B read-write, close the 1st / 2nd / 3rd session opened}
    (so that the internal session table has holes, sessions of the other token in between, read-only sessions behind holes ...): SO login through each session
    (refused iff a read-only session of A exists), state of every session, logout, user login, state of every session, and - when the SO login succeeded -
    the attempt to open a read-only session.  Each sequence starts from C_Initialize."""
    rng = random.Random(seed)
    h = History(rng)
    h.prologue(2)
    A, B = h.toks[0], h.toks[1]
    h.op("fini")
    al = [f"open t:{hx(A.label)} 4", f"open t:{hx(A.label)} 6", f"open t:{hx(B.label)} 6", "close1", "close2", "close3"]
    seqs = list(itertools.product(al, repeat=depth))
    if sample is not None and len(seqs) > sample: seqs = rng.sample(seqs, sample)
    n = 0
    for s in seqs:
        h.op("init"); h.op("slots")
        opened = []
        for c in s:
            if c.startswith("open"): opened.append((h.op(c), A if hx(A.label) in c else B))
            else:
                i = int(c[5:]) - 1
                if i < len(opened): h.op(f"close @{opened[i][0]}")
        for k, tk in opened[:3]:
            h.op(f"login @{k} 0 {hx(tk.so)}")
            for j, _ in opened[:4]: h.op(f"sinfo @{j}")
            h.op(f"open t:{hx(tk.label)} 4")          # refused while the SO is logged in
            h.op(f"logout @{k}")
            h.op(f"login @{k} 1 {hx(tk.user)}")
            for j, _ in opened[:4]: h.op(f"sinfo @{j}")
            h.op(f"logout @{k}")
        h.op("fini")
        n += 1
    return h.text(), n


# ---------------------------------------------------------------------------------------------------------
# C02: who may be wrapped under whom — key kind x CKA_EXTRACTABLE x CKA_WRAP_WITH_TRUSTED x CKA_SENSITIVE x trusted / untrusted wrapping key x mechanism
# ---------------------------------------------------------------------------------------------------------
def c02_wrap_matrix(seed=1):
    from .gen import RSA1024
    rng = random.Random(seed)
    h = OpsGen(rng)
    h.prologue(1)
    t = h.toks[0]
    k = h.open(t, True); h.login(k, t, 'user')
    U = ul
    R = RSA1024
    # wrapping keys: public token objects, so that the SO can mark two of them trusted
    kek_u = h.op(f"create @{k} 0={U(4)} 100={U(0x1f)} 1=01 2=00 3={hx('kek-untrusted')} 11={'a7' * 32} 106=01 107=01"); h.minted += 1
    kek_t = h.op(f"create @{k} 0={U(4)} 100={U(0x1f)} 1=01 2=00 3={hx('kek-trusted')} 11={'b8' * 32} 106=01 107=01"); h.minted += 1
    rsa_u = h.op(f"create @{k} 0={U(2)} 100={U(0)} 1=01 2=00 3={hx('rsa-untrusted')} 120={R['n']} 122=010001 106=01"); h.minted += 1
    rsa_t = h.op(f"create @{k} 0={U(2)} 100={U(0)} 1=01 2=00 3={hx('rsa-trusted')} 120={R['n']} 122=010001 106=01"); h.minted += 1
    h.op(f"setattr @{k} @{kek_t} 86=01")            # the user may not
    h.op(f"logout @{k}"); h.op(f"login @{k} 0 {hx(t.so)}")
    h.op(f"setattr @{k} @{kek_t} 86=01"); h.op(f"setattr @{k} @{rsa_t} 86=01")
    h.op(f"logout @{k}"); h.op(f"login @{k} 1 {hx(t.user)}")
    h.op(f"getattr @{k} @{kek_t} 86:1"); h.op(f"getattr @{k} @{kek_u} 86:1")
    d = 0x1b2c3d4e5f60718293a4b5c6d7e8f9000102030405060708090a0b0c0d0e0f11
    kinds = [("aes", f"0={U(4)} 100={U(0x1f)} 11={'3c' * 16}"), ("generic", f"0={U(4)} 100={U(0x10)} 11={'4d' * 20}"),
             ("rsapriv", f"0={U(3)} 100={U(0)} 120={R['n']} 122=010001 123={R['d']} 124={R['p']} 125={R['q']} 126={R['dp']} 127={R['dq']} 128={R['qi']}"),
             ("ecpriv", f"0={U(3)} 100={U(3)} 180={P256} 11={d.to_bytes(32, 'big').hex()}")]
    for name, body in kinds:
        for extr, wwt, sens in itertools.product(("00", "01"), ("00", "01"), ("00", "01")):
            tg = h.op(f"create @{k} {body} 3={hx(h.new_label())} 162={extr} 210={wwt} 103={sens}"); h.minted += 1
            for kek in (kek_u, kek_t):
                for mech in ("2109", "210a", f"1085:{'00' * 16}"):
                    h.op(f"wrap @{k} {mech} @{kek} @{tg} 2000")
            for kek in (rsa_u, rsa_t):
                h.op(f"wrap @{k} 1 @{kek} @{tg} 2000")
            # the flags cannot be weakened afterwards (and the wrap answers stay what they were)
            h.op(f"setattr @{k} @{tg} 210=00"); h.op(f"setattr @{k} @{tg} 162=01")
            h.op(f"wrap @{k} 210a @{kek_u} @{tg} 2000")
            h.op(f"destroy @{k} @{tg}")
    h.op("fini")
    return h.text()


# ---------------------------------------------------------------------------------------------------------
# C13 / C08: what C_UnwrapKey makes of a blob — key kind x template flags; values compared with the wrapped key
# ---------------------------------------------------------------------------------------------------------
def c13_unwrap_matrix(seed=1, sample=None):
    from .gen import RSA1024
    rng = random.Random(seed)
    h = OpsGen(rng)
    h.prologue(1)
    t = h.toks[0]
    k = h.open(t, True); h.login(k, t, 'user')
    U = ul
    R = RSA1024
    kek = h.op(f"create @{k} 0={U(4)} 100={U(0x1f)} 3={hx('kek')} 11={'a7' * 32} 106=01 107=01"); h.minted += 1
    d = 0x1b2c3d4e5f60718293a4b5c6d7e8f9000102030405060708090a0b0c0d0e0f11
    # CKA_VALUE_LEN is not compared: C_UnwrapKey leaves it 0 on this tree (the model says so too); the property speaks of type and value
    srcs = [("aes", 4, 0x1f, f"11={'3c' * 24}", "11:600"), ("generic", 4, 0x10, f"11={'4d' * 21}", "11:600"),
            ("rsapriv", 3, 0, f"120={R['n']} 122=010001 123={R['d']} 124={R['p']} 125={R['q']} 126={R['dp']} 127={R['dq']} 128={R['qi']}",
             "120:600 122:600 123:600 124:600 125:600 126:600 127:600 128:600"),
            ("ecpriv", 3, 3, f"180={P256} 11={d.to_bytes(32, 'big').hex()}", "180:600 11:600")]
    cells = []
    for name, cls, kt, body, vals in srcs:
        src = h.op(f"create @{k} 0={U(cls)} 100={U(kt)} {body} 3={hx(h.new_label())} 162=01 103=00"); h.minted += 1
        for mech in (("210a", f"1085:{'5a' * 16}") if cls == 3 else ("2109", "210a", f"1085:{'5a' * 16}")):
            if name == "generic" and mech == "2109": pass          # zero-padded by the wrap: the value differs by definition; compared by the model, not by `samevalues`
            w = h.op(f"wrap @{k} {mech} @{kek} @{src} 2000")
            for priv, extr, sens, tok in itertools.product((None, "00", "01"), (None, "00", "01"), (None, "00", "01"), ("00", "01")):
                cells.append((name, cls, kt, vals, src, mech, w, priv, extr, sens, tok))
    if sample is not None and len(cells) > sample:
        # the cells whose values can be read back (and compared with the wrapped key) are always kept; the others are sampled
        keep = set(rng.sample(range(len(cells)), sample)); cells = [c for i, c in enumerate(cells) if i in keep or (c[8] == "01" and c[9] == "00")]
    for name, cls, kt, vals, src, mech, w, priv, extr, sens, tok in cells:
        tpl = f"0={U(cls)} 100={U(kt)} 3={hx(h.new_label())} 1={tok}"
        if priv is not None: tpl += f" 2={priv}"
        if extr is not None: tpl += f" 162={extr}"
        if sens is not None: tpl += f" 103={sens}"
        u = h.op(f"unwrap @{k} {mech} @{kek} blob:@{w} {tpl}"); h.minted += 1
        h.op(f"getattr @{k} @{u} 0:8 100:8 163:1 164:1 165:1 162:1 103:1 2:1 1:1")
        readable = extr == "01" and sens in (None, "00") if cls == 3 else (extr in (None, "01") and sens in (None, "00"))
        if extr == "01" and sens == "00" and not (name == "generic" and mech == "2109"):
            h.op("nop samevalues"); h.op(f"getattr @{k} @{src} {vals}"); h.op(f"getattr @{k} @{u} {vals}")
        h.op(f"destroy @{k} @{u}")
    h.op("fini")
    return h.text(), len(cells)
