"""Generators added in round 2 (deterministic small-scope suites that close gaps found by seeded changes)."""
import random, itertools
from .gen import History, ObjGen, OpsGen, hx, ul, CK, attr_value, P256


# ---------------------------------------------------------------------------------------------------------
# C09: a rejected template leaves no prefix — every class x every way of being rejected x both positions
# ---------------------------------------------------------------------------------------------------------
def c09_prefix_matrix(tables, seed=1, classes=None, copies=True):
    """For every object class (session and token object): C_SetAttributeValue / C_CopyObject with a template made of ONE valid, modifiable entry (a new
    label) and ONE entry that makes the call fail (unknown type, attribute of another class, read-only attribute, wrongly sized value, CKA_LOCAL), in both
    orders; after each refused call the label is read back through two sessions, searched for by the old and the new value, and at the end a valid change
    must still be accepted.  The model predicts every answer (in it a refused call changes nothing: theorem C09)."""
    rng = random.Random(seed)
    h = ObjGen(rng, tables)
    h.prologue(1)
    t = h.toks[0]
    k = h.open(t, True); h.login(k, t, 'user'); k2 = h.open(t, True)
    cls = [c for c in h.classes if classes is None or c["name"] in classes]
    nlab = [0]
    def lab():
        nlab[0] += 1; return "m%d" % nlab[0]
    for c in cls:
        own = {a["type"] for a in c["attrs"]}
        foreign = None
        for other in h.classes:
            cand = [a for a in other["attrs"] if a["type"] not in own and a["dkind"] in ("bool", "ulong", "bytes")]
            if cand: foreign = cand[0]; break
        bads = [("unknown", "9999=" + hx("q")), ("class", "0=" + ul((c["cls"] + 1) % 5))]
        if foreign is not None: bads.append(("foreign", f"{foreign['type']:x}={attr_value(rng, foreign)}"))
        fixed = [a for a in c["attrs"] if a["dkind"] == "bool" and a["type"] not in (1, 2) and not a["checks"] & CK[2]]
        if fixed: bads.append(("wrongsize", f"{fixed[0]['type']:x}=0001"))
        if 0x163 in own: bads.append(("local", "163=01"))
        for on_token in (False, True):
            o = h.create_obj(k, t, c=c, on_token=on_token, private=(c["cls"] in (3, 4) and on_token))
            cur = None
            h.op(f"getattr @{k} @{o} 3:64")
            for name, bad in bads:
                for order in (0, 1):
                    nl = lab()
                    tpl = f"3={hx(nl)} {bad}" if order == 0 else f"{bad} 3={hx(nl)}"
                    h.op(f"setattr @{k} @{o} {tpl}")
                    h.op(f"getattr @{k} @{o} 3:64"); h.op(f"getattr @{k2} @{o} 3:64")
                    h.op(f"findinit @{k2} 3={hx(nl)}"); h.minted += 2; h.op(f"find @{k2} 10"); h.op(f"findfinal @{k2}")
                if copies:
                    nl = lab()
                    cp = h.op(f"copy @{k} @{o} 3={hx(nl)} {bad}"); h.minted += 1
                    h.op(f"findinit @{k2} 3={hx(nl)}"); h.minted += 2; h.op(f"find @{k2} 10"); h.op(f"findfinal @{k2}")
            # every attribute that may be changed after creation, as the valid entry in front of a rejected one (the stores cache and roll back per attribute kind)
            for a in c["attrs"]:
                if not (a["checks"] & CK[8]) or a["dkind"] not in ("bool", "bytes") or a["type"] in (1, 2, 3, 0x103, 0x162, 0x210, 0x170, 0x171, 0x172, 0x86): continue
                vals = ["00", "01"] if a["dkind"] == "bool" else ([".", bytes(rng.randrange(256) for _ in range(3)).hex()] if a["type"] == 0x90 else
                                                                   [attr_value(rng, a, True, c["name"])])
                for v in vals:
                    h.op(f"setattr @{k} @{o} {a['type']:x}={v} 9999={hx('q')}")
                    h.op(f"getattr @{k} @{o} {a['type']:x}:300"); h.op(f"getattr @{k2} @{o} {a['type']:x}:300")
            nl = lab()
            h.op(f"setattr @{k} @{o} 3={hx(nl)}")          # the object must still be changeable (no transaction left open by a refused call)
            h.op(f"getattr @{k2} @{o} 3:64")
            if on_token: h.op("dumpdir")
            h.op(f"destroy @{k} @{o}")
    h.op("fini")
    return h.text()


# ---------------------------------------------------------------------------------------------------------
# C07: CKA_ALWAYS_AUTHENTICATE — every short order of logins / logouts / private-key calls
# ---------------------------------------------------------------------------------------------------------
def c07_reauth_scope(seed=1, depth=3, sample=None):
    """A token RSA private key with CKA_ALWAYS_AUTHENTICATE (non-private object, so that its handle survives C_Logout) and a private one; after
    `login user; C_SignInit / C_DecryptInit` EVERY sequence of `depth` calls from: context-specific login with the right / a wrong / the SO PIN, logout,
    user login, SO login, the single-part call, the multi-part calls, a new init.  The model says which calls may produce output: none before a
    SUCCESSFUL context-specific login (theorem C07_always_authenticate)."""
    rng = random.Random(seed)
    h = OpsGen(rng)
    h.prologue(1)
    t = h.toks[0]
    k0 = h.open(t, True); h.login(k0, t, 'user')
    # CKA_ALWAYS_AUTHENTICATE requires CKA_PRIVATE (the template engine refuses the combination otherwise), so the key's handle dies with C_Logout while an
    # operation started before keeps its own copy of the key
    pair = h.op(f"genpair @{k0} 0 121={ul(1024)} 122=010001 1=01 3={hx('aapub')} 104=01 10a=01 / 1=01 2=01 3={hx('aaprv')} 108=01 105=01 202=01"); h.minted += 2
    h.op(f"getattr @{k0} @{pair}.1 120:300 122:300")
    # a ciphertext for the decrypt branch
    h.op(f"encinit @{k0} 1 @{pair}"); ct = h.op(f"enc @{k0} {'5a' * 20} 300")
    h.op(f"logout @{k0}")
    U, S = hx(t.user), hx(t.so)
    def alpha(k, key, kind):
        a = [f"login @{k} 2 {U}", f"login @{k} 2 {hx('nope')}", f"login @{k} 2 {S}", f"logout @{k}", f"login @{k} 1 {U}", f"login @{k} 0 {S}"]
        if kind == "sign":
            a += [f"sign @{k} {'5c' * 20} 300", f"sign @{k} {'5c' * 20} n", f"sigupd @{k} a1a2", f"sigfinal @{k} 300", f"siginit @{k} 40 @{key}"]
        else:
            a += [f"decrelay @{k} {ct} same single 1", f"decinit @{k} 1 @{key}"]
        return a
    n = 0
    for key, kind, mech in ((pair, "sign", "40"), (pair, "sign", "1"), (pair, "dec", "1")):
        k = h.op(f"open t:{hx(t.label)} 6"); h.minted += 1
        seqs = list(itertools.product(range(len(alpha(k, key, kind))), repeat=depth))
        if sample is not None and len(seqs) > sample: seqs = rng.sample(seqs, sample)
        for s in seqs:
            h.op(f"login @{k} 1 {U}")
            # the handle of the (private) key died with the last logout: look the key up again
            h.op(f"findinit @{k} 3={hx('aaprv')}"); h.minted += 1; f = h.op(f"find @{k} 1"); h.op(f"findfinal @{k}")
            h.op(f"{'siginit' if kind == 'sign' else 'decinit'} @{k} {mech} @{f}")
            al = alpha(k, f, kind)
            for i in s:
                h.op(al[i]); h.op(f"sinfo @{k}")          # the login state after every step (a refused login must not change it)
            # back to a known state: operation ended, nobody logged in
            h.op(f"sigfinal @{k} 300" if kind == "sign" else f"decfinal @{k} 300")
            h.op(f"sign @{k} 00 300" if kind == "sign" else f"dec @{k} 00 300")
            h.op(f"logout @{k}")
            n += 1
        h.op(f"close @{k}")
    h.op("fini")
    return h.text(), n


# ---------------------------------------------------------------------------------------------------------
# C03 (also C11 / C14): the shape of the session table — every short order of opens and closes, then the login rules
# ---------------------------------------------------------------------------------------------------------
def c03_session_table(seed=1, depth=4, sample=None, nchunks=16):
    """Two tokens, a private token object on A.  For EVERY sequence of `depth` calls from {open A read-only, open A read-write, open B read-write, close the
    1st / 2nd / 3rd session opened, user login / SO login / logout through the newest open session of A} - so that the internal session table has holes,
    sessions of the other token in between, read-only sessions behind holes, logins that outlive or do not outlive their sessions - the tail observes:
    the state of every session, a FRESH session on each token (its state tells whether the token is still logged in; a search for A's private object tells
    whether it is reachable), then the login rules (SO login refused iff a read-only session of that token exists; read-only open refused while the SO is in).
    Each sequence starts from C_Initialize.  Returns (list of op texts, number of sequences)."""
    rng = random.Random(seed)
    al = ["openA4", "openA6", "openB6", "close1", "close2", "close3", "loginU", "loginS", "logout"]
    seqs = list(itertools.product(al, repeat=depth))
    if sample is not None and len(seqs) > sample: seqs = rng.sample(seqs, sample)
    chunks = [seqs[i::nchunks] for i in range(nchunks)]
    texts = []
    for ch in chunks:
        if not ch: continue
        h = History(random.Random(seed))
        h.prologue(2)
        A, B = h.toks[0], h.toks[1]
        k = h.open(A, True); h.login(k, A, 'user')
        h.op(f"create @{k} 0={ul(0)} 1=01 2=01 3={hx('private-of-A')} 11={hx('secret')}"); h.minted += 1
        h.op("fini")
        for s in ch:
            h.op("init"); h.op("slots")
            opened = []        # (op index, token, still open)
            for c in s:
                if c.startswith("open"):
                    tk = A if c[4] == "A" else B
                    opened.append([h.op(f"open t:{hx(tk.label)} {c[5]}"), tk, True])
                elif c.startswith("close"):
                    i = int(c[5:]) - 1
                    if i < len(opened): h.op(f"close @{opened[i][0]}"); opened[i][2] = False
                else:
                    live = [o for o in opened if o[1] is A and o[2]]
                    if not live: continue
                    kk = live[-1][0]
                    if c == "loginU": h.op(f"login @{kk} 1 {hx(A.user)}")
                    elif c == "loginS": h.op(f"login @{kk} 0 {hx(A.so)}")
                    else: h.op(f"logout @{kk}")
            for o in opened[:4]: h.op(f"sinfo @{o[0]}")
            # a fresh session on each token: is anybody still logged in, is the private object reachable?
            fa = h.op(f"open t:{hx(A.label)} 6"); h.op(f"sinfo @{fa}")
            h.op(f"findinit @{fa} 3={hx('private-of-A')}"); h.minted += 1; h.op(f"find @{fa} 5"); h.op(f"findfinal @{fa}")
            h.op(f"create @{fa} 0={ul(0)} 1=00 2=01 3={hx('p2')}"); h.minted += 1
            fb = h.op(f"open t:{hx(B.label)} 6"); h.op(f"sinfo @{fb}")
            h.op(f"logout @{fa}"); h.op(f"close @{fa}"); h.op(f"close @{fb}")
            live = [o for o in opened if o[2]]
            for kk, tk, _ in live[:2]:
                h.op(f"login @{kk} 0 {hx(tk.so)}")
                for o in live[:3]:
                    h.op(f"sinfo @{o[0]}")
                    # token objects only through read-write sessions, whoever is logged in
                    c = h.op(f"create @{o[0]} 0={ul(0)} 1=01 2=00 3={hx('w')}"); h.minted += 1
                    h.op(f"destroy @{o[0]} @{c}")
                h.op(f"open t:{hx(tk.label)} 4")          # refused while the SO is logged in
                h.op(f"logout @{kk}")
            h.op("fini")
        texts.append(h.text())
    return texts, len(seqs)


# ---------------------------------------------------------------------------------------------------------
# C02: who may be wrapped under whom — key kind x CKA_EXTRACTABLE x CKA_WRAP_WITH_TRUSTED x CKA_SENSITIVE x trusted / untrusted wrapping key x mechanism
# ---------------------------------------------------------------------------------------------------------
def c02_wrap_matrix(seed=1):
    from .gen import RSA1024
    rng = random.Random(seed)
    h = OpsGen(rng)
    h.prologue(1)
    t = h.toks[0]
    k = h.open(t, True); h.login(k, t, 'user')
    U = ul
    R = RSA1024
    # wrapping keys: public token objects, so that the SO can mark two of them trusted
    kek_u = h.op(f"create @{k} 0={U(4)} 100={U(0x1f)} 1=01 2=00 3={hx('kek-untrusted')} 11={'a7' * 32} 106=01 107=01"); h.minted += 1
    kek_t = h.op(f"create @{k} 0={U(4)} 100={U(0x1f)} 1=01 2=00 3={hx('kek-trusted')} 11={'b8' * 32} 106=01 107=01"); h.minted += 1
    rsa_u = h.op(f"create @{k} 0={U(2)} 100={U(0)} 1=01 2=00 3={hx('rsa-untrusted')} 120={R['n']} 122=010001 106=01"); h.minted += 1
    rsa_t = h.op(f"create @{k} 0={U(2)} 100={U(0)} 1=01 2=00 3={hx('rsa-trusted')} 120={R['n']} 122=010001 106=01"); h.minted += 1
    h.op(f"setattr @{k} @{kek_t} 86=01")            # the user may not
    h.op(f"logout @{k}"); h.op(f"login @{k} 0 {hx(t.so)}")
    h.op(f"setattr @{k} @{kek_t} 86=01"); h.op(f"setattr @{k} @{rsa_t} 86=01")
    h.op(f"logout @{k}"); h.op(f"login @{k} 1 {hx(t.user)}")
    h.op(f"getattr @{k} @{kek_t} 86:1"); h.op(f"getattr @{k} @{kek_u} 86:1")
    d = 0x1b2c3d4e5f60718293a4b5c6d7e8f9000102030405060708090a0b0c0d0e0f11
    kinds = [("aes", f"0={U(4)} 100={U(0x1f)} 11={'3c' * 16}"), ("generic", f"0={U(4)} 100={U(0x10)} 11={'4d' * 20}"),
             ("rsapriv", f"0={U(3)} 100={U(0)} 120={R['n']} 122=010001 123={R['d']} 124={R['p']} 125={R['q']} 126={R['dp']} 127={R['dq']} 128={R['qi']}"),
             ("ecpriv", f"0={U(3)} 100={U(3)} 180={P256} 11={d.to_bytes(32, 'big').hex()}")]
    for name, body in kinds:
        for extr, wwt, sens in itertools.product(("00", "01"), ("00", "01"), ("00", "01")):
            tg = h.op(f"create @{k} {body} 3={hx(h.new_label())} 162={extr} 210={wwt} 103={sens}"); h.minted += 1
            for kek in (kek_u, kek_t):
                for mech in ("2109", "210a", f"1085:{'00' * 16}"):
                    h.op(f"wrap @{k} {mech} @{kek} @{tg} 2000")
            for kek in (rsa_u, rsa_t):
                h.op(f"wrap @{k} 1 @{kek} @{tg} 2000")
            # the flags cannot be weakened afterwards (and the wrap answers stay what they were)
            h.op(f"setattr @{k} @{tg} 210=00"); h.op(f"setattr @{k} @{tg} 162=01")
            h.op(f"wrap @{k} 210a @{kek_u} @{tg} 2000")
            h.op(f"destroy @{k} @{tg}")
    h.op("fini")
    return h.text()


# ---------------------------------------------------------------------------------------------------------
# C13 / C08: what C_UnwrapKey makes of a blob — key kind x template flags; values compared with the wrapped key
# ---------------------------------------------------------------------------------------------------------
def c13_unwrap_matrix(seed=1, sample=None):
    from .gen import RSA1024
    rng = random.Random(seed)
    h = OpsGen(rng)
    h.prologue(1)
    t = h.toks[0]
    k = h.open(t, True); h.login(k, t, 'user')
    U = ul
    R = RSA1024
    kek = h.op(f"create @{k} 0={U(4)} 100={U(0x1f)} 3={hx('kek')} 11={'a7' * 32} 106=01 107=01"); h.minted += 1
    d = 0x1b2c3d4e5f60718293a4b5c6d7e8f9000102030405060708090a0b0c0d0e0f11
    # CKA_VALUE_LEN is not compared: C_UnwrapKey leaves it 0 on this tree (the model says so too); the property speaks of type and value
    srcs = [("aes", 4, 0x1f, f"11={'3c' * 24}", "11:600"), ("generic", 4, 0x10, f"11={'4d' * 21}", "11:600"),
            ("rsapriv", 3, 0, f"120={R['n']} 122=010001 123={R['d']} 124={R['p']} 125={R['q']} 126={R['dp']} 127={R['dq']} 128={R['qi']}",
             "120:600 122:600 123:600 124:600 125:600 126:600 127:600 128:600"),
            ("ecpriv", 3, 3, f"180={P256} 11={d.to_bytes(32, 'big').hex()}", "180:600 11:600")]
    cells = []
    for name, cls, kt, body, vals in srcs:
        src = h.op(f"create @{k} 0={U(cls)} 100={U(kt)} {body} 3={hx(h.new_label())} 162=01 103=00"); h.minted += 1
        for mech in (("210a", f"1085:{'5a' * 16}") if cls == 3 else ("2109", "210a", f"1085:{'5a' * 16}")):
            if name == "generic" and mech == "2109": pass          # zero-padded by the wrap: the value differs by definition; compared by the model, not by `samevalues`
            w = h.op(f"wrap @{k} {mech} @{kek} @{src} 2000")
            for priv, extr, sens, tok in itertools.product((None, "00", "01"), (None, "00", "01"), (None, "00", "01"), ("00", "01")):
                cells.append((name, cls, kt, vals, src, mech, w, priv, extr, sens, tok))
    if sample is not None and len(cells) > sample:
        # the cells whose values can be read back (and compared with the wrapped key) are always kept; the others are sampled
        keep = set(rng.sample(range(len(cells)), sample)); cells = [c for i, c in enumerate(cells) if i in keep or (c[8] == "01" and c[9] == "00")]
    for name, cls, kt, vals, src, mech, w, priv, extr, sens, tok in cells:
        tpl = f"0={U(cls)} 100={U(kt)} 3={hx(h.new_label())} 1={tok}"
        if priv is not None: tpl += f" 2={priv}"
        if extr is not None: tpl += f" 162={extr}"
        if sens is not None: tpl += f" 103={sens}"
        u = h.op(f"unwrap @{k} {mech} @{kek} blob:@{w} {tpl}"); h.minted += 1
        h.op(f"getattr @{k} @{u} 0:8 100:8 163:1 164:1 165:1 162:1 103:1 2:1 1:1")
        readable = extr == "01" and sens in (None, "00") if cls == 3 else (extr in (None, "01") and sens in (None, "00"))
        if extr == "01" and sens == "00" and not (name == "generic" and mech == "2109"):
            h.op("nop samevalues"); h.op(f"getattr @{k} @{src} {vals}"); h.op(f"getattr @{k} @{u} {vals}")
        h.op(f"destroy @{k} @{u}")
    h.op("fini")
    return h.text(), len(cells)


# ---------------------------------------------------------------------------------------------------------
# C02 / C08: what a derived key inherits — concatenation mechanisms x (SENSITIVE, EXTRACTABLE) of base and second key x template
# ---------------------------------------------------------------------------------------------------------
def c02_derive_matrix(seed=1):
    rng = random.Random(seed)
    h = OpsGen(rng)
    h.prologue(1)
    t = h.toks[0]
    k = h.open(t, True); h.login(k, t, 'user')
    U = ul
    keys = {}
    for sens, extr in itertools.product(("00", "01"), ("00", "01")):
        keys[(sens, extr)] = h.op(f"create @{k} 0={U(4)} 100={U(0x10)} 3={hx(h.new_label())} 11={bytes(rng.randrange(256) for _ in range(16)).hex()} 103={sens} 162={extr} 10c=01"); h.minted += 1
    # keys made ON the token: only these can have ALWAYS_SENSITIVE / NEVER_EXTRACTABLE true
    gens = {}
    for sens, extr in itertools.product(("00", "01"), ("00", "01")):
        gens[(sens, extr)] = h.op(f"genkey @{k} 350 3={hx(h.new_label())} 161={U(16)} 103={sens} 162={extr} 10c=01"); h.minted += 1
    tpls = ["", "103=01", "162=01", "162=01 103=00", "162=00", "103=00"]
    def after(u):
        h.op(f"getattr @{k} @{u} 103:1 162:1 164:1 165:1 163:1 210:1"); h.op(f"getattr @{k} @{u} 11:600"); h.op(f"destroy @{k} @{u}")
    for pool in (keys, gens):
        for (bs, be), base in pool.items():
            for (os_, oe), other in pool.items():
                for tp in tpls:
                    u = h.op(f"derive @{k} 360:obj(@{other}) @{base} 3={hx(h.new_label())} {tp}"); h.minted += 1; after(u)
            for mech in ("362", "363"):
                for tp in tpls:
                    u = h.op(f"derive @{k} {mech}:str(a1b2c3d4) @{base} 3={hx(h.new_label())} {tp}"); h.minted += 1; after(u)
    h.op("fini")
    return h.text()


# ---------------------------------------------------------------------------------------------------------
# C11: handles die exactly with what they denote — every short order of opens / closes / creations / copies / logins
# ---------------------------------------------------------------------------------------------------------
def c11_scope(seed=1, depth=4, sample=None, nchunks=16):
    """One token with a token object.  EVERY sequence of `depth` calls from {open a session, close the 1st / 2nd / 3rd session opened, create a public session object / a
    private session object in the newest session, COPY the first live object into a session object of the newest session, user login, logout, close all}; the tail asks
    about every handle value that can have been issued (C_GetSessionInfo, an attribute read through a surviving session) and searches for everything from a fresh
    session: a session object must be gone exactly when ITS session was closed, not when another one was, and a dead handle must never come back."""
    rng = random.Random(seed)
    al = ["open", "close1", "close2", "close3", "mkpub", "mkpriv", "copy", "loginU", "logout", "closeall"]
    seqs = list(itertools.product(al, repeat=depth))
    if sample is not None and len(seqs) > sample: seqs = rng.sample(seqs, sample)
    chunks = [seqs[i::nchunks] for i in range(nchunks)]
    texts = []
    for ch in chunks:
        if not ch: continue
        h = History(random.Random(seed))
        h.prologue(1)
        A = h.toks[0]
        k = h.open(A, True)
        h.op(f"create @{k} 0={ul(0)} 1=01 2=00 3={hx('token-object')} 11={hx('t')}")
        h.op("fini")
        for s in ch:
            h.op("init"); h.op("slots")
            base = h.op(f"open t:{hx(A.label)} 6")               # a session that stays open: the observer
            h.op(f"findinit @{base} 3={hx('token-object')}"); tobj = h.op(f"find @{base} 1"); h.op(f"findfinal @{base}")
            opened, objs, minted = [], [f"@{tobj}"], 2
            for c in s:
                live = [o for o in opened if o[1]]
                if c == "open": opened.append([h.op(f"open t:{hx(A.label)} 6"), True]); minted += 1
                elif c.startswith("close") and c != "closeall":
                    i = int(c[5:]) - 1
                    if i < len(opened): h.op(f"close @{opened[i][0]}"); opened[i][1] = False
                elif c == "closeall":
                    h.op(f"closeall t:{hx(A.label)}")
                    for o in opened: o[1] = False
                    base = h.op(f"open t:{hx(A.label)} 6"); minted += 1
                elif c == "loginU": h.op(f"login @{(live[-1][0] if live else base)} 1 {hx(A.user)}")
                elif c == "logout": h.op(f"logout @{(live[-1][0] if live else base)}")
                else:
                    kk = live[-1][0] if live else base
                    if c == "mkpub": objs.append(f"@{h.op(f'create @{kk} 0={ul(0)} 1=00 2=00 3={hx(chr(97 + len(objs)))}')}"); minted += 1
                    elif c == "mkpriv": objs.append(f"@{h.op(f'create @{kk} 0={ul(0)} 1=00 2=01 3={hx(chr(97 + len(objs)))}')}"); minted += 1
                    else: objs.append(f"@{h.op(f'copy @{kk} {objs[0] if len(objs) == 1 else objs[-1]} 1=00 3={hx(chr(97 + len(objs)))}')}"); minted += 1
            for v in range(1, minted + 3):
                h.op(f"sinfo {v}"); h.op(f"probe @{base} {v}")
            fresh = h.op(f"open t:{hx(A.label)} 6")
            h.op(f"findinit @{fresh}"); h.op(f"find @{fresh} 50"); h.op(f"findfinal @{fresh}")
            for o in objs: h.op(f"getattr @{fresh} {o} 3:64")
            h.op("fini")
        texts.append(h.text())
    return texts, len(seqs)


# ---------------------------------------------------------------------------------------------------------
# C15: the FIRST call of a process on an object another process has just changed or destroyed — every entry point that takes an object
# ---------------------------------------------------------------------------------------------------------
def c15_first_touch(seed=1):
    """Process 0 creates token keys; process 1 learns them (search + one read, so that it holds a handle and a cached copy).  Then, for every entry point E that takes an
    object, process 0 commits a change (CKA_EXTRACTABLE / usage flags off, a new label, or C_DestroyObject) and E is the FIRST call of process 1 that touches the object.
    The multi-process model says what process 1 must see: the committed state."""
    rng = random.Random(seed)
    lines, cnt = [], [0, 0]
    def op(i, text):
        cnt[i] += 1; lines.append(f"P{i} {text}"); return cnt[i]
    lab, so, user = hx("tokA"), hx("so0pin0"), hx("user0pin")
    U = ul
    op(0, "init"); op(0, "slots"); op(0, f"inittoken free {so} {lab}"); op(0, "slots")
    k = op(0, f"open t:{lab} 6"); op(0, f"login @{k} 0 {so}"); op(0, f"initpin @{k} {user}"); op(0, f"close @{k}")
    s0 = op(0, f"open t:{lab} 6"); op(0, f"login @{s0} 1 {user}")
    op(1, "init"); op(1, "slots"); s1 = op(1, f"open t:{lab} 6"); op(1, f"login @{s1} 1 {user}")
    # a wrapping key of process 1's own (session object) and a token wrapping key
    w1 = op(1, f"create @{s1} 0={U(4)} 100={U(0x1f)} 1=00 3={hx('kek-session')} 11={'a7' * 16} 106=01 107=01 104=01 105=01")
    n = [0]
    touches = [
        ("getattr", lambda r: f"getattr @{s1} {r} 3:64 162:1 104:1"),
        ("setattr", lambda r: f"setattr @{s1} {r} 102={hx('id')}"),
        ("copy", lambda r: f"copy @{s1} {r} 1=00 3={hx('cp%d' % n[0])}"),
        ("destroy", lambda r: f"destroy @{s1} {r}"),
        ("wrap-as-key", lambda r: f"wrap @{s1} 2109 @{w1} {r} 600"),
        ("wrap-as-wrapping-key", lambda r: f"wrap @{s1} 2109 {r} @{w1} 600"),
        ("encinit", lambda r: f"encinit @{s1} 1081 {r}"),
        ("decinit", lambda r: f"decinit @{s1} 1081 {r}"),
        ("siginit", lambda r: f"siginit @{s1} 108a {r}"),
        ("verinit", lambda r: f"verinit @{s1} 108a {r}"),
        ("derive", lambda r: f"derive @{s1} 1104:str({'11' * 16}) {r} 0={U(4)} 100={U(0x10)} 161={U(8)} 3={hx('dv%d' % n[0])}"),
        ("digkey", lambda r: f"diginit @{s1} 250\nP1 digkey @{s1} {r}"),
        ("unwrap-with", lambda r: f"unwrap @{s1} 2109 {r} 1fa68b0a8112b447aef34bd8fb5a7b829d3e862371d2cfe5 0={U(4)} 100={U(0x10)} 3={hx('uw%d' % n[0])}"),
        ("objsize", lambda r: f"objsize @{s1} {r}"),
        ("find-by-label", None),
    ]
    changes = [("flags-off", lambda r: f"setattr @{s0} {r} 162=00 104=00 105=00 106=00 107=00 108=00 10a=00 10c=00"),
               ("relabel", lambda r: f"setattr @{s0} {r} 3={hx('renamed%d' % n[0])}"),
               ("destroy", lambda r: f"destroy @{s0} {r}")]
    for tname, touch in touches:
        for cname, change in changes:
            n[0] += 1
            l = hx("key%d" % n[0])
            k0 = op(0, f"create @{s0} 0={U(4)} 100={U(0x1f)} 1=01 2=00 3={l} 11={'3c' * 16} 162=01 103=00 104=01 105=01 106=01 107=01 108=01 10a=01 10c=01")
            op(1, f"findinit @{s1} 3={l}"); f = op(1, f"find @{s1} 5"); op(1, f"findfinal @{s1}")
            op(1, f"getattr @{s1} @{f}.0 3:64 162:1 104:1")          # process 1 now holds a handle and a loaded copy
            for ln in change(f"@{k0}").split("\n"): op(0, ln)
            if touch is None:
                op(1, f"findinit @{s1} 3={l}"); op(1, f"find @{s1} 5"); op(1, f"findfinal @{s1}")
            else:
                for j, ln in enumerate(touch(f"@{f}.0").split("\nP1 ")): op(1, ln)
            op(1, f"getattr @{s1} @{f}.0 3:64 162:1 104:1")
            op(1, f"encfinal @{s1} 600"); op(1, f"decfinal @{s1} 600"); op(1, f"sigfinal @{s1} 600"); op(1, f"verfinal @{s1} 00"); op(1, f"digfinal @{s1} 600")   # end whatever was started
    op(0, f"findinit @{s0}"); op(0, f"find @{s0} 300"); op(0, f"findfinal @{s0}")
    op(1, f"findinit @{s1}"); op(1, f"find @{s1} 300"); op(1, f"findfinal @{s1}")
    op(0, "fini"); op(1, "fini")
    return "\n".join(lines) + "\n"


# ---------------------------------------------------------------------------------------------------------
# C06: every class x CKA_PRIVATE omitted / false / true: what reaches the disk (directory decoded after every storing call)
# ---------------------------------------------------------------------------------------------------------
class _ObjGenP(ObjGen):
    omit_private = False
    def base_template(self, c, on_token, private, label, give_private=True):
        return ObjGen.base_template(self, c, on_token, private, label, give_private=not self.omit_private)


def c06_class_matrix(tables, seed=1):
    """Token objects of every class, created with CKA_PRIVATE omitted (the class default decides), false and true, each with its byte-string attributes; a changed
    label / id; a copy that is made private.  After every storing call the directory is dumped: the Lean decoder must find every byte string of a private object
    encrypted (and decrypting to what the API returns), and the model's idea of which objects ARE private must agree with what C_GetAttributeValue says."""
    rng = random.Random(seed)
    h = _ObjGenP(rng, tables)
    h.prologue(1)
    t = h.toks[0]
    k = h.open(t, True); h.login(k, t, 'user')
    h.op("dumpdir")
    for c in h.classes:
        for mode in ("omit", "00", "01"):
            h.omit_private = mode == "omit"
            o = h.create_obj(k, t, c=c, on_token=True, private=(mode == "01"))
            h.op("dumpdir")
            h.op(f"getattr @{k} @{o} 2:1 3:64 102:64")
            bys = [a for a in c["attrs"] if a["dkind"] == "bytes" and (a["checks"] & CK[8]) and a["type"] not in (0x90,)]
            for a in bys[:2]:
                h.op(f"setattr @{k} @{o} {a['type']:x}={attr_value(rng, a, True, c['name'])}"); h.op("dumpdir")
            cp = h.op(f"copy @{k} @{o} 3={hx(h.new_label())} 2=01"); h.minted += 1
            h.op("dumpdir")
            h.op(f"destroy @{k} @{cp}"); h.op(f"destroy @{k} @{o}")
    h.op("fini")
    return h.text()


# ---------------------------------------------------------------------------------------------------------
# C01: an operation started with a private key, then C_Logout: may the session still produce output?
# ---------------------------------------------------------------------------------------------------------
def c01_op_after_logout(seed=1):
    """Private token keys (AES, generic, RSA).  For every operation kind: C_*Init with the private key while the user is logged in, C_Logout (and in a second round C_Login
    of the SO), then the single-part call / the multi-part calls.  Every such call is marked `nop expect-no-output`: the property says a private object can be used as a
    key only through a session of a token on which the normal user is logged in.  One op text per case (so that each case is judged by itself)."""
    U = ul
    texts = []
    for so_login in (False, True):
        for ci in range(8):
            rng = random.Random(seed)
            h = OpsGen(rng)
            h.prologue(1)
            t = h.toks[0]
            k = h.open(t, True); h.login(k, t, 'user')
            aes = h.op(f"create @{k} 0={U(4)} 100={U(0x1f)} 1=01 2=01 3={hx('p-aes')} 11={'3c' * 16} 104=01 105=01 108=01 10a=01"); h.minted += 1
            hm = h.op(f"create @{k} 0={U(4)} 100={U(0x10)} 1=01 2=01 3={hx('p-hmac')} 11={'4d' * 32} 108=01 10a=01"); h.minted += 1
            cases = [("siginit", "251", f"@{hm}", [f"sign @{k} {'5c' * 20} 600"]), ("siginit", "251", f"@{hm}", [f"sigupd @{k} a1a2", f"sigfinal @{k} 600"]),
                     ("encinit", "1081", f"@{aes}", [f"enc @{k} {'5c' * 16} 600"]), ("encinit", f"1082:{'00' * 16}", f"@{aes}", [f"encupd @{k} {'5c' * 32} 600", f"encfinal @{k} 600"]),
                     ("decinit", "1081", f"@{aes}", [f"dec @{k} {'5c' * 16} 600"]), ("decinit", f"1082:{'00' * 16}", f"@{aes}", [f"decupd @{k} {'5c' * 32} 600", f"decfinal @{k} 600"]),
                     ("siginit", "40", None, [f"sign @{k} {'5c' * 20} 600"]), ("decinit", "3", None, [f"dec @{k} {'00' * 127 + '02'} 600"])]
            init, mech, key, calls = cases[ci]
            if key is None:
                pair = h.op(f"genpair @{k} 0 121={U(1024)} 122=010001 1=01 3={hx('p-rsa-pub')} 104=01 10a=01 / 1=01 2=01 3={hx('p-rsa')} 108=01 105=01"); h.minted += 2
                key = f"@{pair}.1"
            h.op(f"{init} @{k} {mech} {key}")
            h.op(f"logout @{k}")
            if so_login: h.op(f"login @{k} 0 {hx(t.so)}")
            for c in calls:
                h.op("nop expect-no-output"); h.op(c)
            h.op("fini")
            texts.append(h.text())
    return texts


# ---------------------------------------------------------------------------------------------------------
# C08: CKA_TRUSTED can be set true only by the SO — login state x class x way of setting it
# ---------------------------------------------------------------------------------------------------------
def c08_trusted_matrix(seed=1):
    """Certificate, RSA public key, AES and generic secret key (the classes that have CKA_TRUSTED), as session and as token objects, public: C_CreateObject /
    C_GenerateKey / C_CopyObject / C_SetAttributeValue with CKA_TRUSTED = true (and = false) while NOBODY, the USER, the SO is logged in; the attribute is read back."""
    from .gen import RSA1024
    rng = random.Random(seed)
    h = OpsGen(rng)
    h.prologue(1)
    t = h.toks[0]
    k = h.open(t, True)
    U = ul
    R = RSA1024
    bodies = [("cert", f"0={U(1)} 80={U(0)} 101={hx('subject')} 11={hx('certvalue')}"), ("rsapub", f"0={U(2)} 100={U(0)} 120={R['n']} 122=010001"),
              ("aes", f"0={U(4)} 100={U(0x1f)} 11={'3c' * 16}"), ("generic", f"0={U(4)} 100={U(0x10)} 11={'4d' * 20}")]
    for who in ("nobody", "user", "so", "nobody-after-logout"):
        if who == "user": h.op(f"login @{k} 1 {hx(t.user)}")
        elif who == "so": h.op(f"login @{k} 0 {hx(t.so)}")
        for name, body in bodies:
            for tok in ("00", "01"):
                for tr in ("01", "00"):
                    o = h.op(f"create @{k} {body} 1={tok} 2=00 3={hx(h.new_label())} 86={tr}"); h.minted += 1
                    h.op(f"getattr @{k} @{o} 86:1")
                    if tr == "00":
                        h.op(f"setattr @{k} @{o} 86=01"); h.op(f"getattr @{k} @{o} 86:1")
                        c = h.op(f"copy @{k} @{o} 3={hx(h.new_label())} 86=01"); h.minted += 1
                        h.op(f"getattr @{k} @{c} 86:1"); h.op(f"destroy @{k} @{c}")
                    h.op(f"destroy @{k} @{o}")
        for tok in ("00", "01"):
            g = h.op(f"genkey @{k} 1080 161={U(16)} 1={tok} 2=00 3={hx(h.new_label())} 86=01"); h.minted += 1
            h.op(f"getattr @{k} @{g} 86:1"); h.op(f"destroy @{k} @{g}")
        if who in ("user", "so"): h.op(f"logout @{k}")
    h.op("fini")
    return h.text()


# ---------------------------------------------------------------------------------------------------------
# C13: derivation into DES / DES2 / DES3 keys: the value is the mechanism's secret with odd parity in every byte
# ---------------------------------------------------------------------------------------------------------
def c13_derive_des_matrix(seed=1):
    """Every derivation mechanism that yields a symmetric secret (concatenation with data / with a key in both orders, AES_ECB / AES_CBC_ENCRYPT_DATA, ECDH, DH) into
    CKK_DES2 / CKK_DES3 / generic / AES keys of exactly fitting lengths, from base values whose bytes have EVEN parity; the derived value and check value are read
    back and recomputed by the Lean reference (`shapeSecret`: cut to length, parity for the DES types)."""
    from .gen import OAKLEY2, P256_G, p256_mul
    rng = random.Random(seed)
    h = OpsGen(rng)
    h.prologue(1)
    t = h.toks[0]
    k = h.open(t, True); h.login(k, t, 'user')
    U = ul
    even = lambda n: "".join(rng.choice(["00", "03", "05", "06", "0a", "ff", "c3", "a5", "3c", "99"]) for _ in range(n))
    bases = {n: h.op(f"create @{k} 0={U(4)} 100={U(0x10)} 3={hx(h.new_label())} 11={even(n)} 162=01 103=00 10c=01") for n in (4, 8, 12, 16, 20, 24)}
    h.minted += len(bases)
    aes = h.op(f"create @{k} 0={U(4)} 100={U(0x1f)} 3={hx(h.new_label())} 11={even(16)} 162=01 103=00 10c=01 104=01"); h.minted += 1
    def after(u):
        h.op(f"getattr @{k} @{u} 0:8 100:8 11:600 161:8"); h.op(f"kcv @{k} @{u}"); h.op(f"destroy @{k} @{u}")
    for kt, total in ((0x14, 16), (0x15, 24), (0x10, 16), (0x1f, 16)):
        vlen = f" 161={U(total)}" if kt in (0x10, 0x1f) else ""
        for n, base in bases.items():
            if n < total:
                for mech in ("362", "363"):
                    u = h.op(f"derive @{k} {mech}:str({even(total - n)}) @{base} 0={U(4)} 100={U(kt)} 3={hx(h.new_label())} 162=01 103=00{vlen}"); h.minted += 1; after(u)
            for m, other in bases.items():
                if n + m == total:
                    u = h.op(f"derive @{k} 360:obj(@{other}) @{base} 0={U(4)} 100={U(kt)} 3={hx(h.new_label())} 162=01 103=00{vlen}"); h.minted += 1; after(u)
        for mech in (f"1104:str({even(32)})", f"1105:cbcd({'00' * 16},{even(32)})"):
            u = h.op(f"derive @{k} {mech} @{aes} 0={U(4)} 100={U(kt)} 3={hx(h.new_label())} 162=01 103=00{vlen}"); h.minted += 1; after(u)
    h.op("fini")
    return h.text()


# ---------------------------------------------------------------------------------------------------------
# C04 (two processes): a PIN changed by one process stays changed whatever another, older process does afterwards
# ---------------------------------------------------------------------------------------------------------
def c04_two_process_pins(seed=1):
    """Process 0 has the token open.  Process 1 changes the user PIN (C_SetPIN) / the SO PIN / re-initialises the user PIN and ends.  Process 0 then makes the calls
    that write token.object (a rejected C_Login, an accepted one, C_Logout).  A FRESH process 2 is the judge: the most recently set PINs log in, the replaced ones do
    not.  Only process 2's logins are judged (`nop expect-login`): what the long-running process 0 itself accepts is not part of this suite."""
    lines, cnt = [], {}
    def op(i, text):
        cnt[i] = cnt.get(i, 0) + 1; lines.append(f"P{i} {text}"); return cnt[i]
    lab, so, user = hx("tokA"), hx("so0pin0"), hx("user0pin")
    nu, ns = hx("new-user-pin"), hx("new-so-pin")
    op(0, "init"); op(0, "slots"); op(0, f"inittoken free {so} {lab}"); op(0, "slots")
    k = op(0, f"open t:{lab} 6"); op(0, f"login @{k} 0 {so}"); op(0, f"initpin @{k} {user}"); op(0, f"logout @{k}")
    # process 1: changes both PINs and ends
    op(1, "init"); op(1, "slots"); s1 = op(1, f"open t:{lab} 6")
    op(1, f"login @{s1} 1 {user}"); op(1, f"setpin @{s1} {user} {nu}"); op(1, f"logout @{s1}")
    op(1, f"login @{s1} 0 {so}"); op(1, f"setpin @{s1} {so} {ns}"); op(1, f"logout @{s1}"); op(1, "fini")
    # process 0 (token loaded before the change): calls that write the token flags
    op(0, f"login @{k} 1 {hx('wrong-pin')}"); op(0, f"login @{k} 1 {nu}"); op(0, f"logout @{k}")
    op(0, f"login @{k} 0 {hx('wrong-pin')}"); op(0, f"login @{k} 0 {ns}"); op(0, f"logout @{k}"); op(0, "fini")
    # process 2: the judge
    op(2, "init"); op(2, "slots"); s2 = op(2, f"open t:{lab} 6")
    for utype, pin, want in ((1, nu, 0), (1, user, 160), (0, ns, 0), (0, so, 160)):
        op(2, f"nop expect-login {want}"); op(2, f"login @{s2} {utype} {pin}"); op(2, f"logout @{s2}")
    op(2, "fini")
    return "\n".join(lines) + "\n"


# ---------------------------------------------------------------------------------------------------------
# C09: a refused C_GenerateKeyPair leaves neither half behind
# ---------------------------------------------------------------------------------------------------------
def c09_genpair_failures(seed=1):
    """RSA, EC P-256 and Ed25519 pairs, as token and as session objects: the PRIVATE template is refused (unknown attribute, an attribute of the other half, CKA_LOCAL,
    CKA_ALWAYS_AUTHENTICATE on a non-private key, a wrongly sized value) after the public half was accepted, or the PUBLIC template is refused; after each call everything is
    searched for from two sessions and (token objects) the directory is decoded; a successful generation follows (handle numbers go on as the model says)."""
    from .gen import ED25519
    rng = random.Random(seed)
    h = OpsGen(rng)
    h.prologue(1)
    t = h.toks[0]
    k = h.open(t, True); h.login(k, t, 'user'); k2 = h.open(t, True)
    U = ul
    mechs = [("0", f"121={U(1024)} 122=010001"), ("1040", f"180={P256}"), ("1055", f"180={ED25519}")]
    bad_priv = ["9999=" + hx("q"), "10a=01", "163=01", "202=01 2=00", "108=0001", "121=" + U(1024)]
    bad_pub = ["9999=" + hx("q"), "108=01", "163=01", "10a=0001"]
    def look():
        for s in (k, k2):
            h.op(f"findinit @{s}"); h.minted += 2; h.op(f"find @{s} 100"); h.op(f"findfinal @{s}")
    for mech, pub in mechs:
        for tok in ("00", "01"):
            for bp in bad_priv:
                h.op(f"genpair @{k} {mech} {pub} 1={tok} 3={hx(h.new_label())} 10a=01 / 1={tok} 3={hx(h.new_label())} 108=01 {bp}"); h.minted += 2
                look()
                if tok == "01": h.op("dumpdir")
            for bq in bad_pub:
                h.op(f"genpair @{k} {mech} {pub} 1={tok} 3={hx(h.new_label())} {bq} / 1={tok} 3={hx(h.new_label())} 108=01"); h.minted += 2
                look()
            g = h.op(f"genpair @{k} {mech} {pub} 1={tok} 3={hx(h.new_label())} 10a=01 / 1={tok} 3={hx(h.new_label())} 108=01"); h.minted += 2
            look()
            h.op(f"destroy @{k} @{g}"); h.op(f"destroy @{k} @{g}.1")
    h.op("fini")
    return h.text()


# ---------------------------------------------------------------------------------------------------------
# C14 (two processes): a re-initialisation by one process stays, whatever an older process writes afterwards
# ---------------------------------------------------------------------------------------------------------
def c14_two_process_reinit(seed=1):
    """Process 0 has the token loaded (no session).  Process 1 re-initialises it (C_InitToken with the SO PIN, a new label) and ends.  Process 0 then opens a session
    and logs in as SO (which writes token.object).  A FRESH process 2 judges: the new label, no user PIN any more, the SO PIN kept, no objects."""
    lines, cnt = [], {}
    def op(i, text):
        cnt[i] = cnt.get(i, 0) + 1; lines.append(f"P{i} {text}"); return cnt[i]
    lab, lab2, so, user = hx("first"), hx("second"), hx("so0pin0"), hx("user0pin")
    op(0, "init"); op(0, "slots"); op(0, f"inittoken free {so} {lab}"); op(0, "slots")
    k = op(0, f"open t:{lab} 6"); op(0, f"login @{k} 0 {so}"); op(0, f"initpin @{k} {user}"); op(0, f"logout @{k}")
    op(0, f"login @{k} 1 {user}"); op(0, f"create @{k} 0={ul(0)} 1=01 2=01 3={hx('doomed')} 11=aabb"); op(0, f"logout @{k}"); op(0, f"close @{k}")
    op(1, "init"); op(1, "slots"); op(1, f"inittoken t:{lab} {so} {lab2}"); op(1, "fini")
    # `c:`: the slot id process 0 learned earlier - no C_GetTokenInfo in between (that call would re-read token.object)
    k0 = op(0, f"open c:{lab} 6"); op(0, f"login @{k0} 0 {so}"); op(0, f"logout @{k0}"); op(0, "fini")
    op(2, "init"); op(2, f"nop expect-label {lab2}"); op(2, "slots")
    s2 = op(2, f"open t:{lab2} 6")
    op(2, f"nop expect-login 258"); op(2, f"login @{s2} 1 {user}")
    op(2, f"nop expect-login 0"); op(2, f"login @{s2} 0 {so}"); op(2, f"logout @{s2}")
    op(2, "fini")
    return "\n".join(lines) + "\n"


# ---------------------------------------------------------------------------------------------------------
# C16 / C17: EVERY truncation of an object file with a mechanism set and an attribute map, opened with locking enabled
# ---------------------------------------------------------------------------------------------------------
def c17_truncation_matrix(lo, hi, flavour="initix"):
    """A token whose only object is a key with CKA_WRAP_TEMPLATE (attribute map), CKA_UNWRAP_TEMPLATE and CKA_ALLOWED_MECHANISMS (mechanism set); for every n in [lo, hi)
    the object file is cut to n bytes (what a process death inside a rewrite leaves: a prefix) and the directory is opened by C_Initialize with the application's mutex
    callbacks, searched and read.  The loader's error branches for collection-valued attributes run under the object's mutex: the callbacks count a second lock of a
    locked mutex (a self-deadlock with real mutexes) and every handle they never issued (`nop mxstat`)."""
    rng = random.Random(7)
    h = OpsGen(rng); h.prologue(1); t = h.toks[0]
    k = h.open(t, True); h.login(k, t, 'user')
    mechs = "".join(ul(m) for m in (0x1081, 0x1082, 0x1085, 0x1086, 0x1087, 0x2109, 0x210a, 0x108a))
    h.op(f"create @{k} 0={ul(4)} 100={ul(0x1f)} 1=01 2=01 3={hx('the-key')} 102={'5a' * 24} 11={'0f' * 32} 104=01 105=01 106=01 107=01 162=01 103=00 "
         f"40000211={{0={ul(4)};162=01;3={hx('inner')}}} 40000212={{104=01;105=01}} 40000600={mechs}"); h.minted += 1
    h.op("fini"); h.op("nop mutated"); h.op("snapshot a")
    for n in range(lo, hi):
        h.op("restore a"); h.op(f"fsmut truncate T0/O0 {n}")
        h.op(flavour); h.op("slots")
        s = h.op(f"open t:{hx(t.label)} 6"); h.op(f"login @{s} 1 {hx(t.user)}")
        h.op(f"findinit @{s}"); f = h.op(f"find @{s} 10"); h.op(f"findfinal @{s}")
        h.op(f"getattr @{s} @{f}.0 0:8 100:8 3:64 102:64 40000211:n 40000600:64 162:1")
        h.op(f"create @{s} 0={ul(0)} 1=01 2=01 3={hx('after')} 11=aabb")
        h.op("fini"); h.op("nop mxstat")
    return h.text()


# ---------------------------------------------------------------------------------------------------------
# C02: the one-way protections, tried by EVERY role (nobody / user / SO logged in), on session and token keys
# ---------------------------------------------------------------------------------------------------------
def c02_protection_roles(seed=1):
    """A public AES key (public so that the SO can reach it) with ONE protection set - CKA_WRAP_WITH_TRUSTED true, CKA_SENSITIVE true or
    CKA_EXTRACTABLE false - as session and as token object; while nobody, the user, the SO is logged in: C_SetAttributeValue and C_CopyObject try to take the protection
    away (alone, and together with a harmless label change); the three flags are read before and after, of the object and of every copy that was made.
    Judged on the implementation's answers alone (`protection_direct`): a flag that went back, a copy weaker than its source."""
    rng = random.Random(seed)
    h = OpsGen(rng)
    h.prologue(1)
    t = h.toks[0]
    k = h.open(t, True)
    U = ul
    READ = "103:1 162:1 210:1"
    for who in ("nobody", "user", "so"):
        if who == "user": h.op(f"login @{k} 1 {hx(t.user)}")
        elif who == "so": h.op(f"login @{k} 0 {hx(t.so)}")
        for tok in ("00", "01"):
            if tok == "01" and who == "nobody": continue           # a token object needs a R/W user or SO session to be written
            for prot, weak in (("210=01 162=01 103=00", "210=00"), ("103=01 162=01 210=00", "103=00"), ("162=00 103=00 210=00", "162=01")):
                o = h.op(f"create @{k} 0={U(4)} 100={U(0x1f)} 11={'5e' * 16} 1={tok} 2=00 3={hx(h.new_label())} 104=01 105=01 {prot}"); h.minted += 1
                h.op(f"getattr @{k} @{o} {READ}")
                for tmpl in (weak, f"3={hx(h.new_label())} {weak}", f"{weak} 3={hx(h.new_label())}"):
                    h.op(f"setattr @{k} @{o} {tmpl}"); h.op(f"getattr @{k} @{o} {READ}")
                    c = h.op(f"copy @{k} @{o} {tmpl}"); h.minted += 1
                    h.op(f"getattr @{k} @{c} {READ}"); h.op(f"destroy @{k} @{c}")
                h.op(f"destroy @{k} @{o}")
        if who in ("user", "so"): h.op(f"logout @{k}")
    h.op("fini")
    return h.text()


# ---------------------------------------------------------------------------------------------------------
# C08: history attributes of keys derived with the ASYMMETRIC mechanisms (DH is covered by K13): ECDH on P-256 and on X25519
# ---------------------------------------------------------------------------------------------------------
def c08_derive_asym_matrix(seed=1):
    """Base keys: EC P-256 and X25519 private keys, IMPORTED (C_CreateObject: ALWAYS_SENSITIVE / NEVER_EXTRACTABLE false whatever their flags) and GENERATED on the token (true when
    generated sensitive / unextractable) x CKA_SENSITIVE x CKA_EXTRACTABLE of the base key x the derived key's template; CKA_SENSITIVE, EXTRACTABLE, NEVER_EXTRACTABLE,
    ALWAYS_SENSITIVE, LOCAL of every derived key are read back."""
    from .gen import P256_G, p256_mul, X25519_OID
    rng = random.Random(seed)
    h = OpsGen(rng)
    h.prologue(1)
    t = h.toks[0]
    k = h.open(t, True); h.login(k, t, 'user')
    U = ul
    Q = p256_mul(11, P256_G); pt = "04" + Q[0].to_bytes(32, "big").hex() + Q[1].to_bytes(32, "big").hex()
    xpeer = bytes(rng.randrange(256) for _ in range(32)).hex()
    bases = []     # (ref, peer public data)
    for sens, extr in itertools.product(("00", "01"), ("00", "01")):
        d = rng.randrange(1, 2 ** 255)
        b = h.op(f"create @{k} 0={U(3)} 100={U(3)} 3={hx(h.new_label())} 180={P256} 11={d.to_bytes(32, 'big').hex()} 10c=01 103={sens} 162={extr}"); h.minted += 1
        bases.append((f"@{b}", pt))
        b = h.op(f"create @{k} 0={U(3)} 100={U(0x40)} 3={hx(h.new_label())} 180={X25519_OID} 11={bytes(rng.randrange(256) for _ in range(32)).hex()} 10c=01 103={sens} 162={extr}"); h.minted += 1
        bases.append((f"@{b}", xpeer))
        g = h.op(f"genpair @{k} 1040 180={P256} 3={hx(h.new_label())} / 3={hx(h.new_label())} 10c=01 103={sens} 162={extr}"); h.minted += 2
        bases.append((f"@{g}.1", pt))
        g = h.op(f"genpair @{k} 1055 180={X25519_OID} 3={hx(h.new_label())} / 3={hx(h.new_label())} 10c=01 103={sens} 162={extr}"); h.minted += 2
        bases.append((f"@{g}.1", xpeer))
    for ref, peer in bases:
        h.op(f"getattr @{k} {ref} 103:1 162:1 164:1 165:1 163:1")
        for tp in ("", "103=01", "162=00", "103=01 162=00", "103=00 162=01"):
            u = h.op(f"derive @{k} 1050:ecdh(1,{peer}) {ref} 0={U(4)} 100={U(0x10)} 161={U(16)} 3={hx(h.new_label())} {tp}"); h.minted += 1
            h.op(f"getattr @{k} @{u} 103:1 162:1 164:1 165:1 163:1"); h.op(f"destroy @{k} @{u}")
    h.op("fini")
    return h.text()


# ---------------------------------------------------------------------------------------------------------
# C01 / C11: a copy that is MORE private than its source dies with the login like every private object
# ---------------------------------------------------------------------------------------------------------
def c01_copy_upgrade_scope(seed=1):
    """Public data objects and keys (session and token) are copied with CKA_PRIVATE = true (and, as control, without); then C_Logout, and every handle is used: C_GetAttributeValue,
    C_GetObjectSize, C_DestroyObject through the same session, through a second session, through a session of ANOTHER token whose user is logged in; then C_Login again and the
    handles are used once more (a handle that died stays dead)."""
    rng = random.Random(seed)
    h = OpsGen(rng)
    h.prologue(2)
    t, t2 = h.toks[0], h.toks[1]
    U = ul
    k = h.open(t, True); k2 = h.open(t, True); kb = h.open(t2, True)
    h.login(kb, t2, 'user')
    for tok in ("00", "01"):
        h.login(k, t, 'user')
        srcs = [h.op(f"create @{k} 0={U(0)} 1={tok} 2=00 3={hx(h.new_label())} 11={'a7' * 20}"),
                h.op(f"create @{k} 0={U(4)} 100={U(0x1f)} 1={tok} 2=00 3={hx(h.new_label())} 11={'3c' * 16} 162=01 103=00 104=01")]
        h.minted += 2
        copies = []
        for s in srcs:
            for tp in ("2=01", f"2=01 3={hx(h.new_label())}", "", f"1={'01' if tok == '00' else '00'} 2=01"):
                c = h.op(f"copy @{k} @{s} {tp}"); h.minted += 1
                copies.append(c)
                h.op(f"getattr @{k} @{c} 0:8 1:1 2:1 3:64")
        h.op(f"logout @{k}")
        for c in copies + srcs:
            for via in (k, k2, kb):
                h.op(f"getattr @{via} @{c} 0:8 1:1 2:1"); h.op(f"objsize @{via} @{c}")
        h.login(k, t, 'user')
        for c in copies + srcs:
            h.op(f"getattr @{k} @{c} 0:8 1:1 2:1 3:64")
            h.op(f"destroy @{k} @{c}")
        h.op(f"logout @{k}")
    h.op("fini")
    return h.text()


# ---------------------------------------------------------------------------------------------------------
# C06: byte strings NESTED in CKA_WRAP_TEMPLATE / CKA_UNWRAP_TEMPLATE of private keys
# ---------------------------------------------------------------------------------------------------------
def c06_nested_template(seed=1):
    """AES keys, private and public, token and session, whose CKA_WRAP_TEMPLATE / CKA_UNWRAP_TEMPLATE carry random byte strings (a label, an id); a C_SetAttributeValue that
    replaces the template; a copy made private; the directory is dumped after every call."""
    rng = random.Random(seed * 31 + 7)
    h = OpsGen(rng); h.prologue(1); t = h.toks[0]
    k = h.open(t, True); h.login(k, t, 'user')
    rb = lambda n: bytes(rng.randrange(256) for _ in range(n)).hex()
    for priv in ("01", "00"):
        for tok in ("01", "00"):
            o = h.op(f"create @{k} 0={ul(4)} 100={ul(0x1f)} 1={tok} 2={priv} 3={hx(h.new_label())} 11={rb(16)} 106=01 107=01 162=01 103=00 "
                     f"40000211={{3={rb(24)};162=01}} 40000212={{102={rb(20)}}}"); h.minted += 1
            h.op("dumpdir")
            h.op(f"getattr @{k} @{o} 40000211:200 40000212:200")
            if priv == "00":
                c = h.op(f"copy @{k} @{o} 2=01 3={hx(h.new_label())}"); h.minted += 1
                h.op("dumpdir")
    h.op("fini")
    return h.text()
