"""C04 — only the current PIN authenticates; PIN changes are exact and lossless."""
from ..main import k_suite, Violation, parse_mismatch, Trace
from .. import gen

LEAN_MODULES = ["Shm.Props.C04"]
GEN_TABLES = ["StoreSample.lean", "Access.lean"]
LEVEL = "proof"
OPS = {"login", "logout", "initpin", "setpin", "inittoken", "dumpdir", "getattr", "find", "findinit", "create", "slots", "sinfo", "open"}
RULE = ("K04: seeded histories on two tokens of C_Login (right PIN / adversarial PIN: proper prefix, extension by NUL or another byte, one-bit neighbour, the other "
        "user's PIN, the previous PIN, empty, embedded NUL, case change, 256 bytes), C_Logout, C_InitPIN and C_SetPIN from every session state (new PINs of length "
        "0..300, arbitrary bytes incl. NUL and non-ASCII), C_InitToken re-initialisation (right / wrong SO PIN, with / without sessions), creation of private token objects "
        "that are read back after later PIN changes, C_Finalize/C_Initialize, process exit without C_Finalize and clean restarts; every return code is compared with the "
        "model; around every restart and at random points the token directory is dumped and the LEAN driver opens both PIN blobs of token.object with its own PBE "
        "(SHA-256 x (1500 + salt[7])) + AES-256-CBC: exactly the model's current PINs must open them, both must yield the same 32-byte token key, and every private "
        "attribute must decrypt under it to the model's value.")
TRUSTED = ["C++ harness p11drv + python generator", "Lean reference SHA-256 / AES (FIPS vectors; exercised against the real blobs on every run)"]
ASSUMPTIONS = ["ideal-PBE reading of the blobs (a blob opens exactly under the PIN it was made with), checked on every dumped directory, modulo the 2^-24 false accept of the 3-byte magic",
               "PIN-count-low flags are token flags, not PINs: a refused attempt may raise them (PKCS#11), and the model follows that"]


def in_projection(m):
    return m["op"] in OPS


def sig_of(m):
    return "%s.%s.model%s.impl%s" % (m["op"], m["cat"], m["modelrv"], m["implrv"])


def run_k(ctx, kres):
    n, ops = (32, 60) if ctx.quick else (600, 120)
    traces = [Trace("pins%d" % i, gen.pin_history(ctx.seed * 15485863 + i, ops, ntok=2 if i % 4 else 3)) for i in range(n)]
    v = k_suite(ctx, kres, "K04-pin-histories", traces, in_projection, sig_of=sig_of)
    # unit level: RFC4880::PBEDeriveKey against the Lean definition the independent decoder uses
    from .. import pure
    v += pure.run_group(ctx, kres, "K04-pure-pbe", "pbe", 40 if ctx.quick else 600)
    # two processes: a PIN changed by one process stays changed whatever an older process (token loaded before the change) writes afterwards; a fresh process judges
    from .. import gen2, ksuites
    v += k_suite(ctx, kres, "K04-two-process-pins", [Trace("two-process-pins", gen2.c04_two_process_pins(ctx.seed))], lambda m: False, direct=ksuites.expect_login_direct, shrink_budget=0)
    return v


def judge(ctx, results):
    out = []
    for r in results:
        if r.mism:
            m = parse_mismatch(r.mism[0])
            if m and in_projection(m): out.append(Violation(sig_of(m), r.mism[0], r.trace.ops))
    return out


LEVEL_TEXT = ("Lean 4 theorems (lean/Shm/Props/C04.lean) over the model of Token/SecureDataManager/SoftHSM PIN handling: C_Login(user) [resp. SO] on a token where nobody is "
              "logged in returns CKR_OK IFF the PIN equals the token's current user [SO] PIN; within a library instance NO call other than C_InitToken, C_InitPIN, C_SetPIN "
              "changes any PIN of any token (frame theorem over the whole machine: cryptographic calls, object calls, failed logins, C_Finalize, process restarts), and "
              "C_Initialize reads every token back with the PINs it had; C_InitPIN succeeds only in an SO session with an admissible length and sets exactly that user "
              "PIN; C_SetPIN succeeds only with the correct old PIN of the user selected by the session state and an admissible new PIN and replaces exactly that PIN; a "
              "refused call changes no PIN; neither call touches the other PIN, another token or any object. Tie: K04, where the Lean driver also opens the real PIN "
              "blobs with its own PBE+AES.")
LEVEL_NOTE = "Trusted: Lean kernel + standard axioms; the hand-written model validated by K04; cryptographic strength of the PBE is not claimed."
TECHNIQUE = "Lean 4 iff / frame / exactness theorems over a hand model; correspondence with adversarial PIN generator and an independent Lean PBE+AES opening the real blobs"
