"""C05 — token objects persist durably, faithfully and in a stable on-disk format."""
import json, os
from ..main import k_suite, Violation, parse_mismatch, Trace, pick_mismatch
from .. import gen, core

LEAN_MODULES = ["Shm.Props.C05"]
GEN_TABLES = ["StoreSample.lean", "ClassTable.lean", "AttrUpdate.lean", "Access.lean"]
LEVEL = "proof"
VARIANTS = lambda tier: ("plain", "db") if tier == "thorough" else ("plain",)
OPS = {"dumpdir", "getattr", "findinit", "find", "create", "copy", "setattr", "destroy", "login", "slots", "genkey", "genpair", "objsize"}
RULE = ("T05: the real ObjectFile writer is executed on a sample object with one attribute of every kind (tools/tabledump.cpp); the Lean decoder must read the bytes back and "
        "the Lean encoder must reproduce them (theorem T05_writer_sample, decide +kernel). K05-persist: seeded histories of create (all 25 object classes, token and session, "
        "public and private) / set / copy / destroy / find on two tokens, interrupted by C_Finalize+C_Initialize, by process exit without C_Finalize and by clean process "
        "restarts (a new process is exec'ed on the same directory); every 4 calls and around every restart the token directory is dumped and decoded by the LEAN codec "
        "(PIN blobs opened with the model's PINs by the Lean SHA-256/AES, private values decrypted) and must be exactly the image of the model state: same tokens, same "
        "objects, same attribute sets and values, canonical encoding, no other files; after each restart the objects are looked up again and read through the API. "
        "K05-fixture: a token directory written by the library built from the PINNED commit (fixtures/file-v1: 2 tokens, 111 objects of every class, 0-byte and 300 kB "
        "values, nested templates, mechanism sets, dates, a changed PIN) is opened by today's library: all four PINs log in, a wrong one does not, every object is found "
        "and read with the recorded values; the Lean decoder decodes the fixture independently. thorough adds the SQLite backend (API level). K05-faults: for 16 mutating calls (the scene of C16) every libc file-system operation of the call is made to FAIL once "
        "(ENOSPC/EIO by interposition); a fresh process then opens the directory: a call that answered CKR_OK must have persisted its effect (recovered = state after the call), a call "
        "that answered an error must not have destroyed committed data (recovered = state before or after).")
TRUSTED = ["C++ harness p11drv (directory dump by plain file reads; process restart by exec)", "python generators",
           "Lean reference SHA-256 / AES-256-CBC (validated against FIPS vectors and against the token's own PIN blobs on every run)"]
ASSUMPTIONS = ["process death inside a call is C16's; here: every single file-system operation of a call failing once (K05-faults)", "SQLite's own file format and durability are trusted, not modelled",
               "the fixture has no CKA_START_DATE/CKA_END_DATE on private objects: the pinned version cannot read those back itself (known_findings.txt, C06 f4d12d5)"]


def in_projection(m):
    return m["op"] in OPS


def sig_of(m):
    return "%s.%s.model%s.impl%s" % (m["op"], m["cat"], m["modelrv"], m["implrv"])


def fixture_trace(tables):
    meta = json.load(open(os.path.join(core.VERIF, "fixtures", "file-v1", "meta.json")))
    return Trace("fixture-file-v1", gen.fixture_use_ops(meta["labels"], meta["tokens"], tables), fixture="file-v1")


def run_k(ctx, kres):
    tables = gen.load_tables()
    n, ops = (24, 40) if ctx.quick else (400, 90)
    traces = [Trace("persist%d" % i, gen.persist_history(ctx.seed * 104729 + i, tables, ops, big=(i % 8 == 7))) for i in range(n)]
    v = k_suite(ctx, kres, "K05-persist", traces, in_projection, sig_of=sig_of)
    v += k_suite(ctx, kres, "K05-fixture", [fixture_trace(tables)], in_projection, sig_of=sig_of, shrink_budget=0)
    if not ctx.quick and ctx.stamp["variants"].get("db", {}).get("ok"):
        # no directory decoding on SQLite; and no C_CopyObject: on SQLite a copy of a token object carries CKA_CLASS only (known finding of C20, `sqlite:copy-of-token-object`),
        # which a later search after the restart would meet again under C05's name
        def nodump(t): return "\n".join(("nop" if (l == "dumpdir" or l.startswith("copy ")) else l) for l in t.split("\n"))
        dbt = [Trace("persist-db%d" % i, nodump(gen.persist_history(ctx.seed * 104729 + i, tables, 60)), variant="db", backend="db") for i in range(100)]
        # the SQLite backend answers some calls differently from the file backend (C20 reports those); what C05 asks of it is persistence: what is found after a restart
        v += k_suite(ctx, kres, "K05-persist-sqlite", dbt, lambda m: m["op"] in ("findinit", "find") and m["cat"] in ("nums", "rvclass"), sig_of=sig_of)
    v += fault_suite(ctx, kres)
    # unit level: ByteString serialise / chainDeserialise / long_val / split / substr / xor (the primitives of the stored encodings)
    from .. import pure
    v += pure.run_group(ctx, kres, "K05-pure-bytestring", "bytestring", 300 if ctx.quick else 6000)
    return v


FAULT_QUICK = ["create-small-private", "setattr-label-private-key", "destroy-key", "copy-big", "setpin-user"]


def fault_suite(ctx, kres):
    """every file-system operation of a mutating call FAILS once (disk full / I/O error): a call that answers CKR_OK must have persisted its effect; a call that
    answers an error must not have destroyed what was committed before"""
    import concurrent.futures, collections, json
    from .. import crash
    setup, names = crash.scene()
    scen = [s[0] for s in crash.scenarios(names) if not s[0].startswith("login") and s[0] != "logout" and not s[0].startswith("read-") and s[0] not in ("search-all", "inittoken-free")
            and not (s[0].startswith("create-mechs-cut") and s[0] != "create-mechs-cut8")]       # the 25 differ by calibrated file size only (C16's cuts); one of them is enough as a fault scenario
    if ctx.quick: scen = [s for s in scen if s in FAULT_QUICK]
    kres["suites"] += 1
    def go(nm):
        run = crash.run_scenario(nm, None, None, mode="fail")
        out = []
        if run.get("error"): return nm, run, out
        pts = run["results"]
        if ctx.quick and len(pts) > 60:
            keep = {}
            for r in pts:
                if r["k"] <= 30: keep[r["k"]] = r
                else: keep.setdefault((r["after"], r["before"]), r)
            pts = list(keep.values())
        for r in pts:
            ok, which, detail = crash.judge_point(run, r)
            out.append((r, which, detail))
        return nm, run, out
    viols = {}; table = {}
    with concurrent.futures.ThreadPoolExecutor(max_workers=8) as ex:
        for nm, run, pts in ex.map(go, scen):
            if run.get("error"):
                viols["fault:%s:harness" % nm] = Violation("fault:%s:harness" % nm, "fault scenario %s could not be run: %s" % (nm, run["error"]), "{}", False); continue
            row = collections.Counter()
            for r, which, detail in pts:
                kres["evaluations"] += 1
                rv = r["call_result"].split()[1] if r["call_result"] else "died"
                cls = None
                if rv == "0" and which != "S1": cls = "ok-not-persisted"
                elif rv != "0" and which not in ("S0", "S1"): cls = "error-but-destroyed"
                row["%s/rv=%s/%s" % (r["before"], rv, which)] += 1
                key = "fault:%s:%s:%s" % (nm, r["before"], "ok" if rv == "0" else "err")
                kres["hist"][key] = kres["hist"].get(key, 0) + 1
                if cls:
                    sig = "fault:%s:%s" % (nm, cls)
                    if sig not in viols:
                        viols[sig] = Violation(sig, "failure of file-system operation %d (%s) of `%s`: the call answered %s, the token directory afterwards is %s: %s" %
                                               (r["k"], r["before"], run["call"][:90], "CKR_OK" if rv == "0" else "rv=" + rv,
                                                "not the state after the call" if rv == "0" else "neither the state before nor after the call (committed data destroyed)", detail[:700]),
                                               "## fault scenario=%s k=%d\n" % (nm, r["k"]) + "\n".join(run["pre"] + [run["call"]]) + "\n")
            table[nm] = {"fs_ops": run["n_ops"], "points": len(pts), "outcomes": dict(row)}
    kres["notes"].append("fault table: " + json.dumps(table))
    return list(viols.values())


def replay(ctx, path):
    import re
    from .. import crash
    from ..main import replay as generic
    text = open(path).read()
    m = re.search(r"## fault scenario=(\S+) k=(\d+)", text)
    if not m:
        import types
        return generic(types.SimpleNamespace(judge=judge), ctx, path)
    name, k = m.group(1), int(m.group(2))
    run = crash.run_scenario(name, None, None, mode="fail", points={k})
    r = run["results"][0]
    ok, which, detail = crash.judge_point(run, r)
    rv = r["call_result"].split()[1] if r["call_result"] else "died"
    print("scenario %s: `%s`; file-system operation %d (%s) fails; the call answers rv=%s; recovered state: %s %s" % (name, run["call"], k, r["before"], rv, which, detail[:600]))
    bad = (rv == "0" and which != "S1") or (rv != "0" and which not in ("S0", "S1"))
    print("JUDGEMENT: %s" % ("violates C05" if bad else "no violation of C05 at this point"))
    return 1 if bad else 0


def judge(ctx, results):
    out = []
    for r in results:
        if r.mism:
            m = parse_mismatch(r.mism[0])
            if m and in_projection(m): out.append(Violation(sig_of(m), r.mism[0], r.trace.ops))
    return out


LEVEL_TEXT = ("Lean 4 theorems (lean/Shm/Props/C05.lean). Format: decode(encode(gen, attrs)) = (gen, attrs) for every well-formed attribute list of every kind, nested maps "
              "included, unbounded sizes; the encoder is injective; a file cut at an attribute boundary is accepted as a valid object with fewer attributes (the formal content "
              "of the C16 finding). State machine, for every history of the complete machine (core, cryptographic, key generation calls and process restarts): C_Finalize, a "
              "process restart and C_Initialize keep exactly the token objects with identical attributes and drop every session object; no call other than "
              "C_SetAttributeValue on that object changes an attribute value, the token/session nature or the privacy of an existing object; object identities are never "
              "reused, so a destroyed object never reappears. Tie: the real writer executed on a sample (T05), directory dumps decoded by the Lean codec after every few "
              "calls (K05-persist), a golden directory of the pinned version (K05-fixture).")
LEVEL_NOTE = ("Trusted: Lean kernel + standard axioms (T05 uses decide +kernel: kernel evaluation, no extra axiom); the hand-written codec and state model are validated by "
              "T05/K05, not derived from the C++; durability under file-system faults is not covered here (see C16).")
TECHNIQUE = "Lean 4 codec round-trip + frame/invariant theorems; independent Lean decoder (codec + SHA-256 + AES) run on real token directories; golden fixture"
