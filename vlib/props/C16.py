"""C16 — a crash at any point leaves the token usable and loses nothing committed."""
import concurrent.futures, json, re, collections
from ..main import Violation
from .. import crash, core

LEAN_MODULES = ["Shm.Props.C16", "Shm.Props.FactsC16"]
GEN_TABLES = ["StoreSample.lean", "LockFacts.lean"]
LEVEL = "fault_enumeration"
QUICK_N = 10
QUICK = ["create-small-private", "setattr-label-private-key", "setattr-label-big", "destroy-key", "setpin-user", "login-wrong-pin", "genkey-aes", "reinit-token", "copy-big", "inittoken-free", "read-aes-key", "read-ec-private", "read-ed-private", "read-ed-public", "read-big-data", "search-all"]
RULE = ("K16: for each of 19 mutating calls (C_CreateObject small public / small private / 10 kB private, C_SetAttributeValue (label) on a private key / public data / a 10 kB "
        "object, C_CopyObject big / with public->private upgrade, C_DestroyObject data / key, C_GenerateKey, C_GenerateKeyPair, C_SetPIN user / SO, C_InitPIN, C_Login with a wrong "
        "PIN / the right PIN after a wrong one, C_Logout, C_InitToken on an initialised token) on a scene of two tokens with PINs, public, private, large and key objects: the "
        "call's libc file-system operations (open for writing, fwrite, fflush, fclose, ftruncate, remove, mkdir, rmdir - interposed in the harness executable, the library "
        "is not modified) are counted in a dry run; then for EVERY index k the token directory is restored, the call runs in a forked child that is ended by _exit at its k-th "
        "operation (the kernel state a SIGKILL leaves; no stdio flush), and a FRESH process (exec) opens the directory: both tokens listed, SO and user logins with old and new "
        "PINs, every object found and every attribute incl. the value read. The Lean model is the oracle: the recovered API view must equal the model state before the call "
        "(S0) or after it (S1), each taken through a restart; anything else - an object lost, a half-written object listed, a PIN gone, a token that cannot be opened, a "
        "recovery process that crashes or hangs - is a violation, classified by where in the write protocol the crash fell. The recovery process runs with CKF_OS_LOCKING_OK (a loader that locks a mutex it holds hangs; an alarm ends it). 25 further scenarios create a key whose object file is "
        "4096 + d bytes (d = 8..200) and ends in two attribute maps and a mechanism set, so that the prefix the kernel holds after a process death is cut inside those records. "
        "T16 (source text, lean/Shm/Props/FactsC16.lean): no method of the object-store classes calls, under its MutexLocker, a method of the same class that takes the same mutex. quick: 9 calls, every k up to 40 and every "
        "distinct transition beyond; thorough: all 19 calls, every k. A case is non-trivial when the crash fell after the first and before the last file-system operation.")
TRUSTED = ["C++ harness p11drv: libc interposition by symbol definition in the executable (static library binds to it), fork/_exit/exec orchestration",
           "the Lean model as oracle for S0/S1 (validated by the correspondence suites of C05/C04/C14)"]
ASSUMPTIONS = ["a crash is a process death: what the kernel has accepted survives, stdio buffers do not; power loss / fsync ordering is outside the model (the code never calls fsync)",
               "a single write(2) is not torn", "file backend (SQLite has its own journal; not explored here)",
               "C_InitToken on the free slot is not enumerated yet (its serial number is drawn inside the interrupted call)"]
CREATING = ("create-", "copy-", "genkey-", "genpair-")


def classify(run, res):
    """where in the write protocol did the process die?"""
    log = run["oplog"]; k = res["k"]
    done = log[:k - 1]
    last_trunc = max([i for i, o in enumerate(done) if o == "ftruncate"], default=-1)
    if last_trunc >= 0 and "fflush" not in done[last_trunc + 1:]:
        return "torn-rewrite"          # a file was cut to zero and its new content has not been flushed yet (in-place rewrite)
    n_trunc = done.count("ftruncate"); total = log.count("ftruncate")
    if 0 < n_trunc < total: return "between-rewrites"      # one of several files / phases of the call is written, the next is not
    return "outside-rewrite"


def explore(name, quick):
    # the cut scenarios: the two last rewrites of the call carry the whole object; the process dies before each of their flushes (the first 4096 bytes are in the kernel by then)
    run = crash.run_scenario(name, None, None, last=4 if name.startswith("create-mechs-cut") else None)
    if run.get("error"): return name, run, []
    out = []
    pts = run["results"]
    if quick and len(pts) > 40:
        keep = {}
        for r in pts:
            if r["k"] <= 40: keep[r["k"]] = r
            else: keep.setdefault(("t", r["after"], r["before"], crash_phase(run, r)), r)
        pts = list(keep.values())
    for r in pts:
        ok, which, detail = crash.judge_point(run, r)
        out.append((r, ok, which, detail))
    return name, run, out


def crash_phase(run, r):
    return classify(run, r)


def run_k(ctx, kres):
    setup, names = crash.scene()
    size0 = crash.calibrate_mechs()
    kres["notes"].append("mechanism-set scenario: object file with an empty CKA_ID is %d bytes; CKA_ID padded so that the file is 4096 + d bytes, d in %s" % (size0, crash.MECH_CUTS))
    scen = [s[0] for s in crash.scenarios(names)]
    if ctx.quick: scen = [s for s in scen if s in QUICK or (s.startswith("create-mechs-cut") and int(s[16:]) % 16 == 8)]
    kres["suites"] += 1
    viols = {}
    with concurrent.futures.ThreadPoolExecutor(max_workers=min(8, core.JOBS)) as ex:
        results = list(ex.map(lambda n: explore(n, ctx.quick), scen))
    table = {}
    for name, run, pts in results:
        if run.get("error"):
            viols.setdefault("%s:harness" % name, Violation("%s:harness" % name, "scenario %s could not be run: %s" % (name, run["error"]), json.dumps({"scenario": name}), False))
            continue
        row = collections.Counter()
        for r, ok, which, detail in pts:
            kres["evaluations"] += 1
            cls = classify(run, r)
            row[(cls, which if ok else "VIOLATED")] += 1
            key = "crash:%s:%s" % (name, r["after"] + ">" + r["before"])
            kres["hist"][key] = kres["hist"].get(key, 0) + 1
            if not ok:
                sig = "%s:%s" % (name, cls if which == "neither" else which)
                if sig not in viols:
                    text = ("crash of `%s` before its file-system operation %d of %d (%s after %s; %s): the recovered token is neither the state before the call nor "
                            "the state after it: %s" % (run["call"][:90], r["k"], run["n_ops"], r["before"], r["after"], cls, detail[:900]))
                    viols[sig] = Violation(sig, text, "## crash scenario=%s k=%d\n" % (name, r["k"]) + "\n".join(run["pre"] + [run["call"]]) + "\n")
        table[name] = {"fs_ops": run["n_ops"], "points": len(pts), "outcomes": {"%s/%s" % k: v for k, v in row.items()}}
        if len(kres["samples"]) < 6:
            kres["samples"].append({"scenario": name, "call": run["call"][:120], "fs_operations": run["oplog"][:40], "points_explored": len(pts)})
    kres["notes"].append("crash table: " + json.dumps(table))
    return list(viols.values())


def replay(ctx, path):
    text = open(path).read()
    m = re.search(r"## crash scenario=(\S+) k=(\d+)", text)
    if not m:
        print(text); return 1
    name, k = m.group(1), int(m.group(2))
    if name.startswith("create-mechs-cut"): crash.calibrate_mechs()
    run = crash.run_scenario(name, None, None, points={k})
    if run.get("error"): print(run["error"]); return 1
    r = run["results"][0]
    ok, which, detail = crash.judge_point(run, r)
    print("scenario %s: `%s`\nfile-system operations of the call: %s\nprocess ended before operation %d (%s)\nrecovery process status: %s" %
          (name, run["call"], ",".join(run["oplog"]), k, r["before"], r["recovery_status"]))
    print(crash.text_of(r["recovery"]))
    print("JUDGEMENT: %s" % ("recovered state equals %s: no violation of C16 at this point" % which if ok else "violates C16: " + detail))
    return 0 if ok else 1


LEVEL_TEXT = ("Exhaustive enumeration of crash points (every libc file-system operation of every mutating call) with the Lean model as the oracle for the two admissible "
              "recovered states; the parts of the property that hold for all histories are Lean theorems (lean/Shm/Props/C16.lean): a process death BETWEEN two calls loses "
              "nothing that was committed (restart keeps every token record, both PINs and exactly the token objects, unbounded histories), and the loader's verdict on EVERY "
              "torn object file is characterised (a cut inside a field rejects the file, a cut at an attribute boundary is accepted with the attributes read so far - the formal "
              "content of the finding). The property is FALSE on this tree for crashes inside a call (in-place rewrite of object files and of token.object; object creation "
              "in two commits): see known_findings.txt.")
LEVEL_NOTE = ("Not a proof-level claim: process death inside a call is runtime behaviour the executable model cannot exhibit by itself; it is decided by enumeration against the "
              "real library, the model judging the outcome. Trusted: interposition harness, Lean model as oracle.")
TECHNIQUE = "exhaustive crash-point enumeration by libc interposition + fork/_exit/exec, judged by the Lean model (S0/S1 through restart); Lean theorems for the between-calls and torn-file clauses"
