"""C14 — token initialisation, re-initialisation and isolation between tokens."""
from ..main import k_suite, Violation, parse_mismatch, Trace
from .. import gen

LEAN_MODULES = ["Shm.Props.C14"]
GEN_TABLES = ["StoreSample.lean", "Access.lean", "ClassTable.lean"]
LEVEL = "proof"
OPS = {"inittoken", "slots", "login", "logout", "initpin", "setpin", "dumpdir", "getattr", "find", "findinit", "create", "sinfo", "open", "destroy", "copy", "setattr", "closeall", "close"}
RULE = ("K14-tokens: seeded histories on 2..5 tokens: C_InitToken on the free slot (more tokens appear during the history) and on initialised tokens (right / wrong / "
        "near-miss SO PIN, with / without open sessions), PIN and login calls, private token objects, C_Finalize/C_Initialize, process exit and clean restarts; before EVERY "
        "call all tokens are observed (C_GetSlotList/C_GetSlotInfo/C_GetTokenInfo: slot ids, labels, serials, flags; one session state and the visible objects per token), "
        "so a change leaking from one token to another shows at the next observation; the directory is dumped around restarts and decoded by the Lean driver (one "
        "directory per token, token.object with label/serial/flags/PIN blobs, objects). K14-objects: the C05 object histories on three tokens with restarts. "
        "Slot ids after a restart must equal strtoul(last 8 serial characters, 16) & 0x7FFFFFFF as computed by the model.")
TRUSTED = ["C++ harness p11drv + python generators"]
ASSUMPTIONS = ["softhsm2-util --init-token/--delete-token are thin wrappers over C_InitToken/C_InitPIN and directory removal; they are not driven here",
               "two serials that hash to the same slot id (known finding, DESIGN.md section 6) do not occur in these histories: serials are 16 random hex characters",
               "SQLite backend: API-level runs only (C20)"]


def in_projection(m):
    return m["op"] in OPS


def sig_of(m):
    return "%s.%s.model%s.impl%s" % (m["op"], m["cat"], m["modelrv"], m["implrv"])


def run_k(ctx, kres):
    tables = gen.load_tables()
    n, ops = (24, 50) if ctx.quick else (400, 100)
    traces = [Trace("tokens%d" % i, gen.pin_history(ctx.seed * 32452843 + i, ops, ntok=2 + i % 2, observe=True, grow=True)) for i in range(n)]
    v = k_suite(ctx, kres, "K14-tokens", traces, in_projection, sig_of=sig_of)
    n2, ops2 = (8, 40) if ctx.quick else (120, 80)
    t2 = [Trace("objects%d" % i, gen.persist_history(ctx.seed * 49979687 + i, tables, ops2, ntok=3)) for i in range(n2)]
    v += k_suite(ctx, kres, "K14-objects", t2, in_projection, sig_of=sig_of)
    # two processes: a re-initialisation by one process stays, whatever an older process (token loaded before) writes afterwards; a fresh process judges
    from .. import gen2, ksuites
    v += k_suite(ctx, kres, "K14-two-process-reinit", [Trace("two-process-reinit", gen2.c14_two_process_reinit(ctx.seed))], lambda m: False, direct=ksuites.expect_login_direct, shrink_budget=0)
    return v


def judge(ctx, results):
    out = []
    for r in results:
        if r.mism:
            m = parse_mismatch(r.mism[0])
            if m and in_projection(m): out.append(Violation(sig_of(m), r.mism[0], r.trace.ops))
    return out


LEVEL_TEXT = ("Lean 4 theorems (lean/Shm/Props/C14.lean): C_InitToken succeeds only without sessions on the slot and with an admissible PIN; on the free slot it creates the "
              "token with the given label and SO PIN; on an initialised token only with that token's SO PIN, and then removes exactly that token's token objects and user PIN "
              "and keeps SO PIN and serial; a refused call changes no PIN and no object; after it C_GetSlotList has a free slot again. C_Initialize finds every token again "
              "(none lost, none invented) with label, serial, PINs and stored flags unchanged, nobody logged in, in the slot computed from the serial; a restart keeps every "
              "record. Isolation: a call addressed to slot a (through a session of a, or by slot number) leaves the complete record of every other token untouched - label, "
              "serial, PINs, flags, login state - for every call of the core machine; the cryptographic and key-generation calls change no token record. Object-level "
              "isolation is decided by the correspondence (every token observed before every call), see note.")
LEVEL_NOTE = ("Trusted: Lean kernel + standard axioms; hand model validated by K14. The object part of the isolation clause has no theorem of its own yet (it needs the "
              "owner/slot and unique-oid invariants): it rests on K14's observations and on the model being per-token; sessions/handles of other tokens: C11's exact-purge theorems.")
TECHNIQUE = "Lean 4 exactness / frame theorems per slot; correspondence on 2..5 tokens with full observation of all tokens before every call and Lean-decoded directory dumps"
