"""C08 — attribute policy: read-only, one-way and history attributes hold."""
from ..main import k_suite, Violation, parse_mismatch
from .. import ksuites

LEAN_MODULES = ["Shm.Props.C08", "Shm.Props.FactsC08"]
GEN_TABLES = ["EntryFacts.lean", "AttrUpdate.lean", "ClassTable.lean"]
LEVEL = "proof"
RULE = ("T08: as T02 (generated class tables and update programs). K08: object histories over all 25 classes: creation templates with injected defects "
        "(forbidden/history attributes at random positions, wrong sizes, foreign attributes), C_SetAttributeValue / C_CopyObject templates over every class "
        "attribute with valid and invalid values, MODIFIABLE/COPYABLE/DESTROYABLE set false then exercised, CKA_TRUSTED from user and SO sessions, and "
        "C_GetAttributeValue of LOCAL/KEY_GEN_MECHANISM/ALWAYS_SENSITIVE/NEVER_EXTRACTABLE. A disagreement counts for C08 when the library accepts a "
        "create/set/copy/destroy that the model refuses, or reports other history-attribute values than the model.")
TRUSTED = ["C++ harness p11drv + python generators", "tools/translate_attrs.py and tools/tabledump.cpp"]
ASSUMPTIONS = ["history attributes of generated / unwrapped / derived keys are checked once those calls are in the model"]

HISTORY = {0x163, 0x164, 0x165, 0x166}


def in_projection(m):
    if m["op"] in ("create", "setattr", "copy", "destroy"):
        return m["implrv"] == 0 and m["modelrv"] not in (0, None)
    if m["op"] == "getattr" and m["cat"] in ("nums", "vals"):
        req = {int(w.split(":")[0], 16) for w in m["opline"].split()[3:] if ":" in w}
        return bool(req & HISTORY)
    return False


def run_k(ctx, kres):
    from .. import gen
    from ..main import Trace
    v = k_suite(ctx, kres, "K08-flag-matrix(exhaustive)", [Trace("matrix", gen.flag_matrix(gen.load_tables(), ctx.seed))], in_projection)
    v += k_suite(ctx, kres, "K08-objects", ksuites.object_traces(ctx, salt=81), in_projection)
    # history attributes of derived and unwrapped keys (C_DeriveKey / C_UnwrapKey paths of the model)
    n = 16 if ctx.quick else 300
    v += k_suite(ctx, kres, "K08-derive-unwrap", [Trace("wrap%d" % i, gen.wrap_history(ctx.seed * 2750159 + i, 50)) for i in range(n)], in_projection)
    # CKA_LOCAL / ALWAYS_SENSITIVE / NEVER_EXTRACTABLE of unwrapped secret AND private keys, for every PRIVATE / EXTRACTABLE / SENSITIVE / TOKEN choice of the template
    from .. import gen2
    mt, ncell = gen2.c13_unwrap_matrix(ctx.seed, sample=180 if ctx.quick else None)
    v += k_suite(ctx, kres, "K08-unwrap-matrix", [Trace("unwrap-matrix", mt)], in_projection)
    v += k_suite(ctx, kres, "K08-derive-matrix", [Trace("derive-matrix", gen2.c02_derive_matrix(ctx.seed))], in_projection)
    # CKA_TRUSTED = true by nobody / the user / the SO, through create, generate, copy and set, on every class that has the attribute
    def trusted_proj(m): return in_projection(m) or (m["op"] in ("getattr", "genkey") and m["cat"] in ("rvclass", "vals", "nums"))
    v += k_suite(ctx, kres, "K08-derive-asym-matrix", [Trace("derive-asym-matrix", gen2.c08_derive_asym_matrix(ctx.seed))], in_projection)
    v += k_suite(ctx, kres, "K08-trusted-matrix", [Trace("trusted-matrix", gen2.c08_trusted_matrix(ctx.seed))], trusted_proj)
    return v


def judge(ctx, results):
    out = []
    for r in results:
        if r.mism:
            m = parse_mismatch(r.mism[0]); m["result"] = r
            if in_projection(m): out.append(Violation("%s.%s" % (m["op"], m["cat"]), r.mism[0], r.trace.ops))
    return out


LEVEL_TEXT = ("Lean 4 theorems (lean/Shm/Props/C08.lean) over the GENERATED class tables and update programs: MODIFIABLE/COPYABLE/DESTROYABLE = false make "
              "C_SetAttributeValue/C_CopyObject/C_DestroyObject answer CKR_ACTION_PROHIBITED without effect; copy cannot turn a private object public; for every class, "
              "operation kind and template CKA_TRUSTED stays false unless the SO is logged in (abstract interpretation, soundness proved); a template naming LOCAL / "
              "KEY_GEN_MECHANISM / ALWAYS_SENSITIVE / NEVER_EXTRACTABLE at any position is rejected for every class and operation kind; C_CreateObject writes LOCAL = "
              "ALWAYS_SENSITIVE = NEVER_EXTRACTABLE = false; CLASS/KEY_TYPE/TOKEN/PRIVATE/MODIFIABLE/DESTROYABLE are rejected by C_SetAttributeValue in all 25 classes.")
LEVEL_NOTE = ("Trusted: Lean kernel + standard axioms; translator and tabledump; hand-written model of the entry points validated by differential runs. History-attribute "
              "TRUTH across generate/unwrap/derive/copy chains is checked by correspondence only once those calls are modelled.")
TECHNIQUE = "Lean 4: decide over generated tables + sound abstract interpretation + syntactic never-succeeds check of translated programs; differential histories"
