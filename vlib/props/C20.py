"""C20 — behaviour does not depend on the storage backend or the crypto backend."""
from ..main import k_suite, Violation, parse_mismatch, Trace, pick_mismatch
from .. import gen

LEAN_MODULES = ["Shm.Props.C20"]
GEN_TABLES = ["ClassTable.lean", "AttrUpdate.lean", "MechTable.lean", "Access.lean", "DbKinds.lean"]
LEVEL = "proof"
VARIANTS = lambda tier: ("plain", "db", "botan", "botandb")
CONFIGS = [("db", "db", "file+SQLite / OpenSSL"), ("botan", "file", "files / Botan"), ("botandb", "db", "SQLite / Botan")]
RULE = ("ONE model judges FOUR builds. The library is built from /repo in the configurations {files, SQLite} x {OpenSSL, Botan} (the Botan builds from an own file list, DESIGN.md), "
        "and the same seeded histories - object management with restarts (C05), session / login / handle histories (C03/C11), PIN histories (C04), operation histories (C12), "
        "reference-crypto histories (C10: every output recomputed by the Lean reference) and wrap / unwrap / derive histories (C13) - run against each build next to the SAME "
        "Lean model and reference implementations that the files/OpenSSL build is held to by all other checks. Return codes, handles, attribute values, object populations and, "
        "through the reference, every deterministic output are thereby compared between all four configurations; outputs of randomised mechanisms of every build verify under "
        "the one reference. Directory dumps are not part of these runs (SQLite's file format is not modelled).")
TRUSTED = ["C++ harness p11drv + python generators", "the Lean model and reference implementations as the common yardstick (validated against the files/OpenSSL build by the other checks)",
           "hand-made Botan build (own compile list + config.h derived from the CMake one)"]
ASSUMPTIONS = ["mechanisms the reference does not compute (DES, PSS, OAEP, EdDSA, ...) are compared at the level of return codes and lengths only",
               "mechanisms advertised by one crypto backend only are not exercised"]


def classify(variant, m):
    """known structural differences get a stable name; anything else is identified by what differed"""
    if variant in ("db", "botandb") and m["op"] == "copy": return "sqlite:copy-of-token-object"
    if variant in ("db", "botandb") and m.get("result") is not None:
        # A C_CopyObject that "succeeded" on SQLite leaves an object without the source's attributes on the token (the known finding): every later disagreement of that
        # trace is its consequence (searches that meet the attribute-less object fail or miss it).  Only the object histories still contain copies on the SQLite builds.
        lines = m["result"].transcript.splitlines()
        for i in range(0, min(len(lines) - 1, m["line"])):
            if lines[i].startswith("copy ") and lines[i + 1].startswith("= 0 "): return "sqlite:copy-of-token-object"
    if variant in ("botan", "botandb"):
        if m["op"] in ("encupd", "decupd") and m["cat"] == "nums" and m["implrv"] == 0 and m["modelrv"] == 0: return "botan:multipart-output-distribution"
        if m["op"] in ("encupd", "decupd", "encfinal", "decfinal") and m["cat"] in ("rvclass", "rvcode", "nums", "vals") and ("336" in (str(m["implrv"]), str(m["modelrv"]))):
            return "botan:multipart-output-distribution"
        if m["cat"] == "crypto" and m["op"] == "dec" and m["opline"].split()[2] == ".": return "botan:decrypt-of-empty-input"
        # the same through the multi-part calls: C_DecryptFinal with nothing fed (the reference decrypts to the empty string, the token answers CKR_GENERAL_ERROR)
        if m["cat"] == "crypto" and m["op"] == "decfinal" and m["implrv"] == 5 and "reference decrypts to ." in m["why"]: return "botan:decrypt-of-empty-input"
    return "%s:%s.%s.model%s.impl%s" % (variant, m["op"], m["cat"], m["modelrv"], m["implrv"])


def run_k(ctx, kres):
    tables = gen.load_tables()
    def nodump(t): return "\n".join(("nop" if l == "dumpdir" else l) for l in t.split("\n"))
    n = 6 if ctx.quick else 60
    S = [("objects", lambda s: gen.object_history(s, tables, 40)), ("persist", lambda s: nodump(gen.persist_history(s, tables, 40))), ("sessions", lambda s: gen.spine_history(s, 30)),
         ("operations", lambda s: gen.ops_history(s, 60)), ("reference-crypto", lambda s: gen.crypto_history(s, 40)), ("wrap-derive", lambda s: gen.wrap_history(s, 40)),
         ("pins", lambda s: nodump(gen.pin_history(s, 50)))]
    v = []
    for variant, backend, what in CONFIGS:
        if not ctx.stamp["variants"].get(variant, {}).get("ok"):
            v.append(Violation("%s:build" % variant, "configuration %s does not build from the current tree: %s" % (what, str(ctx.stamp["variants"].get(variant))[-800:]), "{}", False)); continue
        # SQLite builds: C_CopyObject (known finding) stays in the object histories only, so that the other suites judge everything else on an undamaged token
        def nocopy(t): return "\n".join(("nop" if l.startswith("copy ") else l) for l in t.split("\n"))
        prep = (lambda nm, t: nocopy(t) if (backend == "db" and nm != "objects") else t)
        traces = [Trace("%s-%s%d" % (variant, nm, i), prep(nm, mk(ctx.seed * 179424673 + i)), variant=variant, backend=backend) for nm, mk in S for i in range(n)]
        # the rejected-template matrix of C09 (every class, every modifiable attribute in front of a rejected entry): the stores roll back differently (file: re-read; SQLite: transaction + cache)
        from .. import gen2
        traces.append(Trace("%s-prefix-matrix" % variant, nodump(gen2.c09_prefix_matrix(tables, ctx.seed, copies=(backend != "db"))), variant=variant, backend=backend))
        v += k_suite(ctx, kres, "K20-%s (%s)" % (variant, what), traces, lambda m: True, sig_of=lambda m, variant=variant: classify(variant, m), shrink_budget=20)
    return v


def judge(ctx, results):
    out = []
    for r in results:
        if r.mism:
            m = parse_mismatch(r.mism[0])
            if m: out.append(Violation(classify(r.trace.variant, m), r.mism[0], r.trace.ops))
    return out


LEVEL_TEXT = ("Backend independence by construction of the yardstick: the Lean model (state machine, attribute engine translated from the source, wrap/derive model) and the Lean "
              "reference crypto contain NO notion of a backend; the theorems of C01-C14 are about that one model. Each of the four builds is tied to it by the correspondence suites, "
              "so two builds that both agree with the model agree with each other on everything the model observes. Theorems specific to this property (lean/Shm/Props/C20.lean): "
              "the model's answer is a function of the call history and the observed oracle values alone.")
LEVEL_NOTE = ("Scope: each build is compared with the model in ONE process at a time; two processes sharing a SQLite token are not explored (seed C20-c is not caught; DESIGN 0.9 I). Trusted: the correspondence runs (differential testing against the four builds); the known structural differences of the SQLite backend (C_CopyObject of token objects is "
              "unimplemented: DBObject::nextAttributeType) and of the Botan backend (block output only at the final call; empty input to C_Decrypt) are recorded as known findings.")
TECHNIQUE = "one Lean model + reference crypto as common yardstick; correspondence suites run against four builds ({files, SQLite} x {OpenSSL, Botan})"
