"""C10 — cryptographic results are correct, interoperable and verification is sound."""
from ..main import k_suite, Violation, parse_mismatch, Trace
from .. import gen

LEAN_MODULES = ["Shm.Props.C10"]
GEN_TABLES = ["MechTable.lean"]
LEVEL = "proof"
RULE = ("K10: seeded histories with keys whose VALUES the reference knows (AES-128/192/256; generic secrets of 1..200 bytes; an imported RSA-1024 key with all CRT components; an "
        "imported P-256 key pair): AES ECB / CBC / CBC_PAD / CTR (counter widths 8..128, counter blocks at the wrap-around) / GCM (IV lengths 1, 12, 16, 60; AAD 0..33 bytes; tags "
        "32..128 bits), message lengths 0..100 around every block boundary, single-part or cut into 1..5 pieces at random byte positions (empty pieces included); decryption of "
        "the token's own ciphertexts, untouched or with one bit flipped in the ciphertext / tag / IV / AAD / counter block, single- or multi-part; HMAC-SHA1/224/256/384/512, "
        "AES-CMAC, RSA PKCS#1 v1.5 (raw payload and SHA-1..512 with DigestInfo), ECDSA P-256; verification of the token's own signatures untouched / data changed / signature "
        "changed; SHA-1/224/256/384/512 digests; HMACs computed by a foreign implementation (python hmac) verified by the token, untouched and tampered. EVERY completed operation "
        "is recomputed by the Lean reference implementations (monitor Shm/CryptoMon.lean): outputs must be equal (deterministic mechanisms) or verify (ECDSA), and the token's "
        "accept / reject verdict must equal the reference's for every untouched and every tampered input. K10-derived-secrets: the C13 histories; the VALUE of every key derived with "
        "DH (half of the peers chosen so that the shared secret has a leading zero octet), ECDH P-256, AES_ECB/CBC_ENCRYPT_DATA and the concatenations is read back and compared.")
TRUSTED = ["Lean reference implementations (FIPS/NIST/RFC vectors: AES-128/192/256, SHA-1/224/256/384/512, HMAC, CMAC RFC 4493, CTR SP 800-38A F.5, GCM test cases 4 and 6, P-256 2G and nG)",
           "C++ harness p11drv (relay ops feed the token's earlier outputs back) + python generator"]
ASSUMPTIONS = ["round 2 added references for triple DES (ECB / CBC / CBC_PAD / CMAC; FIPS 46-3 example vector), MD5 and MD5-HMAC (RFC 1321 vectors), RSASSA-PSS verification (all five hashes, "
               "and CKM_RSA_PKCS_PSS on a caller-made hash), RSA decryption of the token's PKCS#1 v1.5 / OAEP(SHA-1) / raw ciphertexts with the private exponent; every signing / digesting / "
               "encrypting call is preceded at random by length queries and too-small buffers (they must leave the operation unchanged: the result is still the reference's)",
               "not recomputed (no reference here): single DES (needs OpenSSL's legacy provider), DSA, ECDSA on P-384/P-521, EdDSA, GOST - they are exercised for the output-length protocol (C12) only", "key sizes: AES 128/192/256, RSA 1024, P-256",
               "tamper detection of unauthenticated modes (ECB/CBC/CTR) is not a property of those modes: for them only equality with the reference is checked"]


def in_projection(m):
    return m["cat"] == "crypto"


def sig_of(m):
    return "crypto.%s" % m["ctx"].get("cls", m["op"])


def rank(m):
    return 0 if m["cat"] == "crypto" else 1


def run_k(ctx, kres):
    n, ops = (32, 40) if ctx.quick else (600, 80)
    traces = [Trace("crypto%d" % i, gen.crypto_history(ctx.seed * 122949829 + i, ops)) for i in range(n)]
    v = k_suite(ctx, kres, "K10-reference", traces, in_projection, sig_of=sig_of, rank=rank)
    # derived secrets (DH with short shared secrets, ECDH P-256, AES data encryption, concatenations): the values read back from the derived keys
    n2 = 16 if ctx.quick else 300
    t2 = [Trace("derive%d" % i, gen.wrap_history(ctx.seed * 141650939 + i, 40)) for i in range(n2)]
    v += k_suite(ctx, kres, "K10-derived-secrets", t2, lambda m: m["op"] == "getattr" and m["cat"] == "vals", sig_of=lambda m: "derived-secret.value")
    return v


def judge(ctx, results):
    out = []
    for r in results:
        for l in r.mism:
            m = parse_mismatch(l)
            if m and in_projection(m):
                out.append(Violation(sig_of(m), l, r.trace.ops)); break
    return out


LEVEL_TEXT = ("Lean 4 theorems (lean/Shm/Props/C10.lean) about the reference, for EVERY block function (with a left inverse where decryption is involved): CBC decrypt(encrypt(M)) = M; "
              "CBC_PAD round trip for every message; CTR is an involution for every length and counter width; GCM authenticated decryption accepts exactly what encryption produced "
              "and returns the plaintext, for every IV, AAD and tag length; encrypting a message in pieces equals encrypting it at once (CBC chaining); PKCS#7 unpad(pad(M)) = M. "
              "The property itself - the TOKEN equals the standard - is decided by K10: the Lean reference implementations, written from the standards and checked against their "
              "vectors, recompute every completed operation of every history and judge every accept / reject verdict on tampered inputs.")
LEVEL_NOTE = ("Trusted: Lean kernel + standard axioms for the mode theorems; the reference implementations themselves are validated by standard vectors and by agreement with the library, "
              "not proved against a formal specification of AES/SHA; that a flipped bit makes verification fail is a cryptographic claim no theorem here makes - it is tested with "
              "one flipped bit per tampered input.")
TECHNIQUE = "independent reference implementations in Lean recompute every operation (monitor in the model driver); Lean theorems for the block-cipher modes over abstract block functions, the Feistel inversion of DES for every round function, PKCS#1 framing"
