"""C09 — a call that fails has no effect on objects."""
from ..main import k_suite, Violation, parse_mismatch
from .. import ksuites

LEAN_MODULES = ["Shm.Props.C09", "Shm.Props.FactsC09"]
GEN_TABLES = ["EntryFacts.lean", "Access.lean", "AttrUpdate.lean", "ClassTable.lean"]
LEVEL = "proof"
RULE = ("K09: seeded histories over objects of all 25 classes of the generated class table; about 30% of the creating calls carry one injected "
        "defect (unknown / foreign / forbidden / wrongly sized / missing mandatory / inconsistent attribute, too many attributes), C_SetAttributeValue "
        "and C_CopyObject templates mix valid and invalid entries at random positions; after the failing calls the object population (C_FindObjects by "
        "several templates) and attribute values (C_GetAttributeValue of every class attribute) are compared with the model, in which a failing call "
        "changes nothing (theorem).")
TRUSTED = ["C++ harness p11drv + python generators", "tools/translate_attrs.py and tools/tabledump.cpp (generated tables)"]
ASSUMPTIONS = ["file-system faults are not injected in this check (logic failures only); fault/crash behaviour is C05/C16"]


def in_projection(m):
    # the object population or an attribute value differs from the model AFTER a call the implementation refused
    if m["op"] in ("findinit", "find") and m["cat"] in ("nums", "rvclass"): pass
    elif m["op"] == "getattr" and m["cat"] in ("nums", "vals"): pass
    elif m["op"] in ("create", "copy", "setattr", "destroy") and m["cat"] == "nums": pass
    else: return False
    return ksuites.last_failed_mutation(m["result"], m["line"]) is not None


def in_projection_matrix(m):
    # in the matrix EVERY read follows refused calls: any disagreement about an attribute value, the population, the directory or the acceptance of the final valid change counts
    return (m["op"] in ("getattr", "find", "findinit", "dumpdir") and m["cat"] in ("nums", "vals", "rvclass", "disk")) or (m["op"] in ("setattr", "copy") and m["cat"] in ("rvclass", "nums"))


def sig_of_matrix(m):
    return "prefix-matrix.%s.%s" % (m["op"], m["cat"])


def sig_of(m):
    lf = ksuites.last_failed_mutation(m["result"], m["line"])
    return "effect-after-failed-%s" % (lf[1].split()[0] if lf else "call")


def run_k(ctx, kres):
    from .. import gen
    from ..main import Trace
    v = k_suite(ctx, kres, "K09-objects", ksuites.corpus_traces("C09") + ksuites.object_traces(ctx), in_projection, sig_of=sig_of)
    # every class x every way a two-entry template is refused x both orders: no prefix applied, nothing found under the refused label, object still changeable, disk = model
    from .. import gen2
    v += k_suite(ctx, kres, "K09-prefix-matrix(exhaustive)", [Trace("prefix-matrix", gen2.c09_prefix_matrix(gen.load_tables(), ctx.seed))], in_projection_matrix, sig_of=sig_of_matrix, shrink_budget=60)
    # refused C_GenerateKeyPair: the private (or the public) template is rejected after / before the other half was made; nothing may stay, handle numbers go on as modelled
    def gp_proj(m): return in_projection_matrix(m) or (m["op"] == "genpair" and m["cat"] in ("rvclass", "nums"))
    v += k_suite(ctx, kres, "K09-genpair-failures", [Trace("genpair-failures", gen2.c09_genpair_failures(ctx.seed))], gp_proj, sig_of=sig_of_matrix, shrink_budget=60)
    # refused C_UnwrapKey (damaged blobs) / C_DeriveKey (too-short secrets, bad parameters): nothing may stay behind
    n = 16 if ctx.quick else 300
    v += k_suite(ctx, kres, "K09-unwrap-derive", [Trace("wrap%d" % i, gen.wrap_history(ctx.seed * 3497861 + i, 50)) for i in range(n)], in_projection, sig_of=sig_of)
    return v


def judge(ctx, results):
    out = []
    for r in results:
        if r.mism:
            m = parse_mismatch(r.mism[0]); m["result"] = r
            if in_projection(m): out.append(Violation(sig_of(m), r.mism[0], r.trace.ops))
    return out


LEVEL_TEXT = ("Lean 4 theorems (lean/Shm/Props/C09.lean) over the executable model whose attribute engine is GENERATED from the code (P11Attribute::update and "
              "every updateAttr body translated to an IR, class tables dumped by executing the P11Object init chains): every failing C_CreateObject / C_CopyObject / "
              "C_SetAttributeValue / C_DestroyObject leaves the object list, all attribute maps and the handle table exactly as they were, for templates invalid at "
              "any position. Tie: translator + correspondence histories with injected template defects.")
LEVEL_NOTE = ("Trusted: Lean kernel + standard axioms; translator for the C++ subset; the model's transaction semantics (abort = restore) validated against the library "
              "by differential runs. File-system failure modes are not part of this check.")
TECHNIQUE = "Lean 4 frame theorem over a model generated from the source (IR translator + tables by execution); differential histories with injected defects"
