"""C12 — one active operation per session and an honest output-length protocol."""
from ..main import k_suite, Violation, parse_mismatch, Trace
from .. import gen

LEAN_MODULES = ["Shm.Props.C12", "Shm.Props.FactsC12"]
GEN_TABLES = ["EntryFacts.lean", "MechTable.lean", "Access.lean"]
LEVEL = "proof"
OPS = {"encinit", "decinit", "siginit", "verinit", "diginit", "findinit", "enc", "dec", "sign", "digest", "verify", "encupd", "decupd", "sigupd", "verupd", "digupd",
       "digkey", "encfinal", "decfinal", "sigfinal", "verfinal", "digfinal", "find", "findfinal"}
RULE = ("K12-smallscope: for each of 34 mechanism profiles (AES ECB/CBC/CBC_PAD/CTR/GCM and DES3 ECB/CBC_PAD, encrypt and decrypt; HMAC, CMAC, RSA PKCS / "
        "SHA256-RSA / PSS, ECDSA, EdDSA signing; HMAC/RSA/ECDSA verification; SHA-1/SHA-256 digests incl. C_DigestKey; RSA PKCS/OAEP/X.509 encrypt and decrypt; find) "
        "EVERY sequence of d calls from the profile's alphabet (start, 3-4 single-part calls with NULL / too small / large buffer, 1-5 update calls, 2-3 final calls, "
        "3-4 calls of other operation kinds), both from an idle session and after a successful start, each in a fresh session (quick d=2, thorough d=3); "
        "K12-histories: seeded random multi-session histories mixing all kinds with random lengths and buffer sizes. Every return code, reported length, presence of "
        "output bytes and the guard words behind the announced buffer are compared with the model; overruns are also flagged directly from the implementation transcript.")
TRUSTED = ["C++ harness p11drv (guard words 0xDEADBEEF behind every output buffer) + python generators"]
ASSUMPTIONS = ["sequential calls (threads are C18)",
               "contents of produced bytes are the primitive's (C10); data-dependent failures of the primitive (bad padding, tag mismatch, signature invalid) are read from the observation"]


def in_projection(m):
    return m["op"] in OPS


def sig_of(m):
    return "%s.%s.model%s.impl%s" % (m["op"], m["cat"], m["modelrv"], m["implrv"])


def direct(r):
    """implementation side only: bytes written behind the announced length, more bytes reported than announced, an insufficient length answer"""
    out = []
    lines = r.transcript.splitlines()
    last = {}      # session -> (call without cap, announced length answer)
    for i in range(0, len(lines) - 1):
        op, res = lines[i].split(), lines[i + 1].split()
        if not op or not res or res[0] != "=" or op[0] == "=" or op[0] not in OPS: continue
        if "!OVERRUN" in res:
            out.append(("overrun", "`%s` wrote behind the announced buffer: %s" % (" ".join(op), " ".join(res)))); continue
        if op[0] in ("enc", "dec", "sign", "digest", "encupd", "decupd", "encfinal", "decfinal", "sigfinal", "digfinal") and len(res) >= 4:
            cap = op[-1]; rv = res[1]; sess = op[1]
            try: ln = int(res[3])
            except ValueError: continue
            key = tuple(op[:-1])
            if rv == "0" and cap != "n" and ln > int(cap):
                out.append(("toolong", "`%s` reports %d bytes for a %s-byte buffer" % (" ".join(op), ln, cap)))
            if rv == "336" and cap != "n" and ln <= int(cap):
                out.append(("bogus-small", "`%s` answers CKR_BUFFER_TOO_SMALL although %d <= %s" % (" ".join(op), ln, cap)))
            prev = last.get(sess)
            if prev and prev[0] == key and cap != "n" and int(cap) >= prev[1] and rv == "336":
                out.append(("insufficient", "`%s` was told %d bytes suffice, then answers CKR_BUFFER_TOO_SMALL for %s" % (" ".join(op), prev[1], cap)))
            if rv in ("0", "336") and (cap == "n" or rv == "336"): last[sess] = (key, ln)
            else: last.pop(sess, None)
        elif len(op) > 1: last.pop(op[1], None)
    return out


def run_k(ctx, kres):
    # a call that takes the process down wrote or read outside its buffers: within this property's domain that is a violation, not an abandoned trace
    ctx.crash_is_violation = True
    txt, n = gen.c12_smallscope(ctx.seed, 2 if ctx.quick else 3)
    v = k_suite(ctx, kres, "K12-smallscope(exhaustive,%d sequences)" % n, [Trace("smallscope", txt)], in_projection, sig_of=sig_of, direct=direct, shrink_budget=80)
    nh = 40 if ctx.quick else 800
    from .. import ksuites
    hs = ksuites.corpus_traces("C12") + [Trace("ops%d" % i, gen.ops_history(ctx.seed * 7919 + i, 60 if ctx.quick else 120, rsa=(i % 3 != 2))) for i in range(nh)]
    v += k_suite(ctx, kres, "K12-histories", hs, in_projection, sig_of=sig_of, direct=direct)
    return v


def judge(ctx, results):
    out = []
    for r in results:
        for s, t in direct(r): out.append(Violation(s, t, r.trace.ops))
        if r.mism:
            m = parse_mismatch(r.mism[0])
            if m and in_projection(m): out.append(Violation(sig_of(m), r.mism[0], r.trace.ops))
    return out


LEVEL_TEXT = ("Lean 4 theorems (lean/Shm/Props/C12.lean) over the executable model of the operation gate and the size logic of SoftHSM.cpp: every *Init on a session with an "
              "active operation returns CKR_OPERATION_ACTIVE and changes nothing; every continuation of an operation of another kind (or none) returns "
              "CKR_OPERATION_NOT_INITIALIZED; a failed start leaves no operation; a NULL-pointer query or CKR_BUFFER_TOO_SMALL answer returns the SAME state; reported "
              "lengths are exact for fixed-size outputs and bounded by input + buffered + one block (+ tag at the final of GCM) for ciphers; CKR_OK with a buffer reports at "
              "most the announced size. Unbounded in history length, sessions, input and buffer sizes. Tie: exhaustive small-scope call orders and random histories run "
              "against the library with guard words behind every buffer.")
LEVEL_NOTE = ("Trusted: Lean kernel + standard axioms; hand-written model of the gates/size logic validated by the correspondence suites; primitive outputs and data-dependent "
              "primitive failures are oracle inputs the theorems quantify over.")
TECHNIQUE = "Lean 4 frame/invariant theorems over a hand model of the operation state machine; correspondence by exhaustive small-scope call orders + random histories"
