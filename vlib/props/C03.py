"""C03 — session and login state machine follows the PKCS#11 rules."""
import itertools, random
from .. import gen
from ..gen import hx
from ..main import Trace, k_suite, run_trace, parse_mismatch, Violation

LEAN_MODULES = ["Shm.Props.C03", "Shm.Props.FactsC03"]
GEN_TABLES = ["EntryFacts.lean", ]
LEVEL = "proof"
RULE = ("K03a: EXHAUSTIVE enumeration of all call sequences up to a bounded length over the alphabet {open RO/RW on token A, open RW on B, "
        "close s1..s3, closeAll A, login(s1|s2, USER|SO, right|wrong PIN), login context-specific, logout s1|s2, initToken A right|wrong PIN, "
        "initPIN s1, setPIN s1 right|wrong} starting from two initialised tokens (A with user PIN), each sequence from an identical restored token "
        "directory; after every call C_GetSessionInfo of sessions 1..4 is compared with the Lean model. K03b: seeded random histories of the "
        "spine generator (sessions, logins, objects) compared call by call.")
TRUSTED = ["C++ harness p11drv + python generators (differential testing of the model against the library)",
           "ideal-PBE reading of PIN blobs in the model (a blob opens exactly under the PIN it was made from)"]
ASSUMPTIONS = ["sequential calls (the concurrent SO/RO exclusion is C18)", "PIN verification is ideal (real magic check false-accepts with probability ~2^-24..2^-32)"]

SO_A, USER_A, SO_B = "soApin", "userApin", "soBpin"
LA, LB = "tokA", "tokB"


def alphabet():
    A, B = f"t:{hx(LA)}", f"t:{hx(LB)}"
    al = [f"open {A} 4", f"open {A} 6", f"open {B} 6", "close 1", "close 2", "close 3", f"closeall {A}"]
    for s in (1, 2):
        al += [f"login {s} 1 {hx(USER_A)}", f"login {s} 0 {hx(SO_A)}"]
    al += [f"login 1 1 {hx('wrongpin')}", f"login 1 0 {hx(USER_A)}", f"login 1 2 {hx(USER_A)}", "logout 1", "logout 2",
           f"inittoken {A} {hx(SO_A)} {hx(LA)}", f"inittoken {A} {hx('badsopin')} {hx(LA)}",
           f"initpin 1 {hx('newuser1')}", f"setpin 1 {hx(USER_A)} {hx('changed1')}", f"setpin 1 {hx('wrongold')} {hx('changed2')}"]
    return al


PROLOGUE = ["init", "slots", f"inittoken free {hx(SO_A)} {hx(LA)}", "slots", f"inittoken free {hx(SO_B)} {hx(LB)}", "slots",
            f"open t:{hx(LA)} 6", f"login 1 0 {hx(SO_A)}", f"initpin 1 {hx(USER_A)}", "close 1", "fini", "snapshot base"]
OBS = ["sinfo 1", "sinfo 2", "sinfo 3", "sinfo 4"]


def block(seq):
    ls = ["restore base", "init", "slots"]
    for op in seq:
        ls.append(op); ls += OBS
    ls += ["slots", "fini"]
    return ls


def exhaustive_traces(length, nchunks, sample=None, rng=None):
    al = alphabet()
    seqs = itertools.product(al, repeat=length)
    if sample is not None:
        seqs = [tuple(rng.choice(al) for _ in range(length)) for _ in range(sample)]
    chunks = [[] for _ in range(nchunks)]
    n = 0
    for i, seq in enumerate(seqs):
        chunks[i % nchunks].append(seq); n += 1
    traces = []
    for ci, ch in enumerate(chunks):
        lines = list(PROLOGUE)
        for seq in ch: lines += block(seq)
        traces.append(Trace(f"bfs{length}-{ci}", "\n".join(lines) + "\n"))
    return traces, n


def in_projection(m):
    # session states (sinfo), and success/refusal of every session/login call
    if m["op"] == "sinfo": return True
    if m["op"] in ("open", "close", "closeall", "login", "logout", "inittoken", "initpin", "setpin") and m["cat"] in ("rvclass", "nums"): return True
    return False


def extract_block(trace, lineno):
    """cut the failing sequence out of a giant exhaustive trace: prologue + the block that contains transcript line `lineno`"""
    ops = trace.ops.rstrip("\n").split("\n")
    opi = (lineno - 1) // 2              # transcript has 2 lines per op
    start = opi
    while start > 0 and ops[start] != "restore base": start -= 1
    end = opi
    while end < len(ops) - 1 and ops[end] != "fini": end += 1
    return Trace(trace.name + "-cut", "\n".join(PROLOGUE + ops[start:end + 1]) + "\n")


def run_k(ctx, kres):
    viols = []
    rng = random.Random(ctx.seed)
    # --- K03a exhaustive small scope ---
    L = 3 if ctx.quick else 4
    traces, nseq = exhaustive_traces(L, 16)
    extra, nx = exhaustive_traces(5 if ctx.quick else 6, 16, sample=2000 if ctx.quick else 40000, rng=rng)
    kres["notes"].append(f"K03a: all {nseq} sequences of length {L} over an alphabet of {len(alphabet())} calls (exhaustive) + {nx} random sequences of length {5 if ctx.quick else 6}")
    def sig_of(m): return "%s.%s" % (m["op"], m["cat"])
    # run without shrinking, then cut the block out of the giant trace and shrink that
    vs = k_suite(ctx, kres, "K03a-exhaustive", traces + extra, in_projection, sig_of=sig_of, shrink_budget=0)
    for v in vs:
        # re-locate: run again to find the line, cut the block
        tr = next((t for t in traces + extra if v.replay_text.endswith(t.ops)), None)      # the replay text is the trace header + the op file
        if tr is None:
            viols.append(v); continue
        r = run_trace(tr)
        if r.mism:
            m = parse_mismatch(r.mism[0])
            cut = extract_block(tr, m["line"])
            r2 = run_trace(cut)
            if r2.mism and in_projection(parse_mismatch(r2.mism[0])):
                from ..main import trace_header
                v.replay_text = trace_header(cut) + cut.ops
        viols.append(v)
    # --- K03c the shape of the session table ---
    from .. import gen2
    st, nst = gen2.c03_session_table(ctx.seed, 4 if ctx.quick else 5, sample=None if ctx.quick else 60000)
    kres["notes"].append(f"K03c: {nst} orders of opens / closes / logins / logouts on two tokens (holes and foreign sessions in the session table; logins that outlive their sessions or not), "
                         "each followed by the state of every session, of a fresh session on each token, and the login rules")
    viols += k_suite(ctx, kres, "K03c-session-table(exhaustive)", [Trace("session-table%d" % i, t) for i, t in enumerate(st)], in_projection, sig_of=sig_of, shrink_budget=60, rank=lambda m: m["line"])
    # --- K03d context-specific logins: every order of user / SO / context-specific (right, wrong, SO PIN) logins and logouts around a pending always-authenticate operation ---
    rt, nrt = gen2.c07_reauth_scope(ctx.seed, 3, sample=400 if ctx.quick else None)
    viols += k_suite(ctx, kres, "K03d-context-logins", [Trace("reauth", rt)], in_projection, sig_of=sig_of, shrink_budget=60)
    # --- K03b random histories ---
    n, ops = (30, 40) if ctx.quick else (400, 120)
    hs = [Trace("h%d" % i, gen.spine_history(ctx.seed * 7919 + i, ops, probe_every=False).replace("fini\n", "") + "".join(f"sinfo {k}\n" for k in range(1, 30)) + "fini\n") for i in range(n)]
    viols += k_suite(ctx, kres, "K03b-histories", hs, in_projection, sig_of=sig_of)
    return viols


def judge(ctx, results):
    out = []
    for r in results:
        if r.mism:
            m = parse_mismatch(r.mism[0])
            if m and in_projection(m): out.append(Violation("mismatch", r.mism[0], r.trace.ops))
    return out


LEVEL_TEXT = ("Machine-checked Lean 4 theorems over the executable model of C_OpenSession/C_CloseSession/C_CloseAllSessions/C_Login/C_Logout/"
              "C_InitToken/C_InitPIN/C_SetPIN (lean/Shm/Props/C03.lean): login-state invariants for every reachable state, iff-characterisation of "
              "successful login, refusal rules, return to public state, failed calls change neither sessions nor login state; unbounded traces. "
              "Tie: exhaustive enumeration of all short call sequences plus random histories, compared call by call with the library.")
LEVEL_NOTE = ("Trusted: Lean kernel + standard axioms; the hand-written model validated (not verified) against Session*.cpp/Token.cpp/SoftHSM.cpp by "
              "exhaustive small-scope + random differential runs; PIN blobs modelled by the PIN they were made from (ideal PBE).")
TECHNIQUE = "Lean 4 invariants by induction over call traces + iff characterisations; exhaustive small-scope correspondence with the library"
