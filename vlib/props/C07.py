"""C07 — key usage flags, key type and mechanism restrictions are enforced."""
from ..main import k_suite, Violation, parse_mismatch, Trace
from .. import ksuites, gen

LEAN_MODULES = ["Shm.Props.C07", "Shm.Props.FactsC07"]
GEN_TABLES = ["EntryFacts.lean", "MechTable.lean", "Access.lean", "ClassTable.lean"]
LEVEL = "proof"
CONFIGS = [("ALL", "slots.mechanisms = ALL\n"),
           ("CKM_AES_CBC,CKM_AES_ECB,CKM_SHA256_HMAC,CKM_SHA_1,CKM_RSA_PKCS,CKM_SHA256_RSA_PKCS,CKM_ECDSA,CKM_AES_KEY_GEN,CKM_RSA_PKCS_KEY_PAIR_GEN,CKM_EC_KEY_PAIR_GEN,CKM_EC_EDWARDS_KEY_PAIR_GEN,CKM_BOGUS",
            None),
           ("-CKM_SHA256,CKM_AES_KEY_GEN,CKM_AES_CBC_PAD,CKM_RSA_PKCS_OAEP,CKM_SHA512_HMAC,CKM_EDDSA,CKM_EC_KEY_PAIR_GEN,CKM_DES3_CBC", None),
           # lists as administrators write them: unknown names (another build's mechanism, a typo), an empty entry, a repeated name, a trailing comma
           ("-CKM_MD5_HMAC,CKM_GOSTR3411,CKM_MD5,,CKM_SHA_1,CKM_AES_ECBB,CKM_AES_ECB,CKM_DES3_KEY_GEN,CKM_SHA_1,CKM_AES_GCM,", None),
           ("CKM_NOPE,CKM_AES_CBC,,CKM_SHA256,CKM_AES_CBC,CKM_SHA_1,CKM_RSA_PKCS,CKM_AES_KEY_GEN,CKM_RSA_PKCS_KEY_PAIR_GEN,-CKM_MD5", None)]
RULE = ("T07: the mechanism registry (name -> CK_MECHANISM_TYPE, C_GetMechanismInfo) is dumped by executing prepareSupportedMecahnisms. K07: the COMPLETE matrix "
        "{C_EncryptInit, C_DecryptInit, C_SignInit, C_VerifyInit} x 72 keys (AES, DES2, DES3, generic, SHA256-HMAC, SHA1-HMAC secret keys; RSA, EC P-256, Ed25519 "
        "public and private keys; each with all usage flags false / true and with no / one of two complementary CKA_ALLOWED_MECHANISMS lists) x 48 mechanisms "
        "(every mechanism the four functions dispatch on + 5 they do not), plus C_WrapKey / C_UnwrapKey / C_DeriveKey x the same 72 keys (as wrapping / unwrapping / base key, WRAP / "
        "UNWRAP / DERIVE flags false and true) x 9 mechanisms each, plus C_DigestInit / C_GenerateKey / C_GenerateKeyPair for every mechanism, under three "
        "configurations of slots.mechanisms (ALL, a positive list with an unknown name, a negative list): every cell's return code is compared with the model "
        "(quick: all cells for ALL, a sample of 4000 cells for the other two; thorough: all cells). Operation histories add the context-specific-login cases.")
TRUSTED = ["C++ harness p11drv + python generators", "tools/tabledump.cpp (mechanism registry)"]
ASSUMPTIONS = ["DSA/DH keys are not in the matrix (parameter generation is slow); their arms are in the model tables and theorems",
               "the start conditions of C_WrapKey / C_UnwrapKey / C_DeriveKey are modelled in code order (Shm/Model/Wrap.lean) and validated cell by cell by the matrix; the "
               "ONLY-IF theorem is proved for the four *Init functions, not yet for these three calls"]


def in_projection(m):
    if m["op"] in ("encinit", "decinit", "siginit", "verinit", "diginit", "genkey", "genpair", "wrap", "unwrap", "derive"):
        return m["cat"] in ("rvclass", "rvcode")
    if m["op"] == "mechlist": return True
    return False


def sig_of(m):
    return "%s.%s.model%s.impl%s" % (m["op"], m["cat"], m["modelrv"], m["implrv"])


def rank(m):
    # the implementation starts an operation the model refuses: the property fails on this very cell
    if m["implrv"] == 0 and m["modelrv"] != 0: return 0
    if m["cat"] == "rvclass": return 1
    return 2


def run_k(ctx, kres):
    traces = []
    for i, (cfg, extra) in enumerate(CONFIGS):
        sample = None if (i == 0 or not ctx.quick) else 4000
        extra = extra if extra is not None else "slots.mechanisms = %s\n" % cfg
        traces.append(Trace("matrix-cfg%d" % i, gen.c07_matrix(cfg, ctx.seed, sample), conf_extra=extra))
    v = k_suite(ctx, kres, "K07-matrix(exhaustive)", traces, in_projection, sig_of=sig_of, shrink_budget=60, rank=rank)
    n = 20 if ctx.quick else 300
    hs = [Trace("ops%d" % i, gen.ops_history(ctx.seed * 613 + i, 60, rsa=(i % 2 == 0))) for i in range(n)]
    v += k_suite(ctx, kres, "K07-histories", hs, in_projection, sig_of=sig_of)
    # unit level: what the configuration loader makes of the file (slots.mechanisms reaches the mechanism filter exactly as the model reads it)
    from .. import pure, gen2
    v += pure.run_group(ctx, kres, "K07-pure-confloader", "conf", 300 if ctx.quick else 6000)
    # CKA_ALWAYS_AUTHENTICATE: every short order of context-specific / user / SO logins, logouts and private-key calls after C_SignInit / C_DecryptInit
    rt, nseq = gen2.c07_reauth_scope(ctx.seed, 3, sample=400 if ctx.quick else None)
    def reauth_proj(m): return m["op"] in ("login", "logout", "siginit", "decinit", "sign", "sigupd", "sigfinal", "dec", "decupd", "decfinal", "sinfo") and m["cat"] in ("rvclass", "rvcode", "crypto", "nums")
    v += k_suite(ctx, kres, "K07-reauth-smallscope", [Trace("reauth", rt)], reauth_proj, sig_of=sig_of, shrink_budget=60)
    kres["notes"].append("K07-reauth-smallscope: %d call orders" % nseq)
    return v


def judge(ctx, results):
    out = []
    for r in results:
        if r.mism:
            from ..main import pick_mismatch
            m = pick_mismatch(r, in_projection, rank)
            if m and in_projection(m): out.append(Violation(sig_of(m), r.mism[0], r.trace.ops))
    return out


LEVEL_TEXT = ("Lean 4 theorems (lean/Shm/Props/C07.lean): C_EncryptInit/C_DecryptInit/C_SignInit/C_VerifyInit return CKR_OK ONLY IF the key's usage attribute is true, the "
              "key type fits the mechanism per a specification table written from PKCS#11 (every arm of the model's dispatch tables is checked against it by decide), the "
              "mechanism is enabled by slots.mechanisms and listed in a non-empty CKA_ALLOWED_MECHANISMS, and no operation is active; a mechanism removed by the configuration "
              "is refused by all seven entry points that take one; while a CKA_ALWAYS_AUTHENTICATE re-authentication is pending C_Sign/C_SignUpdate/C_SignFinal/C_Decrypt "
              "return no length and no byte. Tie: the complete start matrix under three configurations run against the library, and the generated mechanism registry.")
LEVEL_NOTE = ("Trusted: Lean kernel + standard axioms; the model's dispatch tables are hand-written from the switch arms and validated cell by cell by the complete matrix; "
              "return codes of mechanism-parameter checks behind the guards are taken from the observation.")
TECHNIQUE = "Lean 4 decision-logic theorems + decide over dispatch tables vs a PKCS#11 specification table; complete finite matrix run against the library"
