"""C13 — wrap, unwrap and derive produce exactly the specified keys."""
from ..main import k_suite, Violation, parse_mismatch, Trace
from .. import gen

LEAN_MODULES = ["Shm.Props.C13"]
GEN_TABLES = ["ClassTable.lean", "AttrUpdate.lean", "Access.lean", "MechTable.lean"]
LEVEL = "proof"
OPS = {"wrap", "unwrap", "derive", "kcv", "getattr", "find", "findinit", "destroy"}
RULE = ("K13: seeded histories with keys whose values the model knows (AES-128/192/256 wrapping keys; AES, generic (1..64 bytes, block multiples or not), DES2/DES3 target keys; an "
        "imported EC P-256 private key and an imported Diffie-Hellman key (Oakley group 2) with known private values; generated RSA and EC pairs): C_WrapKey with "
        "CKM_AES_KEY_WRAP / _PAD / AES_CBC_PAD / AES_CBC (+ RSA PKCS / OAEP and AES-wrapped PKCS#8 as round trips through the library), with NULL / too small / large buffers; "
        "C_UnwrapKey of those blobs (other templates, other keys, other mechanisms) and of DAMAGED blobs (truncated to 0/8/16 bytes, shortened by 1/8/16, a flipped bit, "
        "appended bytes) with the secret keys counted before and after; C_DeriveKey with AES_ECB/CBC_ENCRYPT_DATA, CONCATENATE_BASE_AND_DATA / DATA_AND_BASE, DH (half of the peers "
        "are searched for a shared secret with a leading zero octet) and ECDH1 on P-256 (valid raw / DER points, a point off the curve) into generic / AES / DES / DES2 / DES3 "
        "keys of all lengths. EVERY wrapped blob, unwrapped value, derived value and check value is recomputed by the Lean reference implementations (RFC 3394, RFC 5649, "
        "CBC+PKCS#7, AES, SHA-1, modular exponentiation, P-256) and compared; CKA_LOCAL / NEVER_EXTRACTABLE / ALWAYS_SENSITIVE of every unwrapped key are read back.")
TRUSTED = ["C++ harness p11drv + python generator (python computes only the peer values it sends)", "Lean reference crypto (RFC/FIPS vectors; cross-checked against the library on every run)"]
ASSUMPTIONS = ["DES/3DES cipher operations (DES3_CBC_PAD wrap, DES*_ENCRYPT_DATA, DES check values) are not recomputed (no DES in the reference); X25519/X448 and Ed-curve derivation neither",
               "RSA-wrapped blobs and PKCS#8 blobs are checked by unwrapping them with the library and comparing the resulting values, not against an independent encoder",
               "CKA_WRAP_TEMPLATE / CKA_UNWRAP_TEMPLATE comparisons are read from the observation"]


def in_projection(m):
    return m["op"] in OPS


def sig_of(m):
    return "%s.%s.model%s.impl%s" % (m["op"], m["cat"], m["modelrv"], m["implrv"])


def run_k(ctx, kres):
    n, ops = (32, 40) if ctx.quick else (500, 80)
    traces = [Trace("wrap%d" % i, gen.wrap_history(ctx.seed * 67867967 + i, ops)) for i in range(n)]
    v = k_suite(ctx, kres, "K13-wrap-unwrap-derive", traces, in_projection, sig_of=sig_of)
    # unit level: DERUTIL::raw2Octet / octet2Raw, SoftHSM::getECDHPubData, RFC5652Pad / RFC5652Unpad / RFC3394Pad, the DES parity table, ByteString::bits
    from .. import pure, gen2, ksuites
    v += pure.run_group(ctx, kres, "K13-pure-helpers", "der", 300 if ctx.quick else 6000)
    # every key kind x every PRIVATE / EXTRACTABLE / SENSITIVE / TOKEN choice of the unwrap template: resulting flags by the model, values against the wrapped key
    mt, ncell = gen2.c13_unwrap_matrix(ctx.seed, sample=180 if ctx.quick else None)
    v += k_suite(ctx, kres, "K13-unwrap-matrix", [Trace("unwrap-matrix", mt)], in_projection, sig_of=sig_of, direct=ksuites.samevalues_direct)
    kres["notes"].append("K13-unwrap-matrix: %d unwrap cells" % ncell)
    # every symmetric derivation mechanism into DES2 / DES3 / generic / AES keys of exactly fitting lengths, from even-parity material: value and check value by the reference
    v += k_suite(ctx, kres, "K13-derive-des-matrix", [Trace("derive-des", gen2.c13_derive_des_matrix(ctx.seed))], in_projection, sig_of=sig_of)
    return v


def judge(ctx, results):
    out = []
    for r in results:
        if r.mism:
            m = parse_mismatch(r.mism[0])
            if m and in_projection(m): out.append(Violation(sig_of(m), r.mism[0], r.trace.ops))
    return out


LEVEL_TEXT = ("Lean 4 theorems (lean/Shm/Props/C13.lean, Lemmas/KeyWrapLemmas.lean, Lemmas/ModesLemmas.lean): RFC 3394 unwrap(wrap(P)) = P for every number of 64-bit blocks; "
              "CBC decrypt(encrypt(M)) = M and PKCS#7 unpad(pad(M)) = M for every message - each for EVERY block function with a left inverse on 16-byte blocks; SoftHSM's "
              "zero padding to a multiple of eight; the model's wrap/unwrap functions compose to the identity for CKM_AES_KEY_WRAP (zero-padded) and CKM_AES_CBC_PAD under the "
              "caller's IV; an unwrapped key is ALWAYS marked not local, not always-sensitive, not never-extractable; a refused C_UnwrapKey / C_DeriveKey leaves the object "
              "population unchanged; the DES parity table (odd parity, only the low bit, idempotent: all 256 bytes by kernel evaluation); derived values have the requested "
              "length and are the specified end of the secret. Tie: K13 recomputes every value with the Lean reference implementations.")
LEVEL_NOTE = ("Trusted: Lean kernel + standard axioms. That AES itself is a block function with a left inverse is validated by execution (FIPS-197 vectors; every unwrap in K13), not "
              "proved; RFC 5649 has reference code and vectors but no round-trip theorem yet; start conditions of wrap/unwrap/derive are hand-modelled in code order and validated by K13.")
TECHNIQUE = "Lean 4 round-trip theorems for the wrapping formats over abstract block ciphers + state theorems; every blob/value/check value recomputed by Lean reference crypto"
