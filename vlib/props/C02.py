"""C02 — sensitive or unextractable key material never leaves the token in the clear."""
from ..main import k_suite, Violation, parse_mismatch
from .. import ksuites

LEAN_MODULES = ["Shm.Props.C02", "Shm.Props.FactsC02"]
GEN_TABLES = ["EntryFacts.lean", "AttrUpdate.lean", "ClassTable.lean"]
LEVEL = "proof"
RULE = ("T02: class tables (attribute type, footnote mask, size, default) dumped by executing every P11Object init chain, every updateAttr body and "
        "P11Attribute::update translated to the IR; theorems re-checked against them (ck7 on every secret attribute of every key class; abstract "
        "interpretation of every update program: SENSITIVE / not EXTRACTABLE / WRAP_WITH_TRUSTED survive every accepted SET/COPY template). "
        "K02: object histories over all classes: C_GetAttributeValue of every class attribute with NULL / 0 / short / exact / large buffers (each call "
        "made twice with different fill patterns so that every byte the library writes is seen), C_SetAttributeValue and C_CopyObject templates "
        "flipping the protection flags. A disagreement counts for C02 when the model answers CKR_ATTRIBUTE_SENSITIVE / UNAVAILABLE / no data and the "
        "library reveals something, or the library accepts a template that names a protection flag and that the model refuses.")
TRUSTED = ["C++ harness p11drv + python generators", "tools/translate_attrs.py (C++ subset -> IR) and tools/tabledump.cpp"]
ASSUMPTIONS = ["'in the clear' is judged on API outputs; C_WrapKey / derive inheritance are covered once the key-management calls are in the model (see C13)"]

PROT = {0x103, 0x162, 0x210}


def in_projection_derive(m):
    # in the derive matrix every read is about the inherited protection: flag values and whether CKA_VALUE is revealed
    if m["op"] == "getattr": return m["cat"] in ("rvclass", "rvcode", "nums", "vals")
    return in_projection(m)


def in_projection(m):
    if m["op"] == "getattr":
        # the model says sensitive (0x11) or the object is sensitive/unextractable and the answers differ
        c = m["ctx"]
        if m["modelrv"] == 0x11 and m["cat"] in ("rvclass", "rvcode", "nums", "vals"): return True
        if (c.get("sens") == "1" or c.get("extr") == "0") and m["cat"] in ("nums", "vals"): return True
        return False
    if m["op"] in ("setattr", "copy"):
        skip = 3
        types = set(ksuites.tpl_types(m["opline"], skip))
        return bool(types & PROT) and m["implrv"] == 0 and m["modelrv"] not in (0, None)
    if m["op"] == "wrap":
        # the library wraps what the model refuses to wrap (or answers another refusal class)
        return m["cat"] in ("rvclass", "rvcode")
    return False


def run_k(ctx, kres):
    from .. import gen
    from ..main import Trace
    v = k_suite(ctx, kres, "K02-flag-matrix(exhaustive)", [Trace("matrix", gen.flag_matrix(gen.load_tables(), ctx.seed))], in_projection, direct=ksuites.protection_direct)
    v += k_suite(ctx, kres, "K02-objects", ksuites.object_traces(ctx, salt=21), in_projection, direct=ksuites.protection_direct)
    # who may be wrapped under whom: secret / RSA private / EC private keys x EXTRACTABLE x WRAP_WITH_TRUSTED x SENSITIVE x (un)trusted AES and RSA wrapping keys x mechanisms
    from .. import gen2
    v += k_suite(ctx, kres, "K02-wrap-matrix(exhaustive)", [Trace("wrap-matrix", gen2.c02_wrap_matrix(ctx.seed))], in_projection, direct=ksuites.protection_direct)
    # what a key derived with the three concatenation mechanisms inherits: (SENSITIVE, EXTRACTABLE) of base and second key x template; flags and the value read back
    v += k_suite(ctx, kres, "K02-derive-matrix(exhaustive)", [Trace("derive-matrix", gen2.c02_derive_matrix(ctx.seed))], in_projection_derive, direct=ksuites.protection_direct)
    # every role tries to take each one-way protection away (the SO can reach public objects): judged on the answers alone
    v += k_suite(ctx, kres, "K02-protection-roles(exhaustive)", [Trace("protection-roles", gen2.c02_protection_roles(ctx.seed))], in_projection, direct=ksuites.protection_direct)
    return v


def judge(ctx, results):
    out = []
    for r in results:
        for sg, t in ksuites.protection_direct(r): out.append(Violation(sg, t, r.trace.ops))
        if r.mism:
            m = parse_mismatch(r.mism[0]); m["result"] = r
            if in_projection(m): out.append(Violation("%s.%s" % (m["op"], m["cat"]), r.mism[0], r.trace.ops))
    return out


LEVEL_TEXT = ("Lean 4 theorems (lean/Shm/Props/C02.lean) over tables and programs GENERATED from the code on every run: every secret value attribute of every "
              "secret/private key class carries footnote 7; retrieve/loadTemplate answer CKR_ATTRIBUTE_SENSITIVE with length UNAVAILABLE and no byte for such an "
              "attribute of a sensitive or unextractable key, at any position of any request with any buffers; a SOUND ABSTRACT INTERPRETER of the update programs "
              "(soundness proved by induction over the program syntax) shows for every class, every attribute and every template that an accepted "
              "C_SetAttributeValue / C_CopyObject template cannot switch CKA_SENSITIVE off, CKA_EXTRACTABLE on or CKA_WRAP_WITH_TRUSTED off. "
              "Tie: translator + tables by execution; differential object histories.")
LEVEL_NOTE = ("Trusted: Lean kernel + standard axioms; translator and tabledump; the byte-string idioms (generic store, CKA_VALUE, modulus/prime, templates, mechanism "
              "sets) are recognised as wholes by token hash and modelled by hand; C_WrapKey and the concatenation-derive inheritance are not yet in the model.")
TECHNIQUE = "Lean 4: sound abstract interpretation of update programs translated from the C++ + decide over generated class tables; differential histories"
