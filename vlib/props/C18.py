"""C18 — thread safety with locking enabled."""
import re, os, json, collections, concurrent.futures
from ..main import Violation
from .. import gen, core, threads

LEAN_MODULES = ["Shm.Props.C18", "Shm.Props.FactsC18"]
GEN_TABLES = ["LockFacts.lean", ]
LEVEL = "exploration"
RULE = ("Real pthreads of one process under a deterministic scheduler that owns every mutex callback handed to C_Initialize (CreateMutex/DestroyMutex/LockMutex/"
        "UnlockMutex): exactly one thread runs; the baton changes hands only at those callbacks and between calls. K18-systematic (deterministic): for 92 two-thread scenarios "
        "(a call A of thread 0: C_CloseSession of the last / not the last session, C_CreateObject token / session / private, C_DestroyObject, C_SetAttributeValue, C_Login, "
        "C_Logout, C_FindObjectsInit, C_OpenSession, C_CopyObject; calls B1..Bw of thread 1: open+create+read+search, create a token object and search, destroy, read and "
        "change, logout, search and read, close, open+close, session object) A is pre-empted at EVERY callback it makes (quick: a fixed sample of them) and thread 1 runs 1 or "
        "all of its calls inside. K18-random: seeded scripts of 2-4 threads (own sessions, opened and closed; login/logout; create/copy/change/destroy/read of session and token "
        "objects on one or two tokens; searches for everything or another thread's label; digests and encryption) with 2 random pre-emptions per run. Judgement: the process "
        "must not crash, deadlock or hang; no handle may be issued twice; the main thread's closing inventory must hold exactly the token objects that were successfully created "
        "and not successfully destroyed, each once; and (systematic suite; counted for the random suite) the run must be LINEARIZABLE against the Lean model: some order of the "
        "calls that respects real-time precedence makes the sequential model produce every result, handle values abstracted to their identity.")
TRUSTED = ["the scheduler in harness/p11drv.cpp (baton, mutex ownership, deadlock detection) and the linearizability search in vlib/threads.py",
           "the sequential Lean model as specification (validated by the correspondence suites of the other properties)"]
ASSUMPTIONS = ["schedule control at the library's mutex callbacks only: code between two callbacks runs atomically, so races on data the library does not protect by any mutex "
               "are not exhibited (no ThreadSanitizer run)",
               "threads use different sessions; C_CloseAllSessions / C_Finalize / C_InitToken while other threads work are excluded by the property's premise",
               "file backend, OpenSSL"]
FORCE_CAP_QUICK, FORCE_CAP_THOROUGH = 18, 500


def sig_of_detail(detail):
    m = re.match(r"MISMATCH line \d+ cat=(\w+) op=(\w+) :: ", detail)
    rv = re.search(r"rv: model (\S+) impl (\S+)", detail)
    if not m: return "unexplained"
    return "%s.%s%s" % (m.group(2), m.group(1), (".model%s.impl%s" % (rv.group(1), rv.group(2))) if rv else "")


def hard_checks(ops, rc, log, err):
    """violations visible without the model: death, deadlock, a handle issued twice, token objects lost / duplicated / resurrected"""
    out = []
    if "DEADLOCK" in log: out.append(("deadlock", "no thread can run: " + " ".join(l for l in log.splitlines() if l.startswith("DEADLOCK") or l.startswith("  thread"))[:400]))
    elif rc == -9: out.append(("hang", "the threads did not finish: " + err[:300]))
    elif rc != 0: out.append(("crash", "the process died (rc=%s): %s %s" % (rc, log[-300:], err[-1200:])))
    if out: return out
    calls, _, _ = threads.parse_log(log)
    issued, label_of, alive, hl = {}, {}, {}, {}
    last_t = max([c["start"] for c in calls if c["tid"] >= 0], default=-1)
    threads_done = lambda c: c["start"] > last_t
    inv = {}         # session handle of the main thread's inventory -> labels
    for c in calls:
        w = c["op"].split(); r = (c["res"] or "").split()
        if len(r) < 2: continue
        ok = r[1] == "0"
        if w[0] in threads.MINT and ok and len(r) > threads.MINT[w[0]]:
            h = r[threads.MINT[w[0]]]
            if h in issued: out.append(("handle-twice", "handle %s was issued by `%s` and again by `%s`" % (h, issued[h], c["op"][:120])))
            issued[h] = c["op"][:120]
            if w[0] in ("create", "copy"):
                lab = next((x[2:] for x in w if x.startswith("3=")), None); tok = "1=01" in w
                if w[0] == "copy" and not any(x.startswith("1=") for x in w): tok = label_of.get(r[3], (None, False))[1]
                label_of[h] = (lab, tok)
                if tok and lab: alive[lab] = alive.get(lab, 0) + 1
        if w[0] == "findinit" and ok and c["tid"] >= 0: pass
        if w[0] == "destroy" and ok and len(r) > 3:
            lab, tok = label_of.get(r[3], (None, False))
            if lab is None: lab, tok = c["labels"].get(int(r[3]) if r[3].isdigit() else -1), True
            if tok and lab and lab in alive: alive[lab] -= 1
        if w[0] == "findinit" and c["tid"] < 0 and ok:
            for e in r[3:]:
                if ":" in e: hl[e.split(":", 1)[0]] = e.split(":", 1)[1]
        if w[0] == "find" and c["tid"] < 0 and ok and threads_done(c):
            for h in r[4:]:
                if h.isdigit(): inv.setdefault("all", []).append((c.get("notes") or {}).get(int(h)) or hl.get(h) or (label_of.get(h) or (None,))[0] or "?")
    if "all" in inv or any(c["tid"] < 0 and c["op"].startswith("find ") and threads_done(c) for c in calls):
        found = collections.Counter(inv.get("all", []))
        for lab, n in found.items():
            if n > 1: out.append(("duplicated", "token object %s is found %d times in the closing inventory" % (bytes.fromhex(lab).decode("latin1") if lab != "?" else lab, n)))
        for lab, n in alive.items():
            if n > 0 and found.get(lab, 0) == 0: out.append(("lost", "token object %s was created (CKR_OK) and never destroyed, but the closing inventory does not hold it" % bytes.fromhex(lab).decode("latin1")))
            if n <= 0 and found.get(lab, 0) > 0: out.append(("resurrected", "token object %s was destroyed (CKR_OK) but the closing inventory holds it" % bytes.fromhex(lab).decode("latin1")))
    return out


def run_one(ops, seed, budget, pct, force, want_lin):
    with core.Scratch("thr") as d:
        rc, log, err = threads.run_threads(ops, d.dir, seed=seed, budget=budget, pct=pct, force=force)
        leaked = []
        for m in re.finditer(r"^M nop secret ([0-9a-f]+)$", ops, re.M):
            sec = bytes.fromhex(m.group(1))
            for dp, dn, fn in os.walk(os.path.join(d.dir, "tokens")):
                for f in fn:
                    try:
                        if sec[:16] in open(os.path.join(dp, f), "rb").read(): leaked.append(f)
                    except OSError: pass
    hard = hard_checks(ops, rc, log, err)
    if leaked: hard = hard + [("plaintext-on-disk", "the value of a PRIVATE key (announced by `nop secret`) is in the token directory in the clear: file(s) %s (C06 under threads)" % ", ".join(sorted(set(leaked))[:3]))]
    calls, yields, npre = threads.parse_log(log)
    lin = None
    if not hard and want_lin:
        ok, tried, detail, tx = threads.linearize(calls)
        lin = (ok, tried, detail)
    return {"hard": hard, "lin": lin, "ncalls": len(calls), "npre": npre, "yields": yields, "log": log}


def header(kind, name, seed, budget, pct, force):
    return "## threads kind=%s name=%s seed=%s budget=%s pct=%s force=%s\n" % (kind, name, seed, budget, pct, force or "-")


def sample_points(y, cap):
    if y <= cap: return list(range(1, y + 1))
    head = cap // 2
    pts = set(range(1, head + 1))
    rest = cap - head
    for i in range(rest): pts.add(head + 1 + (i * (y - head - 1)) // max(1, rest - 1))
    return sorted(p for p in pts if 1 <= p <= y)


def run_k(ctx, kres):
    viols = []
    # is locking really ON when it was asked for?  `MutexFactory::enabled` after every C_Initialize of random sequences of the three flavours (failing ones included) and
    # C_Finalize, against Shm/Model/MutexLife.lean (`mxTrace`): a C_Initialize that asks for locking after an earlier C_Initialize(NULL) must switch it on again
    from .. import pure
    viols += pure.run_group(ctx, kres, "K18-pure-mutex-factory", "mx", 40 if ctx.quick else 600)
    cap = FORCE_CAP_QUICK if ctx.quick else FORCE_CAP_THOROUGH
    scen = gen.thread_scenarios()
    ex = concurrent.futures.ThreadPoolExecutor(core.JOBS)
    # ---- K18-systematic ------------------------------------------------------------------------------
    kres["suites"] += 1
    # the unwrap-private scenarios are explored for the hard oracles only (crash, deadlock, lost objects, and the C06 oracle: a private key's value in the clear on disk);
    # their linearizability verdicts would repeat the known create-private/logout behaviour under other names
    lin_wanted = lambda name: not name.startswith("unwrap-private")
    bases = list(ex.map(lambda s: run_one(s[1], 1, 0, -1, "", lin_wanted(s[0])), scen))
    jobs = []
    for (name, ops, w), b in zip(scen, bases):
        # the double-registration window of two searches meeting a handle-less object is a few callbacks wide: that scenario is explored at EVERY callback
        for n in sample_points(b["yields"].get(0, 0), 10 ** 6 if name.startswith("find-fresh") else cap): jobs.append((name, ops, w, n))
    res = list(ex.map(lambda j: (j, run_one(j[1], 1, 0, -1, "0:%d:%d" % (j[3], j[2]), lin_wanted(j[0]))), jobs))
    seen = set(); unexplained = 0
    for (name, ops, w), b in zip(scen, bases): res.append(((name, ops, w, 0), b))
    for (name, ops, w, n), r in res:
        kres["evaluations"] += r["ncalls"]
        if len(kres["samples"]) < 3 and n: kres["samples"].append({"suite": "K18-systematic", "trace": "%s pre-empted at callback %d" % (name, n), "ops": [l for l in r["log"].splitlines() if not l.startswith(("call -1", "ret -1"))][:14]})
        a, b_, _ = name.split("/")
        key = "%s/%s" % (a, b_)
        kres["hist"]["systematic:" + a] = kres["hist"].get("systematic:" + a, 0) + 1
        found = [("%s:%s" % (key, s), t) for s, t in r["hard"]]
        if not found and r["lin"] and not r["lin"][0]:
            unexplained += 1
            found = [("%s:%s" % (key, sig_of_detail(r["lin"][2])), "no sequential order of the calls explains the run (%d orders tried); closest: %s" % (r["lin"][1], r["lin"][2][:600]))]
        for s, t in found:
            if s in seen: continue
            seen.add(s)
            force = "0:%d:%d" % (n, w) if n else ""
            viols.append(Violation(s, "scenario %s, thread 0 pre-empted at its callback %d, %d call(s) of thread 1 inside: %s" % (name, n, w, t),
                                   header("systematic", name, 1, 0, -1, force) + ops + "## event log\n" + "".join("## " + l + "\n" for l in r["log"].splitlines()[-60:])))
    kres["notes"].append("K18-systematic: %d scenarios, %d pre-emption points run, %d runs not linearizable" % (len(scen), len(jobs), unexplained))
    # ---- K18-random ----------------------------------------------------------------------------------
    kres["suites"] += 1
    n = 300 if ctx.quick else 8000
    def rnd(i):
        s = ctx.seed * 7001 + i
        ops = gen.thread_history(s, 2 + s % 3, 8 if ctx.quick else 12)
        return s, ops, run_one(ops, s, 2, 4, "", True)
    soft = collections.Counter()
    for s, ops, r in ex.map(rnd, range(n)):
        kres["evaluations"] += r["ncalls"]
        if len(kres["samples"]) < 6: kres["samples"].append({"suite": "K18-random", "trace": "seed %d" % s, "ops": [l for l in r["log"].splitlines() if not l.startswith(("call -1", "ret -1"))][:14]})
        kres["hist"]["random:preemptions=%d" % r["npre"]] = kres["hist"].get("random:preemptions=%d" % r["npre"], 0) + 1
        for sg, t in r["hard"]:
            sg = "random:" + sg
            if sg in seen: continue
            seen.add(sg)
            viols.append(Violation(sg, "random schedule %d: %s" % (s, t), header("random", "seed%d" % s, s, 2, 4, "") + ops + "## event log\n" + "".join("## " + l + "\n" for l in r["log"].splitlines()[-60:])))
        if not r["hard"] and r["lin"] and not r["lin"][0]: soft[sig_of_detail(r["lin"][2])] += 1
    kres["notes"].append("K18-random: %d runs; runs without a linearization (transient results under a race, counted, not reported): %s" % (n, dict(soft)))
    ex.shutdown()
    return viols


def replay(ctx, path):
    text = open(path).read()
    m = re.search(r"## threads kind=(\S+) name=(\S+) seed=(\S+) budget=(\S+) pct=(\S+) force=(\S+)", text)
    if not m: print(text); return 1
    ops = "\n".join(l for l in text.splitlines() if not l.startswith("##")) + "\n"
    r = run_one(ops, int(m.group(3)), int(m.group(4)), int(m.group(5)), "" if m.group(6) == "-" else m.group(6), True)
    print(r["log"])
    bad = False
    for s, t in r["hard"]: print("JUDGEMENT: violates C18 (%s): %s" % (s, t)); bad = True
    if r["lin"] and not r["lin"][0]:
        print("JUDGEMENT: violates C18: no sequential order explains the run (%d tried); closest: %s" % (r["lin"][1], r["lin"][2])); bad = True
    if not bad: print("JUDGEMENT: no violation of C18 on this replay")
    return 1 if bad else 0


LEVEL_TEXT = ("EXPLORATION of schedules with the Lean model as the sequential specification. Real threads run under a deterministic scheduler that owns every mutex callback "
              "given to C_Initialize; a systematic suite pre-empts one call at every callback it makes and runs another thread's calls inside, a random suite draws scripts and "
              "schedules; every run is judged for crash / deadlock / hang, handles issued twice, token objects lost, duplicated or resurrected, and (systematic suite) for "
              "linearizability against the model. Lean theorems (lean/Shm/Props/C18.lean) give the facts about the sequential specification the judgement leans on: live handles "
              "are pairwise distinct in every sequential history, and a failed call changes neither the handle table nor any login state. The property is FALSE on this tree for "
              "several races (see known_findings.txt); one race (an object created under a concurrent re-index appearing twice) was repaired in /repo.")
LEVEL_NOTE = ("Not a proof-level claim: which schedules the library survives is runtime behaviour no executable sequential model exhibits; it is decided by exploration against the "
              "real library. Trusted: scheduler and linearizability search of the harness, the Lean model as specification. Pre-emption only at mutex callbacks.")
TECHNIQUE = "deterministic-scheduler exploration of real threads (systematic one-pre-emption enumeration + random schedules) judged by linearizability against the Lean model; Lean theorems on the sequential specification"
