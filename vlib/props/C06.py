"""C06 — private objects are encrypted at rest under a key only a PIN unlocks."""
import re
from ..main import k_suite, Violation, parse_mismatch, Trace
from .. import gen, core

LEAN_MODULES = ["Shm.Props.C06"]
GEN_TABLES = ["AttrUpdate.lean", "ClassTable.lean", "StoreSample.lean", "Access.lean"]
LEVEL = "proof"
OPS = {"dumpdir", "getattr", "create", "copy", "setattr", "genkey", "genpair", "findinit", "find", "login", "setpin"}
UMASKS = [None, 0o077, 0o027, 0o000, 0o177, 0o007]
RULE = ("T06: every updateAttr body of P11Attributes.cpp is re-translated; theorem T06_sites (decide +kernel over the regenerated class tables) shows no plain byte-string store. "
        "K06: seeded histories on two tokens of every storing path the model has - C_CreateObject (25 classes), C_GenerateKey (AES, DES3), C_GenerateKeyPair (EC, RSA), "
        "C_CopyObject with public->private upgrade and fresh byte strings (label, id, subject, ...) in the template, C_SetAttributeValue on private objects, C_SetPIN, restarts "
        "- with a directory dump after EVERY call under objectstore.umask in {default, 077, 027, 000, 177, 007}, each written as 0077, 077 and 77 (the value is octal whatever its spelling; the loader itself is tied to its Lean model on arbitrary file bytes). The Lean driver (independent decoder) requires of every dump: every "
        "non-empty byte string of every private object is 16-byte IV + ciphertext of exactly the padded length, differs from its plaintext and decrypts (Lean AES-256-CBC, key "
        "from the PIN blob via Lean PBE) to the value of the model/API; public objects are in the clear; the 32-byte token key occurs nowhere in any file; no file/directory "
        "mode bit lies inside the configured umask, no file is executable. Additionally (implementation side only) every random byte string of >= 12 bytes supplied for a private object is "
        "searched in the raw directory bytes.")
TRUSTED = ["C++ harness p11drv (stat + plain reads)", "python generator", "Lean reference SHA-256/AES (FIPS vectors; exercised on the real blobs every run)"]
ASSUMPTIONS = ["confidentiality of AES-CBC and of the PBE is not a claim", "C_UnwrapKey / C_DeriveKey storing paths are covered once those calls are in the model (C13)",
               "SQLite backend: modes are whatever SQLite creates; not covered here", "freshness of IVs is observed (no IV repeats within a dump), not provable"]


def in_projection(m):
    return m["op"] in OPS


def sig_of(m):
    return "%s.%s.model%s.impl%s" % (m["op"], m["cat"], m["modelrv"], m["implrv"])


VAL = re.compile(r"(?:^| )([0-9a-f]+)=([0-9a-f]{16,})(?= |$)")
NESTED = re.compile(r"[{;]([0-9a-f]+)=([0-9a-f]{24,})(?=[;}])")      # byte strings inside a CKA_WRAP_TEMPLATE / CKA_UNWRAP_TEMPLATE value


def direct(r):
    """plaintext search: random byte strings (>= 12 bytes) given for an object that the same template makes private must not occur in the directory"""
    out = []
    secrets = []
    lines = r.transcript.splitlines()
    for i in range(0, len(lines) - 1):
        op = lines[i]
        w = op.split()
        if not w: continue
        if w[0] in ("create", "copy", "genkey") and " 2=01" in op and lines[i + 1].split()[1:2] == ["0"]:
            for ty, val in VAL.findall(op):
                # only values the generator draws at random (>= 12 bytes): dates, small integers and labels repeat between public and private objects
                if ty not in ("0", "100", "161", "121", "40000600", "110", "111", "3") and len(val) >= 24: secrets.append((ty, val, op[:80]))
            for ty, val in NESTED.findall(op): secrets.append(("nested:" + ty, val, op[:80]))
        if w[0] == "dumpdir":
            files = " ".join(x.split(":", 3)[3] for x in lines[i + 1].split()[3:] if x.startswith("F:") and x.count(":") >= 3)
            for ty, val, where in secrets:
                if val in files:
                    if ty.startswith("nested:"):
                        if "plaintext.nested-template" not in [s for s, _ in out]:
                            out.append(("plaintext.nested-template", "the byte string of entry %s INSIDE the CKA_WRAP_TEMPLATE / CKA_UNWRAP_TEMPLATE value of a private object (`%s...`) is in "
                                        "the token directory in the clear" % (ty[7:], where)))
                        continue
                    out.append(("plaintext", "attribute %s of a private object (`%s...`) is in the token directory in the clear" % (ty, where)))
                    return out
    return out


def run_k(ctx, kres):
    tables = gen.load_tables()
    n, ops = (18, 30) if ctx.quick else (300, 60)
    traces = []
    for i in range(n):
        um = UMASKS[i % len(UMASKS)]
        traces.append(Trace("enc%d" % i, gen.enc_history(ctx.seed * 86028121 + i, tables, ops, um), conf_extra="" if um is None else "objectstore.umask = %s\n" % (["%04o", "%o", "%03o"][(i // len(UMASKS)) % 3] % um)))
    v = k_suite(ctx, kres, "K06-storing-paths", traces, in_projection, sig_of=sig_of, direct=direct)
    # every class x CKA_PRIVATE omitted / false / true (the class default decides what is private), label / id changes, copies made private: directory decoded after each
    # the configuration loader at unit level (objectstore.umask is read with strtol base 8 in the Lean model of SimpleConfigLoader)
    from .. import pure
    v += pure.run_group(ctx, kres, "K06-pure-confloader", "conf", 300 if ctx.quick else 3000)
    from .. import gen2
    # byte strings nested in the template attributes of private (and, as control, public) keys: decoded like everything else, and searched for in the raw directory
    v += k_suite(ctx, kres, "K06-nested-template", [Trace("nested-template", gen2.c06_nested_template(ctx.seed))], in_projection, sig_of=sig_of, direct=direct, shrink_budget=30)
    v += k_suite(ctx, kres, "K06-class-matrix(exhaustive)", [Trace("class-matrix", gen2.c06_class_matrix(tables, ctx.seed))], in_projection, sig_of=sig_of, direct=direct, shrink_budget=60)
    # under threads (the deterministic scheduler of C18): C_UnwrapKey of a private token key pre-empted at its mutex callbacks while another thread logs the token out /
    # closes its session / searches: the key value, announced to the judge, must never be in the token directory in the clear
    import concurrent.futures
    from . import C18
    kres["suites"] += 1
    scen = [s for s in gen.thread_scenarios() if s[0].startswith("unwrap-private/")]
    with concurrent.futures.ThreadPoolExecutor(core.JOBS) as ex:
        bases = list(ex.map(lambda s: C18.run_one(s[1], 1, 0, -1, "", False), scen))
        jobs = [(name, ops, w, n) for (name, ops, w), b in zip(scen, bases) for n in C18.sample_points(b["yields"].get(0, 0), 18 if ctx.quick else 400)]
        res = list(ex.map(lambda j: (j, C18.run_one(j[1], 1, 0, -1, "0:%d:%d" % (j[3], j[2]), False)), jobs))
    seen = set()
    for (name, ops, w, n), r in res:
        kres["evaluations"] += r["ncalls"]
        kres["hist"]["threads:unwrap-private"] = kres["hist"].get("threads:unwrap-private", 0) + 1
        for s, t in r["hard"]:
            if s == "plaintext-on-disk" and name not in seen:
                seen.add(name)
                v.append(Violation("threads.plaintext-on-disk.%s" % name.rsplit("/", 1)[0], "scenario %s, thread 0 pre-empted at its callback %d: %s" % (name, n, t),
                                   C18.header("systematic", name, 1, 0, -1, "0:%d:%d" % (n, w)) + ops))
    return v


def judge(ctx, results):
    out = []
    for r in results:
        for s, t in direct(r): out.append(Violation(s, t, r.trace.ops))
        if r.mism:
            m = parse_mismatch(r.mism[0])
            if m and in_projection(m): out.append(Violation(sig_of(m), r.mism[0], r.trace.ops))
    return out


LEVEL_TEXT = ("Lean 4 theorems (lean/Shm/Props/C06.lean, Lemmas/Enc.lean, Lemmas/EncInv.lean): in EVERY state reachable by any history of the complete machine, every non-empty "
              "byte-string attribute of a private object is stored through the encrypting pattern (and of a public object in the clear). Proof: a syntactic property of the update "
              "programs translated from P11Attributes.cpp (no plain byte-string store; decide +kernel over the regenerated tables), its soundness for the program interpreter, "
              "preservation through P11Attribute::update / saveTemplate, through C_CreateObject, C_SetAttributeValue, C_CopyObject (the public->private upgrade re-encrypts), "
              "C_GenerateKey, C_GenerateKeyPair, and a frame over every other call, using the unique-object-id invariant proved alongside. File modes: (base & ~umask) & umask = 0 "
              "for all 12-bit values. Tie: K06 decodes and decrypts the real directory after every call.")
LEVEL_NOTE = ("The theorem speaks of the byte-string ATTRIBUTES of an object; byte strings NESTED inside a CKA_WRAP_TEMPLATE / CKA_UNWRAP_TEMPLATE value are outside it, and on this tree "
              "they are stored in the clear even for private keys (K06-nested-template; known finding plaintext.nested-template). Trusted: Lean kernel + standard axioms; translator tools/translate_attrs.py (bodies it does not recognise become `unknown`, for which the theorem fails); the creation "
              "paths of SoftHSM.cpp are hand-modelled and validated by K06; C_UnwrapKey/C_DeriveKey not yet in the model.")
TECHNIQUE = "Lean 4 invariant over all reachable states built on a syntactic check of source-translated programs; independent Lean decoder+decryptor on real directories"


def replay(ctx, path):
    """thread replays (`## threads ...`) are re-run under the deterministic scheduler of C18 and judged by the disk oracle; everything else is an ordinary op file"""
    text = open(path).read()
    m = re.search(r"## threads kind=(\S+) name=(\S+) seed=(\S+) budget=(\S+) pct=(\S+) force=(\S+)", text)
    if not m:
        import sys
        from .. import main as _m
        mod = sys.modules[__name__]; saved = mod.replay; del mod.replay
        try: return _m.replay(mod, ctx, path)
        finally: mod.replay = saved
    from . import C18
    ops = "\n".join(l for l in text.splitlines() if not l.startswith("##")) + "\n"
    r = C18.run_one(ops, int(m.group(3)), int(m.group(4)), int(m.group(5)), "" if m.group(6) == "-" else m.group(6), False)
    print(r["log"])
    bad = [t for s, t in r["hard"] if s == "plaintext-on-disk"]
    for t in bad: print("JUDGEMENT: violates C06: %s" % t)
    if not bad: print("JUDGEMENT: no violation of C06 on this replay")
    return 1 if bad else 0
