"""C19 — object search is sound and complete."""
from ..main import k_suite, Violation, parse_mismatch, Trace
from .. import ksuites, gen
from ..gen import hx, ul
import random

LEAN_MODULES = ["Shm.Props.C19"]
GEN_TABLES = ["ClassTable.lean", "AttrUpdate.lean"]
LEVEL = "proof"
RULE = ("K19: random populations (all object classes, token/session x private/public, two tokens, unique labels, shared ids/applications), templates of "
        "0..3 entries over boolean / unsigned-long / byte-string attributes including attributes an object lacks, wrongly sized, EMPTY and one-byte-off values, "
        "every login state, random batch-size sequences including 0 and 1; the handles returned by every C_FindObjects call are compared with the model.")
TRUSTED = ["C++ harness p11drv + python generators", "identification of freshly minted handles by CKA_LABEL (pointer order is not modelled)"]
ASSUMPTIONS = ["objects carry pairwise distinct CKA_LABELs while alive"]


def find_history(seed, tables, nobj=10, nfind=25):
    rng = random.Random(seed)
    h = gen.ObjGen(rng, tables)
    h.prologue(2)
    pool_id = [bytes([1, 2, 3]).hex(), bytes([1, 2]).hex(), "", bytes([9] * 8).hex()]
    pool_app = [hx("app1"), hx("app"), ".", hx("app2")]
    sess = []
    for t in h.toks:
        k = h.open(t, True); h.login(k, t, 'user'); sess.append((k, t)); k2 = h.open(t, rng.random() < 0.5); sess.append((k2, t))
    created = []
    for _ in range(nobj):
        k, t = rng.choice(sess)
        c = rng.choice([c for c in h.classes if c["name"] in ("DATA", "SECRET_AES", "SECRET_GENERIC", "PUB_RSA", "CERT_X509", "PRIV_EC")])
        i = h.create_obj(k, t, c=c)
        created.append((i, c, t))
        if rng.random() < 0.6 and any(a["type"] == 0x102 for a in c["attrs"]): h.op(f"setattr @{k} @{i} 102={rng.choice(pool_id) or '.'}")
        if rng.random() < 0.6 and c["name"] == "DATA": h.op(f"setattr @{k} @{i} 10={rng.choice(pool_app)}")
    for _ in range(nfind):
        r = rng.random()
        k, t = rng.choice(sess)
        if r < 0.12: h.logout(k, t); continue
        if r < 0.24: h.login(k, t, rng.choice(['user', 'so'])); continue
        if r < 0.30 and created:
            i, c, tt = rng.choice(created); h.op(f"destroy @{k} @{i}"); continue
        ents = []
        for _ in range(rng.choice([0, 1, 1, 2, 3])):
            kind = rng.random()
            if kind < 0.2: ents.append(f"0={ul(rng.choice([0, 1, 2, 3, 4]))}")
            elif kind < 0.35: ents.append(f"{rng.choice([1, 2, 0x170, 0x104, 0x108]):x}={rng.choice(['00', '01', '02', '0001', '.'])}")
            elif kind < 0.55 and h.objects: ents.append(f"3={hx(rng.choice(h.objects)[4])}")
            elif kind < 0.7: ents.append(f"102={rng.choice(pool_id + ['0102ff', '01']) or '.'}")
            elif kind < 0.85: ents.append(f"10={rng.choice(pool_app + [hx('app11'), hx('ap')])}")
            elif kind < 0.92: ents.append(f"100={ul(rng.choice([0, 0x1f, 0x10, 3]))}")
            else: ents.append(f"{rng.choice([0x11, 0x9999, 0x120, 0x161]):x}={rng.choice(['.', '00', ul(16)])}")
        h.op(f"findinit @{k} " + " ".join(ents)); h.minted += len(created)
        for _ in range(rng.randrange(1, 5)): h.op(f"find @{k} {rng.choice([0, 1, 1, 2, 3, 5, 50])}")
        h.op(f"find @{k} 100"); h.op(f"findfinal @{k}")
    h.op("fini")
    return h.text()


def in_projection(m):
    return m["op"] in ("find", "findinit") and m["cat"] in ("nums", "rvclass")


def run_k(ctx, kres):
    tables = gen.load_tables()
    n = 60 if ctx.quick else 1200
    traces = [Trace("f%d" % i, find_history(ctx.seed * 104729 + i, tables)) for i in range(n)]
    v = k_suite(ctx, kres, "K19-populations", traces, in_projection)
    # session objects (created and COPIED) across every short order of opens / closes / logins: a search from a fresh session returns exactly the objects whose session is
    # still open - a closed session's objects never come back, a live session's objects never vanish (the C11 scope, judged on the search results)
    from .. import gen2
    st, nst = gen2.c11_scope(ctx.seed, 4, sample=4000 if ctx.quick else None)
    def proj2(m): return m["op"] in ("find", "findinit") and m["cat"] in ("nums", "rvclass")
    v += k_suite(ctx, kres, "K19-session-object-scope", [Trace("scope%d" % i, t) for i, t in enumerate(st)], proj2, shrink_budget=60, rank=lambda m: m["line"])
    return v


def judge(ctx, results):
    out = []
    for r in results:
        if r.mism:
            m = parse_mismatch(r.mism[0])
            if in_projection(m): out.append(Violation("%s.%s" % (m["op"], m["cat"]), r.mism[0], r.trace.ops))
    return out


LEVEL_TEXT = ("Lean 4 theorems (lean/Shm/Props/C19.lean): the matching loop with its breaks equals the specification 'every template entry matches' (empty template "
              "matches everything), candidates are exactly the session's slot's visible matching objects (soundness and completeness), and for EVERY sequence of "
              "batch sizes the concatenated C_FindObjects batches are `take (sum sizes)` of the result list without repetition (induction over the size list). "
              "Tie: random populations/templates/batch sequences compared with the library.")
LEVEL_NOTE = ("Trusted: Lean kernel + standard axioms; hand-written model of C_FindObjectsInit/C_FindObjects validated by differential runs; uniqueness of a live object's "
              "handle is C11.")
TECHNIQUE = "Lean 4 loop-equals-specification and take/drop batching induction; differential random populations"
