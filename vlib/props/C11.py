"""C11 — handles are never reused and die exactly with what they denote."""
import re
from .. import gen
from ..main import Trace, k_suite

LEAN_MODULES = ["Shm.Props.C11"]
GEN_TABLES = ["Access.lean"]
LEVEL = "proof"
RULE = ("K11: seeded random histories over 2 tokens x several RO/RW sessions (open/close/closeAll, login/logout right+wrong PIN, "
        "create/destroy token+session x private+public objects, find with random batch sizes); after EVERY call every handle value "
        "that can have been issued (and two more) is probed with C_GetSessionInfo and, through up to 3 open sessions, with "
        "C_GetAttributeValue(CKA_CLASS); numeric handle values and the validity answers are compared with the Lean model.")
TRUSTED = ["C++ harness p11drv + python generator (differential testing of the model against the library)",
           "the model's projection of pointers to object ids (handles minted by C_FindObjectsInit are identified by CKA_LABEL)"]
ASSUMPTIONS = ["sequential calls (threads are C18)", "objects created by the generator carry pairwise distinct CKA_LABELs"]

PROJ_OPS = {"open", "create", "findinit", "find", "probe", "sinfo", "close", "closeall", "logout", "destroy", "copy"}


def in_projection(m):
    # handle values (nums) of every handle-returning call; validity answers of the probes
    if m["cat"] == "nums" and m["op"] in ("open", "create", "findinit", "find", "copy"): return True
    if m["op"] in ("probe", "sinfo") and m["cat"] in ("rvclass", "rvcode"):
        return True
    return False


def direct(r):
    """a handle value issued twice for different things between C_Initialize and C_Finalize (implementation side only)"""
    issued = {}
    out = []
    lines = r.transcript.splitlines()
    for i in range(0, len(lines) - 1):
        op, res = lines[i].split(), lines[i + 1].split()
        if not op or not res or res[0] != "=" or op[0] == "=": continue
        if op[0] in ("init", "fini"): issued = {}
        if len(res) < 2 or res[1] != "0": continue
        new = []
        if op[0] == "open": new = [("session", res[3])]
        elif op[0] == "create": new = [("object-created", res[3])]
        elif op[0] == "copy": new = [("object-created", res[4])]
        elif op[0] == "findinit": new = [("minted:" + x.split(":")[1], x.split(":")[0]) for x in res[3:]]
        for what, h in new:
            if h in issued and issued[h] != what:
                out.append(("reuse", "handle value %s issued twice: first for %s, then for %s (op `%s`)" % (h, issued[h], what, " ".join(op))))
            issued.setdefault(h, what)
    return out


def run_k(ctx, kres):
    n, ops = (40, 30) if ctx.quick else (600, 80)
    traces = [Trace("h%d" % i, gen.spine_history(ctx.seed * 100003 + i, ops)) for i in range(n)]
    v = k_suite(ctx, kres, "K11-histories", traces, in_projection, direct=direct)
    # every short order of opens / closes / session-object creations / COPIES / logins / logouts / close-all: which handles are alive afterwards, what a fresh session finds
    from .. import gen2
    st, nst = gen2.c11_scope(ctx.seed, 4, sample=None if not ctx.quick else 4000)
    kres["notes"].append("K11-smallscope: %d call orders, every handle value probed afterwards" % nst)
    def proj2(m): return in_projection(m) or (m["op"] in ("getattr", "find", "findinit") and m["cat"] in ("rvclass", "rvcode", "nums"))
    v += k_suite(ctx, kres, "K11-smallscope", [Trace("scope%d" % i, t) for i, t in enumerate(st)], proj2, direct=direct, shrink_budget=60, rank=lambda m: m["line"])
    # handles of copies that are more private than their source die with the login (C01's copy-upgrade matrix, judged on the handle answers)
    v += k_suite(ctx, kres, "K11-copy-upgrade-scope", [Trace("copy-upgrade-scope", gen2.c01_copy_upgrade_scope(ctx.seed))],
                 lambda m: proj2(m) or (m["op"] in ("objsize", "destroy") and m["cat"] in ("rvclass", "rvcode")), direct=direct, shrink_budget=60)
    return v


def judge(ctx, results):
    from ..main import Violation, parse_mismatch
    out = []
    for r in results:
        for s, t in direct(r): out.append(Violation(s, t, r.trace.ops))
        if r.mism:
            m = parse_mismatch(r.mism[0])
            if m and in_projection(m): out.append(Violation("mismatch", r.mism[0], r.trace.ops))
    return out

LEVEL_TEXT = ("Machine-checked Lean 4 theorems over the executable model of HandleManager/SessionManager/SessionObjectStore "
              "(lean/Shm/Props/C11.lean): issued handle values strictly increase along every trace while the library stays initialised "
              "(never reused; session and object handles share the sequence), exact characterisation of which handles each of "
              "C_CloseSession/C_CloseAllSessions/C_Logout/C_DestroyObject invalidates, all other calls keep every handle and its denotation, "
              "failed calls change nothing, dead handles stay dead forever; unbounded in sessions, objects and trace length. "
              "The model is tied to the code by the correspondence suite K11 (model run as monitor beside the library; every handle value "
              "probed after every call).")
LEVEL_NOTE = ("Trusted: Lean kernel; axioms propext/Classical.choice/Quot.sound only; the hand-written model (Shm/Model) is validated, not "
              "verified, against HandleManager.cpp/SessionManager.cpp/SessionObjectStore.cpp/SoftHSM.cpp by differential runs; pointer order of "
              "handles minted in one C_FindObjectsInit is taken from the observation (oracle argument, theorems quantify over it).")
TECHNIQUE = "Lean 4 invariant + exact-purge theorems over a hand model; correspondence (model-as-monitor differential runs) ties model to code"
