"""C17 — no input makes the library crash, corrupt memory or kill the host process."""
import re
from ..main import k_suite, Violation, parse_mismatch, Trace
from .. import gen

LEAN_MODULES = ["Shm.Props.C17", "Shm.Props.FactsC16"]      # FactsC16: no method retakes a mutex it holds ("every call returns")
GEN_TABLES = ["StoreSample.lean", "LockFacts.lean"]
LEVEL = "exploration"
VARIANTS = ("plain", "asan")
REPLAY_VARIANT = "asan"
ENV = {"VERIF_SANITIZER_SIGNALS": "1", "VERIF_ISOLATE": "1"}
RULE = ("All suites run the library built from /repo with AddressSanitizer + UndefinedBehaviorSanitizer (-fno-sanitize-recover), every output buffer owned by the harness and "
        "followed by guard bytes; each call is first tried in a forked copy of the process, so one history exposes every crashing call it contains. "
        "K17-hostile: valid histories of the other properties' generators with ~25 calls damaged by argument kind (handles replaced by hostile values or by references to "
        "objects of another kind, byte strings emptied / cut / extended to 70000 bytes / NULL with length 0, mechanisms replaced with wrong-size, wrong-structure and extreme "
        "parameters, output sizes changed, template entries emptied, cut, extended, retyped, duplicated, repeated up to 200 times, nested); K17-templates: every call that takes "
        "a template (create, generate key / pair for every mechanism, unwrap, the derivations, copy, set, search) with 27..200 entries; K17-keys: key objects of every class whose components are "
        "empty, zero, one byte, random, over-long or another curve's, used in every operation a key of that class can start; K17-files: damaged token directories (length fields "
        "of 2^63, kinds and types replaced, flips, cuts, garbage, stray files; structured damage that keeps the file well-formed: one attribute grown, shrunk, retyped, given another kind, duplicated or dropped; token.object, generation and lock files too) reopened by C_Initialize and walked; while "
        "token.object is intact the number of objects found is compared with the verdicts of the Lean decoder (loadcount); K17-conf: damaged softhsm2.conf contents, C_Initialize without locking, with OS locking and with application mutex callbacks whose handles are table indices "
        "(a failed C_Initialize followed by one of another flavour; the callbacks count handles they never issued and locks of a locked mutex); K17-truncations: an object file with an "
        "attribute map and a mechanism set cut to EVERY length, opened under those callbacks. "
        "Every hostile history ends with calls of the entry points no generator reaches (C_GetInfo, C_GetFunctionList, C_GetSlotInfo, C_GetTokenInfo, C_WaitForSlotEvent, "
        "C_Get/SetOperationState, C_Sign/VerifyRecover(Init), the four dual-function updates, C_GetFunctionStatus, C_CancelFunction, NULL output pointers of the query calls) "
        "so that all 68 entry points are exercised. A violation is a sanitizer report, a signal, an exit() from inside the library, a write behind an announced buffer, or a loader/decoder disagreement.")
TRUSTED = ["ASan/UBSan of clang/gcc as the observer of memory errors; C++ harness p11drv (fork isolation, guard bytes) + python generators",
           "memory safety of the C++ code is OBSERVED on the generated inputs, not proved: the theorems cover the modelled parsing and size arithmetic only"]
ASSUMPTIONS = ["pointer arguments reference memory of the stated sizes (the harness owns every buffer); NULL only where PKCS#11 allows it or with length 0",
               "OpenSSL backend, file object store (the other builds are exercised by C20's suites without sanitizers)",
               "sequential calls (threads are C18)"]
CRASH_RE = re.compile(r"\n@@CRASHED op=(\d+) code=(\d+)\n")


def crash_sig(report):
    """the crash site: innermost frame inside /repo/src of a sanitizer report, else the kind of death"""
    for l in report.splitlines():
        m = re.search(r"#\d+ 0x[0-9a-f]+ in (.+?) (/repo/src/\S+?):\d+", l)
        if m:
            fn = re.sub(r"\(.*", "", m.group(1)).strip()
            return "crash:%s@%s" % (fn, m.group(2).replace("/repo/src/lib/", ""))
    m = re.search(r"SUMMARY: \w+Sanitizer: (\S+)", report)
    return "crash:" + (m.group(1) if m else "exit")


def direct(r):
    from ..ksuites import mxstat_direct
    out = list(mxstat_direct(r))
    parts = CRASH_RE.split(r.stderr)
    ops = [l for l in r.transcript.splitlines() if l and not l.startswith("=")]
    lines = r.transcript.splitlines()
    crashed_ops = [lines[i - 1] for i, l in enumerate(lines) if l.startswith("= CRASHED") and i > 0]
    for i in range(0, len(parts) - 2, 3):
        rep, code = parts[i], parts[i + 2]
        k = i // 3
        call = crashed_ops[k] if k < len(crashed_ops) else "?"
        s = crash_sig(rep) if code in ("71", "72") else "crash:exit-%s" % code
        out.append((s, "the process died (status %s) inside `%s`:\n%s" % (code, call[:300], rep[-1500:])))
    if r.crashed and not out:
        last = ops[-1] if ops else "?"
        out.append((crash_sig(r.stderr) if r.rc in (71, 72) else "crash:exit-%s" % r.rc, "the process died (rc=%s) inside `%s`:\n%s" % (r.rc, last[:300], r.stderr[-1500:])))
    for i in range(0, len(lines) - 1):
        if lines[i + 1].startswith("=") and "!OVERRUN" in lines[i + 1]:
            out.append(("overrun:" + lines[i].split()[0], "`%s` wrote behind the announced buffer: %s" % (lines[i][:300], lines[i + 1][:300])))
    return out


def in_projection(m):
    return m["cat"] == "load"


def sig_of(m):
    return "loader-disagrees-with-decoder"


def run_k(ctx, kres):
    ctx.crash_is_violation = True
    tables = gen.load_tables()
    q = ctx.quick
    v = []
    n = 60 if q else 1500
    v += k_suite(ctx, kres, "K17-hostile", [Trace("hostile%d" % i, gen.hostile_history(ctx.seed * 6007 + i, tables), "asan", env=ENV) for i in range(n)], lambda m: False, direct=direct, shrink_budget=60)
    v += k_suite(ctx, kres, "K17-templates", [Trace("templates%d" % i, gen.long_template_history(ctx.seed * 6043 + i), "asan", env=ENV) for i in range(2 if q else 12)], lambda m: False, direct=direct, shrink_budget=60)
    n = 60 if q else 1500
    v += k_suite(ctx, kres, "K17-keys", [Trace("keys%d" % i, gen.degenerate_key_history(ctx.seed * 6011 + i), "asan", env=ENV) for i in range(n)], lambda m: False, direct=direct, shrink_budget=60)
    n = 80 if q else 2500
    env2 = {"VERIF_SANITIZER_SIGNALS": "1"}
    v += k_suite(ctx, kres, "K17-files", [Trace("files%d" % i, gen.mutated_files_history(ctx.seed * 6029 + i, 5 if q else 8), "asan", env=env2) for i in range(n)], in_projection, sig_of=sig_of, direct=direct, shrink_budget=60)
    n = 30 if q else 600
    from .. import ksuites
    corpus = [Trace(t.name, t.ops, "asan", env=env2) for t in ksuites.corpus_traces("C17")]      # minimised past failures run first
    v += k_suite(ctx, kres, "K17-conf", corpus + [Trace("conf%d" % i, gen.conf_history(ctx.seed * 6037 + i), "asan", env=env2) for i in range(n)], lambda m: False, direct=direct, shrink_budget=60)
    # every truncation of an object file holding an attribute map and a mechanism set, opened with application mutexes (index handles, relock counted)
    from .. import gen2
    step = 150 if q else 60
    v += k_suite(ctx, kres, "K17-truncations", [Trace("trunc%d" % lo, gen2.c17_truncation_matrix(lo, lo + step), "asan", env=env2) for lo in range(0, 1200, step)] +
                 ([] if q else [Trace("trunc-plain%d" % lo, gen2.c17_truncation_matrix(lo, lo + 150, "init"), "asan", env=env2) for lo in range(0, 1200, 150)]),
                 lambda m: False, direct=direct, shrink_budget=40)
    # unit level: the configuration loader on arbitrary file bytes against its Lean model (total function; Props/C17 theorems are about it)
    from .. import pure
    v += pure.run_group(ctx, kres, "K17-pure-confloader", "conf", 600 if q else 12000)
    kres["notes"].append("loader correspondence: %d searches compared with the Lean decoder's count of loadable files" % kres["hist"].get("loadcount:agree", 0))
    return v


def judge(ctx, results):
    out = []
    for r in results:
        for s, t in direct(r): out.append(Violation(s, t, r.trace.ops))
        for l in r.mism:
            m = parse_mismatch(l)
            if m and in_projection(m): out.append(Violation(sig_of(m), l, r.trace.ops)); break
    return out


LEVEL_TEXT = ("EXPLORATION under sanitizers, with theorems for the part that is logic. Whether the C++ code stays inside valid memory is observed, not proved: the library built with "
              "ASan+UBSan is driven through hostile call sequences, degenerate key objects, damaged token directories and damaged configuration files, each call isolated in a "
              "forked copy so that every crashing call of a history is seen. Proved in Lean (lean/Shm/Props/C17.lean), for every input: the object-file reader never returns bytes "
              "the file does not hold, whatever its length fields say (File::read* as modelled); a file loads as an object only when it is a complete attribute sequence of at "
              "least 25 bytes; RFC 5652 unpadding refuses the empty string and only shortens its input; every symmetric unwrapping mechanism refuses an empty wrapped key. Tie "
              "between those theorems and the code: on arbitrarily damaged directories the library finds exactly as many objects as the Lean decoder accepts files.")
LEVEL_NOTE = ("The unbounded claim 'no input crashes the library' is NOT established by proof; the theorems cover the modelled parsing and length arithmetic, the sanitizer runs "
              "cover what the generators reach. Crashes found on the pinned tree were repaired in /repo (see known_findings.txt, fixed: entries).")
TECHNIQUE = ("sanitizer-instrumented differential exploration (hostile arguments, degenerate keys, file and configuration mutation) + Lean 4 theorems on the modelled bounded "
             "parsing / unpadding + loader-vs-Lean-decoder correspondence on damaged files")
