"""C15 — processes sharing a token directory see each other's committed changes."""
import re, sys, concurrent.futures
from ..main import k_suite, Violation, parse_mismatch, Trace
from .. import gen, core, overlap

LEAN_MODULES = ["Shm.Props.C15"]
GEN_TABLES = ["ClassTable.lean"]
LEVEL = "proof"
OPS = {"create", "copy", "destroy", "setattr", "getattr", "findinit", "find", "findfinal", "objsize", "probe"}
RULE = ("K15-processes: 2 or 3 real processes (p11drv -i, one per library instance) on one token directory, driven by a coordinator that interleaves their calls at call "
        "granularity: process 0 initialises the token, every process opens its own R/W session and logs in (one process may call C_Initialize late), then random "
        "interleavings of C_CreateObject / C_CopyObject / C_SetAttributeValue / C_DestroyObject / C_GetAttributeValue / C_FindObjects* on public and private token "
        "objects (data objects and AES keys) and on session objects; a process reaches another process's object only through its own search by label. Every return code, "
        "every set of handles found and every attribute value read is compared with the multi-process Lean model (`adopt` at every change of process). "
        "K15-overlap (file-operation granularity): for 64 pairs (a writing call A of process 0: C_SetAttributeValue on a public / private / key / 12 kB object, "
        "C_DestroyObject, C_CreateObject public / private, C_CopyObject; calls B of process 1: read, search, change, destroy, create, search for A's new object) A is PAUSED "
        "inside the library at its k-th libc file operation (the harness's interposition; every k, quick: a fixed sample), process 1 runs its calls - they answer, or block "
        "on A's fcntl lock until A goes on - and the run is judged by linearizability against the multi-process model: some order of the overlapping calls must explain "
        "every result, including both processes' reads and searches afterwards.")
TRUSTED = ["C++ harness p11drv in interactive mode + python coordinator vlib/multi.py (sequentially consistent interleaving: a call is sent only after the previous one answered)"]
ASSUMPTIONS = ["overlap is explored for ONE paused call at a time, at the libc file operations the harness interposes (open for writing, fwrite, fflush, fclose, ftruncate, remove, mkdir, rmdir); two calls running truly in parallel, and pauses between a lock and the first write, are not explored",
               "the token is initialised before the other processes call C_Initialize; PIN changes and C_InitToken by one process while others run are not exercised",
               "file object store, OpenSSL backend"]


def in_projection(m):
    return m["op"] in OPS


def sig_of(m):
    return "%s.%s" % (m["op"], m["cat"])


def traces(ctx):
    n = 48 if ctx.quick else 900
    return [Trace("mp%d" % i, gen.multiproc_history(ctx.seed * 5003 + i, 2 + (i % 3 == 2), 70 if ctx.quick else 140)) for i in range(n)]


def overlap_ops(sc, k):
    name, pre, a, bs, suf = sc
    return pre + "P0 pauseat %d\n" % k + a + "\n" + "".join(b + "\n" for b in bs) + "P0 resume\n" + suf


def overlap_one(sc, k):
    with core.Scratch("ov") as d:
        rc, calls, info = overlap.run_overlap(overlap_ops(sc, k), d.dir)
    if rc != 0: return {"k": k, "sig": "crash", "text": "a process died or hung (rc=%s): %s" % (rc, info["stderr"][-800:]), "info": info, "calls": calls}
    if not info["paused"]: return {"k": k, "sig": None, "notpaused": True, "info": info, "calls": calls}
    ok, tried, detail, tx = overlap.judge(calls)
    if ok: return {"k": k, "sig": None, "info": info, "calls": calls}
    m = re.search(r"cat=(\w+) op=(\w+)", detail); rv = re.search(r"rv: model (\S+) impl (\S+)", detail)
    sg = ("%s.%s%s" % (m.group(2), m.group(1), (".model%s.impl%s" % (rv.group(1), rv.group(2))) if rv else "")) if m else "unexplained"
    return {"k": k, "sig": sg, "text": "no order of the overlapping calls explains the run (%d tried); closest: %s" % (tried, detail[:600]), "info": info, "calls": calls}


def overlap_scenario(args):
    sc, quick = args
    out = []
    ks = [1, 2, 3, 4, 6, 9, 13, 18, 24, 31, 39, 48, 58] if quick else range(1, 200)
    for k in ks:
        r = overlap_one(sc, k); out.append(r)
        if r.get("notpaused"): break
    return sc, out


def run_k(ctx, kres):
    v = k_suite(ctx, kres, "K15-processes", traces(ctx), in_projection, sig_of=sig_of, shrink_budget=60)
    # every entry point that takes an object, as the FIRST call of a process after another process changed / renamed / destroyed that object
    from .. import gen2
    v += k_suite(ctx, kres, "K15-first-touch", [Trace("first-touch", gen2.c15_first_touch(ctx.seed))], lambda m: True, sig_of=lambda m: "first-touch.%s.%s" % (m["op"], m["cat"]), shrink_budget=60)
    # ---- K15-overlap: one call paused at its k-th file operation, the other process's calls inside -------------------------------
    kres["suites"] += 1
    scen = gen.overlap_scenarios()
    if ctx.quick: scen = [s for i, s in enumerate(scen) if (i + ctx.seed) % 2 == 0 or s[0] in ("create/find", "copy/find", "destroy/destroy", "setattr/change", "setattr-big/read-big")]
    seen, paused, blocked = set(), 0, 0
    with concurrent.futures.ThreadPoolExecutor(core.JOBS) as ex:
        for sc, rs in ex.map(overlap_scenario, [(s, ctx.quick) for s in scen]):
            for r in rs:
                kres["evaluations"] += len(r["calls"])
                if r.get("notpaused"): continue
                paused += 1; blocked += r["info"]["blocked"]
                kres["hist"]["overlap:%s" % sc[0].split("/")[0]] = kres["hist"].get("overlap:%s" % sc[0].split("/")[0], 0) + 1
                if r["sig"]:
                    sg = "overlap:%s:%s" % (sc[0], r["sig"])
                    if sg in seen: continue
                    seen.add(sg)
                    log = "".join("## P%d %s => %s\n" % (c["tid"], c["op"][:160], (c["res"] or "")[:200]) for c in r["calls"][-14:])
                    v.append(Violation(sg, "scenario %s, process 0 paused at file operation %d of `%s`: %s" % (sc[0], r["k"], sc[2][3:120], r["text"]),
                                       "## overlap scenario=%s k=%d\n" % (sc[0], r["k"]) + overlap_ops(sc, r["k"]) + log))
    kres["notes"].append("K15-overlap: %d scenarios, %d runs with process 0 paused inside its call, %d calls of process 1 blocked on a lock of the paused call" % (len(scen), paused, blocked))
    return v


def replay(ctx, path):
    text = open(path).read()
    m = re.search(r"## overlap scenario=(\S+) k=(\d+)", text)
    if not m:
        from .. import main as _m
        mod = sys.modules[__name__]; saved = mod.replay; del mod.replay
        try: return _m.replay(mod, ctx, path)
        finally: mod.replay = saved
    sc = next(s for s in gen.overlap_scenarios() if s[0] == m.group(1))
    r = overlap_one(sc, int(m.group(2)))
    for c in r["calls"]: print("P%d %s\n  => %s" % (c["tid"], c["op"][:200], (c["res"] or "")[:300]))
    if r["sig"]: print("JUDGEMENT: violates C15 (%s): %s" % (r["sig"], r["text"])); return 1
    print("JUDGEMENT: no violation of C15 on this replay"); return 0


def judge(ctx, results):
    out = []
    for r in results:
        if r.mism:
            m = parse_mismatch(r.mism[0])
            if m and in_projection(m): out.append(Violation(sig_of(m), r.mism[0], r.trace.ops))
    return out


LEVEL_TEXT = ("Lean 4 theorems (lean/Shm/Props/C15.lean) over a multi-process model (lean/Shm/Model/Multi.lean): every process is an instance of the single-process model; "
              "at a change of process the next one continues with its own sessions, handles, login state and session objects and with the token objects the last one left. "
              "Proved for all states: the next process's view of the token objects (identity, privacy, attributes) IS the last process's view — nothing lost, changed or "
              "duplicated (C15_adopt_view); its own sessions, handles and session objects are untouched and no session object crosses (C15_adopt_keeps_own, "
              "C15_adopt_session_objects); a handle to an object another process destroyed resolves to nothing (C15_destroyed_handle_dead); a process starting later reads "
              "exactly the committed store (C15_spawn_view). Tie to the code: real processes interleaved at call granularity are compared call by call with this model.")
LEVEL_NOTE = ("The theorems speak about hand-overs between calls. Overlapping calls are runtime behaviour the sequential model does not exhibit by itself: they are explored "
              "(one call paused at each of its file operations) and judged by linearizability against the model; on this tree a search that falls inside another process's "
              "object creation sees the half-made object (known finding). Trusted: Lean kernel + standard axioms; the hand model validated by the correspondence; the coordinators.")
TECHNIQUE = "Lean 4 theorems over a hand-written multi-process refinement of the state model; correspondence by a coordinator interleaving real processes at call granularity"
