"""C15 — processes sharing a token directory see each other's committed changes."""
from ..main import k_suite, Violation, parse_mismatch, Trace
from .. import gen

LEAN_MODULES = ["Shm.Props.C15"]
GEN_TABLES = ["AttrTable.lean"]
LEVEL = "proof"
OPS = {"create", "copy", "destroy", "setattr", "getattr", "findinit", "find", "findfinal", "objsize", "probe"}
RULE = ("K15-processes: 2 or 3 real processes (p11drv -i, one per library instance) on one token directory, driven by a coordinator that interleaves their calls at call "
        "granularity: process 0 initialises the token, every process opens its own R/W session and logs in (one process may call C_Initialize late), then random "
        "interleavings of C_CreateObject / C_CopyObject / C_SetAttributeValue / C_DestroyObject / C_GetAttributeValue / C_FindObjects* on public and private token "
        "objects (data objects and AES keys) and on session objects; a process reaches another process's object only through its own search by label. Every return code, "
        "every set of handles found and every attribute value read is compared with the multi-process Lean model (`adopt` at every change of process).")
TRUSTED = ["C++ harness p11drv in interactive mode + python coordinator vlib/multi.py (sequentially consistent interleaving: a call is sent only after the previous one answered)"]
ASSUMPTIONS = ["interleaving at CALL granularity: two calls of different processes never overlap in time; overlapping writers (file-operation granularity, fcntl locks) are not exercised",
               "the token is initialised before the other processes call C_Initialize; PIN changes and C_InitToken by one process while others run are not exercised",
               "file object store, OpenSSL backend"]


def in_projection(m):
    return m["op"] in OPS


def sig_of(m):
    return "%s.%s" % (m["op"], m["cat"])


def traces(ctx):
    n = 48 if ctx.quick else 900
    return [Trace("mp%d" % i, gen.multiproc_history(ctx.seed * 5003 + i, 2 + (i % 3 == 2), 70 if ctx.quick else 140)) for i in range(n)]


def run_k(ctx, kres):
    return k_suite(ctx, kres, "K15-processes", traces(ctx), in_projection, sig_of=sig_of, shrink_budget=60)


def judge(ctx, results):
    out = []
    for r in results:
        if r.mism:
            m = parse_mismatch(r.mism[0])
            if m and in_projection(m): out.append(Violation(sig_of(m), r.mism[0], r.trace.ops))
    return out


LEVEL_TEXT = ("Lean 4 theorems (lean/Shm/Props/C15.lean) over a multi-process model (lean/Shm/Model/Multi.lean): every process is an instance of the single-process model; "
              "at a change of process the next one continues with its own sessions, handles, login state and session objects and with the token objects the last one left. "
              "Proved for all states: the next process's view of the token objects (identity, privacy, attributes) IS the last process's view — nothing lost, changed or "
              "duplicated (C15_adopt_view); its own sessions, handles and session objects are untouched and no session object crosses (C15_adopt_keeps_own, "
              "C15_adopt_session_objects); a handle to an object another process destroyed resolves to nothing (C15_destroyed_handle_dead); a process starting later reads "
              "exactly the committed store (C15_spawn_view). Tie to the code: real processes interleaved at call granularity are compared call by call with this model.")
LEVEL_NOTE = ("PARTIAL with respect to the property's quantifier: interleavings at call granularity only. What the model cannot exhibit is two calls overlapping in time "
              "(file-operation granularity, the fcntl locking of File::lock and the transaction lock file): that part is neither modelled nor exercised. Trusted: Lean kernel "
              "+ standard axioms; the hand model validated by the correspondence; the coordinator.")
TECHNIQUE = "Lean 4 theorems over a hand-written multi-process refinement of the state model; correspondence by a coordinator interleaving real processes at call granularity"
