"""Correspondence suites shared by several properties (each property judges the result with its own projection)."""
from . import gen
from .main import Trace


def object_traces(ctx, nq=60, nt=800, ops_q=50, ops_t=90, salt=0):
    tables = gen.load_tables()
    n, ops = (nq, ops_q) if ctx.quick else (nt, ops_t)
    return [Trace("o%d" % i, gen.object_history((ctx.seed + salt) * 1000003 + i, tables, ops)) for i in range(n)]


def spine_traces(ctx, nq=30, nt=400, ops_q=40, ops_t=100, salt=0, probe=False):
    n, ops = (nq, ops_q) if ctx.quick else (nt, ops_t)
    return [Trace("s%d" % i, gen.spine_history((ctx.seed + salt) * 7919 + i, ops, probe_every=probe)) for i in range(n)]


def tpl_types(opline, skip):
    """attribute types (int) named in the template part of an op line"""
    out = []
    for w in opline.split()[skip:]:
        if "=" in w:
            try: out.append(int(w.split("=")[0], 16))
            except ValueError: pass
    return out


def last_failed_mutation(result, upto_line):
    """the most recent create/copy/setattr/destroy/… before transcript line `upto_line` that the IMPLEMENTATION refused"""
    ls = result.transcript.splitlines()
    i = min(upto_line - 2, len(ls) - 2)
    i -= i % 2
    seen_ok = False
    while i >= 0:
        op, res = ls[i].split(), ls[i + 1].split()
        if op and op[0] in ("create", "copy", "setattr", "destroy", "genkey", "genpair", "derive", "unwrap"):
            if len(res) > 1 and res[1] != "0":
                return i + 1, ls[i]
        i -= 2
    return None


def corpus_traces(pid):
    """minimised past disagreements kept under corpus/ (they run first)"""
    import glob, os
    from . import core
    out = []
    for f in sorted(glob.glob(os.path.join(core.VERIF, "corpus", pid + "-*.ops"))):
        ops = "\n".join(l for l in open(f).read().splitlines() if not l.startswith("##")) + "\n"
        out.append(Trace("corpus:" + os.path.basename(f), ops))
    return out
