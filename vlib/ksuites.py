"""Correspondence suites shared by several properties (each property judges the result with its own projection)."""
from . import gen
from .main import Trace


def object_traces(ctx, nq=60, nt=800, ops_q=50, ops_t=90, salt=0):
    tables = gen.load_tables()
    n, ops = (nq, ops_q) if ctx.quick else (nt, ops_t)
    return [Trace("o%d" % i, gen.object_history((ctx.seed + salt) * 1000003 + i, tables, ops)) for i in range(n)]


def spine_traces(ctx, nq=30, nt=400, ops_q=40, ops_t=100, salt=0, probe=False):
    n, ops = (nq, ops_q) if ctx.quick else (nt, ops_t)
    return [Trace("s%d" % i, gen.spine_history((ctx.seed + salt) * 7919 + i, ops, probe_every=probe)) for i in range(n)]


def tpl_types(opline, skip):
    """attribute types (int) named in the template part of an op line"""
    out = []
    for w in opline.split()[skip:]:
        if "=" in w:
            try: out.append(int(w.split("=")[0], 16))
            except ValueError: pass
    return out


def last_failed_mutation(result, upto_line):
    """the most recent create/copy/setattr/destroy/… before transcript line `upto_line` that the IMPLEMENTATION refused"""
    ls = result.transcript.splitlines()
    i = min(upto_line - 2, len(ls) - 2)
    i -= i % 2
    seen_ok = False
    while i >= 0:
        op, res = ls[i].split(), ls[i + 1].split()
        if op and op[0] in ("create", "copy", "setattr", "destroy", "genkey", "genpair", "derive", "unwrap"):
            if len(res) > 1 and res[1] != "0":
                return i + 1, ls[i]
        i -= 2
    return None


def corpus_traces(pid):
    """minimised past disagreements kept under corpus/ (they run first)"""
    import glob, os
    from . import core
    out = []
    for f in sorted(glob.glob(os.path.join(core.VERIF, "corpus", pid + "-*.ops"))):
        ops = "\n".join(l for l in open(f).read().splitlines() if not l.startswith("##")) + "\n"
        out.append(Trace("corpus:" + os.path.basename(f), ops))
    return out


def iter_ops(result):
    """(op tokens, result tokens without '=') pairs of a transcript"""
    ls = result.transcript.splitlines()
    i = 0
    while i + 1 < len(ls):
        if ls[i].startswith("#") or ls[i].startswith("="):
            i += 1; continue
        op, res = ls[i].split(), ls[i + 1].split()
        if res and res[0] == "=":
            yield op, res[1:]
            i += 2
        else:
            i += 1


def getattr_entries(op, res):
    """for a getattr pair: list of (type, len or None for unavailable, data hex or None) when the answer carries details"""
    if not res or res[0] not in ("0", "17", "18", "336"): return []
    out = []
    for w in res[3:]:
        p = w.split(":")
        if len(p) != 3: continue
        try: ty = int(p[0], 16)
        except ValueError: continue
        ln = None if p[1] == "-1" else int(p[1])
        out.append((ty, ln, None if p[2] == "-" else p[2]))
    return out


SECRET_ATTRS = (0x11, 0x123, 0x124, 0x125, 0x126, 0x127, 0x128)


def protection_direct(result):
    """C02 judged on the implementation's answers alone: one-way flags never go back on an object, a copy is never weaker than its source,
    and a secret attribute of a protected key key is never revealed."""
    flags, src, cls, out = {}, {}, {}, []
    for op, res in iter_ops(result):
        if op[0] in ("init", "fini"): flags, src, cls = {}, {}, {}
        if op[0] == "create" and res[0] == "0":
            for w in op[2:]:
                if w.startswith("0="): cls[res[2]] = int.from_bytes(bytes.fromhex(w[2:]), "little")
        if op[0] == "copy" and res[0] == "0":
            src[res[3]] = res[2]; cls[res[3]] = cls.get(res[2])
        if op[0] == "getattr":
            h = res[2] if len(res) > 2 else None
            ents = getattr_entries(op, res)
            f = flags.setdefault(h, {})
            for ty, ln, data in ents:
                if ty in (0x103, 0x162, 0x210) and data in ("00", "01"):
                    v = int(data, 16)
                    old = f.get(ty)
                    weaker = (ty in (0x103, 0x210) and old == 1 and v == 0) or (ty == 0x162 and old == 0 and v == 1)
                    if weaker: out.append(("flag-weakened", "attribute 0x%x of object handle %s went from %d to %d (op `%s`)" % (ty, h, old, v, " ".join(op)[:120])))
                    if old is None and h in src and src[h] in flags:
                        sv = flags[src[h]].get(ty)
                        if sv is not None and ((ty in (0x103, 0x210) and sv == 1 and v == 0) or (ty == 0x162 and sv == 0 and v == 1)):
                            out.append(("copy-weaker", "copy %s of object %s has attribute 0x%x = %d while the source has %d" % (h, src[h], ty, v, sv)))
                    f[ty] = v
            if cls.get(h) in (3, 4) and (f.get(0x103) == 1 or f.get(0x162) == 0):
                for ty, ln, data in ents:
                    if ty in SECRET_ATTRS and (data is not None or ln is not None):
                        out.append(("secret-revealed", "attribute 0x%x of protected key %s answered len=%s data=%s (op `%s`)" % (ty, h, ln, data, " ".join(op)[:120])))
    return out


def samevalues_direct(result):
    """`nop samevalues` followed by two C_GetAttributeValue calls of the same attribute list on two objects (a wrapped key and what C_UnwrapKey made of its blob):
    the two answers must be identical (return code, every length, every byte) - 'unwrapping what C_WrapKey produced yields a key of the same type and value'."""
    out = []
    pend = None
    for op, res in iter_ops(result):
        if op[:2] == ["nop", "samevalues"]:
            pend = []; continue
        if pend is not None and op[0] == "getattr":
            pend.append((op, res))
            if len(pend) == 2:
                (o1, r1), (o2, r2) = pend
                e1, e2 = getattr_entries(o1, r1), getattr_entries(o2, r2)
                if r1[0] != r2[0] or e1 != e2:
                    diff = [("%x" % a[0]) for a, b in zip(e1, e2) if a != b] or ["rv"]
                    out.append(("unwrapped-value-differs." + "-".join(diff), "the unwrapped key does not carry the value of the wrapped key: attributes %s differ\n  source: %s\n  unwrapped: %s"
                                % (diff, " ".join(r1)[:700], " ".join(r2)[:700])))
                pend = None
        elif pend is not None and op[0] != "getattr":
            pend = None
    return out


def no_output_direct(result):
    """`nop expect-no-output` marks a call that, by the property, must not hand out a result (an operation with a private key in a session of a token on which the
    normal user is not logged in): CKR_OK with bytes is a violation, named after the call"""
    out, armed = [], False
    for op, res in iter_ops(result):
        if op[:2] == ["nop", "expect-no-output"]:
            armed = True; continue
        if armed:
            armed = False
            if res and res[0] == "0" and len(res) > 3 and res[3] not in ("-",) and not res[3].startswith("W"):
                out.append(("private-key-op-after-logout.%s" % op[0], "`%s` answered CKR_OK with %s output bytes although the normal user is not logged in on the token "
                            "(the operation was started with a private key before C_Logout)" % (" ".join(op)[:80], res[2])))
    return out


def expect_login_direct(result):
    """`nop expect-login <rv>`: the next C_Login must answer exactly that code (0 for the PIN most recently set, 160 = CKR_PIN_INCORRECT for a replaced one)"""
    out, want, wantlab = [], None, None
    ls = [l for l in result.transcript.splitlines() if l.strip()]
    i = 0
    pend = None
    while i + 1 < len(ls):
        if ls[i].startswith("=") or ls[i].startswith("#"): i += 1; continue
        op, res = ls[i].split(), ls[i + 1].split()
        if not res or res[0] != "=": i += 1; continue
        i += 2
        if op[:2] == ["nop", "expect-login"] and len(op) > 2:
            want = int(op[2]); continue
        if op[:2] == ["nop", "expect-label"] and len(op) > 2:
            wantlab = op[2]; continue
        if op[0] == "slots" and wantlab is not None:
            if not any(w.startswith(wantlab) for w in res): out.append(("token-label-after-other-process", "a fresh process does not find a token labelled %s: %s" % (bytes.fromhex(wantlab).decode("latin1"), " ".join(res)[:300])))
            wantlab = None
        if op[0] == "login" and want is not None:
            if res[1] != str(want): out.append(("pin-after-other-process.%s.want%s.got%s" % ("user" if op[2] == "1" else "so", want, res[1]),
                                                 "a fresh process: C_Login(%s, %s) answered %s, expected %s (the PIN most recently set by ANY process authenticates, a replaced one does not)" % ("user" if op[2] == "1" else "SO", bytes.fromhex(op[3]).decode("latin1"), res[1], want)))
            want = None
    return out


def mxstat_direct(result):
    """`nop mxstat` (after `initix` rounds): the application's mutex callbacks were handed a handle they never issued or had destroyed (`bad`), or a mutex was locked while
    locked by the only thread there is (`relock`: with real mutexes the call would never return)"""
    out, last = [], None
    for op, res in iter_ops(result):
        if op[:2] == ["nop", "mxstat"] and len(res) >= 5:
            created, destroyed, bad, relock = (int(x) for x in res[1:5])
            if bad and "mutex-bad-handle" not in [s for s, _ in out]:
                out.append(("mutex-bad-handle", "the library called the application's mutex functions %d time(s) with a handle they never issued or had already destroyed "
                            "(created %d, destroyed %d) - last library call before the count: `%s`" % (bad, created, destroyed, " ".join(last or [])[:120])))
            if relock and "mutex-self-deadlock" not in [s for s, _ in out]:
                out.append(("mutex-self-deadlock", "the library locked a mutex it already holds %d time(s) (single thread): with OS mutexes this call never returns "
                            "- last library call before the count: `%s`" % (relock, " ".join(last or [])[:120])))
            if created != destroyed and "mutex-survives-finalize" not in [s for s, _ in out]:
                out.append(("mutex-survives-finalize", "after `%s` the library is not initialised, yet %d of the %d mutexes it made through the application's CreateMutex are still alive "
                            "(model Shm/Model/MutexLife.lean: none survives outside an initialised period; the next C_Initialize with other mutex functions would use them)"
                            % (" ".join(last or [])[:60], created - destroyed, created)))
        elif op[0] != "nop": last = op
    return out
