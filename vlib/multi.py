"""Several library processes on one token directory, interleaved at call granularity by this coordinator (C15).
Op files carry a process tag in front of every line: `P<i> <op ...>`.  Every process is `p11drv -i` (one op per line, answered before the next is read);
the combined transcript has a `proc <i>` line wherever control passes to another process, which is what the Lean driver's multi-process model follows."""
import os, subprocess, re, select, time
from . import core

TAG = re.compile(r"^P(\d+) (.*)$")


def run_multi(ops_text, workdir, variant="plain", backend="file", conf_extra="", env_extra=None, timeout=120):
    conf = core.scratch_conf(workdir, backend, conf_extra)
    env = dict(os.environ); env["SOFTHSM2_CONF"] = conf; env["VERIF_TOKENDIR"] = os.path.join(workdir, "tokens")
    env["ASAN_OPTIONS"] = "detect_leaks=0:abort_on_error=0:exitcode=71"; env["UBSAN_OPTIONS"] = "print_stacktrace=1:halt_on_error=1:exitcode=72"
    if env_extra: env.update(env_extra)
    procs, errs, out, cur, rc, bufs = {}, {}, [], None, 0, {}
    t_end = time.time() + timeout
    try:
        for line in ops_text.splitlines():
            m = TAG.match(line)
            if not m: continue
            i, op = int(m.group(1)), m.group(2)
            if op.split()[0] == "nop" and not op.startswith("nop expect-"): op = "nop"
            if i not in procs:
                errs[i] = open(os.path.join(workdir, "stderr.%d" % i), "wb")
                procs[i] = subprocess.Popen([core.harness_path(variant, "p11drv"), "-i"], stdin=subprocess.PIPE, stdout=subprocess.PIPE, stderr=errs[i], env=env, bufsize=0)
            p = procs[i]
            if i != cur:
                out += ["proc %d" % i, "= 0"]; cur = i
            try:
                p.stdin.write((op + "\n").encode("latin1")); p.stdin.flush()
            except BrokenPipeError:
                out.append(op); rc = p.wait() or 70; break
            dead = False
            buf = bufs.setdefault(i, bytearray())
            while True:
                nl = buf.find(b"\n")
                if nl < 0:
                    r, _, _ = select.select([p.stdout], [], [], max(0.1, t_end - time.time()))
                    if not r: dead = True; rc = -9; break          # stuck: report as a crash of the trace
                    chunk = os.read(p.stdout.fileno(), 1 << 16)
                    if not chunk: dead = True; rc = p.wait() or 70; break
                    buf += chunk; continue
                l = bytes(buf[:nl]).decode("latin1"); del buf[:nl + 1]
                out.append(l)
                if l.startswith("="): break
            if dead: break
    finally:
        for i, p in procs.items():
            try: p.stdin.close()
            except Exception: pass
        for i, p in procs.items():
            try:
                r = p.wait(timeout=20)
                if rc == 0 and r != 0: rc = r
            except subprocess.TimeoutExpired:
                p.kill(); rc = rc or -9
        for f in errs.values(): f.close()
    err = ""
    for i in sorted(errs):
        try:
            e = open(os.path.join(workdir, "stderr.%d" % i), "rb").read().decode("latin1")
            if e.strip(): err += "[process %d]\n%s\n" % (i, e[-3000:])
        except OSError: pass
    return rc, "\n".join(out) + "\n", err
