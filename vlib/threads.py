"""C18: threads of one process under the harness's deterministic scheduler (p11drv -t), judged by linearizability against the Lean model.
The harness logs `call <thread> <line> <op>` when a call starts and `ret <thread> <line> <result>` when it returns.  A call X precedes a call Y in real time when
X returned before Y started.  The run is explained when SOME total order of the calls that respects real-time precedence (hence program order) makes the
sequential model produce every observed result; the search enumerates those orders, cutting every prefix the model has already refuted."""
import os, subprocess, re
from . import core

MAX_ORDERS = 400


def run_threads(ops_text, workdir, variant="plain", seed=1, budget=2, pct=5, force="", conf_extra="", env_extra=None, timeout=120):
    conf = core.scratch_conf(workdir, "file", conf_extra)
    opsf = os.path.join(workdir, "ops.txt"); open(opsf, "w").write(ops_text)
    env = dict(os.environ); env["SOFTHSM2_CONF"] = conf; env["VERIF_TOKENDIR"] = os.path.join(workdir, "tokens")
    env["ASAN_OPTIONS"] = "detect_leaks=0:abort_on_error=0:exitcode=71"; env["UBSAN_OPTIONS"] = "print_stacktrace=1:halt_on_error=1:exitcode=72"
    env["TSAN_OPTIONS"] = "exitcode=74:halt_on_error=0"
    if env_extra: env.update(env_extra)
    try:
        p = subprocess.run([core.harness_path(variant, "p11drv"), "-t", opsf, str(seed), str(budget), str(pct)] + ([force] if force else []),
                           env=env, stdout=subprocess.PIPE, stderr=subprocess.PIPE, timeout=timeout)
        return p.returncode, p.stdout.decode("latin1"), p.stderr.decode("latin1")
    except subprocess.TimeoutExpired as e:
        return -9, (e.stdout or b"").decode("latin1"), "timeout: the threads did not finish (livelock or lost wake-up)"


def parse_log(log):
    calls, order, yields, npre, LABELS, pending = {}, [], {}, 0, {}, {}
    for idx, l in enumerate(log.splitlines()):
        w = l.split(" ", 3)
        if w[0] == "call" and len(w) >= 4:
            calls[int(w[2])] = {"tid": int(w[1]), "line": int(w[2]), "op": w[3], "start": idx, "end": None, "res": None, "notes": {}}; order.append(int(w[2]))
        elif w[0] == "ret" and len(w) >= 4:
            c = calls.get(int(w[2]))
            if c: c["end"] = idx; c["res"] = w[3]; c["notes"] = pending; pending = {}
        elif w[0] == "labels":
            for e in l.split()[1:]:
                h, _, lab = e.partition(":"); LABELS[int(h)] = lab; pending[int(h)] = lab
        elif w[0] == "yields": yields[int(w[1])] = int(w[2])
        elif w[0] == "preempt": npre += 1
    cs = [calls[k] for k in order]
    for c in cs: c["labels"] = LABELS
    return cs, yields, npre


MINT = {"open": 3, "create": 3, "genkey": 3, "copy": 4}      # op -> position of the newly issued handle in the result line
TWO = {"create", "genkey", "copy", "destroy", "probe", "objsize", "setattr", "getattr", "kcv", "digkey", "encinit", "decinit", "siginit", "verinit"}   # handles at 2 and 3


def transcript(seq):
    """The sequential transcript of one candidate order, with handle VALUES abstracted.
    (1) The property speaks of results "no sequential order explains"; the numeric value of a handle is not such a result, only its identity is (an application cannot rely
    on handle arithmetic).  With threads the library may issue the values out of step with every order that explains the contents (a handle is drawn from the shared counter
    at the end of C_CreateObject, after the object became visible).  So the handles are renamed, in this order, to the values the sequential model issues: the i-th newly
    issued handle of the order becomes i.  A value issued twice stays one value, so "issues a handle twice" still shows as a disagreement.
    (2) With threads the harness cannot tell which handles a C_FindObjectsInit minted (other threads mint handles meanwhile): they are worked out here, for THIS order, as the
    handles its C_FindObjects returned that no earlier call of the order had produced, with the labels logged by that C_FindObjects."""
    out, ren, nxt = [], {}, 1
    def issue(h):
        nonlocal nxt
        if h == 0: return 0
        if h not in ren: ren[h] = nxt; nxt += 1
        return ren[h]
    R = lambda tok: str(ren.get(int(tok), int(tok))) if tok.isdigit() else tok
    for k, c in enumerate(seq):
        op = c["op"]; w = op.split(); r = c["res"].split()
        if w[0] in ("initmx", "initos"): op = "init"
        if w[0] in ("init", "initmx", "initos"): ren, nxt = {}, 1
        if len(r) >= 3 and r[0] == "=":
            ok = r[1] == "0"
            if w[0] == "findinit" and ok:
                sess = r[2]; found = []
                if c["tid"] >= 0:
                    notes = {}
                    for d in seq[k + 1:]:
                        if d["tid"] != c["tid"]: continue
                        dw = d["op"].split(); dr = d["res"].split()
                        if dw[0] == "find" and len(dr) >= 4 and dr[2] == sess and dr[1] == "0": found += [int(x) for x in dr[4:] if x.isdigit()]; notes.update(d.get("notes") or {})
                        elif dw[0] in ("findfinal", "findinit", "close"): break
                    minted = [(h, notes.get(h, "?")) for h in sorted(set(found)) if h not in ren]
                else:
                    minted = [(int(e.split(":")[0]), e.split(":", 1)[1]) for e in r[3:] if ":" in e and e.split(":")[0].isdigit()]
                r = [r[0], r[1], R(r[2])] + ["%d:%s" % (issue(h), lab) for h, lab in minted]
            elif w[0] == "find":
                hs = sorted(int(R(x)) for x in r[4:] if x.isdigit())
                r = r[:2] + [R(r[2]), r[3]] + [str(x) for x in hs] + [x for x in r[4:] if not x.isdigit()]
            else:
                if w[0] in MINT and ok and len(r) > MINT[w[0]] and r[MINT[w[0]]].isdigit():
                    p = MINT[w[0]]; r[p] = str(issue(int(r[p])))
                    for q in range(2, p):
                        if w[0] != "open": r[q] = R(r[q])
                else:
                    if w[0] != "open" and len(r) > 2: r[2] = R(r[2])
                    if w[0] in TWO and len(r) > 3: r[3] = R(r[3])
                    if w[0] == "copy" and len(r) > 4: r[4] = R(r[4])
        out.append(op); out.append(" ".join(r))
    return "\n".join(out) + "\n"


def first_mismatch(dout, linemap=None):
    """index (0-based, in calls) of the first call the model does not explain, or None"""
    best = None
    for l in dout.splitlines():
        m = re.match(r"(MISMATCH|UNPARSED|PROTOCOL) line (\d+)", l)
        if m:
            k = linemap.get(int(m.group(2)), 0) if linemap is not None else (int(m.group(2)) - 1) // 2
            if best is None or k < best[0]: best = (k, l)
    return best


def _plain(seq):
    tx = transcript(seq)
    return tx, None


def linearize(calls, transcript_fn=None):
    """-> (explained: bool, orders tried, detail of the best attempt (longest explained prefix), transcript of that attempt)"""
    done = [c for c in calls if c["end"] is not None]
    n = len(done)
    preds = [[j for j in range(n) if done[j]["end"] < done[i]["start"]] for i in range(n)]
    bad = set()          # refuted prefixes (tuples of call indices, the last element being the call the model rejected there)
    tried = 0
    best = (-1, "", "")
    order, placed = [], [False] * n
    result = {"ok": False}

    def prefix_refuted():
        t = tuple(order)
        return any(t[:len(b)] == b for b in bad if len(b) <= len(t))

    def dfs():
        nonlocal tried, best
        if result["ok"] or tried >= MAX_ORDERS: return
        if order and prefix_refuted(): return
        if len(order) == n:
            tried += 1
            seq = [done[i] for i in order]
            tx, linemap = (transcript_fn or _plain)(seq)
            rc, dout = core.run_driver(tx)
            fm = first_mismatch(dout, linemap)
            if fm is None: result["ok"] = True; best = (n, "", tx); return
            k, line = fm
            bad.add(tuple(order[:k + 1]))
            if k > best[0]: best = (k, line, tx)
            return
        # candidates: unplaced calls all of whose real-time predecessors are placed; earliest start first (the order the run suggests)
        cand = [i for i in range(n) if not placed[i] and all(placed[j] for j in preds[i])]
        cand.sort(key=lambda i: done[i]["end"])
        for i in cand:
            placed[i] = True; order.append(i)
            dfs()
            order.pop(); placed[i] = False
            if result["ok"] or tried >= MAX_ORDERS: return

    import sys
    sys.setrecursionlimit(max(10000, n * 4))
    dfs()
    return result["ok"], tried, best[1], best[2]
