"""Generators of operation files (histories).  Every random choice comes from one random.Random(seed);
the op file is the replay.  The generators keep a light shadow of what they believe is open / logged in
so that most operations are valid; they do not predict results (the Lean model does)."""
import random

def hx(b):
    if isinstance(b, str): b = b.encode()
    return b.hex() if b else "."

def ul(n): return int(n).to_bytes(8, "little").hex()

CKA = dict(CLASS=0x0, TOKEN=0x1, PRIVATE=0x2, LABEL=0x3, APPLICATION=0x10, VALUE=0x11, OBJECT_ID=0x12, ID=0x102,
           KEY_TYPE=0x100, SENSITIVE=0x103, ENCRYPT=0x104, DECRYPT=0x105, WRAP=0x106, UNWRAP=0x107, SIGN=0x108,
           VERIFY=0x10A, DERIVE=0x10C, VALUE_LEN=0x161, EXTRACTABLE=0x162, MODIFIABLE=0x170, COPYABLE=0x171,
           DESTROYABLE=0x172, TRUSTED=0x86, WRAP_WITH_TRUSTED=0x210, ALWAYS_AUTHENTICATE=0x202)


class Tok:
    def __init__(self, label, so, user):
        self.label, self.so, self.user = label, so, user
        self.user_set = False
        self.login = None          # None | 'so' | 'user'   (belief)


class History:
    """builder of an op file with a shadow of sessions / objects"""
    def __init__(self, rng):
        self.rng = rng
        self.lines = []
        self.sessions = []         # (op index, tok, rw)
        self.objects = []          # (op index, tok, onToken, private, label)
        self.toks = []
        self.minted = 0            # upper bound on the number of handles issued since init
        self.nlabel = 0

    def op(self, s):
        self.lines.append(s)
        return len(self.lines)     # 1-based op index == @k

    def text(self): return "\n".join(self.lines) + "\n"

    # ---- building blocks ----
    def prologue(self, ntok=2, userpin=True):
        self.op("init"); self.op("slots")
        for i in range(ntok):
            t = Tok(f"tok{chr(65+i)}", f"so{i}pin{i}", f"user{i}pin")
            self.op(f"inittoken free {hx(t.so)} {hx(t.label)}"); self.op("slots")
            self.toks.append(t)
        if userpin:
            for t in self.toks:
                k = self.op(f"open t:{hx(t.label)} 6"); self.minted += 1
                self.op(f"login @{k} 0 {hx(t.so)}"); self.op(f"initpin @{k} {hx(t.user)}"); t.user_set = True
                self.op(f"close @{k}")

    def open(self, t, rw):
        k = self.op(f"open t:{hx(t.label)} {6 if rw else 4}"); self.minted += 1
        if not (not rw and t.login == 'so'):
            self.sessions.append((k, t, rw))
        return k

    def close(self, k):
        self.op(f"close @{k}")
        t = [s for s in self.sessions if s[0] == k]
        self.sessions = [s for s in self.sessions if s[0] != k]
        self.objects = [o for o in self.objects if not (not o[2] and o[5] == k)]
        if t and not any(s[1] is t[0][1] for s in self.sessions):
            t[0][1].login = None
            self.objects = [o for o in self.objects if not (o[1] is t[0][1] and not o[2])]

    def closeall(self, t):
        self.op(f"closeall t:{hx(t.label)}")
        self.sessions = [s for s in self.sessions if s[1] is not t]
        self.objects = [o for o in self.objects if not (o[1] is t and not o[2])]
        t.login = None

    def login(self, k, t, who, right=True):
        pin = (t.so if who == 'so' else t.user)
        if not right:
            pin = self.rng.choice([pin + "x", pin[:-1], "wrong", (t.user if who == 'so' else t.so), ""])
        self.op(f"login @{k} {0 if who == 'so' else 1} {hx(pin)}")
        if right and t.login is None and not (who == 'so' and any(s[1] is t and not s[2] for s in self.sessions)) and (who == 'so' or t.user_set):
            t.login = who

    def logout(self, k, t):
        self.op(f"logout @{k}")
        t.login = None
        self.objects = [o for o in self.objects if not (o[1] is t and not o[2] and o[3])]

    def new_label(self):
        self.nlabel += 1
        return f"obj{self.nlabel}"

    def create_data(self, k, t, on_token, private, extra=""):
        lab = self.new_label()
        i = self.op(f"create @{k} 0={ul(0)} 1={'01' if on_token else '00'} 2={'01' if private else '00'} 3={hx(lab)}{extra}")
        self.minted += 1
        self.objects.append((i, t, on_token, private, lab, k))
        return i

    def probes(self, extra=2):
        """C11: ask about every handle value that can have been issued so far (and a few more)"""
        ks = [s[0] for s in self.sessions][-3:]
        for v in range(1, self.minted + 1 + extra):
            self.op(f"sinfo {v}")
            for k in ks:
                self.op(f"probe @{k} {v}")


def spine_history(seed, nops=40, ntok=2, probe_every=True):
    rng = random.Random(seed)
    h = History(rng)
    h.prologue(ntok)
    for _ in range(nops):
        r = rng.random()
        t = rng.choice(h.toks)
        if r < 0.16 or not h.sessions:
            h.open(t, rng.random() < 0.6)
        elif r < 0.24:
            k = rng.choice(h.sessions)[0] if rng.random() < 0.9 else rng.randrange(1, len(h.lines) + 1)
            h.close(k)
        elif r < 0.28:
            h.closeall(t)
        elif r < 0.42:
            k, t, rw = rng.choice(h.sessions)
            h.login(k, t, rng.choice(['user', 'user', 'so']), rng.random() < 0.8)
        elif r < 0.50:
            k, t, rw = rng.choice(h.sessions)
            h.logout(k, t)
        elif r < 0.72:
            k, t, rw = rng.choice(h.sessions)
            h.create_data(k, t, rng.random() < 0.5, rng.random() < 0.5)
        elif r < 0.80 and h.objects:
            k, t, rw = rng.choice(h.sessions)
            o = rng.choice(h.objects)
            h.op(f"destroy @{k} @{o[0]}")
            if rng.random() < 0.8: h.objects = [x for x in h.objects if x[0] != o[0]]   # belief only
        elif r < 0.95:
            k, t, rw = rng.choice(h.sessions)
            c = rng.random()
            if c < 0.4: tpl = ""
            elif c < 0.6 and h.objects: tpl = f" 3={hx(rng.choice(h.objects)[4])}"
            elif c < 0.8: tpl = f" 1={rng.choice(['00', '01'])}"
            else: tpl = f" 2={rng.choice(['00', '01'])}"
            h.op(f"findinit @{k}{tpl}")
            h.minted += sum(1 for o in h.objects if o[1] is t)
            for _ in range(rng.randrange(0, 4)):
                h.op(f"find @{k} {rng.choice([0, 1, 1, 2, 3, 10])}")
            if rng.random() < 0.85: h.op(f"findfinal @{k}")
        else:
            h.op("slots")
        if probe_every: h.probes()
    h.op("fini")
    return h.text()
