"""Generators of operation files (histories).  Every random choice comes from one random.Random(seed);
the op file is the replay.  The generators keep a light shadow of what they believe is open / logged in
so that most operations are valid; they do not predict results (the Lean model does)."""
import random

def hx(b):
    if isinstance(b, str): b = b.encode()
    return b.hex() if b else "."

def ul(n): return int(n).to_bytes(8, "little").hex()

CKA = dict(CLASS=0x0, TOKEN=0x1, PRIVATE=0x2, LABEL=0x3, APPLICATION=0x10, VALUE=0x11, OBJECT_ID=0x12, ID=0x102,
           KEY_TYPE=0x100, SENSITIVE=0x103, ENCRYPT=0x104, DECRYPT=0x105, WRAP=0x106, UNWRAP=0x107, SIGN=0x108,
           VERIFY=0x10A, DERIVE=0x10C, VALUE_LEN=0x161, EXTRACTABLE=0x162, MODIFIABLE=0x170, COPYABLE=0x171,
           DESTROYABLE=0x172, TRUSTED=0x86, WRAP_WITH_TRUSTED=0x210, ALWAYS_AUTHENTICATE=0x202)


class Tok:
    def __init__(self, label, so, user):
        self.label, self.so, self.user = label, so, user
        self.user_set = False
        self.login = None          # None | 'so' | 'user'   (belief)


class History:
    """builder of an op file with a shadow of sessions / objects"""
    def __init__(self, rng):
        self.rng = rng
        self.lines = []
        self.sessions = []         # (op index, tok, rw)
        self.objects = []          # (op index, tok, onToken, private, label)
        self.toks = []
        self.minted = 0            # upper bound on the number of handles issued since init
        self.nlabel = 0

    def op(self, s):
        self.lines.append(s)
        return len(self.lines)     # 1-based op index == @k

    def text(self): return "\n".join(self.lines) + "\n"

    # ---- building blocks ----
    def prologue(self, ntok=2, userpin=True):
        self.op("init"); self.op("slots")
        for i in range(ntok):
            t = Tok(f"tok{chr(65+i)}", f"so{i}pin{i}", f"user{i}pin")
            self.op(f"inittoken free {hx(t.so)} {hx(t.label)}"); self.op("slots")
            self.toks.append(t)
        if userpin:
            for t in self.toks:
                k = self.op(f"open t:{hx(t.label)} 6"); self.minted += 1
                self.op(f"login @{k} 0 {hx(t.so)}"); self.op(f"initpin @{k} {hx(t.user)}"); t.user_set = True
                self.op(f"close @{k}")

    def open(self, t, rw):
        k = self.op(f"open t:{hx(t.label)} {6 if rw else 4}"); self.minted += 1
        if not (not rw and t.login == 'so'):
            self.sessions.append((k, t, rw))
        return k

    def close(self, k):
        self.op(f"close @{k}")
        t = [s for s in self.sessions if s[0] == k]
        self.sessions = [s for s in self.sessions if s[0] != k]
        self.objects = [o for o in self.objects if not (not o[2] and o[5] == k)]
        if t and not any(s[1] is t[0][1] for s in self.sessions):
            t[0][1].login = None
            self.objects = [o for o in self.objects if not (o[1] is t[0][1] and not o[2])]

    def closeall(self, t):
        self.op(f"closeall t:{hx(t.label)}")
        self.sessions = [s for s in self.sessions if s[1] is not t]
        self.objects = [o for o in self.objects if not (o[1] is t and not o[2])]
        t.login = None

    def login(self, k, t, who, right=True):
        pin = (t.so if who == 'so' else t.user)
        if not right:
            pin = self.rng.choice([pin + "x", pin[:-1], "wrong", (t.user if who == 'so' else t.so), ""])
        self.op(f"login @{k} {0 if who == 'so' else 1} {hx(pin)}")
        if right and t.login is None and not (who == 'so' and any(s[1] is t and not s[2] for s in self.sessions)) and (who == 'so' or t.user_set):
            t.login = who

    def logout(self, k, t):
        self.op(f"logout @{k}")
        t.login = None
        self.objects = [o for o in self.objects if not (o[1] is t and not o[2] and o[3])]

    def new_label(self):
        self.nlabel += 1
        return f"obj{self.nlabel}"

    def create_data(self, k, t, on_token, private, extra=""):
        lab = self.new_label()
        i = self.op(f"create @{k} 0={ul(0)} 1={'01' if on_token else '00'} 2={'01' if private else '00'} 3={hx(lab)}{extra}")
        self.minted += 1
        self.objects.append((i, t, on_token, private, lab, k))
        return i

    def probes(self, extra=2):
        """C11: ask about every handle value that can have been issued so far (and a few more)"""
        ks = [s[0] for s in self.sessions][-3:]
        for v in range(1, self.minted + 1 + extra):
            self.op(f"sinfo {v}")
            for k in ks:
                self.op(f"probe @{k} {v}")


def spine_history(seed, nops=40, ntok=2, probe_every=True):
    rng = random.Random(seed)
    h = History(rng)
    h.prologue(ntok)
    for _ in range(nops):
        r = rng.random()
        t = rng.choice(h.toks)
        if r < 0.16 or not h.sessions:
            h.open(t, rng.random() < 0.6)
        elif r < 0.24:
            k = rng.choice(h.sessions)[0] if rng.random() < 0.9 else rng.randrange(1, len(h.lines) + 1)
            h.close(k)
        elif r < 0.28:
            h.closeall(t)
        elif r < 0.42:
            k, t, rw = rng.choice(h.sessions)
            h.login(k, t, rng.choice(['user', 'user', 'so']), rng.random() < 0.8)
        elif r < 0.50:
            k, t, rw = rng.choice(h.sessions)
            h.logout(k, t)
        elif r < 0.72:
            k, t, rw = rng.choice(h.sessions)
            h.create_data(k, t, rng.random() < 0.5, rng.random() < 0.5)
        elif r < 0.80 and h.objects:
            k, t, rw = rng.choice(h.sessions)
            o = rng.choice(h.objects)
            h.op(f"destroy @{k} @{o[0]}")
            if rng.random() < 0.8: h.objects = [x for x in h.objects if x[0] != o[0]]   # belief only
        elif r < 0.95:
            k, t, rw = rng.choice(h.sessions)
            c = rng.random()
            if c < 0.4: tpl = ""
            elif c < 0.6 and h.objects: tpl = f" 3={hx(rng.choice(h.objects)[4])}"
            elif c < 0.8: tpl = f" 1={rng.choice(['00', '01'])}"
            else: tpl = f" 2={rng.choice(['00', '01'])}"
            h.op(f"findinit @{k}{tpl}")
            h.minted += sum(1 for o in h.objects if o[1] is t)
            for _ in range(rng.randrange(0, 4)):
                h.op(f"find @{k} {rng.choice([0, 1, 1, 2, 3, 10])}")
            if rng.random() < 0.85: h.op(f"findfinal @{k}")
        else:
            h.op("slots")
        if probe_every: h.probes()
    h.op("fini")
    return h.text()


# ---------------------------------------------------------------------------------------------------------
# attribute-engine histories: objects of every class built from the generated class table
# ---------------------------------------------------------------------------------------------------------
import json, os

def load_tables():
    from . import core
    return json.load(open(os.path.join(core.BUILD, "tables.json")))

CK = {n: 1 << (n - 1) for n in range(1, 25)}
HISTORY_ATTRS = (0x163, 0x164, 0x165, 0x166)          # LOCAL NEVER_EXTRACTABLE ALWAYS_SENSITIVE KEY_GEN_MECHANISM
SECRET_ATTRS = (0x11, 0x123, 0x124, 0x125, 0x126, 0x127, 0x128)


def attr_value(rng, a, valid=True, cname=""):
    """a template value (hex) for attribute descriptor `a`"""
    ty, kind, size = a["type"], a["dkind"], a["size"]
    if ty == 0x11 and cname in ("SECRET_DES2", "SECRET_DES3", "SECRET_AES") and valid:
        n = {"SECRET_DES2": 16, "SECRET_DES3": 24, "SECRET_AES": rng.choice([16, 24, 32])}[cname]
        return bytes(rng.randrange(256) for _ in range(n)).hex()
    if kind == "bool":
        v = rng.choice(["00", "01"])
        return v if valid else rng.choice(["0001", ".", "0000000000000000"])
    if kind == "ulong":
        v = ul(rng.choice([0, 1, 2, 3, 16, 32, 0x1000]))
        return v if valid else rng.choice(["01", ".", v + "00"])
    if kind == "mechs":
        return "".join(ul(m) for m in rng.sample([0x1, 0x1081, 0x1082, 0x1087, 0x251, 0x40, 0x1041], rng.randrange(1, 4))) if valid else rng.choice([".", "0102"])
    if kind == "amap":
        inner = ";".join(rng.sample(["162=01", "103=00", "104=01", "0=" + ul(4), "3=" + hx("inner"), "100=" + ul(0x1f)], rng.randrange(0, 4)))
        return "{" + inner + "}"
    if ty in (0x110, 0x111):                      # dates
        return hx(rng.choice(["20260101", "19991231"])) if valid else hx("2026")
    n = rng.choice([0, 1, 3, 8, 16, 16, 20, 32, 33, 100]) if valid else 5
    return bytes(rng.randrange(256) for _ in range(n)).hex() or "."


class ObjGen(History):
    def __init__(self, rng, tables):
        super().__init__(rng)
        self.classes = [c for c in tables["classes"] if c["name"] != "SECRET_DES"]   # single DES needs OpenSSL's legacy provider (absent here)
        self.objs2 = []        # (op index, class desc, token, on_token, private)

    def base_template(self, c, on_token, private, label, give_private=True):
        t = [f"0={ul(c['cls'])}"]
        if c["cls"] in (2, 3, 4, 6): t.append(f"100={ul(c['keyType'])}")
        if c["cls"] == 1: t.append(f"80={ul(c['certType'])}")
        t.append(f"1={'01' if on_token else '00'}")
        if give_private: t.append(f"2={'01' if private else '00'}")
        t.append(f"3={hx(label)}")
        return t

    def create_obj(self, k, tok, c=None, on_token=None, private=None, defect=None):
        rng = self.rng
        c = c or rng.choice(self.classes)
        on_token = rng.random() < 0.5 if on_token is None else on_token
        private = rng.random() < 0.5 if private is None else private
        lab = self.new_label()
        t = self.base_template(c, on_token, private, lab)
        skip = {0x0, 0x1, 0x2, 0x3, 0x100, 0x80}
        for a in c["attrs"]:
            if a["type"] in skip: continue
            mandatory = a["checks"] & CK[1]
            forbidden = a["checks"] & CK[2]
            if a["type"] == 0x90 and rng.random() < 0.9: continue      # CKA_CHECK_VALUE: computed by the token
            if mandatory or (not forbidden and rng.random() < 0.25):
                t.append(f"{a['type']:x}={attr_value(rng, a, True, c['name'])}")
        body = t[4:] if c["cls"] != 0 else t[3:]
        if defect == "unknown":
            t.insert(rng.randrange(3, len(t) + 1), f"{rng.choice([0x9999, 0x12345, 0x80000001]):x}={hx('zz')}")
        elif defect == "wrongsize":
            fixed = [a for a in c["attrs"] if a["size"] >= 0 and a["type"] not in skip and not a["checks"] & CK[2]]
            if fixed:
                a = rng.choice(fixed)
                t = [x for x in t if not x.startswith(f"{a['type']:x}=")]
                t.insert(rng.randrange(3, len(t) + 1), f"{a['type']:x}={attr_value(rng, a, valid=False)}")
        elif defect == "forbidden":
            fb = [a for a in c["attrs"] if a["checks"] & CK[2]]
            if fb:
                a = rng.choice(fb); t.insert(rng.randrange(3, len(t) + 1), f"{a['type']:x}={attr_value(rng, a)}")
        elif defect == "missing":
            mand = [a for a in c["attrs"] if a["checks"] & CK[1] and a["type"] not in (0x0,)]
            if mand:
                a = rng.choice(mand); t = [x for x in t if not x.startswith(f"{a['type']:x}=")]
        elif defect == "inconsistent":
            t.append(f"0={ul((c['cls'] + 1) % 5)}")
        elif defect == "toomany":
            t += [f"3={hx('l%d' % i)}" for i in range(33)]
        elif defect == "foreign":                # an attribute of another class
            other = rng.choice(self.classes)
            own = {a["type"] for a in c["attrs"]}
            cand = [a for a in other["attrs"] if a["type"] not in own]
            if cand:
                a = rng.choice(cand); t.insert(rng.randrange(3, len(t) + 1), f"{a['type']:x}={attr_value(rng, a)}")
        rng.random() < 0.3 and rng.shuffle(body)
        i = self.op(f"create @{k} " + " ".join(t))
        self.minted += 1
        if defect is None:
            self.objs2.append((i, c, tok, on_token, private))
            self.objects.append((i, tok, on_token, private, lab, k))
        return i

    def getattrs(self, k, oi, c):
        rng = self.rng
        types = [a["type"] for a in c["attrs"] if a["dkind"] != "amap"]
        rng.shuffle(types)
        if rng.random() < 0.2: types.insert(rng.randrange(len(types) + 1), rng.choice([0x9999, 0x120, 0x161, 0x11]))
        for j in range(0, len(types), 6):
            req = []
            for ty in types[j:j + 6]:
                cap = rng.choice(["n", "0", "1", "7", "8", "16", "64", "300", "300", "300"])
                req.append(f"{ty:x}:{cap}")
            self.op(f"getattr @{k} @{oi} " + " ".join(req))

    def setattrs(self, k, oi, c):
        rng = self.rng
        n = rng.choice([1, 1, 2, 3])
        cand = [a for a in c["attrs"] if a["type"] not in (0x0,)]
        t = []
        for a in rng.sample(cand, min(n, len(cand))):
            valid = rng.random() < 0.85
            t.append(f"{a['type']:x}={attr_value(rng, a, valid, c['name'])}")
        if rng.random() < 0.1: t.append(f"9999={hx('q')}")
        self.op(f"setattr @{k} @{oi} " + " ".join(t))

    def copy(self, k, oi, c, tok):
        rng = self.rng
        t = []
        lab = self.new_label()
        if rng.random() < 0.9 or getattr(self, "always_label", False): t.append(f"3={hx(lab)}")
        if rng.random() < 0.5: t.append(f"1={rng.choice(['00', '01'])}")
        if rng.random() < 0.5: t.append(f"2={rng.choice(['00', '01'])}")
        for a in rng.sample(c["attrs"], rng.choice([0, 0, 1, 2])):
            if a["type"] in (0, 1, 2, 3): continue
            t.append(f"{a['type']:x}={attr_value(rng, a, rng.random() < 0.9, c['name'])}")
        i = self.op(f"copy @{k} @{oi} " + " ".join(t))
        self.minted += 1
        self.objs2.append((i, c, tok, True, True))      # belief only
        if getattr(self, "always_label", False): self.objects.append((i, tok, True, True, lab, k))
        return i


def same(h, t):
    """objects created through sessions of token t (the property speaks about a token's own sessions and handles)"""
    return [o for o in h.objs2 if o[2] is t]


def object_history(seed, tables, nops=40, ntok=2):
    rng = random.Random(seed)
    h = ObjGen(rng, tables)
    h.prologue(ntok)
    for t in h.toks:                                   # a user session and a public session per token
        k = h.open(t, True); h.login(k, t, 'user'); h.open(t, rng.random() < 0.5)
    for _ in range(nops):
        r = rng.random()
        k, t, rw = rng.choice(h.sessions)
        if r < 0.30 or not same(h, t):
            d = None if rng.random() < 0.7 else rng.choice(["unknown", "wrongsize", "forbidden", "missing", "inconsistent", "toomany", "foreign"])
            h.create_obj(k, t, defect=d)
        elif r < 0.55:
            oi, c, tok, _, _ = rng.choice(same(h, t)); h.getattrs(k, oi, c)
        elif r < 0.72:
            oi, c, tok, _, _ = rng.choice(same(h, t)); h.setattrs(k, oi, c)
        elif r < 0.82:
            oi, c, tok, _, _ = rng.choice(same(h, t)); h.copy(k, oi, c, tok)
        elif r < 0.86:
            oi, c, tok, _, _ = rng.choice(same(h, t)); h.op(f"destroy @{k} @{oi}")
        elif r < 0.92:
            oi, c, tok, _, _ = rng.choice(same(h, t))
            a = rng.choice(c["attrs"])
            tpl = rng.choice(["", f" {a['type']:x}={attr_value(rng, a)}", f" 0={ul(c['cls'])}", f" 0={ul(c['cls'])} 1=01"])
            h.op(f"findinit @{k}{tpl}"); h.minted += len(h.objs2)
            h.op(f"find @{k} {rng.choice([1, 3, 100])}"); h.op(f"find @{k} 100"); h.op(f"findfinal @{k}")
        elif r < 0.95:
            h.login(k, t, rng.choice(['user', 'so']), rng.random() < 0.9)
        elif r < 0.98:
            h.logout(k, t)
        else:
            h.open(t, rng.random() < 0.5)
    h.op("fini")
    return h.text()


def flag_matrix(tables, seed=1):
    """EXHAUSTIVE small scope for the protection flags: every secret/private key class x (SENSITIVE, EXTRACTABLE, WRAP_WITH_TRUSTED) in {0,1}^3
    at creation, then: read every secret attribute with NULL / 0 / short / exact / large buffers (alone and mixed), try to weaken each flag by
    C_SetAttributeValue and by C_CopyObject, strengthen each flag, re-read the flags of the object and of the copies."""
    rng = random.Random(seed)
    h = ObjGen(rng, tables)
    h.prologue(1)
    t = h.toks[0]
    k = h.open(t, True); h.login(k, t, 'user')
    SECRET = (0x11, 0x123, 0x124, 0x125, 0x126, 0x127, 0x128)
    for c in h.classes:
        if c["cls"] not in (3, 4): continue
        has = {a["type"]: a for a in c["attrs"]}
        for sens in (0, 1):
            for extr in (0, 1):
                for wwt in (0, 1):
                    lab = h.new_label()
                    tpl = h.base_template(c, False, True, lab)
                    for a in c["attrs"]:
                        if a["checks"] & CK[1] and a["type"] not in (0, 0x100):
                            tpl.append(f"{a['type']:x}={attr_value(rng, a, True, c['name'])}")
                    for ty in SECRET:
                        if ty in has and not any(x.startswith(f"{ty:x}=") for x in tpl):
                            tpl.append(f"{ty:x}={bytes(rng.randrange(1, 256) for _ in range(16)).hex()}")
                    tpl += [f"103={sens:02x}", f"162={extr:02x}", f"210={wwt:02x}"]
                    o = h.op(f"create @{k} " + " ".join(tpl)); h.minted += 1
                    sec = [ty for ty in SECRET if ty in has]
                    for ty in sec:
                        h.op(f"getattr @{k} @{o} {ty:x}:n {ty:x}:0 {ty:x}:15 {ty:x}:16 {ty:x}:64")
                    h.op(f"getattr @{k} @{o} 3:64 " + " ".join(f"{ty:x}:64" for ty in sec) + " 103:1 162:1 210:1 163:1 164:1 165:1")
                    # weaken / strengthen by C_SetAttributeValue
                    for ty, weak in ((0x103, 0), (0x162, 1), (0x210, 0)):
                        h.op(f"setattr @{k} @{o} {ty:x}={weak:02x}")
                        h.op(f"setattr @{k} @{o} 3={hx(lab)} {ty:x}={weak:02x}")
                    h.op(f"getattr @{k} @{o} 103:1 162:1 210:1 164:1 165:1")
                    # … by C_CopyObject
                    for ty, weak in ((0x103, 0), (0x162, 1), (0x210, 0)):
                        cp = h.op(f"copy @{k} @{o} 3={hx(h.new_label())} {ty:x}={weak:02x}"); h.minted += 1
                        h.op(f"getattr @{k} @{cp} 103:1 162:1 210:1 164:1 165:1 " + " ".join(f"{ty2:x}:64" for ty2 in sec[:2]))
                    cp = h.op(f"copy @{k} @{o} 3={hx(h.new_label())} 103=01 162=00 210=01"); h.minted += 1
                    h.op(f"getattr @{k} @{cp} 103:1 162:1 210:1 164:1 165:1 " + " ".join(f"{ty2:x}:64" for ty2 in sec[:2]))
                    h.op(f"setattr @{k} @{o} 103=01"); h.op(f"setattr @{k} @{o} 162=00"); h.op(f"setattr @{k} @{o} 210=01")
                    h.op(f"setattr @{k} @{o} 162=01"); h.op(f"setattr @{k} @{o} 103=00"); h.op(f"setattr @{k} @{o} 210=00")
                    h.op(f"getattr @{k} @{o} 103:1 162:1 210:1 164:1 165:1 " + " ".join(f"{ty2:x}:64" for ty2 in sec))
                    h.op(f"destroy @{k} @{o}")
    h.op("fini")
    return h.text()


# ---------------------------------------------------------------------------------------------------------
# cryptographic operations: automaton + output-length protocol (C12), start conditions (C07)
# ---------------------------------------------------------------------------------------------------------
P256 = "06082a8648ce3d030107"
ED25519 = "06032b6570"
SYM = {  # mech: (key kind, block size, param maker)
    0x1081: ("aes", 16, lambda r: ""), 0x1082: ("aes", 16, lambda r: ":" + "00" * 16), 0x1085: ("aes", 16, lambda r: ":" + "11" * 16),
    0x1086: ("aes", 16, lambda r: ":ctr(%d,%s)" % (r.choice([128, 32, 8, 4]), r.choice(["00" * 16, "ff" * 16, "00" * 15 + "fe"]))),
    0x1087: ("aes", 16, lambda r: ":gcm(%s,%s,%d)" % ("ab" * r.choice([12, 12, 16, 1]), r.choice(["", "aa" * 5]), r.choice([128, 128, 96, 64]))),
    0x132: ("des3", 8, lambda r: ""), 0x133: ("des3", 8, lambda r: ":" + "22" * 8), 0x136: ("des3", 8, lambda r: ":" + "33" * 8),
}
MACS = {0x251: "hmac", 0x221: "hmac", 0x271: "hmac", 0x108A: "aes", 0x138: "des3"}
DIGESTS = [0x220, 0x250, 0x260, 0x270, 0x255]


class OpsGen(History):
    def setup_keys(self, k, t, rsa=True, ec=True):
        U = ul
        keys = {}
        flags = "104=01 105=01 108=01 10a=01 106=01 107=01 162=01 103=00"
        keys["aes"] = self.op(f"create @{k} 0={U(4)} 100={U(0x1f)} 3={hx(self.new_label())} 11={'0f' * 16} {flags}"); self.minted += 1
        keys["aes256"] = self.op(f"create @{k} 0={U(4)} 100={U(0x1f)} 3={hx(self.new_label())} 11={'1e' * 32} {flags}"); self.minted += 1
        keys["des3"] = self.op(f"create @{k} 0={U(4)} 100={U(0x15)} 3={hx(self.new_label())} 11={'0123456789abcdef' * 3} {flags}"); self.minted += 1
        keys["hmac"] = self.op(f"create @{k} 0={U(4)} 100={U(0x10)} 3={hx(self.new_label())} 11={'5a' * 64} {flags}"); self.minted += 1
        keys["aes_nouse"] = self.op(f"create @{k} 0={U(4)} 100={U(0x1f)} 3={hx(self.new_label())} 11={'0f' * 16} 104=00 105=00 108=00 10a=00"); self.minted += 1
        keys["aes_gen"] = self.op(f"genkey @{k} 1080 3={hx(self.new_label())} 161={U(16)} 104=01 105=01 108=01 10a=01"); self.minted += 1
        if rsa:
            keys["rsa"] = self.op(f"genpair @{k} 0 121={U(1024)} 122=010001 3={hx(self.new_label())} 10a=01 104=01 106=01 / 3={hx(self.new_label())} 108=01 105=01 107=01 2=01"); self.minted += 2
            self.op(f"getattr @{k} @{keys['rsa']}.1 120:300 122:300")        # the crypto monitor learns the public values of the generated pair
        if ec:
            keys["ec"] = self.op(f"genpair @{k} 1040 180={P256} 3={hx(self.new_label())} 10a=01 / 3={hx(self.new_label())} 108=01 2=01"); self.minted += 2
            self.op(f"getattr @{k} @{keys['ec']} 181:300")
            keys["ed"] = self.op(f"genpair @{k} 1055 180={ED25519} 3={hx(self.new_label())} 10a=01 / 3={hx(self.new_label())} 108=01 2=01"); self.minted += 2
        return keys


def data_hex(rng, n):
    return bytes(rng.randrange(256) for _ in range(n)).hex() or "."


def ops_history(seed, nops=60, rsa=True):
    rng = random.Random(seed)
    h = OpsGen(rng)
    h.prologue(1)
    t = h.toks[0]
    k1 = h.open(t, True); h.login(k1, t, 'user'); k2 = h.open(t, True)
    keys = h.setup_keys(k1, t, rsa=rsa)
    caps = lambda need: rng.choice(["n", "0", str(max(0, need - 1)), str(need), str(need + 1), str(need + 40), "300", "300"])
    lens = [0, 1, 7, 8, 15, 16, 17, 24, 31, 32, 33, 48, 64, 65]
    for _ in range(nops):
        k = rng.choice([k1, k1, k2])
        r = rng.random()
        if r < 0.45:        # symmetric cipher
            mech = rng.choice(list(SYM))
            kind, bs, pm = SYM[mech]
            key = keys[rng.choice(["aes", "aes256", "aes_gen"]) if kind == "aes" else "des3"]
            if rng.random() < 0.06: key = keys[rng.choice(list(keys))]; key = f"{key}" 
            enc = rng.random() < 0.55
            h.op(f"{'encinit' if enc else 'decinit'} @{k} {mech:x}{pm(rng)} @{key}")
            pre = "enc" if enc else "dec"
            if rng.random() < 0.4:
                n = rng.choice(lens)
                for _ in range(rng.randrange(1, 4)):
                    h.op(f"{pre} @{k} {data_hex(rng, n)} {caps(n + bs)}")
            else:
                for _ in range(rng.randrange(0, 5)):
                    n = rng.choice(lens)
                    h.op(f"{pre}upd @{k} {data_hex(rng, n)} {caps(n + bs)}")
                for _ in range(rng.randrange(1, 4)):
                    h.op(f"{pre}final @{k} {caps(bs)}")
        elif r < 0.60:      # MAC
            mech = rng.choice(list(MACS)); key = keys[MACS[mech]]
            sgn = rng.random() < 0.7
            h.op(f"{'siginit' if sgn else 'verinit'} @{k} {mech:x} @{key}")
            if sgn:
                if rng.random() < 0.5:
                    for _ in range(rng.randrange(1, 3)): h.op(f"sign @{k} {data_hex(rng, rng.choice(lens))} {caps(32)}")
                else:
                    for _ in range(rng.randrange(0, 3)): h.op(f"sigupd @{k} {data_hex(rng, rng.choice(lens))}")
                    if rng.random() < 0.2: h.op(f"sign @{k} {data_hex(rng, 5)} 300")
                    for _ in range(rng.randrange(1, 3)): h.op(f"sigfinal @{k} {caps(32)}")
            else:
                if rng.random() < 0.5: h.op(f"verify @{k} {data_hex(rng, 9)} {data_hex(rng, rng.choice([8, 16, 20, 32, 64, 31]))}")
                else:
                    h.op(f"verupd @{k} {data_hex(rng, 9)}"); h.op(f"verfinal @{k} {data_hex(rng, rng.choice([8, 16, 20, 32, 64]))}")
        elif r < 0.72:      # digest
            mech = rng.choice(DIGESTS)
            h.op(f"diginit @{k} {mech:x}")
            if rng.random() < 0.5:
                for _ in range(rng.randrange(1, 3)): h.op(f"digest @{k} {data_hex(rng, rng.choice(lens))} {caps(32)}")
            else:
                for _ in range(rng.randrange(0, 3)): h.op(f"digupd @{k} {data_hex(rng, rng.choice(lens))}")
                for _ in range(rng.randrange(1, 3)): h.op(f"digfinal @{k} {caps(32)}")
        elif r < 0.90 and "rsa" in keys:   # asymmetric
            c = rng.random()
            if c < 0.35:
                mech = rng.choice(["1", "40", "3", "e:pss(220,1,20)", "43:pss(250,2,32)"])
                h.op(f"siginit @{k} {mech} @{keys['rsa']}.1")
                if rng.random() < 0.6:
                    for _ in range(rng.randrange(1, 3)): h.op(f"sign @{k} {data_hex(rng, rng.choice([5, 20, 32, 128, 129]))} {caps(128)}")
                else:
                    h.op(f"sigupd @{k} {data_hex(rng, 10)}"); h.op(f"sigfinal @{k} {caps(128)}"); h.op(f"sigfinal @{k} 300")
            elif c < 0.55:
                key, mech, sz = rng.choice([("ec", "1041", 64), ("ed", "1057", 64)])
                h.op(f"siginit @{k} {mech} @{keys[key]}.1")
                for _ in range(rng.randrange(1, 3)): h.op(f"sign @{k} {data_hex(rng, 32)} {caps(sz)}")
            elif c < 0.8:
                mech = rng.choice(["1", "3", "9:oaep(220,1,)"])
                h.op(f"encinit @{k} {mech} @{keys['rsa']}")
                for _ in range(rng.randrange(1, 3)): h.op(f"enc @{k} {data_hex(rng, rng.choice([0, 5, 64, 117, 118, 128, 129]))} {caps(128)}")
                if rng.random() < 0.3: h.op(f"encupd @{k} 00 300"); h.op(f"encfinal @{k} 300")
            else:
                h.op(f"decinit @{k} {rng.choice(['1', '3'])} @{keys['rsa']}.1")
                h.op(f"dec @{k} {data_hex(rng, rng.choice([128, 128, 127, 5]))} {caps(128)}")
        else:               # wrong-state calls
            h.op(rng.choice([f"encfinal @{k} 300", f"decupd @{k} 00 300", f"sigfinal @{k} 300", f"digfinal @{k} 300", f"sign @{k} 00 300",
                             f"findinit @{k}", f"findfinal @{k}", f"verfinal @{k} 00", f"digupd @{k} 00", f"enc @{k} 00 300"]))
    h.op("fini")
    return h.text()


# ---------------------------------------------------------------------------------------------------------
# C07: the complete start matrix
# ---------------------------------------------------------------------------------------------------------
ALL_START_MECHS = sorted(set(
    [0x121, 0x122, 0x125, 0x132, 0x133, 0x136, 0x1081, 0x1082, 0x1085, 0x1086, 0x1087,          # symmetric ciphers
     0x211, 0x221, 0x256, 0x251, 0x261, 0x271, 0x138, 0x108A,                                   # MACs
     0x1, 0x3, 0x9, 0x5, 0x6, 0x46, 0x40, 0x41, 0x42, 0xD, 0xE, 0x47, 0x43, 0x44, 0x45,         # RSA
     0x11, 0x12, 0x13, 0x14, 0x15, 0x16, 0x1041, 0x1057,                                        # DSA, ECDSA, EdDSA
     0x999, 0x1080, 0x250, 0x2109, 0x1050]))                                                    # not dispatched by the start functions

MECH_PARAM = {0x122: ":" + "00" * 8, 0x125: ":" + "00" * 8, 0x133: ":" + "00" * 8, 0x136: ":" + "00" * 8,
              0x1082: ":" + "00" * 16, 0x1085: ":" + "00" * 16, 0x1086: ":ctr(128," + "00" * 16 + ")", 0x1087: ":gcm(" + "ab" * 12 + ",,128)",
              0x9: ":oaep(220,1,)", 0xD: ":pss(220,1,20)", 0xE: ":pss(220,1,20)", 0x47: ":pss(255,5,28)", 0x43: ":pss(250,2,32)",
              0x44: ":pss(260,3,48)", 0x45: ":pss(270,4,64)"}


def c07_matrix(cfg_line, seed=1, sample=None):
    """operation x key kind x usage flag x mechanism x allowed list, for one slots.mechanisms configuration"""
    rng = random.Random(seed)
    h = OpsGen(rng)
    h.op(f"cfgmechs {cfg_line}")
    h.prologue(1)
    t = h.toks[0]
    k = h.open(t, True); h.login(k, t, 'user')
    U = ul
    half = ALL_START_MECHS[::2]
    other = ALL_START_MECHS[1::2]
    # C: a NON-EMPTY list naming only mechanisms this token does not offer (CKM_AES_OFB, a vendor mechanism): such a key may be used with nothing
    lists = {"none": "", "A": " 40000600=" + "".join(U(m) for m in half), "B": " 40000600=" + "".join(U(m) for m in other), "C": " 40000600=" + U(0x2104) + U(0x80000001)}
    keys = []      # (ref, kind)
    for flag in (0, 1):
        f = f"{flag:02x}"
        sec_flags = f"104={f} 105={f} 108={f} 10a={f} 106={f} 107={f} 10c={f}"
        for ln, lt in lists.items():
            for nm, kt, val in (("aes", 0x1f, "0f" * 16), ("des3", 0x15, "0123456789abcdef" * 3), ("des2", 0x14, "0123456789abcdef" * 2),
                                ("generic", 0x10, "5a" * 64), ("sha256hmac", 0x2b, "5a" * 64), ("sha1hmac", 0x28, "5a" * 64)):
                i = h.op(f"create @{k} 0={U(4)} 100={U(kt)} 3={hx(h.new_label())} 11={val} {sec_flags}{lt}"); h.minted += 1
                keys.append((f"@{i}", nm))
            pub = f"104={f} 10a={f} 106={f}"; prv = f"105={f} 108={f} 107={f} 10c={f}"
            i = h.op(f"genpair @{k} 0 121={U(1024)} 122=010001 3={hx(h.new_label())} {pub}{lt} / 3={hx(h.new_label())} {prv} 2=01{lt}"); h.minted += 2
            keys += [(f"@{i}", "rsapub"), (f"@{i}.1", "rsapriv")]
            i = h.op(f"genpair @{k} 1040 180={P256} 3={hx(h.new_label())} 10a={f}{lt} / 3={hx(h.new_label())} 108={f} 10c={f} 2=01{lt}"); h.minted += 2
            keys += [(f"@{i}", "ecpub"), (f"@{i}.1", "ecpriv")]
            i = h.op(f"genpair @{k} 1055 180={ED25519} 3={hx(h.new_label())} 10a={f}{lt} / 3={hx(h.new_label())} 108={f} 2=01{lt}"); h.minted += 2
            keys += [(f"@{i}", "edpub"), (f"@{i}.1", "edpriv")]
    cells = [(opn, key, m) for opn in ("encinit", "decinit", "siginit", "verinit") for key, _ in keys for m in ALL_START_MECHS]
    if sample is not None: cells = rng.sample(cells, min(sample, len(cells)))
    for opn, key, m in cells:
        s = h.op(f"open t:{hx(t.label)} 6"); h.minted += 1
        h.op(f"{opn} @{s} {m:x}{MECH_PARAM.get(m, '')} {key}")
        h.op(f"close @{s}")
    # C_WrapKey / C_UnwrapKey / C_DeriveKey: the same keys as wrapping / unwrapping / base key, every mechanism those calls dispatch on and some they do not
    tgt = h.op(f"create @{k} 0={U(4)} 100={U(0x1f)} 3={hx(h.new_label())} 11={'3c' * 16} 162=01 103=00"); h.minted += 1
    blob = "1fa68b0a8112b447aef34bd8fb5a7b829d3e862371d2cfe5"
    ptQ = p256_mul(7, P256_G); pt = "04" + ptQ[0].to_bytes(32, "big").hex() + ptQ[1].to_bytes(32, "big").hex()
    wmechs = ["2109", "210a", f"1085:{'00' * 16}", f"1082:{'00' * 16}", "1", "9:oaep(220,1,)", "1081", "136:" + "00" * 8, "999"]
    dmechs = [f"1104:str({'11' * 16})", f"1105:cbcd({'00' * 16},{'11' * 16})", f"362:str({'11' * 4})", f"363:str({'11' * 4})", f"21:{'02' * 128}", f"1050:ecdh(1,{pt})",
              f"1102:str({'11' * 8})", "1081", "999"]
    cells2 = [("wrap", key, m) for key, _ in keys for m in wmechs] + [("unwrap", key, m) for key, _ in keys for m in wmechs] + [("derive", key, m) for key, _ in keys for m in dmechs]
    if sample is not None: cells2 = rng.sample(cells2, min(sample // 3, len(cells2)))
    for opn, key, m in cells2:
        s = h.op(f"open t:{hx(t.label)} 6"); h.minted += 1
        if opn == "wrap": h.op(f"wrap @{s} {m} {key} @{tgt} 600")
        elif opn == "unwrap": h.op(f"unwrap @{s} {m} {key} {blob} 0={U(4)} 100={U(0x10)} 3={hx(h.new_label())}"); h.minted += 1
        else: h.op(f"derive @{s} {m} {key} 0={U(4)} 100={U(0x10)} 161={U(4)} 3={hx(h.new_label())}"); h.minted += 1
        h.op(f"close @{s}")
    # the entry points without a key
    for m in sorted(set(ALL_START_MECHS + [0x210, 0x220, 0x255, 0x250, 0x260, 0x270, 0x130, 0x131, 0x350, 0x0, 0x1040, 0x1055, 0x10, 0x2000])):
        s = h.op(f"open t:{hx(t.label)} 6"); h.minted += 1
        h.op(f"diginit @{s} {m:x}")
        h.op(f"genkey @{s} {m:x} 3={hx(h.new_label())} 161={U(16)}"); h.minted += 1
        h.op(f"genpair @{s} {m:x} 121={U(1024)} 180={P256} 3={hx(h.new_label())} / 3={hx(h.new_label())}"); h.minted += 2
        h.op(f"close @{s}")
    h.op("mechlist t:" + hx(t.label))
    h.op("fini")
    return h.text()


# ---------------------------------------------------------------------------------------------------------
# C12: every call order of a small alphabet, per mechanism profile
# ---------------------------------------------------------------------------------------------------------
def c12_profiles():
    P = []
    for mech, pm, key, bs in ((0x1081, "", "aes", 16), (0x1082, ":" + "00" * 16, "aes", 16), (0x1085, ":" + "11" * 16, "aes", 16),
                              (0x1086, ":ctr(128," + "00" * 16 + ")", "aes", 16), (0x1087, ":gcm(" + "ab" * 12 + ",aa55,128)", "aes", 16),
                              (0x136, ":" + "33" * 8, "des3", 8), (0x132, "", "des3", 8)):
        for enc in (True, False):
            pre = "enc" if enc else "dec"
            P.append(dict(name=f"{pre}-{mech:x}", init=f"{pre}init @K {mech:x}{pm} @{key}",
                          single=[f"{pre} @K {'5c' * 16} n", f"{pre} @K {'5c' * 16} 3", f"{pre} @K {'5c' * 16} 80"],
                          upd=[f"{pre}upd @K {'a1' * 5} n", f"{pre}upd @K {'a1' * 5} 80", f"{pre}upd @K {'b2' * 16} 7", f"{pre}upd @K {'b2' * 16} 80",
                               f"{pre}upd @K {'c3' * 27} 80"],
                          final=[f"{pre}final @K n", f"{pre}final @K 3", f"{pre}final @K 80"],
                          other=["diginit @K 250", "digfinal @K 80", "findinit @K"]))
    for mech, key, sz in (("251", "hmac", 32), ("108a", "aes", 16), ("1", "rsa.1", 128), ("40", "rsa.1", 128), ("43:pss(250,2,32)", "rsa.1", 128),
                          ("1041", "ec.1", 64), ("1057", "ed.1", 64)):
        P.append(dict(name=f"sign-{mech.split(':')[0]}", init=f"siginit @K {mech} @{key}",
                      single=[f"sign @K {'5c' * 20} n", f"sign @K {'5c' * 20} {sz - 1}", f"sign @K {'5c' * 20} 300"],
                      upd=[f"sigupd @K {'a1' * 5}", f"sigupd @K ."],
                      final=["sigfinal @K n", f"sigfinal @K {sz - 1}", "sigfinal @K 300"],
                      other=["encinit @K 1081 @aes", "encfinal @K 80", "verfinal @K 00", f"verify @K 00 {'00' * sz}"]))
    for mech, key, sz in (("251", "hmac", 32), ("40", "rsa", 128), ("1041", "ec", 64)):
        P.append(dict(name=f"verify-{mech}", init=f"verinit @K {mech} @{key}",
                      single=[f"verify @K {'5c' * 20} {'00' * sz}", f"verify @K {'5c' * 20} 00", f"verify @K - {'00' * sz}"],
                      upd=[f"verupd @K {'a1' * 5}", "verupd @K -"],
                      final=[f"verfinal @K {'00' * sz}", "verfinal @K 00", "verfinal @K -"],
                      other=["siginit @K 251 @hmac", "sigfinal @K 80", "sign @K 00 300"]))
    for mech, sz in (("250", 32), ("220", 20)):
        P.append(dict(name=f"digest-{mech}", init=f"diginit @K {mech}",
                      single=[f"digest @K {'5c' * 20} n", f"digest @K {'5c' * 20} {sz - 1}", f"digest @K {'5c' * 20} 300"],
                      upd=[f"digupd @K {'a1' * 5}", "digupd @K -", "digkey @K @hmac", "digkey @K @aes_nouse"],
                      final=["digfinal @K n", f"digfinal @K {sz - 1}", "digfinal @K 300"],
                      other=["decinit @K 1081 @aes", "decfinal @K 80", "sigupd @K 00"]))
    for mech, key in (("1", "rsa"), ("9:oaep(220,1,)", "rsa"), ("3", "rsa")):
        P.append(dict(name=f"rsaenc-{mech.split(':')[0]}", init=f"encinit @K {mech} @{key}",
                      single=[f"enc @K {'5c' * 20} n", f"enc @K {'5c' * 20} 127", f"enc @K {'5c' * 20} 300", f"enc @K {'5c' * 129} 300"],
                      upd=[f"encupd @K {'a1' * 5} 300"], final=["encfinal @K 300", "encfinal @K n"],
                      other=["decinit @K 1 @rsa.1", f"dec @K {'00' * 128} 300"]))
    for mech in ("1", "3"):
        P.append(dict(name=f"rsadec-{mech}", init=f"decinit @K {mech} @rsa.1",
                      single=[f"dec @K {'5c' * 128} n", f"dec @K {'00' * 127 + '02'} 300", f"dec @K {'5c' * 128} 127", f"dec @K {'5c' * 20} 300"],
                      upd=[f"decupd @K {'a1' * 5} 300"], final=["decfinal @K 300", "decfinal @K n"],
                      other=["encinit @K 1 @rsa", f"enc @K {'00' * 20} 300"]))
    P.append(dict(name="find", init="findinit @K", single=["find @K 1", "find @K 0"], upd=["find @K 3"], final=["findfinal @K"],
                  other=["diginit @K 250", "digfinal @K 80", "encinit @K 1081 @aes", "encfinal @K 80"]))
    return P


def c12_smallscope(seed, depth, profiles=None, sample=None):
    """for every profile: every sequence of `depth` calls of its alphabet, after nothing and after a successful init, each in a fresh session"""
    import itertools
    rng = random.Random(seed)
    h = OpsGen(rng)
    h.prologue(1)
    t = h.toks[0]
    k1 = h.open(t, True); h.login(k1, t, 'user')
    keys = h.setup_keys(k1, t, rsa=True)
    def subst(line, s):
        out = []
        for w in line.split():
            if w == "@K": w = f"@{s}"
            elif w.startswith("@") and w[1:].split(".")[0] in keys:
                nm, _, sub = w[1:].partition("."); w = f"@{keys[nm]}" + (f".{sub}" if sub else "")
            out.append(w)
        return " ".join(out)
    profs = c12_profiles()
    if profiles is not None: profs = [p for p in profs if p["name"] in profiles]
    n = 0
    for p in profs:
        alpha = [p["init"]] + p["single"] + p["upd"] + p["final"] + p["other"]
        seqs = [pre + list(s) for pre in ([], [p["init"]]) for s in itertools.product(alpha, repeat=depth)]
        if sample is not None and len(seqs) > sample: seqs = rng.sample(seqs, sample)
        for s in seqs:
            k = h.op(f"open t:{hx(t.label)} 6"); h.minted += 1
            for c in s:
                if c.startswith("findinit"): h.op(subst(c, k)); 
                else: h.op(subst(c, k))
            h.op(f"close @{k}")
            n += 1
    h.op("fini")
    return h.text(), n


# ---------------------------------------------------------------------------------------------------------
# C05 / C06 / C04 / C14: histories with restarts and directory dumps (the Lean driver decodes the directory independently)
# ---------------------------------------------------------------------------------------------------------
class PersistGen(ObjGen):
    always_label = True        # objects are looked up again by label after a restart: copies get their own
    def restart(self, kind):
        """kind: 'reinit' (C_Finalize + C_Initialize), 'exit' (new process without C_Finalize), 'clean' (C_Finalize, new process)"""
        if kind in ("reinit", "clean"): self.op("fini")
        if kind in ("exit", "clean"): self.op("reexec")
        self.op("init"); self.op("slots")
        self.sessions = []; self.minted = 0
        self.objects = [o for o in self.objects if o[2]]
        self.objs2 = [o for o in self.objs2 if o[3]]
        for t in self.toks: t.login = None

    def refind(self, k, t):
        """handles do not survive a restart: look every believed token object of t up again by its label"""
        labels = {o[0]: o[4] for o in self.objects}
        new2, newo = [], []
        for o2 in self.objs2:
            if o2[2] is not t: new2.append(o2); continue
            if o2[0] not in labels: continue          # no label known (a copy): its handle is stale after the restart, forget it
            lab = labels[o2[0]]
            self.op(f"findinit @{k} 3={hx(lab)}"); f = self.op(f"find @{k} 1"); self.op(f"findfinal @{k}")
            self.minted += 1
            new2.append((f,) + tuple(o2[1:]))
            for o in self.objects:
                if o[0] == o2[0]: newo.append((f,) + tuple(o[1:]))
        keep = {o[0] for o in newo}
        self.objects = [o for o in self.objects if o[1] is not t or o[0] not in labels] + newo
        self.objs2 = new2


def persist_history(seed, tables, nops=40, ntok=2, dump_every=4, big=False):
    rng = random.Random(seed)
    h = PersistGen(rng, tables)
    h.prologue(ntok)
    def sessions():
        for t in h.toks:
            k = h.open(t, True); h.login(k, t, 'user'); h.refind(k, t)
            if rng.random() < 0.5: h.open(t, rng.random() < 0.5)
    sessions()
    # token keys with a CKA_WRAP_TEMPLATE (boolean entries + an ALLOWED_MECHANISMS entry, which is stored as a byte string) and keys that do / do not satisfy it:
    # the template must still be enforced after every restart, on every backend
    wrapsets = []
    for t in h.toks:
        k = [s[0] for s in h.sessions if s[1] is t][0]
        kek = h.op(f"create @{k} 0={ul(4)} 100={ul(0x1f)} 1=01 2=01 3={hx(h.new_label())} 11={'0f' * 16} 106=01 162=01 103=00 40000211={{104=01;162=01;40000600={ul(0x1082)}}}"); h.minted += 1
        good = h.op(f"create @{k} 0={ul(4)} 100={ul(0x1f)} 1=01 2=01 3={hx(h.new_label())} 11={'1e' * 16} 104=01 162=01 103=00 40000600={ul(0x1082)}"); h.minted += 1
        bad = h.op(f"create @{k} 0={ul(4)} 100={ul(0x1f)} 1=01 2=01 3={hx(h.new_label())} 11={'2d' * 16} 104=00 162=01 103=00 40000600={ul(0x1082)}"); h.minted += 1
        labs = [f"obj{h.nlabel - 2}", f"obj{h.nlabel - 1}", f"obj{h.nlabel}"]
        wrapsets.append([t, labs])
    def try_wraps():
        for t, labs in wrapsets:
            ks = [s[0] for s in h.sessions if s[1] is t]
            if not ks: continue
            refs = []
            for lab in labs:
                h.op(f"findinit @{ks[0]} 3={hx(lab)}"); refs.append(h.op(f"find @{ks[0]} 1")); h.op(f"findfinal @{ks[0]}"); h.minted += 1
            h.op(f"wrap @{ks[0]} 2109 @{refs[0]} @{refs[1]} 600"); h.op(f"wrap @{ks[0]} 2109 @{refs[0]} @{refs[2]} 600")
    try_wraps()
    h.op("dumpdir")
    for n in range(nops):
        r = rng.random()
        k, t, rw = rng.choice(h.sessions)
        if r < 0.34 or not same(h, t):
            d = None if rng.random() < 0.8 else rng.choice(["unknown", "wrongsize", "forbidden", "missing", "inconsistent", "foreign"])
            i = h.create_obj(k, t, on_token=rng.random() < 0.8, defect=d)
        elif r < 0.44:
            oi, c, tok, _, _ = rng.choice(same(h, t)); h.getattrs(k, oi, c)
        elif r < 0.62:
            oi, c, tok, _, _ = rng.choice(same(h, t)); h.setattrs(k, oi, c)
        elif r < 0.72:
            oi, c, tok, _, _ = rng.choice(same(h, t)); h.copy(k, oi, c, tok)
        elif r < 0.80:
            oi, c, tok, _, _ = rng.choice(same(h, t)); h.op(f"destroy @{k} @{oi}")
        elif r < 0.84 and big:
            lab = h.new_label(); n = rng.choice([1000, 65536, 300000])
            i = h.op(f"create @{k} 0={ul(0)} 1=01 2={rng.choice(['00', '01'])} 3={hx(lab)} 11={bytes(rng.randrange(256) for _ in range(n)).hex()}"); h.minted += 1
            c0 = [c for c in h.classes if c["cls"] == 0][0]
            h.objs2.append((i, c0, t, True, True)); h.objects.append((i, t, True, True, lab, k))
        elif r < 0.88:
            h.op(f"findinit @{k}"); h.minted += len(h.objs2); h.op(f"find @{k} 100"); h.op(f"findfinal @{k}")
        elif r < 0.90:
            h.logout(k, t); h.login(k, t, 'user')
        else:
            h.op("dumpdir")
            h.restart(rng.choice(["reinit", "exit", "clean"]))
            sessions()
            try_wraps()
            h.op("dumpdir")
            for t2 in h.toks:
                ks = [s[0] for s in h.sessions if s[1] is t2]
                for o in same(h, t2)[:6]: h.getattrs(ks[0], o[0], o[1])
        if n % dump_every == dump_every - 1: h.op("dumpdir")
    h.op("dumpdir"); h.op("fini")
    return h.text()


def fixture_ops(tables, seed=20260926):
    """creation history of the golden fixture: two tokens, PINs (one changed afterwards), objects of every class on token and, for each, public and
    private; every attribute kind incl. nested templates, mechanism sets, dates on public objects, a 0-byte and a 300 kB value"""
    rng = random.Random(seed)
    h = PersistGen(rng, tables)
    h.prologue(2)
    labels = []
    for t in h.toks:
        k = h.open(t, True); h.login(k, t, 'user')
        for c in h.classes:
            for private in (False, True):
                i = h.create_obj(k, t, c=c, on_token=True, private=private)
                labels.append(h.objects[-1][4])
        for private in (False, True):
            for n in ((0, 300000) if t is h.toks[0] else (0, 1000)):
                lab = h.new_label(); labels.append(lab)
                h.op(f"create @{k} 0={ul(0)} 1=01 2={'01' if private else '00'} 3={hx(lab)} 11={(bytes(rng.randrange(256) for _ in range(n)).hex() or '.')}")
        lab = h.new_label(); labels.append(lab)
        h.op(f"create @{k} 0={ul(4)} 100={ul(0x1f)} 1=01 2=01 3={hx(lab)} 11={'0f' * 32} 40000600={ul(0x1082)}{ul(0x1085)} 40000211={{162=01;3={hx('inner')};161={ul(32)}}} 40000212={{104=01}}")
        lab = h.new_label(); labels.append(lab)
        h.op(f"create @{k} 0={ul(1)} 80={ul(0)} 1=01 2=00 3={hx(lab)} 101={hx('subject')} 11={hx('certvalue')} 110={hx('20260101')} 111={hx('20301231')}")
        h.op(f"genkey @{k} 1080 1=01 3={hx(h.new_label())} 161={ul(32)} 104=01 105=01"); labels.append(f"obj{h.nlabel}")
        h.op(f"genpair @{k} 1040 180={P256} 1=01 3={hx(h.new_label())} 10a=01 / 1=01 3={hx(h.new_label())} 108=01 2=01")
        labels += [f"obj{h.nlabel - 1}", f"obj{h.nlabel}"]
        h.op(f"logout @{k}")
    t = h.toks[0]
    k = [s[0] for s in h.sessions if s[1] is t][0]
    h.op(f"setpin @{k} {hx(t.user)} {hx('changed-user-pin')}"); t.user = "changed-user-pin"
    h.op("fini")
    # the pinned version stores CKA_START_DATE / CKA_END_DATE of PRIVATE objects in the clear and can then not read them back itself (repaired since:
    # known_findings.txt, C06); such values are not "recorded values" anybody could have relied on, the fixture has dates on public objects only
    h.lines = [" ".join(w for w in l.split() if not (w.startswith("110=") or w.startswith("111=")) or " 2=01" not in l) for l in h.lines]
    return h.text(), labels, [(t.label, t.so, t.user) for t in h.toks]


def fixture_use_ops(labels, toks, tables):
    """what today's library must be able to do with the fixture: log in with both PINs of both tokens, find and read every object"""
    rng = random.Random(1)
    h = PersistGen(rng, tables)
    h.op("init"); h.op("slots")
    for (label, so, user) in toks:
        k = h.op(f"open t:{hx(label)} 6")
        h.op(f"login @{k} 0 {hx(so)}"); h.op(f"logout @{k}")
        h.op(f"login @{k} 1 {hx('wrong-pin')}")
        h.op(f"login @{k} 1 {hx(user)}")
        h.op(f"findinit @{k}"); h.op(f"find @{k} 1000"); h.op(f"findfinal @{k}")
        for lab in labels[label]:
            h.op(f"findinit @{k} 3={hx(lab)}"); f = h.op(f"find @{k} 2"); h.op(f"findfinal @{k}")
            for grp in ([0x0, 0x1, 0x2, 0x3, 0x100, 0x80], [0x11, 0x102, 0x10, 0x12, 0x101], [0x103, 0x162, 0x104, 0x105, 0x108, 0x10a, 0x163, 0x164, 0x165, 0x166],
                        [0x120, 0x122, 0x180, 0x181, 0x130, 0x131, 0x132], [0x110, 0x111, 0x161, 0x90, 0x40000600]):
                h.op(f"getattr @{f} @{f}" if False else f"getattr @{k} @{f} " + " ".join(f"{a:x}:400000" for a in grp))
    h.op("dumpdir"); h.op("fini")
    return h.text()


# ---------------------------------------------------------------------------------------------------------
# C04 / C14: PIN and token-initialisation histories with adversarial PINs
# ---------------------------------------------------------------------------------------------------------
def hxb(b): return b.hex() if b else "."


def new_pin(rng, valid=None):
    valid = rng.random() < 0.8 if valid is None else valid
    n = rng.choice([4, 4, 5, 8, 16, 31, 64, 254, 255]) if valid else rng.choice([0, 1, 3, 256, 300])
    kind = rng.random()
    if kind < 0.4: return bytes(rng.choice(b"abcdefghijklmnopqrstuvwxyz0123456789") for _ in range(n))
    if kind < 0.6: return bytes(rng.randrange(256) for _ in range(n))                     # arbitrary bytes, NUL and non-ASCII included
    if kind < 0.8 and n >= 4: return b"ab\x00" + bytes(rng.randrange(1, 256) for _ in range(n - 3))   # embedded NUL
    return ("üñî" * n).encode()[:n]


def adversarial(rng, pin, other, prev):
    """a PIN that must NOT work although it is close to one that does"""
    c = rng.randrange(11)
    if c == 0 and len(pin) > 0: return pin[:-1]
    if c == 1: return pin + b"\x00"
    if c == 2: return pin + bytes([rng.randrange(256)])
    if c == 3 and pin:
        i = rng.randrange(len(pin)); return pin[:i] + bytes([pin[i] ^ (1 << rng.randrange(8))]) + pin[i + 1:]
    if c == 4 and other: return other
    if c == 5 and prev: return prev
    if c == 6: return b""
    if c == 7: return pin[:2] + b"\x00" + pin[2:]
    if c == 8: return pin.swapcase()
    if c == 9: return (pin + bytes(256))[:256]
    return pin[1:] if len(pin) > 1 else b"zzzz"


def pin_history(seed, nops=60, ntok=2, observe=False, grow=False):
    rng = random.Random(seed)
    h = History(rng)
    h.op("init"); h.op("slots")
    T = []
    class PT: pass
    for i in range(ntok):
        t = PT(); t.label = f"tok{chr(65 + i)}"; t.so = new_pin(rng, True); t.user = None; t.prev_so = None; t.prev_user = None; t.login = None; t.objs = []
        h.op(f"inittoken free {hxb(t.so)} {hx(t.label)}"); h.op("slots"); T.append(t)
    sessions = []          # (k, t, rw)
    def open_(t, rw):
        k = h.op(f"open t:{hx(t.label)} {6 if rw else 4}"); sessions.append((k, t, rw)); return k
    def ensure_sessions():
        for t in T:
            if not any(s[1] is t for s in sessions): open_(t, True)
    def restart():
        kind = rng.choice(["reinit", "exit", "clean"])
        h.op("dumpdir")
        if kind in ("reinit", "clean"): h.op("fini")
        if kind in ("exit", "clean"): h.op("reexec")
        h.op("init"); h.op("slots")
        sessions.clear()
        for t in T: t.login = None
    def check_objects(k, t):
        for lab in t.objs[-3:]:
            h.op(f"findinit @{k} 3={hx(lab)}"); f = h.op(f"find @{k} 1"); h.op(f"findfinal @{k}")
            h.op(f"getattr @{k} @{f} 11:64 3:64 2:1")
    def observe_all():
        """C14: after a call on one token, look at every token: slot list (labels, serials, flags), session states, visible objects"""
        h.op("slots")
        for t2 in T:
            ks = [s for s in sessions if s[1] is t2]
            if ks:
                k2 = ks[0][0]
                h.op(f"sinfo @{k2}"); h.op(f"findinit @{k2}"); h.op(f"find @{k2} 100"); h.op(f"findfinal @{k2}")
    ensure_sessions()
    for n in range(nops):
        ensure_sessions()
        if observe: observe_all()
        k, t, rw = rng.choice(sessions)
        r = rng.random()
        if grow and len(T) < 5 and rng.random() < 0.06:
            t = PT(); t.label = f"tok{chr(65 + len(T))}"; t.so = new_pin(rng, True); t.user = None; t.prev_so = None; t.prev_user = None; t.login = None; t.objs = []
            h.op(f"inittoken free {hxb(t.so)} {hx(t.label)}"); h.op("slots"); T.append(t)
            continue
        if r < 0.22:        # login
            who = rng.choice(["so", "user", "user"])
            cur = t.so if who == "so" else t.user
            if cur is not None and rng.random() < 0.55: pin = cur
            else: pin = adversarial(rng, cur or b"none", t.user if who == "so" else t.so, t.prev_so if who == "so" else t.prev_user)
            h.op(f"login @{k} {0 if who == 'so' else 1} {hxb(pin)}")
            if pin == cur and t.login is None and not (who == "so" and any(s[1] is t and not s[2] for s in sessions)): t.login = who
            if t.login == "user" and rng.random() < 0.5: check_objects(k, t)
        elif r < 0.30:
            h.op(f"logout @{k}"); t.login = None
        elif r < 0.42:      # C_InitPIN (succeeds only in an SO session)
            if t.login != "so" and rng.random() < 0.6:
                h.op(f"logout @{k}"); h.op(f"login @{k} 0 {hxb(t.so)}")
                t.login = "so" if not any(s[1] is t and not s[2] for s in sessions) else None
            p = new_pin(rng)
            h.op(f"initpin @{k} {hxb(p)}")
            if t.login == "so" and 4 <= len(p) <= 255: t.prev_user, t.user = t.user, p
        elif r < 0.60:      # C_SetPIN
            which = "so" if t.login == "so" else "user"
            cur = t.so if which == "so" else t.user
            ok_old = cur is not None and rng.random() < 0.6
            old = cur if ok_old else adversarial(rng, cur or b"none", t.user if which == "so" else t.so, t.prev_so if which == "so" else t.prev_user)
            p = new_pin(rng)
            h.op(f"setpin @{k} {hxb(old)} {hxb(p)}")
            if ok_old and rw and 4 <= len(p) <= 255:
                if which == "so": t.prev_so, t.so = t.so, p
                else: t.prev_user, t.user = t.user, p
        elif r < 0.70:      # a private token object, read back after later PIN changes
            if t.login != "user" and t.user is not None:
                h.op(f"logout @{k}"); h.op(f"login @{k} 1 {hxb(t.user)}"); t.login = "user"
            lab = h.new_label()
            h.op(f"create @{k} 0={ul(0)} 1=01 2=01 3={hx(lab)} 11={bytes(rng.randrange(256) for _ in range(rng.choice([1, 16, 40]))).hex()}")
            if t.login == "user" and rw: t.objs.append(lab)
        elif r < 0.76:      # C_InitToken on an initialised token
            if rng.random() < 0.6:
                h.op(f"closeall t:{hx(t.label)}")
                for s in [s for s in sessions if s[1] is t]: sessions.remove(s)
                t.login = None
            right = rng.random() < 0.6
            pin = t.so if right else adversarial(rng, t.so, t.user, t.prev_so)
            h.op(f"inittoken t:{hx(t.label)} {hxb(pin)} {hx(t.label)}"); h.op("slots")
            if right and not any(s[1] is t for s in sessions): t.prev_user, t.user, t.objs = t.user, None, []
        elif r < 0.84:
            open_(t, rng.random() < 0.6)
        elif r < 0.88:
            h.op(f"close @{k}"); sessions.remove((k, t, rw))
            if not any(s[1] is t for s in sessions): t.login = None
        elif r < 0.94:
            restart()
        else:
            h.op("dumpdir")
    h.op("dumpdir"); h.op("fini")
    return h.text()


# ---------------------------------------------------------------------------------------------------------
# C06: every path that stores a byte string of a private object, with a directory dump after every storing call
# ---------------------------------------------------------------------------------------------------------
def enc_history(seed, tables, nops=30, umask=None):
    rng = random.Random(seed)
    h = PersistGen(rng, tables)
    if umask is not None: h.op(f"umask {umask:o}")
    h.prologue(2)
    for t in h.toks:
        k = h.open(t, True); h.login(k, t, 'user')
    h.op("dumpdir")
    for n in range(nops):
        k, t, rw = rng.choice(h.sessions)
        r = rng.random()
        if r < 0.25:
            h.create_obj(k, t, on_token=True, private=rng.random() < 0.7)
        elif r < 0.40:     # secret key / key pair generation on the token
            priv = rng.choice(["01", "01", "00"])
            c = rng.random()
            if c < 0.4: h.op(f"genkey @{k} 1080 1=01 2={priv} 3={hx(h.new_label())} 161={ul(rng.choice([16, 24, 32]))} 102={data_hex(rng, 9)} 162=01 103=00"); h.minted += 1
            elif c < 0.6: h.op(f"genkey @{k} 131 1=01 2={priv} 3={hx(h.new_label())} 102={data_hex(rng, 5)}"); h.minted += 1
            elif c < 0.8: h.op(f"genpair @{k} 1040 180={P256} 1=01 3={hx(h.new_label())} 102={data_hex(rng, 4)} 2={priv} / 1=01 3={hx(h.new_label())} 2=01 101={data_hex(rng, 12)}"); h.minted += 2
            else: h.op(f"genpair @{k} 0 121={ul(1024)} 122=010001 1=01 3={hx(h.new_label())} / 1=01 3={hx(h.new_label())} 2={priv} 102={data_hex(rng, 6)}"); h.minted += 2
        elif r < 0.60 and same(h, t):     # copy: upgrades public -> private with fresh byte strings in the template
            oi, c, tok, _, _ = rng.choice(same(h, t))
            lab = h.new_label()
            tpl = [f"3={hx(lab)}", "1=01"]
            if rng.random() < 0.7: tpl.append("2=01")
            ids = [a for a in c["attrs"] if a["type"] in (0x102, 0x10, 0x12, 0x101, 0x81)]
            if ids and rng.random() < 0.7: tpl.append(f"{rng.choice(ids)['type']:x}={data_hex(rng, rng.choice([1, 16, 40]))}")
            i = h.op(f"copy @{k} @{oi} " + " ".join(tpl)); h.minted += 1
            h.objs2.append((i, c, tok, True, True)); h.objects.append((i, tok, True, True, lab, k))
        elif r < 0.78 and same(h, t):
            oi, c, tok, _, _ = rng.choice(same(h, t)); h.setattrs(k, oi, c)
        elif r < 0.84:
            p = new_pin(rng, True)
            h.op(f"setpin @{k} {hx(t.user)} {hxb(p)}")     # belief: the session is a user session
            t.user_b = p
            # keep the believed PIN as bytes from now on
            t.user = p.decode("latin1")
        elif r < 0.90 and same(h, t):
            oi, c, tok, _, _ = rng.choice(same(h, t)); h.getattrs(k, oi, c)
        else:
            h.op("dumpdir"); h.restart(rng.choice(["reinit", "exit", "clean"]))
            for t2 in h.toks:
                k2 = h.open(t2, True)
                h.op(f"login @{k2} 1 {hxb(t2.user.encode('latin1')) if isinstance(t2.user, str) else hxb(t2.user)}"); t2.login = 'user'
                h.refind(k2, t2)
        h.op("dumpdir")
    h.op("fini")
    return h.text()


# ---------------------------------------------------------------------------------------------------------
# C13: wrap / unwrap / derive with keys whose values the model knows
# ---------------------------------------------------------------------------------------------------------
P256_P = 0xffffffff00000001000000000000000000000000ffffffffffffffffffffffff
P256_A = P256_P - 3
P256_G = (0x6b17d1f2e12c4247f8bce6e563a440f277037d812deb33a0f4a13945d898c296, 0x4fe342e2fe1a7f9b8ee7eb4a7c0f9e162bce33576b315ececbb6406837bf51f5)
OAKLEY2 = int("FFFFFFFFFFFFFFFFC90FDAA22168C234C4C6628B80DC1CD129024E088A67CC74020BBEA63B139B22514A08798E3404DDEF9519B3CD3A431B302B0A6DF25F14374FE1356D6D51C245"
              "E485B576625E7EC6F44C42E9A637ED6B0BFF5CB6F406B7EDEE386BFB5A899FA5AE9F24117C4B1FE649286651ECE65381FFFFFFFFFFFFFFFF", 16)


def p256_add(P, Q):
    if P is None: return Q
    if Q is None: return P
    (x1, y1), (x2, y2) = P, Q
    if x1 == x2 and (y1 + y2) % P256_P == 0: return None
    l = ((3 * x1 * x1 + P256_A) * pow(2 * y1, -1, P256_P) if P == Q else (y2 - y1) * pow(x2 - x1, -1, P256_P)) % P256_P
    x3 = (l * l - x1 - x2) % P256_P
    return (x3, (l * (x1 - x3) - y1) % P256_P)


def p256_mul(k, P):
    R = None
    while k:
        if k & 1: R = p256_add(R, P)
        P = p256_add(P, P); k >>= 1
    return R


def wrap_history(seed, nops=40):
    rng = random.Random(seed)
    h = OpsGen(rng)
    h.prologue(1)
    t = h.toks[0]
    k = h.open(t, True); h.login(k, t, 'user')
    U = ul
    rb = lambda n: bytes(rng.randrange(256) for _ in range(n)).hex()
    keks = []
    for n in (16, 24, 32):
        i = h.op(f"create @{k} 0={U(4)} 100={U(0x1f)} 3={hx(h.new_label())} 11={rb(n)} 106=01 107=01 104=01 105=01 10c=01 162=01 103=00"); keks.append(i)
    nowrap = h.op(f"create @{k} 0={U(4)} 100={U(0x1f)} 3={hx(h.new_label())} 11={rb(16)} 106=00 107=00 162=01 103=00")
    targets = []      # (ref, key type, length)
    for kt, n in [(0x1f, 16), (0x1f, 24), (0x1f, 32), (0x10, 1), (0x10, 7), (0x10, 8), (0x10, 15), (0x10, 16), (0x10, 20), (0x10, 33), (0x10, 64), (0x15, 24), (0x14, 16)]:
        val = rb(n) if kt in (0x1f, 0x10) else ("0123456789abcdef" * 3)[:2 * n]
        i = h.op(f"create @{k} 0={U(4)} 100={U(kt)} 3={hx(h.new_label())} 11={val} 162=01 103=00 10c=01"); targets.append((i, kt, n))
    unext = h.op(f"create @{k} 0={U(4)} 100={U(0x1f)} 3={hx(h.new_label())} 11={rb(16)} 162=00")
    rsa = h.op(f"genpair @{k} 0 121={U(1024)} 122=010001 3={hx(h.new_label())} 106=01 104=01 / 3={hx(h.new_label())} 107=01 105=01 2=01")
    ecx = h.op(f"genpair @{k} 1040 180={P256} 3={hx(h.new_label())} 10a=01 / 3={hx(h.new_label())} 108=01 2=01 162=01 103=00")
    # an EC private key and a DH private key with values the model knows
    d = rng.randrange(1, 2**255)
    ecd = h.op(f"create @{k} 0={U(3)} 100={U(3)} 3={hx(h.new_label())} 180={P256} 11={d.to_bytes(32, 'big').hex()} 10c=01 2=01 103=00 162=01")
    x = rng.randrange(2, 2**160)
    dh = h.op(f"create @{k} 0={U(3)} 100={U(2)} 3={hx(h.new_label())} 130={OAKLEY2.to_bytes(128, 'big').hex()} 132=02 11={x.to_bytes(20, 'big').hex()} 10c=01 2=01 103=00 162=01")
    # base keys made ON the token (C_GenerateKey): CKA_ALWAYS_SENSITIVE / CKA_NEVER_EXTRACTABLE can be true only for these
    genbases = []
    for sens, extr in (("01", "00"), ("01", "01"), ("00", "00"), ("00", "01")):
        i = h.op(f"genkey @{k} 1080 3={hx(h.new_label())} 161={U(16)} 103={sens} 162={extr} 10c=01 104=01"); h.minted += 1; genbases.append(i)
    blobs = []        # (wrap op index, mech token, kek ref, key type, length)
    ivs = lambda: rb(16)
    def tpl(kt, n=None, priv=None, extra=""):
        s_ = f"0={U(4)} 100={U(kt)} 3={hx(h.new_label())} 162=01 103=00"
        if priv is not None: s_ += f" 2={priv}"
        return s_ + extra
    for _ in range(nops):
        r = rng.random()
        if r < 0.30:      # wrap a secret key under an AES key
            kek = rng.choice(keks + ([nowrap] if rng.random() < 0.1 else []))
            tg, kt, n = rng.choice(targets + ([(unext, 0x1f, 16)] if rng.random() < 0.1 else []))
            mech = rng.choice(["2109", "210a", f"1085:{ivs()}", f"1082:{ivs()}", "2109:" + "00" * 8, "1085", "1081", "1"])
            w = h.op(f"wrap @{k} {mech} @{kek} @{tg} n")
            need = 8 * ((n + 7) // 8) + 16
            h.op(f"wrap @{k} {mech} @{kek} @{tg} {rng.choice([0, 7, need - 9])}")
            w = h.op(f"wrap @{k} {mech} @{kek} @{tg} 600")
            if mech.split(":")[0] in ("2109", "210a", "1085"): blobs.append((w, mech, kek, kt, n))
        elif r < 0.55 and blobs:      # unwrap what was wrapped (sometimes with another template / key / mechanism)
            w, mech, kek, kt, n = rng.choice(blobs)
            kek2 = kek if rng.random() < 0.85 else rng.choice(keks)
            mech2 = mech if rng.random() < 0.9 else rng.choice(["2109", "210a", f"1085:{ivs()}"])
            u = h.op(f"unwrap @{k} {mech2} @{kek2} blob:@{w} {tpl(kt, n, rng.choice([None, '00', '01']))}"); h.minted += 1
            h.op(f"getattr @{k} @{u} 0:8 100:8 11:600 161:8 163:1 164:1 165:1 162:1 103:1 2:1")
            h.op(f"kcv @{k} @{u}")
        elif r < 0.70 and blobs:      # damaged blobs: nothing may be created
            w, mech, kek, kt, n = rng.choice(blobs)
            mut = rng.choice(["trunc=0", "trunc=8", "trunc=16", "drop=1", "drop=8", "drop=16", f"flip={rng.randrange(64)}", f"flip={rng.randrange(64)}", "append=00", "append=" + "00" * 8])
            h.op(f"findinit @{k} 0={U(4)}"); h.minted += 40; h.op(f"find @{k} 200"); h.op(f"findfinal @{k}")
            u = h.op(f"unwrap @{k} {mech} @{kek} blob:@{w},{mut} {tpl(kt, n)}"); h.minted += 1
            h.op(f"findinit @{k} 0={U(4)}"); h.minted += 40; h.op(f"find @{k} 200"); h.op(f"findfinal @{k}")
            h.op(f"kcv @{k} @{u}")
        elif r < 0.78:      # asymmetric: RSA wrapping of secret keys, AES wrapping of an EC private key (PKCS#8) — round trips
            if rng.random() < 0.5:
                tg, kt, n = rng.choice([x_ for x_ in targets if x_[2] <= 64])
                mech = rng.choice(["1", "9:oaep(220,1,)"])
                w = h.op(f"wrap @{k} {mech} @{rsa} @{tg} 600")
                u = h.op(f"unwrap @{k} {mech} @{rsa}.1 blob:@{w} {tpl(kt, n)}"); h.minted += 1
                h.op(f"getattr @{k} @{u} 11:600 163:1 164:1 165:1"); h.op(f"getattr @{k} @{tg} 11:600")
            else:
                kek = rng.choice(keks); mech = rng.choice(["210a", f"1085:{ivs()}"])
                w = h.op(f"wrap @{k} {mech} @{kek} @{ecx}.1 600")
                u = h.op(f"unwrap @{k} {mech} @{kek} blob:@{w} 0={U(3)} 100={U(3)} 3={hx(h.new_label())} 108=01 103=00 162=01"); h.minted += 1
                h.op(f"getattr @{k} @{u} 180:64 11:64 163:1 164:1 165:1"); h.op(f"getattr @{k} @{ecx}.1 180:64 11:64")
        else:               # derive
            c = rng.random()
            kt, ln = rng.choice([(0x10, rng.choice([1, 8, 16, 20, 32, 48, 100, 128, 129])), (0x1f, 16), (0x1f, 24), (0x1f, 32), (0x1f, 20), (0x15, 0), (0x14, 0), (0x13, 0)])
            vlen = f" 161={U(ln)}" if ln else ""
            flags = rng.choice(["162=01 103=00", "162=01 103=00", "162=00 103=01", "162=01 103=01", "162=00 103=00", ""])
            if c < 0.25:
                base = rng.choice(keks + genbases); data = rb(rng.choice([16, 32, 48, 8, 0]))
                mech = f"1104:str({data or '.'})" if rng.random() < 0.5 else f"1105:cbcd({ivs()},{data or '.'})"
                u = h.op(f"derive @{k} {mech} @{base} 0={U(4)} 100={U(kt)} 3={hx(h.new_label())} {flags}{vlen}")
            elif c < 0.5:
                base = rng.choice([x_[0] for x_ in targets] + genbases); data = rb(rng.choice([1, 8, 20, 0]))
                u = h.op(f"derive @{k} {rng.choice(['362', '363'])}:str({data or '.'}) @{base} 3={hx(h.new_label())} {flags}" + (f" 0={U(4)} 100={U(kt)}{vlen}" if rng.random() < 0.6 else ""))
            elif c < 0.75:
                # peers g^i; every third one is searched for a shared secret with a leading zero octet
                want_short = rng.random() < 0.5
                while True:
                    i = rng.randrange(2, 50000); y = pow(2, i, OAKLEY2); z = pow(y, x, OAKLEY2)
                    if not want_short or z < 2 ** 1016: break
                u = h.op(f"derive @{k} 21:{y.to_bytes(128, 'big').hex()} @{dh} 0={U(4)} 100={U(kt)} 3={hx(h.new_label())} 162=01 103=00{vlen}")
            else:
                Q = p256_mul(rng.randrange(1, 2**255), P256_G)
                pt = "04" + Q[0].to_bytes(32, "big").hex() + Q[1].to_bytes(32, "big").hex()
                cc = rng.random()
                if cc < 0.15: pt = pt[:-2] + f"{(int(pt[-2:], 16) ^ 1):02x}"       # not on the curve
                elif cc < 0.3: pt = "0441" + pt                                       # DER octet string
                u = h.op(f"derive @{k} 1050:ecdh(1,{pt}) @{ecd} 0={U(4)} 100={U(kt)} 3={hx(h.new_label())} 162=01 103=00{vlen}")
            if rng.random() < 0.15:       # CKM_CONCATENATE_BASE_AND_KEY: the history attributes combine those of BOTH keys
                b1 = rng.choice(keks + genbases + [x_[0] for x_ in targets]); b2 = rng.choice(keks + genbases + [x_[0] for x_ in targets])
                u = h.op(f"derive @{k} 360:obj(@{b2}) @{b1} 3={hx(h.new_label())} {flags}" + (f" 0={U(4)} 100={U(0x10)} 161={U(rng.choice([8, 16, 40]))}" if rng.random() < 0.5 else ""))
            h.minted += 1
            h.op(f"getattr @{k} @{u} 0:8 100:8 11:600 163:1"); h.op(f"getattr @{k} @{u} 103:1 162:1 164:1 165:1"); h.op(f"kcv @{k} @{u}")
            # whatever the outcome, the secret keys of the token are counted
            h.op(f"findinit @{k} 0={U(4)}"); h.minted += 60; h.op(f"find @{k} 300"); h.op(f"findfinal @{k}")
    h.op("fini")
    return h.text()


# ---------------------------------------------------------------------------------------------------------
# C10: operations with keys whose values the reference implementations know; arbitrary splits; tampering
# ---------------------------------------------------------------------------------------------------------
RSA1024 = {'n': 'c77743e6a1e9fb67c18992e4cae85e33b99f7ca8770a3c5d088325e99a2fd29bce57a3a7d957168c92f91403980946bd48b0b0fc84d96ce309152ffbc1ac46faf92831fbd19794db44a5e7cfca084d717531ad8de2acab043ad17f45f88067c791ba96351ed2cee6b623235951fd813c78520f1fac52c3e4d2a93e862ddb6933',
           'd': '6a56c8095dcabb302e7ae4a83b10b4a008d6e103832b1ed14e6774bfdc66a07656045d08701340bf42dfad6ed91020f96a966054cf9286bd672b37809558fe217fd7b8621afb471372954527622cfdf1ae2b13730d4ae47c8d2ad8e946bd0ab213ac9d07c72e91693e100fa92a8835980feca9f92bef9fdc17bd120438719889',
           'p': 'e5b9670320db2f3c4927ed6fd2655f7d5b4ed3ab3986a6d570b2bcd3ebd1ebf3c3cd08639929dec77556a9414b6950d9ebb8419fcabeeb188934fd813410c665',
           'q': 'de47dcd0692f3624caa50a5d73a4e46c655969baadcb54bbb0fc4541289e0801fa0fa26013645675e09f1fdde7f4d31a2b344980fb1b427a6ad7a1f449e64bb7',
           'dp': 'a267dc87bda6b7522b75eaca6f37f3b62fe31e89a275ab64a1f3fac2e7a8d4e2d4be12fc36bfff1b8bbce493a0b8a7cc28756f0f84ca4c72602df23a71909a71',
           'dq': 'c9e4afd5c49413339bb4081415a3e1adeae829b65b80e1b790ebb1e39b06def31cb3f2a21d3af7a51d9eaa8d1dd02ba60b33f4c7684cbc3700b056f3d1e39145',
           'qi': '23ea736eef7c0e3a003edb0f8396fec3a6192033d3ec765c0a2ceb779b33b2ba001e098d3045bfcff2f47afeb7b91ddf5717957e1b507d0841072ee560bcd0ac'}


def splits(rng, data_hex):
    """cut a hex string into 0..5 pieces at random byte boundaries (empty pieces allowed)"""
    b = bytes.fromhex(data_hex) if data_hex != "." else b""
    n = rng.choice([1, 1, 2, 3, 5])
    cuts = sorted(rng.randrange(0, len(b) + 1) for _ in range(n - 1))
    out, prev = [], 0
    for c in cuts + [len(b)]:
        out.append(b[prev:c].hex() or "."); prev = c
    return out


def flip(rng, hexs):
    if hexs in (".", ""): return "00"
    b = bytearray(bytes.fromhex(hexs)); i = rng.randrange(len(b)); b[i] ^= 1 << rng.randrange(8)
    return bytes(b).hex()


def crypto_history(seed, nops=40):
    rng = random.Random(seed)
    h = OpsGen(rng)
    h.prologue(1)
    t = h.toks[0]
    k = h.open(t, True); h.login(k, t, 'user')
    U = ul
    rb = lambda n: bytes(rng.randrange(256) for _ in range(n)).hex() or "."
    use = "104=01 105=01 108=01 10a=01 162=01 103=00"
    aes = [h.op(f"create @{k} 0={U(4)} 100={U(0x1f)} 3={hx(h.new_label())} 11={rb(n)} {use}") for n in (16, 24, 32)]
    gens = [h.op(f"create @{k} 0={U(4)} 100={U(0x10)} 3={hx(h.new_label())} 11={rb(n)} {use}") for n in (1, 20, 64, 65, 128, 200)]
    des = [h.op(f"create @{k} 0={U(4)} 100={U(kt)} 3={hx(h.new_label())} 11={rb(n)} {use}") for kt, n in ((0x15, 24), (0x14, 16))]; h.minted += 2
    R = RSA1024
    rpub = h.op(f"create @{k} 0={U(2)} 100={U(0)} 3={hx(h.new_label())} 120={R['n']} 122=010001 10a=01 104=01")
    rprv = h.op(f"create @{k} 0={U(3)} 100={U(0)} 3={hx(h.new_label())} 120={R['n']} 122=010001 123={R['d']} 124={R['p']} 125={R['q']} 126={R['dp']} 127={R['dq']} 128={R['qi']} 108=01 105=01 2=01 103=00 162=01")
    d = rng.randrange(1, 2**255); Q = p256_mul(d, P256_G)
    pt = "0441" + "04" + Q[0].to_bytes(32, "big").hex() + Q[1].to_bytes(32, "big").hex()
    epub = h.op(f"create @{k} 0={U(2)} 100={U(3)} 3={hx(h.new_label())} 180={P256} 181={pt} 10a=01")
    eprv = h.op(f"create @{k} 0={U(3)} 100={U(3)} 3={hx(h.new_label())} 180={P256} 11={d.to_bytes(32, 'big').hex()} 108=01 2=01 103=00 162=01")
    h.minted += 14
    # pairs generated ON the token over other named curves (the monitor learns the public point from C_GetAttributeValue): P-384, P-521, P-224, secp160r1, secp224k1, secp256k1
    ecx = []
    for oid in ("06052b81040022", "06052b81040023", "06052b81040021", "06052b81040008", "06052b81040020", "06052b8104000a"):
        g = h.op(f"genpair @{k} 1040 180={oid} 3={hx(h.new_label())} 10a=01 / 3={hx(h.new_label())} 108=01 2=01"); h.minted += 2
        h.op(f"getattr @{k} @{g} 181:300")
        ecx.append(g)
    lens = [0, 1, 15, 16, 17, 31, 32, 33, 47, 48, 64, 100]
    recorded = []     # (kind, mech token, key ref, plaintext hex, op index of the output) for decrypt / verify of the token's own outputs
    for _ in range(nops):
        r = rng.random()
        if r < 0.40:      # symmetric encryption, single or in pieces; then decryption of the result, untouched or tampered
            key = rng.choice(aes)
            mech = rng.choice(["1081", f"1082:{rb(16)}", f"1085:{rb(16)}", f"1086:ctr({rng.choice([128, 64, 32, 16, 8])},{rng.choice([rb(16), 'ff' * 16, '00' * 15 + 'fe'])})",
                               f"1087:gcm({rb(rng.choice([12, 12, 1, 16, 60]))},{rng.choice(['', rb(5), rb(16), rb(33)]).replace('.', '')},{rng.choice([128, 128, 96, 64, 32])})"])
            n = rng.choice(lens if mech[:4] in ("1085", "1086", "1087") else [0, 16, 32, 48, 64, 17])
            if rng.random() < 0.25:       # triple DES (2 and 3 keys), 8-byte blocks
                key = rng.choice(des); mech = rng.choice(["132", f"133:{rb(8)}", f"136:{rb(8)}"])
                n = rng.choice([0, 1, 7, 8, 9, 16, 23, 24, 40]) if mech[:3] == "136" else rng.choice([0, 8, 16, 24, 40, 12])
            ptx = rb(n)
            h.op(f"encinit @{k} {mech} @{key}")
            outs = []
            if rng.random() < 0.4:
                for _ in range(rng.choice([0, 0, 1])): h.op(f"enc @{k} {ptx} {rng.choice(['n', '0', '3'])}")
                outs.append(h.op(f"enc @{k} {ptx} 600"))
            else:
                for piece in splits(rng, ptx):
                    if rng.random() < 0.15 and piece not in (".", ""): h.op(f"encupd @{k} {piece} {rng.choice(['n', '0'])}")
                    outs.append(h.op(f"encupd @{k} {piece} 600"))
                for _ in range(rng.choice([0, 0, 1])): h.op(f"encfinal @{k} n")
                outs.append(h.op(f"encfinal @{k} 600"))
            recorded.append(("enc", mech, key, ptx, outs))
        elif r < 0.55 and recorded:      # decrypt a ciphertext produced by the reference-compatible encrypt: rebuilt from the SAME plaintext by encrypting again is not possible
            # instead: decrypt reference-style inputs made by python is impossible without AES here; so the token decrypts its OWN ciphertext through a relay op
            kind, mech, key, ptx, outs = rng.choice(recorded)
            tam = rng.random()
            mech2 = mech
            if tam < 0.25 and ":" in mech:        # tamper with IV / AAD / counter block
                head, par = mech.split(":", 1)
                if par.startswith("gcm("):
                    a = par[4:-1].split(","); j = rng.choice([0, 1]) if a[1] else 0; a[j] = flip(rng, a[j]); mech2 = f"{head}:gcm({','.join(a)})"
                elif par.startswith("ctr("):
                    a = par[4:-1].split(","); a[1] = flip(rng, a[1]); mech2 = f"{head}:ctr({','.join(a)})"
                else: mech2 = f"{head}:{flip(rng, par)}"
            h.op(f"decinit @{k} {mech2} @{key}")
            # relay: the pieces are the outputs of the recorded encrypt calls (op `decrelay` feeds them back, optionally with one bit flipped)
            fl = rng.random() < 0.25
            h.op(f"decrelay @{k} {','.join(str(o) for o in outs)} {'flip' if fl else 'same'} {rng.choice(['single', 'multi'])} {rng.randrange(1 << 30)}")
        elif r < 0.75:      # MACs and signatures
            c = rng.random()
            data = rb(rng.choice(lens))
            if c < 0.45:
                mech = rng.choice(["221", "256", "251", "261", "271", "211"]); key = rng.choice(gens)
            elif c < 0.6:
                mech = "108a"; key = rng.choice(aes)
                if rng.random() < 0.3: mech = "138"; key = rng.choice(des)
            elif c < 0.85:
                mech = rng.choice(["1", "6", "46", "40", "41", "42", "e:pss(220,1,20)", "43:pss(250,2,32)", "44:pss(260,3,48)", "45:pss(270,4,62)", "47:pss(255,5,0)", "d:pss(250,2,20)"]); key = rprv
                if mech == "1": data = rb(rng.choice([0, 20, 35, 51, 117]))
                if mech.startswith("d:"): data = rb(32)          # CKM_RSA_PKCS_PSS signs a hash value of the stated hash's length
            else:
                mech = "1041"; key = eprv; data = rb(rng.choice([20, 32, 32, 48]))
                if rng.random() < 0.5:
                    g = rng.choice(ecx); key = f"{g}.1"; data = rb(rng.choice([20, 28, 32, 48, 64]))
            h.op(f"siginit @{k} {mech} @{key}")
            if rng.random() < 0.5 or mech in ("1", "1041") or mech.startswith("d:"):
                for _ in range(rng.choice([0, 0, 1, 2])): h.op(f"sign @{k} {data} {rng.choice(['n', '0', '5', '19'])}")
                so = h.op(f"sign @{k} {data} 600")
            else:
                for piece in splits(rng, data): h.op(f"sigupd @{k} {piece}")
                for _ in range(rng.choice([0, 0, 1, 2])): h.op(f"sigfinal @{k} {rng.choice(['n', '0', '5', '19'])}")
                so = h.op(f"sigfinal @{k} 600")
            # verification of the token's own signature: untouched, data changed, signature changed
            vkey = {rprv: rpub, eprv: epub}.get(key, key)
            if isinstance(key, str) and key.endswith(".1"): vkey = key[:-2]
            for variant in rng.sample(["same", "data", "sig", "sig"], 2):
                h.op(f"verinit @{k} {mech} @{vkey}")
                d2 = flip(rng, data) if variant == "data" else data
                h.op(f"verrelay @{k} {d2} {so} {'flip' if variant == 'sig' else 'same'} {rng.choice(['single', 'multi']) if (mech not in ('1', '1041') and not mech.startswith('d:')) else 'single'} {rng.randrange(1 << 30)}")
        elif r < 0.80:      # RSA encryption with the public key, decryption of the result with the private key: the reference decrypts the token's ciphertext with d
            mech = rng.choice(["1", "9:oaep(220,1,)", "3"])
            n = rng.choice([0, 1, 20, 64, 86]) if mech != "3" else rng.choice([128, 128, 100, 1])
            ptx = rb(n) if mech != "3" else ("00" + rb(n - 1) if n > 1 else "7f")
            h.op(f"encinit @{k} {mech} @{rpub}")
            eo = h.op(f"enc @{k} {ptx} 600")
            h.op(f"decinit @{k} {mech} @{rprv}")
            h.op(f"decrelay @{k} {eo} {'flip' if rng.random() < 0.2 else 'same'} single {rng.randrange(1 << 30)}")
        elif r < 0.9:       # digests
            mech = rng.choice(["220", "255", "250", "260", "270", "210"]); data = rb(rng.choice(lens + [200]))
            h.op(f"diginit @{k} {mech}")
            if rng.random() < 0.4:
                for _ in range(rng.choice([0, 0, 1, 2])): h.op(f"digest @{k} {data} {rng.choice(['n', '0', '5', '19'])}")
                h.op(f"digest @{k} {data} 600")
            else:
                for piece in splits(rng, data): h.op(f"digupd @{k} {piece}")
                for _ in range(rng.choice([0, 0, 1, 2])): h.op(f"digfinal @{k} {rng.choice(['n', '0', '5', '19'])}")
                h.op(f"digfinal @{k} 600")
        else:               # the token verifies / decrypts what a foreign implementation made: a MAC computed over data by python (HMAC only)
            import hmac as _h, hashlib as _hl
            mech, hn = rng.choice([("221", "sha1"), ("251", "sha256"), ("271", "sha512")])
            kv = bytes(rng.randrange(256) for _ in range(rng.choice([8, 32, 100])))
            key = h.op(f"create @{k} 0={U(4)} 100={U(0x10)} 3={hx(h.new_label())} 11={kv.hex()} {use}"); h.minted += 1
            data = bytes(rng.randrange(256) for _ in range(rng.choice(lens)))
            mac = _h.new(kv, data, getattr(_hl, hn)).hexdigest()
            h.op(f"verinit @{k} {mech} @{key}"); h.op(f"verify @{k} {data.hex() or '.'} {mac}")
            h.op(f"verinit @{k} {mech} @{key}"); h.op(f"verify @{k} {data.hex() or '.'} {flip(rng, mac)}")
    h.op("fini")
    return h.text()


# ---------------------------------------------------------------------------------------------------------
# C17: hostile but well-typed arguments — mutations of valid histories
# ---------------------------------------------------------------------------------------------------------
HOSTILE_HANDLES = ["0", "1", "2", "3", "7", "50", "4294967295", "4294967296", "18446744073709551615", "9223372036854775807"]
HOSTILE_MECHS = ["0", "1", "3", "9", "d", "21", "220", "250", "1040", "1041", "1050", "1057", "1080", "1081", "1082", "1082:00", "1082:" + "00" * 15, "1082:" + "00" * 17, "1085:" + "00" * 17, "1085:" + "11" * 16,
                 "1086", "1086:ctr(0,00)", "1086:ctr(129,ff)", "1086:ctr(1,ffffffffffffffffffffffffffffffff)", "1086:" + "00" * 8,
                 "1087", "1087:00", "1087:gcm(,,0)", "1087:gcm(" + "00" * 300 + ",,136)", "1087:gcm(00,,7)", "1087:gcm(000102030405060708090a0b," + "ab" * 70 + ",96)", "2109:00", "2109", "210a", "210a:00",
                 "9:oaep(0,0,)", "9:oaep(250,9,ffff)", "9:oaep(220,1,)", "9:00", "9:" + "00" * 39, "d:pss(0,0,0)", "d:pss(220,1,4294967295)", "d:pss(250,2,32)", "d:0000", "e:pss(220,1,20)", "43:pss(250,2,32)",
                 "1050:ecdh(1,)", "1050:ecdh(2,04)", "1050:ecdh(1,0441" + "00" * 65 + ")", "1050:ecdh(1,04" + "00" * 64 + ")", "1050:ecdh(1,04" + "ff" * 64 + ")", "1050:ecdh(1,0400)", "1050:00",
                 "1104:str(.)", "1104:str(00)", "1104:00", "1105:cbcd(00,00)", "1105:cbcd(" + "00" * 16 + ",)", "1102:cbcd(0000000000000000," + "00" * 7 + ")", "1100:" + "00" * 9,
                 "360:obj(0)", "360:obj(18446744073709551615)", "360", "360:00", "21:", "21:00", "21:" + "ff" * 300, "999", "80000001", "ffffffff", "1041:" + "00" * 16, "1045", "1044", "1044:00", "40", "251", "252",
                 "1:00", "3:00", "6", "1042", "1043", "1046", "132", "133", "136", "1021", "1022", "1025", "1089", "108a", "121", "122", "125", "101", "102", "105"]
# argument kinds by position (after the op word); a trailing "T" / "G" stands for "template entries / getattr items to the end of the line"
HOSTILE_SCHEMA = {
    "close": "H", "sinfo": "H", "login": "HNB", "logout": "H", "initpin": "HB", "setpin": "HBB", "create": "HT", "copy": "HHT", "destroy": "HH", "probe": "HH", "objsize": "HH",
    "setattr": "HHT", "getattr": "HHG", "findinit": "HT", "find": "HN", "findfinal": "H", "genkey": "HMT", "genpair": "HMT", "encinit": "HMH", "decinit": "HMH", "siginit": "HMH", "verinit": "HMH",
    "diginit": "HM", "enc": "HBO", "dec": "HBO", "sign": "HBO", "digest": "HBO", "encupd": "HBO", "decupd": "HBO", "encfinal": "HO", "decfinal": "HO", "sigfinal": "HO", "digfinal": "HO",
    "misc": "HNHB", "sigupd": "HB", "verupd": "HB", "digupd": "HB", "digkey": "HH", "verify": "HBB", "verfinal": "HB", "wrap": "HMHHO", "unwrap": "HMHBT", "derive": "HMHT", "kcv": "HH", "random": "HN", "seed": "HB",
}
HOSTILE_TYPES = ["0", "1", "2", "3", "11", "100", "102", "103", "104", "105", "106", "107", "108", "10a", "10c", "110", "111", "120", "121", "122", "130", "132", "161", "162", "163", "164", "165", "166", "170",
                 "180", "210", "40000211", "40000212", "40000600", "80005349", "ffffffff", "90", "86", "8b", "202", "171"]


def _hostile_bytes(rng, tok):
    c = rng.random(); cur = "" if tok in (".", "-") else tok
    if c < 0.2: return "."
    if c < 0.25: return "-"
    if c < 0.55: return cur + "cd" * rng.choice([1, 7, 8, 15, 16, 17, 255, 4096, 70000])
    if c < 0.8: return cur[:2 * rng.randrange(0, max(1, len(cur) // 2))] or "."
    return "".join(rng.choice("0123456789abcdef") for _ in range(2 * rng.choice([1, 8, 16, 24, 32, 64, 128, 256])))


def _hostile_entry(rng, tok):
    ty, _, val = tok.partition("="); c = rng.random()
    if c < 0.2: return f"{ty}=."
    if c < 0.3: return f"{ty}=!0" if rng.random() < 0.3 else f"{ty}=."       # NULL pointer, length 0: valid memory of the stated size
    if c < 0.5 and val and val[0] not in "{!": return f"{ty}={val[:2 * rng.randrange(0, max(1, len(val) // 2))] or '.'}"
    if c < 0.65 and val and val[0] not in "{!": return f"{ty}={(val if val != '.' else '') + 'ab' * rng.choice([1, 7, 8, 64, 5000])}"
    if c < 0.8: return f"{rng.choice(HOSTILE_TYPES)}={val or '.'}"
    return f"{ty}={{{';'.join(rng.sample(['162=01', '1=.', '40000211=00', '0=' + 'ff' * 8, '3=' + 'ab' * 300, '161=00', '40000600=0102', '100=1f00000000000000', '11=' + '00' * 32], rng.randrange(0, 5)))}}}"


def hostile_history(seed, tables, nmut=25):
    """a valid history of one of the generators with `nmut` of its lines damaged, by argument kind: handles replaced by hostile values or by a reference to the result of
    another call (a session where an object is expected, a destroyed object, …), byte strings cut / extended / emptied / NULL / random, mechanisms and their parameters
    replaced (wrong size, wrong structure, extreme fields), output sizes changed, template entries emptied, cut, extended, retyped, duplicated or nested.
    Pointers stay valid and sizes honest (the harness owns every buffer), which is the premise of C17."""
    rng = random.Random(seed)
    base = rng.choice([lambda: ops_history(seed, 50), lambda: wrap_history(seed, 30), lambda: object_history(seed, tables, 40), lambda: crypto_history(seed, 25),
                       lambda: pin_history(seed, 40), lambda: spine_history(seed, 25, probe_every=False)])()
    lines = base.rstrip("\n").split("\n")
    cand = [i for i, l in enumerate(lines) if l.split()[0] in HOSTILE_SCHEMA]
    for i in rng.sample(cand, min(nmut, len(cand))):
        w = lines[i].split(); sch = HOSTILE_SCHEMA[w[0]]
        kinds = [sch[min(j - 1, len(sch) - 1)] for j in range(1, len(w))]
        for _ in range(rng.choice([1, 1, 2])):
            if len(w) < 2: break
            j = rng.randrange(1, len(w)); k = kinds[j - 1] if j - 1 < len(kinds) else sch[-1]; tok = w[j]
            if tok == "/": continue
            if k == "H": w[j] = rng.choice(HOSTILE_HANDLES + [f"@{rng.randrange(0, i + 1)}"] * 6 + [tok])
            elif k == "N": w[j] = rng.choice(["0", "1", "2", "3", "15", "16", "17", "255", "4096", "100000"])
            elif k == "O": w[j] = rng.choice(["n", "0", "1", "15", "16", "17", "31", "255", "100000"])
            elif k == "M": w[j] = rng.choice(HOSTILE_MECHS)
            elif k == "B":
                if tok.startswith("blob:"): w[j] = rng.choice([tok + f",trunc={rng.randrange(0, 40)}", tok + f",drop={rng.randrange(1, 40)}", tok + ",append=" + "00" * rng.choice([1, 8, 16]), tok + f",flip={rng.randrange(0, 400)}", ".", "00"])
                else: w[j] = _hostile_bytes(rng, tok)
            elif k == "T":
                c = rng.random()
                if c < 0.06:        # a long template: the same entry many times over (fixed-size attribute arrays inside the library)
                    n = rng.choice([10, 28, 29, 33, 64, 200]); w[j:j] = [tok] * n; kinds[j - 1:j - 1] = ["T"] * n
                elif c < 0.15: w.insert(j, tok); kinds.insert(j - 1, "T")
                elif c < 0.25: del w[j]; del kinds[j - 1]
                else: w[j] = _hostile_entry(rng, tok)
            elif k == "G":
                ty, _, cap = tok.partition(":")
                w[j] = rng.choice([f"{ty}:{rng.choice(['n', '0', '1', '7', '8', '9', '4096'])}", f"{rng.choice(HOSTILE_TYPES)}:{cap}", tok + " " + tok])
        lines[i] = " ".join(w)
    # the entry points no generator reaches (appended, so that the @k references above stay valid): on every session-like reference seen, with hostile handles too
    sess = [l.split()[1] for l in lines if l.split()[0] in ("login", "findinit", "create") and len(l.split()) > 1][:3]
    tail = [f"misc {h_} {rng.choice(['0', '1', '7', '4294967295'])} {rng.choice(HOSTILE_HANDLES)} {_hostile_bytes(rng, 'aabbccdd')}" for h_ in sess + [rng.choice(HOSTILE_HANDLES)]]
    if lines and lines[-1].split()[0] == "fini": lines[-1:-1] = tail
    else: lines += tail
    return "\n".join(lines) + "\n"


ED25519_OID = "06032b6570"
X25519_OID = "06032b656e"


def degenerate_key_history(seed, per=10):
    """C17: key objects whose components are degenerate (empty, zero, one byte, random, over-long, another curve's parameters) — C_CreateObject accepts any bytes —
    driven through every operation a key of that class can start (sign, verify, encrypt, decrypt, wrap, unwrap, derive, digest-key, copy, attribute read)."""
    rng = random.Random(seed)
    h = OpsGen(rng); h.prologue(1); t = h.toks[0]
    k = h.open(t, True); h.login(k, t, 'user')
    U = ul; R = RSA1024
    rb = lambda n: bytes(rng.randrange(256) for _ in range(n)).hex() or "."
    d = rng.randrange(1, 2**255); Q = p256_mul(d, P256_G)
    pt = "0441" + "04" + Q[0].to_bytes(32, "big").hex() + Q[1].to_bytes(32, "big").hex()
    pO = OAKLEY2.to_bytes(128, 'big').hex(); qO = ((OAKLEY2 - 1) // 2).to_bytes(128, 'big').hex()
    x = rng.randrange(2, 2**160); y = pow(4, x, OAKLEY2).to_bytes(128, 'big').hex(); xh = x.to_bytes(20, 'big').hex()
    use = "104=01 105=01 106=01 107=01 108=01 10a=01 10c=01 162=01 103=00"
    usepub = "104=01 106=01 10a=01 10c=01"
    usepriv = "105=01 107=01 108=01 10c=01 162=01 103=00"
    shapes = {      # name -> (fixed part, {component attr: good value})
        "rsapub": (f"0={U(2)} 100={U(0)} {usepub}", {"120": R['n'], "122": "010001"}),
        "rsaprv": (f"0={U(3)} 100={U(0)} {usepriv}", {"120": R['n'], "122": "010001", "123": R['d'], "124": R['p'], "125": R['q'], "126": R['dp'], "127": R['dq'], "128": R['qi']}),
        "dsapub": (f"0={U(2)} 100={U(1)} {usepub}", {"130": pO, "131": qO, "132": "04", "11": y}),
        "dsaprv": (f"0={U(3)} 100={U(1)} {usepriv}", {"130": pO, "131": qO, "132": "04", "11": xh}),
        "dhpub": (f"0={U(2)} 100={U(2)} {usepub}", {"130": pO, "132": "02", "11": y}),
        "dhprv": (f"0={U(3)} 100={U(2)} {usepriv}", {"130": pO, "132": "02", "11": xh}),
        "ecpub": (f"0={U(2)} 100={U(3)} {usepub}", {"180": P256, "181": pt}),
        "ecprv": (f"0={U(3)} 100={U(3)} {usepriv}", {"180": P256, "11": d.to_bytes(32, 'big').hex()}),
        "edpub": (f"0={U(2)} 100={U(0x40)} {usepub}", {"180": ED25519_OID, "181": "0420" + rb(32)}),
        "edprv": (f"0={U(3)} 100={U(0x40)} {usepriv}", {"180": ED25519_OID, "11": rb(32)}),
        "xprv": (f"0={U(3)} 100={U(0x40)} {usepriv}", {"180": X25519_OID, "11": rb(32)}),
        "aes": (f"0={U(4)} 100={U(0x1f)} {use}", {"11": rb(16)}),
        "des3": (f"0={U(4)} 100={U(0x15)} {use}", {"11": rb(24)}),
        "des": (f"0={U(4)} 100={U(0x13)} {use}", {"11": rb(8)}),
        "gen": (f"0={U(4)} 100={U(0x10)} {use}", {"11": rb(20)}),
    }
    bad = lambda good: rng.choice([".", "00", "01", "ff", "0000000000000000", rb(rng.choice([1, 2, 7, 8, 15, 31, 33, 64])), "ff" * rng.choice([16, 128, 600]), good[:-2] or ".", good[2:] or ".", good + "00", "00" + good,
                                   ED25519_OID, X25519_OID, P256, "0400", "0441" + "04" + "00" * 64, "0441" + "00" * 65, "04" + "00" * 64, "3000", "0600", "06082a8648ce3d030107ff", "06052b81040022"])
    sym_mechs = ["1081", f"1082:{rb(16)}", f"1085:{rb(16)}", "1086:ctr(128," + rb(16) + ")", "1087:gcm(" + rb(12) + ",,128)", "132", f"133:{rb(8)}", f"136:{rb(8)}", "121", f"122:{rb(8)}", f"125:{rb(8)}", "221", "251", "108a", "138", "2109", "210a", "1089"]
    asig = ["1", "3", "6", "40", "d:pss(220,1,20)", "43:pss(250,2,32)", "11", "12", "1041", "1042", "1044", "1057"]
    aenc = ["1", "3", "9:oaep(220,1,)"]
    for _ in range(per):
        name = rng.choice(list(shapes)); fixed, comps = shapes[name]
        vals = dict(comps)
        for a in rng.sample(list(comps), min(len(comps), rng.choice([1, 1, 1, 2, len(comps)]))):
            c = rng.random()
            if c < 0.12: del vals[a]
            else: vals[a] = bad(comps[a])
        key = h.op(f"create @{k} {fixed} 3={hx(h.new_label())} " + " ".join(f"{a}={v}" for a, v in vals.items())); h.minted += 1
        h.op(f"getattr @{k} @{key} 0:8 100:8 11:600 120:600 130:600 180:600 181:600 161:8 90:8")
        h.op(f"objsize @{k} @{key}")
        data = rb(rng.choice([0, 1, 16, 20, 32, 64, 128]))
        if name in ("aes", "des3", "des", "gen"):
            for m in rng.sample(sym_mechs, 5):
                which = rng.choice(["enc", "dec", "sig", "ver"])
                h.op(f"{which}init @{k} {m} @{key}")
                if which in ("enc", "dec"): h.op(f"{which} @{k} {data} 700")
                elif which == "sig": h.op(f"sign @{k} {data} 700")
                else: h.op(f"verify @{k} {data} {rb(16)}")
            h.op(f"digkey @{k} @{key}")
            m = rng.choice(["2109", "210a", f"1085:{rb(16)}", f"1082:{rb(16)}", f"136:{rb(8)}"])
            h.op(f"wrap @{k} {m} @{key} @{key} 700")
            h.op(f"unwrap @{k} {m} @{key} {rb(rng.choice([0, 8, 16, 24, 32, 40]))} 0={U(4)} 100={U(0x1f)} 162=01 103=00")
            h.op(f"derive @{k} {rng.choice(['1104:str(' + rb(16) + ')', '1105:cbcd(' + rb(16) + ',' + rb(32) + ')', '1100:str(' + rb(8) + ')', '1102:cbcd(' + rb(8) + ',' + rb(16) + ')', '360:obj(0)'])} @{key} 0={U(4)} 100={U(0x1f)} 161={U(16)} 162=01 103=00")
        elif name.endswith("pub"):
            for m in rng.sample(asig, 4):
                h.op(f"verinit @{k} {m} @{key}"); h.op(f"verify @{k} {data} {rb(rng.choice([0, 1, 40, 64, 128]))}")
            for m in rng.sample(aenc, 2):
                h.op(f"encinit @{k} {m} @{key}"); h.op(f"enc @{k} {data} 700")
            h.op(f"wrap @{k} {rng.choice(aenc)} @{key} @{key} 700")
        else:
            for m in rng.sample(asig, 4):
                h.op(f"siginit @{k} {m} @{key}"); h.op(f"sign @{k} {data} 700")
            for m in rng.sample(aenc, 2):
                h.op(f"decinit @{k} {m} @{key}"); h.op(f"dec @{k} {rb(rng.choice([0, 1, 127, 128, 129]))} 700")
            h.op(f"unwrap @{k} {rng.choice(aenc)} @{key} {rb(rng.choice([0, 1, 128]))} 0={U(4)} 100={U(0x1f)} 162=01 103=00")
            h.op(f"derive @{k} 21:{rng.choice([y, '.', '00', '01', pO, rb(128), rb(200)])} @{key} 0={U(4)} 100={U(0x10)} 161={U(16)} 162=01 103=00")
            h.op(f"derive @{k} 1050:ecdh(1,{rng.choice([pt[4:], pt, '', '04', rb(65), '0420' + rb(32), rb(32)])}) @{key} 0={U(4)} 100={U(0x10)} 161={U(16)} 162=01 103=00")
        h.op(f"copy @{k} @{key} 3={hx(h.new_label())}"); h.minted += 1
    h.op(f"findinit @{k}"); h.op(f"find @{k} 500"); h.op(f"findfinal @{k}")
    h.op("fini")
    return h.text()


POKE_WORDS = ["8000000000000000", "ffffffffffffffff", "7fffffffffffffff", "0000000000000000", "0000000000000001", "0000000000000002", "0000000000000003", "0000000000000004",
              "0000000000000005", "0000000000000006", "0000000000000008", "0000000000000010", "0000000000000100", "0000000000010000", "0000000100000000", "00000000ffffffff",
              "0000000000000161", "0000000000000011", "0000000040000211", "0000000040000600", "000000008000534c", "00000000000000ff", "0100000000000000"]


def mutated_files_history(seed, rounds=5):
    """C17: arbitrary byte content of the files in the token directory.  A token with objects of every stored attribute kind is built, the library is finalized, and then,
    round after round, files are damaged (length fields replaced by 2^63 and friends, kinds and types replaced, bytes flipped, files cut, extended, emptied, replaced by
    garbage, removed; stray *.object files added; token.object, the generation and lock files damaged too) and a fresh C_Initialize walks the directory: search, read every kind
    of attribute, use the keys, rewrite, copy, destroy, create.  While token.object is untouched the number of objects found is compared with the Lean decoder's verdicts."""
    rng = random.Random(seed)
    h = OpsGen(rng); h.prologue(1); t = h.toks[0]
    k = h.open(t, True); h.login(k, t, 'user')
    U = ul; R = RSA1024
    rb = lambda n: bytes(rng.randrange(256) for _ in range(n)).hex() or "."
    nobj = 0
    def mk(line):
        nonlocal nobj
        h.op(f"create @{k} 1=01 3={hx(h.new_label())} " + line); h.minted += 1; nobj += 1
    mk(f"0={U(0)} 2=00 11={rb(40)} 10={hx('app')}")
    mk(f"0={U(0)} 2=01 11={rb(rng.choice([0, 1, 300]))}")
    mk(f"0={U(4)} 100={U(0x1f)} 2=01 11={rb(16)} 104=01 105=01 106=01 107=01 10a=01 108=01 162=01 103=00 40000211={{0={U(4)};162=01}} 40000600={U(0x1081)}{U(0x1082)}{U(0x2109)}")
    mk(f"0={U(4)} 100={U(0x10)} 2=00 11={rb(32)} 108=01 10a=01 162=01 103=00 110=3230323430313031")
    mk(f"0={U(2)} 100={U(0)} 2=00 120={R['n']} 122=010001 10a=01 104=01 106=01")
    mk(f"0={U(3)} 100={U(0)} 2=01 120={R['n']} 122=010001 123={R['d']} 124={R['p']} 125={R['q']} 126={R['dp']} 127={R['dq']} 128={R['qi']} 108=01 105=01 107=01 103=00 162=01")
    mk(f"0={U(1)} 80={U(0)} 2=00 101={rb(20)} 11={rb(120)}")
    d = rng.randrange(1, 2**255)
    mk(f"0={U(3)} 100={U(3)} 2=01 180={P256} 11={d.to_bytes(32, 'big').hex()} 108=01 10c=01 103=00 162=01")
    for _ in range(rng.randrange(0, 4)): mk(f"0={U(0)} 2={rng.choice(['00', '01'])} 11={rb(rng.choice([5, 64]))}")
    h.op("fini")
    h.op("nop mutated")
    tok_ok = True
    for _ in range(rounds):
        for _ in range(rng.choice([1, 1, 2, 3, 6])):
            c = rng.random()
            if c < 0.12: target = "T0/token.object"; tok_ok = False
            elif c < 0.12: target = "T0/generation"
            elif c < 0.15: target = f"T0/{rng.choice(['zz', 'aa', '0000'])}{rng.randrange(100)}.object"
            else: target = f"T0/O{rng.randrange(0, nobj + 3)}"
            m = rng.random()
            if "generation" not in target and not (target.endswith(".object") and "/O" not in target and "token" not in target) and rng.random() < 0.35:
                # structured damage: the file stays a well-formed attribute sequence, ONE attribute changes (length, kind, type, duplicated, dropped)
                sel = rng.choice(["t80005349", "t8000534a", "t8000534b", "t8000534c", "t8000534d"]) if "token" in target else rng.choice([f"i{rng.randrange(0, 14)}", "t0", "t1", "t2", "t3", "t11", "t100", "t120", "t180", "t40000211", "t40000600", "t161"])
                x = rng.random()
                if x < 0.3: h.op(f"fsmut grow {target} {sel} {rng.choice([1, 16, 17, 33, 300, 1000, 5000])}")
                elif x < 0.45: h.op(f"fsmut shrink {target} {sel} {rng.choice([1, 2, 8, 15, 16, 31, 32, 1000])}")
                elif x < 0.6: h.op(f"fsmut retype {target} {sel} {rng.choice(HOSTILE_TYPES)}")
                elif x < 0.8:
                    kind, pay = rng.choice([(1, "01"), (1, "00"), (2, "00000000000000ff"), (2, "ffffffffffffffff"), (3, "0000000000000000"), (3, "0000000000000003616263"), (3, "00000000000003e8" + "41" * 1000),
                                            (5, "0000000000000000"), (5, "0000000000000002" + "0000000000001081" + "0000000000000000"), (4, "0000000000000000"),
                                            (4, "0000000000000011" + "0000000000000162" + "0000000000000001" + "01")])
                    h.op(f"fsmut rekind {target} {sel} {kind} {pay}")
                elif x < 0.9: h.op(f"fsmut dup {target} {sel}")
                else: h.op(f"fsmut drop {target} {sel}")
                continue
            if target.endswith(".object") and "/O" not in target and "token" not in target:
                h.op(f"fsmut write {target} {rng.choice(['.', '00', rb(7), rb(8), rb(16), rb(24), rb(100), U(1)[::-1] * 3, '00' * 8 + '00' * 7 + '00', '0000000000000001' + '0000000000000000' + '0000000000000002' + '0000000000000005'])}")
            elif m < 0.35: h.op(f"fsmut poke {target} {8 * rng.randrange(0, 60)} {rng.choice(POKE_WORDS)}")
            elif m < 0.5: h.op(f"fsmut flip {target} {rng.randrange(0, 700)} {rng.choice(['01', '80', 'ff', '10'])}")
            elif m < 0.65: h.op(f"fsmut truncate {target} {rng.choice([0, 1, 7, 8, 9, 15, 16, 17, 23, 24, 25, 32, 33, 40, 41, 48]) if rng.random() < 0.6 else rng.randrange(0, 900)}")
            elif m < 0.75: h.op(f"fsmut append {target} {rng.choice([rb(1), rb(7), rb(8), rb(16), rb(17), rb(24), rb(200), '0000000000000011' + '0000000000000003' + '8000000000000000', '0000000000000011' + '0000000000000003' + '0000000000000004' + 'aabbccdd'])}")
            elif m < 0.8: h.op(f"fsmut poke {target} {rng.randrange(0, 500)} {rb(rng.choice([1, 2, 4, 8, 32]))}")
            elif m < 0.88: h.op(f"fsmut write {target} {rng.choice(['.', rb(3), rb(8), rb(24), rb(25), rb(300)])}")
            elif m < 0.93: h.op(f"fsmut remove {target}")
            else: h.op(f"fsmut truncate {target} {rng.randrange(0, 120)}")
        h.op("dumpdir")
        h.op(rng.choice(["init", "initix"])); h.op("slots")
        s = h.op(f"open t:{hx(t.label)} 6")
        h.op(f"login @{s} 1 {hx(t.user)}")
        h.op(f"findinit @{s}")
        if tok_ok: h.op("nop expectcount")
        f = h.op(f"find @{s} 1000"); h.op(f"findfinal @{s}")
        idx = list(range(nobj + 4)); rng.shuffle(idx)
        for i in idx[:rng.choice([3, 6, nobj + 4])]:
            o = f"@{f}.{i}"
            h.op(f"getattr @{s} {o} 0:8 100:8 1:1 2:1 3:64 11:600 120:300 123:300 180:64 40000211:n 40000600:64 110:8 161:8 90:8 170:1")
            h.op(f"getattr @{s} {o} 40000211:200 10:64 101:64 80:8 162:1 163:1 164:1 165:1 102:64")
            h.op(f"objsize @{s} {o}")
            c = rng.random()
            if c < 0.25: h.op(f"setattr @{s} {o} 3={hx(h.new_label())}")
            elif c < 0.4: h.op(f"copy @{s} {o} 3={hx(h.new_label())} 1={rng.choice(['00', '01'])}")
            elif c < 0.5: h.op(f"destroy @{s} {o}")
            elif c < 0.62: h.op(f"encinit @{s} {rng.choice(['1081', '1082:' + rb(16), '1', '9:oaep(220,1,)'])} {o}"); h.op(f"enc @{s} {rb(16)} 700")
            elif c < 0.74: h.op(f"siginit @{s} {rng.choice(['251', '1', '40', '1041', '108a'])} {o}"); h.op(f"sign @{s} {rb(32)} 700")
            elif c < 0.8: h.op(f"wrap @{s} 2109 {o} @{f}.{rng.randrange(nobj)} 700")
            elif c < 0.86: h.op(f"derive @{s} 1050:ecdh(1,{rb(65)}) {o} 0={U(4)} 100={U(0x10)} 161={U(16)}")
            elif c < 0.9: h.op(f"digkey @{s} {o}")
            else: h.op(f"kcv @{s} {o}")
        if rng.random() < 0.5: h.op(f"create @{s} 0={U(0)} 1=01 2={rng.choice(['00', '01'])} 3={hx(h.new_label())} 11={rb(10)}")
        if rng.random() < 0.2: h.op(f"setpin @{s} {hx(t.user)} {hx(t.user)}")
        if rng.random() < 0.15: h.op(f"inittoken t:{hx(t.label)} {hx(t.so)} {hx(t.label)}")
        h.op("fini"); h.op("nop mxstat")
    return h.text()


def conf_history(seed, rounds=12):
    """C17: arbitrary byte content of softhsm2.conf.  Each round writes a configuration (valid lines mixed with damaged ones) and runs C_Initialize and a few calls."""
    rng = random.Random(seed)
    h = OpsGen(rng); h.prologue(1); t = h.toks[0]
    h.op("fini"); h.op("nop mutated")
    rbs = lambda n: bytes(rng.randrange(256) for _ in range(n))
    good = [b"directories.tokendir = @TOKENDIR@", b"objectstore.backend = file", b"log.level = ERROR", b"slots.removable = false", b"slots.mechanisms = ALL", b"library.reset_on_fork = false",
            b"objectstore.umask = 0077"]
    bad = [b"directories.tokendir =", b"directories.tokendir = /nonexistent/dir", b"directories.tokendir = /etc/passwd", b"directories.tokendir = " + b"a" * 5000, b"objectstore.backend = db",
           b"objectstore.backend = ", b"objectstore.backend = \xff\xfe", b"log.level = ", b"log.level = NONSENSE", b"log.level = DEBUG", b"slots.removable = maybe", b"slots.removable = true",
           b"slots.mechanisms = ", b"slots.mechanisms = -", b"slots.mechanisms = CKM_RSA_PKCS,,,CKM_NOPE", b"slots.mechanisms = -" + b"CKM_AES_CBC," * 400, b"slots.mechanisms = -ALL", b"slots.mechanisms = CKM_SHA256",
           b"slots.mechanisms = -CKM_MD5,CKM_MD5,CKM_MD5", b"slots.mechanisms = CKM_SHA256,CKM_SHA256,CKM_AES_CBC,CKM_SHA256", b"slots.mechanisms = -CKM_NOPE,CKM_MD5,,CKM_MD5",
           b"library.reset_on_fork = 7", b"objectstore.umask = 99999999999999999999", b"objectstore.umask = -1", b"objectstore.umask = 0x", b"objectstore.umask = 0777", b"=", b"= =", b"a", b"a=", b"=b", b"a.b.c.d = e",
           b"#", b"# comment = x", b"\x00", b"\x00\x00=\x00", b"directories.tokendir\x00 = x", b"[section]", b"key = value = other", b"   ", b"\t=\t", b"directories.tokendir=@TOKENDIR@",
           b"DIRECTORIES.TOKENDIR = @TOKENDIR@", b"directories.tokendir = @TOKENDIR@/", b"directories.tokendir = @TOKENDIR@/../tokens", b"directories.tokendir : @TOKENDIR@", b"x" * 70000, b"k = " + b"v" * 70000,
           b"slots.removable", b"log.level == ERROR", b"objectstore.backend = file\r", b"log.level = ERROR\x0c"]
    for _ in range(rounds):
        c = rng.random()
        if c < 0.1: body = rbs(rng.choice([0, 1, 10, 200, 5000]))
        else:
            lines = list(good) if rng.random() < 0.7 else rng.sample(good, rng.randrange(0, len(good)))
            for _ in range(rng.choice([1, 1, 2, 4])):
                x = rng.choice(bad + [rbs(rng.choice([1, 5, 40]))])
                if rng.random() < 0.5: lines.insert(rng.randrange(0, len(lines) + 1), x)
                elif lines: lines[rng.randrange(len(lines))] = x
            rng.shuffle(lines) if rng.random() < 0.3 else None
            sep = rng.choice([b"\n", b"\n", b"\r\n", b"\n\n"])
            body = sep.join(lines) + (b"" if rng.random() < 0.2 else b"\n")
        h.op(f"conf {body.hex() or '.'}")
        # with and without locking: a C_Initialize that FAILS (damaged configuration) must not leave mutexes of this flavour behind for the next one
        h.op(rng.choice(["init", "init", "initix", "initix", "initos"])); h.op("slots")
        s = h.op(f"open t:{hx(t.label)} 6"); h.op(f"login @{s} 1 {hx(t.user)}")
        h.op(f"create @{s} 0={ul(0)} 1={rng.choice(['00', '01'])} 3={hx(h.new_label())} 11=aabb")
        h.op(f"findinit @{s}"); h.op(f"find @{s} 100"); h.op(f"findfinal @{s}")
        h.op(f"diginit @{s} 250"); h.op(f"digest @{s} 616263 64")
        h.op(f"genkey @{s} 1080 161={ul(16)} 3={hx(h.new_label())}")
        h.op(f"mechlist t:{hx(t.label)}"); h.op(f"mechinfo t:{hx(t.label)} 1082")
        if rng.random() < 0.3: h.op(f"inittoken free {hx(t.so)} {hx('other')}")
        h.op("fini"); h.op("nop mxstat")
    return h.text()


# ---------------------------------------------------------------------------------------------------------
# C15: several processes on one token directory
# ---------------------------------------------------------------------------------------------------------
def multiproc_history(seed, nproc=2, nops=70, late_start=True):
    """op file for vlib/multi.py: lines `P<i> <op>`.  Process 0 initialises the token; every process opens its own R/W session and logs in; then a random
    interleaving (call granularity) of creation, copy, attribute change, destruction, reading and searching of token objects (public and private; data objects and
    keys) and of session objects, which must stay invisible to the other processes.  A process learns another process's object by searching for its label, so that every
    later read / change / destruction by it goes through its own handle.  Optionally one process starts late (C_Initialize while the others already work)."""
    rng = random.Random(seed)
    lines, cnt = [], [0] * nproc
    def op(i, text):
        cnt[i] += 1; lines.append(f"P{i} {text}"); return cnt[i]
    lab, so, user = hx("tokA"), hx("so0pin0"), hx("user0pin")
    U = ul
    rb = lambda n: bytes(rng.randrange(256) for _ in range(n)).hex() or "."
    op(0, "init"); op(0, "slots"); op(0, f"inittoken free {so} {lab}"); op(0, "slots")
    k = op(0, f"open t:{lab} 6"); op(0, f"login @{k} 0 {so}"); op(0, f"initpin @{k} {user}"); op(0, f"close @{k}")
    sess = {}
    def start(i):
        if i != 0: op(i, "init")
        op(i, "slots")
        sess[i] = op(i, f"open t:{lab} 6"); op(i, f"login @{sess[i]} 1 {user}")
    late = rng.randrange(1, nproc) if (late_start and nproc > 1 and rng.random() < 0.5) else None
    for i in range(nproc):
        if i != late: start(i)
    objs = []          # dict(label, alive, token, owner, kind, refs {proc: ref})
    nlab = [0]
    def newlabel():
        nlab[0] += 1; return hx("obj%d" % nlab[0])
    def create(i, token):
        l = newlabel(); priv = rng.choice(["00", "01"]); kind = rng.choice(["data", "data", "aes"])
        if kind == "data": t = f"0={U(0)} 1={'01' if token else '00'} 2={priv} 3={l} 11={rb(rng.choice([0, 5, 40]))} 10={hx('app')}"
        else: t = f"0={U(4)} 100={U(0x1f)} 1={'01' if token else '00'} 2={priv} 3={l} 11={rb(16)} 104=01 105=00 162=01 103=00"
        k = op(i, f"create @{sess[i]} {t}")
        objs.append({"label": l, "alive": True, "token": token, "owner": i, "kind": kind, "refs": {i: f"@{k}"}})
    def learn(i, o):
        s = sess[i]
        op(i, f"findinit @{s} 3={o['label']}"); f = op(i, f"find @{s} 10"); op(i, f"findfinal @{s}")
        if o["alive"] and (o["token"] or o["owner"] == i): o["refs"].setdefault(i, f"@{f}.0")
    for step in range(nops):
        if late is not None and late not in sess and step >= nops // 3: start(late)
        i = rng.choice(list(sess))
        s = sess[i]; r = rng.random()
        known = [o for o in objs if i in o["refs"]]
        others = [o for o in objs if i not in o["refs"]]
        if r < 0.22 or not objs: create(i, rng.random() < 0.8)
        elif r < 0.40 and others: learn(i, rng.choice(others))
        elif r < 0.50: op(i, f"findinit @{s}"); op(i, f"find @{s} 300"); op(i, f"findfinal @{s}")
        elif r < 0.56: op(i, f"findinit @{s} 0={U(rng.choice([0, 4]))} 1=01"); op(i, f"find @{s} 300"); op(i, f"findfinal @{s}")
        elif r < 0.70 and known:
            o = rng.choice(known); op(i, f"getattr @{s} {o['refs'][i]} 3:64 11:64 104:1 105:1 1:1 2:1 102:64")
        elif r < 0.82 and known:
            o = rng.choice(known)
            if o["kind"] == "data": op(i, f"setattr @{s} {o['refs'][i]} {rng.choice(['11=' + rb(rng.choice([1, 8, 33])), '10=' + rb(4)])}")
            else: op(i, f"setattr @{s} {o['refs'][i]} {rng.choice(['104=00', '104=01', '105=01', '105=00', '102=' + rb(6)])}")
        elif r < 0.90 and known:
            o = rng.choice(known); op(i, f"destroy @{s} {o['refs'][i]}"); o["alive"] = False
        elif r < 0.96 and known:
            o = rng.choice(known); l = newlabel(); tok = rng.random() < 0.8
            k = op(i, f"copy @{s} {o['refs'][i]} 3={l} 1={'01' if tok else '00'}")
            objs.append({"label": l, "alive": o["alive"], "token": tok, "owner": i, "kind": o["kind"], "refs": {i: f"@{k}"}})
        else:
            o = rng.choice(objs); learn(i, o)
    # every process ends with a full search and reads everything it knows
    for i in sess:
        s = sess[i]
        op(i, f"findinit @{s}"); op(i, f"find @{s} 300"); op(i, f"findfinal @{s}")
        for o in objs:
            if i in o["refs"]: op(i, f"getattr @{s} {o['refs'][i]} 3:64 11:64 104:1 105:1")
    for i in sess: op(i, "fini")
    return "\n".join(lines) + "\n"


# ---------------------------------------------------------------------------------------------------------
# C18: threads of one process, each with its own session(s)
# ---------------------------------------------------------------------------------------------------------
def thread_history(seed, nthreads=2, nops=8, init="initmx"):
    """op file for `p11drv -t`: `M` lines (main thread: C_Initialize with the mutex callbacks, token set-up; C_Finalize at the end) and `T<i>` lines.  @k counts all op lines.
    Every thread works through sessions of its own: opens and closes them (so that "the last session of the token is closed" happens while others open theirs), logs in
    and out (token-wide), creates / copies / changes / destroys / reads session and token objects, searches (everything, or another thread's object by label), and runs
    digest and encryption operations."""
    rng = random.Random(seed)
    lines = []
    def op(tag, text):
        lines.append(f"{tag} {text}"); return len(lines)
    lab, so, user = hx("tokA"), hx("so0pin0"), hx("user0pin")
    U = ul
    rb = lambda n: bytes(rng.randrange(256) for _ in range(n)).hex() or "."
    op("M", init); op("M", "slots"); op("M", f"inittoken free {so} {lab}"); op("M", "slots")
    k = op("M", f"open t:{lab} 6"); op("M", f"login @{k} 0 {so}"); op("M", f"initpin @{k} {user}"); op("M", f"close @{k}")
    two_tokens = rng.random() < 0.25
    lab2 = hx("tokB")
    if two_tokens:
        op("M", f"inittoken free {so} {lab2}"); op("M", "slots")
        k = op("M", f"open t:{lab2} 6"); op("M", f"login @{k} 0 {so}"); op("M", f"initpin @{k} {user}"); op("M", f"close @{k}")
    nlab = [0]; labels = []
    def newlabel():
        nlab[0] += 1; l = hx("obj%d" % nlab[0]); labels.append(l); return l
    for t in range(nthreads):
        tag = f"T{t}"; mylab = lab2 if (two_tokens and t % 2 == 1) else lab
        s = op(tag, f"open t:{mylab} 6"); mine = []; key = None
        for _ in range(nops):
            r = rng.random()
            if s is None:
                s = op(tag, f"open t:{mylab} {rng.choice([6, 6, 4])}"); mine = [m for m in mine if m[1]]; key = None; continue
            if r < 0.10: op(tag, f"close @{s}"); s = None
            elif r < 0.16: op(tag, f"login @{s} 1 {user}")
            elif r < 0.20: op(tag, f"logout @{s}")
            elif r < 0.38:
                tok = rng.random() < 0.5; l = newlabel()
                k = op(tag, f"create @{s} 0={U(0)} 1={'01' if tok else '00'} 2={rng.choice(['00', '00', '01'])} 3={l} 11={rb(rng.choice([3, 20]))}"); mine.append((f"@{k}", tok))
            elif r < 0.44:
                l = newlabel(); key = op(tag, f"create @{s} 0={U(4)} 100={U(0x1f)} 1=00 2=00 3={l} 11={rb(16)} 104=01 105=01 162=01 103=00"); mine.append((f"@{key}", False))
            elif r < 0.54: op(tag, f"findinit @{s}"); op(tag, f"find @{s} 200"); op(tag, f"findfinal @{s}")
            elif r < 0.62 and labels:
                l = rng.choice(labels); op(tag, f"findinit @{s} 3={l}"); f = op(tag, f"find @{s} 5"); op(tag, f"findfinal @{s}")
                x = rng.random()
                if x < 0.4: op(tag, f"getattr @{s} @{f}.0 3:64 11:64 1:1 2:1")
                elif x < 0.6: op(tag, f"destroy @{s} @{f}.0")
                elif x < 0.8: op(tag, f"setattr @{s} @{f}.0 10={rb(4)}")
            elif r < 0.70 and mine: op(tag, f"getattr @{s} {rng.choice(mine)[0]} 3:64 11:64 1:1 2:1")
            elif r < 0.76 and mine: op(tag, f"setattr @{s} {rng.choice(mine)[0]} 10={rb(4)}")
            elif r < 0.82 and mine:
                m = rng.choice(mine); op(tag, f"destroy @{s} {m[0]}"); mine.remove(m)
            elif r < 0.86 and mine:
                l = newlabel(); tok = rng.random() < 0.5; k = op(tag, f"copy @{s} {rng.choice(mine)[0]} 3={l} 1={'01' if tok else '00'}"); mine.append((f"@{k}", tok))
            elif r < 0.92: op(tag, f"diginit @{s} 250"); op(tag, f"digupd @{s} {rb(10)}"); op(tag, f"digfinal @{s} 64")
            elif r < 0.96 and key: op(tag, f"encinit @{s} 1081 @{key}"); op(tag, f"enc @{s} {rb(16)} 64")
            else: op(tag, f"sinfo @{s}")
            # C_CloseAllSessions is left out on purpose: it closes the sessions the OTHER threads are using, which the property's premise
            # ("threads that concurrently use different sessions") excludes
    # the main thread's closing inventory (the threads have ended): everything on each token, seen as the user
    for l in ([lab, lab2] if two_tokens else [lab]):
        op("M", f"open t:{l} 4"); k = len(lines)
        op("M", f"login @{k} 1 {user}")
        op("M", f"findinit @{k}"); op("M", f"find @{k} 500"); op("M", f"findfinal @{k}")
    op("M", "fini")
    return "\n".join(lines) + "\n"


def thread_scenarios():
    """C18, systematic part: two threads, one call A of thread 0 pre-empted at EVERY mutex callback it makes, thread 1 running its calls B1..Bw to completion inside.
    Returns [(name, ops_text, w)].  The sessions and objects both threads need are set up by the main thread before the threads start."""
    lab, so, user = hx("tokA"), hx("so0pin0"), hx("user0pin")
    U = ul
    out = []
    A = {   # name -> (needs S1 opened in the prologue?, [A call, follow-up calls of thread 0 …])
        "close-last": (False, ["close {S0}"]),
        "close": (True, ["close {S0}"]),
        "create-token": (True, [f"create {{S0}} 0={U(0)} 1=01 2=00 3={hx('newA')} 11=a1a1", "getattr {S0} @{A0} 3:64 11:64"]),
        "create-session": (True, [f"create {{S0}} 0={U(0)} 1=00 2=00 3={hx('newA')} 11=a1a1", "getattr {S0} @{A0} 3:64 11:64"]),
        "create-private": (True, [f"create {{S0}} 0={U(0)} 1=01 2=01 3={hx('newA')} 11=a1a1", "getattr {S0} @{A0} 3:64 11:64"]),
        "destroy": (True, ["destroy {S0} {X}", "probe {S0} {X}"]),
        "setattr": (True, ["setattr {S0} {X} 10=0a0b0c", "getattr {S0} {X} 10:64 11:64"]),
        "logout": (True, ["logout {S0}", "sinfo {S0}"]),
        "login": (True, ["logout {S0}", f"login {{S0}} 1 {user}", "sinfo {S0}"]),
        "find": (True, ["findinit {S0}", "find {S0} 100", "findfinal {S0}"]),
        "open": (True, [f"open t:{lab} 6", "sinfo @{A0}"]),
        "copy": (True, [f"copy {{S0}} {{X}} 3={hx('newA')} 1=01", "getattr {S0} @{A0} 3:64 11:64"]),
        "read-private": (True, ["getattr {S0} {Z} 3:64 11:64"]),          # decrypts with the token's one shared cipher object
        # C06 under threads: the value of a PRIVATE key being stored while another thread logs the token out must not reach the disk in the clear
        "unwrap-private": (True, [f"unwrap {{S0}} 2109 {{W}} blob:{{WB}} 0={U(4)} 100={U(0x1f)} 1=01 2=01 162=01 103=00"]),      # no byte string in the template: the key value is the only thing C_UnwrapKey has to encrypt
        # two searches meet token objects that have NO handle yet in this process (after C_CloseAllSessions): each object must end up with one handle
        "find-fresh": (True, ["findinit {S0}", "find {S0} 100", "findfinal {S0}"]),
        "login-so": (True, ["logout {S0}", f"login {{S0}} 0 {so}", "sinfo {S0}", "logout {S0}"]),         # check-then-act inside Token::loginSO / C_Login; ends logged out (the closing inventory logs in as the user)
    }
    B = {   # name -> (uses S1 from the prologue?, [calls of thread 1 …])
        "open-create-read": (False, [f"open t:{lab} 6", f"create @{{B0}} 0={U(0)} 1=00 2=00 3={hx('newB')} 11=b2b2", "getattr @{B0} @{B1} 3:64 11:64", "findinit @{B0}", "find @{B0} 100", "findfinal @{B0}"]),
        "create-token": (True, [f"create {{S1}} 0={U(0)} 1=01 2=00 3={hx('newB')} 11=b2b2", "findinit {S1}", "find {S1} 100", "findfinal {S1}"]),
        "destroy": (True, ["destroy {S1} {X}", "probe {S1} {X}"]),
        "read-change": (True, ["getattr {S1} {X} 3:64 11:64 10:64", "setattr {S1} {X} 10=0d0e", "getattr {S1} {X} 10:64"]),
        "logout": (True, ["logout {S1}", "sinfo {S1}"]),
        "find-read": (True, ["findinit {S1}", "find {S1} 100", "findfinal {S1}", "getattr {S1} {Z} 3:64 11:64"]),
        "close": (True, ["close {S1}"]),
        "open-close": (False, [f"open t:{lab} 4", "sinfo @{B0}", "close @{B0}"]),
        "session-object": (True, [f"create {{S1}} 0={U(0)} 1=00 2=01 3={hx('newB')} 11=b2b2", "destroy {S1} @{B0}"]),
        "read-private": (True, ["getattr {S1} {Z} 3:64 11:64"]),
        "open-find-close": (False, [f"open t:{lab} 6", "findinit @{B0}", "find @{B0} 100", "findfinal @{B0}", "close @{B0}"]),     # a search registers handles; closing the searching session must not take another session's object along
        "find-only": (True, ["findinit {S1}", "find {S1} 100", "findfinal {S1}"]),
        "login-user": (True, [f"login {{S1}} 1 {user}", "sinfo {S1}"]),
        "login-so": (True, [f"login {{S1}} 0 {so}", "sinfo {S1}", "logout {S1}"]),
    }
    for an, (needS1, acalls) in A.items():
        for bn, (usesS1, bcalls) in B.items():
            if usesS1 and not needS1: continue
            if bn in ("login-user", "login-so") and an not in ("login", "login-so", "logout", "open", "close"): continue
            if an == "unwrap-private" and bn not in ("logout", "close", "find-read"): continue
            if (an == "find-fresh") != (bn == "find-only"): continue
            lines = []
            def op(tag, text):
                lines.append(f"{tag} {text}"); return len(lines)
            op("M", "initmx"); op("M", "slots"); op("M", f"inittoken free {so} {lab}"); op("M", "slots")
            k = op("M", f"open t:{lab} 6"); op("M", f"login @{k} 0 {so}"); op("M", f"initpin @{k} {user}"); op("M", f"close @{k}")
            S0 = "@%d" % op("M", f"open t:{lab} 6"); op("M", f"login {S0} 1 {user}")
            X = "@%d" % op("M", f"create {S0} 0={U(0)} 1=01 2=00 3={hx('objX')} 11=1111 10=00")
            op("M", f"create {S0} 0={U(0)} 1=00 2=00 3={hx('objY')} 11=2222")
            Z = "@%d" % op("M", f"create {S0} 0={U(0)} 1=01 2=01 3={hx('objZ')} 11=3333")
            W = WB = ""
            if an == "unwrap-private":
                # a blob made by the library itself from a SESSION key (nothing of it is on disk), whose value is announced to the judge (`nop secret`)
                W = "@%d" % op("M", f"create {S0} 0={U(4)} 100={U(0x1f)} 1=00 2=00 3={hx('kek')} 11={'a7' * 32} 106=01 107=01")
                T = "@%d" % op("M", f"create {S0} 0={U(4)} 100={U(0x1f)} 1=00 2=00 3={hx('tmp')} 11=c0ffee11d00dfeed0123456789abcdef8badf00ddeadbeef5a5aa5a5c3c33c3c 162=01 103=00")
                WB = "@%d" % op("M", f"wrap {S0} 2109 {W} {T} 600")
                op("M", f"destroy {S0} {T}"); op("M", "nop secret c0ffee11d00dfeed0123456789abcdef8badf00ddeadbeef5a5aa5a5c3c33c3c")
            S1 = None
            if needS1 and usesS1: S1 = "@%d" % op("M", f"open t:{lab} 6")
            elif needS1: op("M", f"open t:{lab} 4")          # another session exists, so that A's session is not the last one
            if an == "find-fresh":
                # every handle of the token is purged; the two threads work through new sessions
                op("M", f"closeall t:{lab}")
                S0 = "@%d" % op("M", f"open t:{lab} 6"); op("M", f"login {S0} 1 {user}")
                S1 = "@%d" % op("M", f"open t:{lab} 6")
            a0 = len(lines) + (2 if an in ("login", "login-so") else 1)
            for c in acalls: op("T0", c.replace("{S0}", S0).replace("{X}", X).replace("{Z}", Z).replace("{A0}", str(a0)).replace("{WB}", WB).replace("{W}", W))
            b0 = len(lines) + 1
            for c in bcalls: op("T1", c.replace("{S1}", S1 or "").replace("{X}", X).replace("{Z}", Z).replace("{B0}", str(b0)).replace("{B1}", str(b0 + 1)))
            k = op("M", f"open t:{lab} 4"); op("M", f"login @{k} 1 {user}")
            op("M", f"findinit @{k}"); op("M", f"find @{k} 500"); op("M", f"findfinal @{k}")
            op("M", f"getattr @{k} {X} 3:64 10:64 11:64")
            op("M", "fini")
            for w in sorted({1, len(bcalls)}):
                out.append((f"{an}/{bn}/w{w}", "\n".join(lines) + "\n", w))
    return out


def overlap_scenarios():
    """C15 at file-operation granularity: [(name, prefix ops, A call of process 0, [B calls of process 1], suffix ops)].  Both processes have the token open, a session each,
    are logged in, and hold their own handles for the token objects X (public data), Z (private data) and K (AES key).  The coordinator arms `pauseat k` before A."""
    lab, so, user = hx("tokA"), hx("so0pin0"), hx("user0pin")
    U = ul
    out = []
    A = {
        "setattr": "setattr {S0} {X0} 10=0a0b0c",
        "setattr-private": "setattr {S0} {Z0} 10=0a0b0c",
        "setattr-key": "setattr {S0} {K0} 104=00",
        "destroy": "destroy {S0} {X0}",
        "create": f"create {{S0}} 0={U(0)} 1=01 2=00 3={hx('newA')} 11=a1a1 10=00",
        "create-private": f"create {{S0}} 0={U(0)} 1=01 2=01 3={hx('newA')} 11=a1a1 10=00",
        "copy": f"copy {{S0}} {{X0}} 3={hx('newA')} 1=01",
        "setattr-big": "setattr {S0} {G0} 10=0a0b0c",          # a 12 kB object: its rewrite reaches the disk in several pieces
        "destroy-big": "destroy {S0} {G0}",
    }
    B = {
        "read": ["getattr {S1} {X1} 3:64 10:64 11:64"],
        "read-big": ["getattr {S1} {G1} 3:64 10:64 11:13000"],
        "change-big": ["setattr {S1} {G1} 12=0d0e", "getattr {S1} {G1} 3:64 10:64 12:64 11:13000"],
        "read-private": ["getattr {S1} {Z1} 3:64 10:64 11:64"],
        "read-key": ["getattr {S1} {K1} 3:64 104:1 105:1"],
        "find": ["findinit {S1}", "find {S1} 100", "findfinal {S1}"],
        "change": ["setattr {S1} {X1} 12=0d0e"],
        "destroy": ["destroy {S1} {X1}"],
        "create": [f"create {{S1}} 0={U(0)} 1=01 2=00 3={hx('newB')} 11=b2b2 10=00"],
        "find-new": [f"findinit {{S1}} 3={hx('newA')}", "find {S1} 5", "findfinal {S1}", "getattr {S1} @{F}.0 3:64 11:64"],
    }
    for an, a in A.items():
        for bn, bs in B.items():
            if ("big" in an) != ("big" in bn) and not (("big" in an) and bn in ("find", "create")): continue
            cnt = [0, 0]; lines = []
            def op(i, text):
                cnt[i] += 1; lines.append(f"P{i} {text}"); return cnt[i]
            op(0, "init"); op(0, "slots"); op(0, f"inittoken free {so} {lab}"); op(0, "slots")
            k = op(0, f"open t:{lab} 6"); op(0, f"login @{k} 0 {so}"); op(0, f"initpin @{k} {user}"); op(0, f"close @{k}")
            S0 = "@%d" % op(0, f"open t:{lab} 6"); op(0, f"login {S0} 1 {user}")
            X0 = "@%d" % op(0, f"create {S0} 0={U(0)} 1=01 2=00 3={hx('objX')} 11=1111 10=00 12=00")
            Z0 = "@%d" % op(0, f"create {S0} 0={U(0)} 1=01 2=01 3={hx('objZ')} 11=3333 10=00")
            K0 = "@%d" % op(0, f"create {S0} 0={U(4)} 100={U(0x1f)} 1=01 2=01 3={hx('keyK')} 11={'5a' * 16} 104=01 105=01 162=01 103=00")
            G0 = "@%d" % op(0, f"create {S0} 0={U(0)} 1=01 2=00 3={hx('objG')} 11={'c7' * 12000} 10=00 12=00")
            op(1, "init"); op(1, "slots")
            S1 = "@%d" % op(1, f"open t:{lab} 6"); op(1, f"login {S1} 1 {user}")
            refs = {}
            for nm, l in (("X1", "objX"), ("Z1", "objZ"), ("K1", "keyK"), ("G1", "objG")):
                op(1, f"findinit {S1} 3={hx(l)}"); f = op(1, f"find {S1} 5"); op(1, f"findfinal {S1}"); refs[nm] = f"@{f}.0"
            prefix = list(lines); lines.clear()
            fmt = lambda t, F=0: t.replace("{S0}", S0).replace("{X0}", X0).replace("{Z0}", Z0).replace("{K0}", K0).replace("{S1}", S1).replace("{X1}", refs["X1"]).replace("{Z1}", refs["Z1"]).replace("{K1}", refs["K1"]).replace("{G0}", G0).replace("{G1}", refs["G1"]).replace("{F}", str(F))
            a_line = "P0 " + fmt(a); cnt[0] += 1
            b_lines = []
            f_idx = cnt[1] + 2        # the `find` of "find-new" is the second call of B
            for t in bs:
                cnt[1] += 1; b_lines.append("P1 " + fmt(t, f_idx))
            # afterwards: both read X and everything
            op(0, f"getattr {S0} {X0} 3:64 10:64 11:64 12:64"); op(1, f"getattr {S1} {refs['X1']} 3:64 10:64 11:64 12:64")
            op(0, f"findinit {S0}"); op(0, f"find {S0} 100"); op(0, f"findfinal {S0}")
            op(1, f"findinit {S1}"); op(1, f"find {S1} 100"); op(1, f"findfinal {S1}")
            op(0, "fini"); op(1, "fini")
            out.append((f"{an}/{bn}", "\n".join(prefix) + "\n", a_line, b_lines, "\n".join(lines) + "\n"))
    return out


def long_template_history(seed):
    """C17: every call that takes a template, with templates of 28..200 entries (the library copies templates into fixed-size arrays of 32 attributes in several places)."""
    rng = random.Random(seed)
    h = OpsGen(rng); h.prologue(1); t = h.toks[0]
    k = h.open(t, True); h.login(k, t, 'user')
    U = ul; R = RSA1024
    rb = lambda n: bytes(rng.randrange(256) for _ in range(n)).hex() or "."
    aes = h.op(f"create @{k} 0={U(4)} 100={U(0x1f)} 3={hx(h.new_label())} 11={rb(16)} 104=01 105=01 106=01 107=01 10c=01 162=01 103=00"); h.minted += 1
    gen_ = h.op(f"create @{k} 0={U(4)} 100={U(0x10)} 3={hx(h.new_label())} 11={rb(32)} 10c=01 162=01 103=00"); h.minted += 1
    d = rng.randrange(1, 2**255)
    ecp = h.op(f"create @{k} 0={U(3)} 100={U(3)} 3={hx(h.new_label())} 180={P256} 11={d.to_bytes(32, 'big').hex()} 10c=01 2=01 103=00 162=01"); h.minted += 1
    x = rng.randrange(2, 2**160)
    dhp = h.op(f"create @{k} 0={U(3)} 100={U(2)} 3={hx(h.new_label())} 130={OAKLEY2.to_bytes(128, 'big').hex()} 132=02 11={x.to_bytes(20, 'big').hex()} 10c=01 2=01 103=00 162=01"); h.minted += 1
    w = h.op(f"wrap @{k} 2109 @{aes} @{gen_} 700")
    Q = p256_mul(7, P256_G); pt = "04" + Q[0].to_bytes(32, "big").hex() + Q[1].to_bytes(32, "big").hex()
    for n in (27, 28, 29, 30, 31, 32, 33, 64, 200):
        filler = " ".join(rng.choice([f"3={rb(1)}", f"102={rb(1)}", "104=01", "105=01"]) for _ in range(n))
        lab = lambda: hx(h.new_label())
        h.op(f"create @{k} 0={U(0)} 11={rb(4)} {' '.join('3=' + rb(1) for _ in range(n))}")
        h.op(f"create @{k} 0={U(4)} 100={U(0x1f)} 11={rb(16)} {filler}")
        for mech, extra in (("1080", f"161={U(16)}"), ("350", f"161={U(16)}"), ("130", ""), ("131", ""), ("120", "")):
            h.op(f"genkey @{k} {mech} {extra} {filler}")
        h.op(f"genpair @{k} 0 121={U(1024)} 122=010001 {filler} / {filler}")
        h.op(f"genpair @{k} 1040 180={P256} {filler} / {filler}")
        h.op(f"genpair @{k} 1055 180={ED25519_OID} {filler} / {filler}")
        h.op(f"genpair @{k} 20 130={OAKLEY2.to_bytes(128, 'big').hex()} 132=02 {filler} / {filler}")
        h.op(f"unwrap @{k} 2109 @{aes} blob:@{w} 0={U(4)} 100={U(0x10)} {filler}")
        h.op(f"derive @{k} 1104:str({rb(16)}) @{aes} 0={U(4)} 100={U(0x10)} 161={U(16)} {filler}")
        h.op(f"derive @{k} 1050:ecdh(1,{pt}) @{ecp} 0={U(4)} 100={U(0x10)} 161={U(16)} {filler}")
        h.op(f"derive @{k} 21:{pow(2, 77, OAKLEY2).to_bytes(128, 'big').hex()} @{dhp} 0={U(4)} 100={U(0x10)} 161={U(16)} {filler}")
        h.op(f"derive @{k} 360:obj(@{gen_}) @{gen_} {filler}")
        h.op(f"copy @{k} @{gen_} {filler}")
        h.op(f"setattr @{k} @{gen_} {filler}")
        h.op(f"findinit @{k} {filler}"); h.op(f"find @{k} 10"); h.op(f"findfinal @{k}")
    h.op("fini")
    return h.text()
