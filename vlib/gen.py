"""Generators of operation files (histories).  Every random choice comes from one random.Random(seed);
the op file is the replay.  The generators keep a light shadow of what they believe is open / logged in
so that most operations are valid; they do not predict results (the Lean model does)."""
import random

def hx(b):
    if isinstance(b, str): b = b.encode()
    return b.hex() if b else "."

def ul(n): return int(n).to_bytes(8, "little").hex()

CKA = dict(CLASS=0x0, TOKEN=0x1, PRIVATE=0x2, LABEL=0x3, APPLICATION=0x10, VALUE=0x11, OBJECT_ID=0x12, ID=0x102,
           KEY_TYPE=0x100, SENSITIVE=0x103, ENCRYPT=0x104, DECRYPT=0x105, WRAP=0x106, UNWRAP=0x107, SIGN=0x108,
           VERIFY=0x10A, DERIVE=0x10C, VALUE_LEN=0x161, EXTRACTABLE=0x162, MODIFIABLE=0x170, COPYABLE=0x171,
           DESTROYABLE=0x172, TRUSTED=0x86, WRAP_WITH_TRUSTED=0x210, ALWAYS_AUTHENTICATE=0x202)


class Tok:
    def __init__(self, label, so, user):
        self.label, self.so, self.user = label, so, user
        self.user_set = False
        self.login = None          # None | 'so' | 'user'   (belief)


class History:
    """builder of an op file with a shadow of sessions / objects"""
    def __init__(self, rng):
        self.rng = rng
        self.lines = []
        self.sessions = []         # (op index, tok, rw)
        self.objects = []          # (op index, tok, onToken, private, label)
        self.toks = []
        self.minted = 0            # upper bound on the number of handles issued since init
        self.nlabel = 0

    def op(self, s):
        self.lines.append(s)
        return len(self.lines)     # 1-based op index == @k

    def text(self): return "\n".join(self.lines) + "\n"

    # ---- building blocks ----
    def prologue(self, ntok=2, userpin=True):
        self.op("init"); self.op("slots")
        for i in range(ntok):
            t = Tok(f"tok{chr(65+i)}", f"so{i}pin{i}", f"user{i}pin")
            self.op(f"inittoken free {hx(t.so)} {hx(t.label)}"); self.op("slots")
            self.toks.append(t)
        if userpin:
            for t in self.toks:
                k = self.op(f"open t:{hx(t.label)} 6"); self.minted += 1
                self.op(f"login @{k} 0 {hx(t.so)}"); self.op(f"initpin @{k} {hx(t.user)}"); t.user_set = True
                self.op(f"close @{k}")

    def open(self, t, rw):
        k = self.op(f"open t:{hx(t.label)} {6 if rw else 4}"); self.minted += 1
        if not (not rw and t.login == 'so'):
            self.sessions.append((k, t, rw))
        return k

    def close(self, k):
        self.op(f"close @{k}")
        t = [s for s in self.sessions if s[0] == k]
        self.sessions = [s for s in self.sessions if s[0] != k]
        self.objects = [o for o in self.objects if not (not o[2] and o[5] == k)]
        if t and not any(s[1] is t[0][1] for s in self.sessions):
            t[0][1].login = None
            self.objects = [o for o in self.objects if not (o[1] is t[0][1] and not o[2])]

    def closeall(self, t):
        self.op(f"closeall t:{hx(t.label)}")
        self.sessions = [s for s in self.sessions if s[1] is not t]
        self.objects = [o for o in self.objects if not (o[1] is t and not o[2])]
        t.login = None

    def login(self, k, t, who, right=True):
        pin = (t.so if who == 'so' else t.user)
        if not right:
            pin = self.rng.choice([pin + "x", pin[:-1], "wrong", (t.user if who == 'so' else t.so), ""])
        self.op(f"login @{k} {0 if who == 'so' else 1} {hx(pin)}")
        if right and t.login is None and not (who == 'so' and any(s[1] is t and not s[2] for s in self.sessions)) and (who == 'so' or t.user_set):
            t.login = who

    def logout(self, k, t):
        self.op(f"logout @{k}")
        t.login = None
        self.objects = [o for o in self.objects if not (o[1] is t and not o[2] and o[3])]

    def new_label(self):
        self.nlabel += 1
        return f"obj{self.nlabel}"

    def create_data(self, k, t, on_token, private, extra=""):
        lab = self.new_label()
        i = self.op(f"create @{k} 0={ul(0)} 1={'01' if on_token else '00'} 2={'01' if private else '00'} 3={hx(lab)}{extra}")
        self.minted += 1
        self.objects.append((i, t, on_token, private, lab, k))
        return i

    def probes(self, extra=2):
        """C11: ask about every handle value that can have been issued so far (and a few more)"""
        ks = [s[0] for s in self.sessions][-3:]
        for v in range(1, self.minted + 1 + extra):
            self.op(f"sinfo {v}")
            for k in ks:
                self.op(f"probe @{k} {v}")


def spine_history(seed, nops=40, ntok=2, probe_every=True):
    rng = random.Random(seed)
    h = History(rng)
    h.prologue(ntok)
    for _ in range(nops):
        r = rng.random()
        t = rng.choice(h.toks)
        if r < 0.16 or not h.sessions:
            h.open(t, rng.random() < 0.6)
        elif r < 0.24:
            k = rng.choice(h.sessions)[0] if rng.random() < 0.9 else rng.randrange(1, len(h.lines) + 1)
            h.close(k)
        elif r < 0.28:
            h.closeall(t)
        elif r < 0.42:
            k, t, rw = rng.choice(h.sessions)
            h.login(k, t, rng.choice(['user', 'user', 'so']), rng.random() < 0.8)
        elif r < 0.50:
            k, t, rw = rng.choice(h.sessions)
            h.logout(k, t)
        elif r < 0.72:
            k, t, rw = rng.choice(h.sessions)
            h.create_data(k, t, rng.random() < 0.5, rng.random() < 0.5)
        elif r < 0.80 and h.objects:
            k, t, rw = rng.choice(h.sessions)
            o = rng.choice(h.objects)
            h.op(f"destroy @{k} @{o[0]}")
            if rng.random() < 0.8: h.objects = [x for x in h.objects if x[0] != o[0]]   # belief only
        elif r < 0.95:
            k, t, rw = rng.choice(h.sessions)
            c = rng.random()
            if c < 0.4: tpl = ""
            elif c < 0.6 and h.objects: tpl = f" 3={hx(rng.choice(h.objects)[4])}"
            elif c < 0.8: tpl = f" 1={rng.choice(['00', '01'])}"
            else: tpl = f" 2={rng.choice(['00', '01'])}"
            h.op(f"findinit @{k}{tpl}")
            h.minted += sum(1 for o in h.objects if o[1] is t)
            for _ in range(rng.randrange(0, 4)):
                h.op(f"find @{k} {rng.choice([0, 1, 1, 2, 3, 10])}")
            if rng.random() < 0.85: h.op(f"findfinal @{k}")
        else:
            h.op("slots")
        if probe_every: h.probes()
    h.op("fini")
    return h.text()


# ---------------------------------------------------------------------------------------------------------
# attribute-engine histories: objects of every class built from the generated class table
# ---------------------------------------------------------------------------------------------------------
import json, os

def load_tables():
    from . import core
    return json.load(open(os.path.join(core.BUILD, "tables.json")))

CK = {n: 1 << (n - 1) for n in range(1, 25)}
HISTORY_ATTRS = (0x163, 0x164, 0x165, 0x166)          # LOCAL NEVER_EXTRACTABLE ALWAYS_SENSITIVE KEY_GEN_MECHANISM
SECRET_ATTRS = (0x11, 0x123, 0x124, 0x125, 0x126, 0x127, 0x128)


def attr_value(rng, a, valid=True, cname=""):
    """a template value (hex) for attribute descriptor `a`"""
    ty, kind, size = a["type"], a["dkind"], a["size"]
    if ty == 0x11 and cname in ("SECRET_DES2", "SECRET_DES3", "SECRET_AES") and valid:
        n = {"SECRET_DES2": 16, "SECRET_DES3": 24, "SECRET_AES": rng.choice([16, 24, 32])}[cname]
        return bytes(rng.randrange(256) for _ in range(n)).hex()
    if kind == "bool":
        v = rng.choice(["00", "01"])
        return v if valid else rng.choice(["0001", ".", "0000000000000000"])
    if kind == "ulong":
        v = ul(rng.choice([0, 1, 2, 3, 16, 32, 0x1000]))
        return v if valid else rng.choice(["01", ".", v + "00"])
    if kind == "mechs":
        return "".join(ul(m) for m in rng.sample([0x1, 0x1081, 0x1082, 0x1087, 0x251, 0x40, 0x1041], rng.randrange(1, 4))) if valid else rng.choice([".", "0102"])
    if kind == "amap":
        inner = ";".join(rng.sample(["162=01", "103=00", "104=01", "0=" + ul(4), "3=" + hx("inner"), "100=" + ul(0x1f)], rng.randrange(0, 4)))
        return "{" + inner + "}"
    if ty in (0x110, 0x111):                      # dates
        return hx(rng.choice(["20260101", "19991231"])) if valid else hx("2026")
    n = rng.choice([0, 1, 3, 8, 16, 16, 20, 32, 33, 100]) if valid else 5
    return bytes(rng.randrange(256) for _ in range(n)).hex() or "."


class ObjGen(History):
    def __init__(self, rng, tables):
        super().__init__(rng)
        self.classes = [c for c in tables["classes"] if c["name"] != "SECRET_DES"]   # single DES needs OpenSSL's legacy provider (absent here)
        self.objs2 = []        # (op index, class desc, token, on_token, private)

    def base_template(self, c, on_token, private, label, give_private=True):
        t = [f"0={ul(c['cls'])}"]
        if c["cls"] in (2, 3, 4, 6): t.append(f"100={ul(c['keyType'])}")
        if c["cls"] == 1: t.append(f"80={ul(c['certType'])}")
        t.append(f"1={'01' if on_token else '00'}")
        if give_private: t.append(f"2={'01' if private else '00'}")
        t.append(f"3={hx(label)}")
        return t

    def create_obj(self, k, tok, c=None, on_token=None, private=None, defect=None):
        rng = self.rng
        c = c or rng.choice(self.classes)
        on_token = rng.random() < 0.5 if on_token is None else on_token
        private = rng.random() < 0.5 if private is None else private
        lab = self.new_label()
        t = self.base_template(c, on_token, private, lab)
        skip = {0x0, 0x1, 0x2, 0x3, 0x100, 0x80}
        for a in c["attrs"]:
            if a["type"] in skip: continue
            mandatory = a["checks"] & CK[1]
            forbidden = a["checks"] & CK[2]
            if a["type"] == 0x90 and rng.random() < 0.9: continue      # CKA_CHECK_VALUE: computed by the token
            if mandatory or (not forbidden and rng.random() < 0.25):
                t.append(f"{a['type']:x}={attr_value(rng, a, True, c['name'])}")
        body = t[4:] if c["cls"] != 0 else t[3:]
        if defect == "unknown":
            t.insert(rng.randrange(3, len(t) + 1), f"{rng.choice([0x9999, 0x12345, 0x80000001]):x}={hx('zz')}")
        elif defect == "wrongsize":
            fixed = [a for a in c["attrs"] if a["size"] >= 0 and a["type"] not in skip and not a["checks"] & CK[2]]
            if fixed:
                a = rng.choice(fixed)
                t = [x for x in t if not x.startswith(f"{a['type']:x}=")]
                t.insert(rng.randrange(3, len(t) + 1), f"{a['type']:x}={attr_value(rng, a, valid=False)}")
        elif defect == "forbidden":
            fb = [a for a in c["attrs"] if a["checks"] & CK[2]]
            if fb:
                a = rng.choice(fb); t.insert(rng.randrange(3, len(t) + 1), f"{a['type']:x}={attr_value(rng, a)}")
        elif defect == "missing":
            mand = [a for a in c["attrs"] if a["checks"] & CK[1] and a["type"] not in (0x0,)]
            if mand:
                a = rng.choice(mand); t = [x for x in t if not x.startswith(f"{a['type']:x}=")]
        elif defect == "inconsistent":
            t.append(f"0={ul((c['cls'] + 1) % 5)}")
        elif defect == "toomany":
            t += [f"3={hx('l%d' % i)}" for i in range(33)]
        elif defect == "foreign":                # an attribute of another class
            other = rng.choice(self.classes)
            own = {a["type"] for a in c["attrs"]}
            cand = [a for a in other["attrs"] if a["type"] not in own]
            if cand:
                a = rng.choice(cand); t.insert(rng.randrange(3, len(t) + 1), f"{a['type']:x}={attr_value(rng, a)}")
        rng.random() < 0.3 and rng.shuffle(body)
        i = self.op(f"create @{k} " + " ".join(t))
        self.minted += 1
        if defect is None:
            self.objs2.append((i, c, tok, on_token, private))
            self.objects.append((i, tok, on_token, private, lab, k))
        return i

    def getattrs(self, k, oi, c):
        rng = self.rng
        types = [a["type"] for a in c["attrs"] if a["dkind"] != "amap"]
        rng.shuffle(types)
        if rng.random() < 0.2: types.insert(rng.randrange(len(types) + 1), rng.choice([0x9999, 0x120, 0x161, 0x11]))
        for j in range(0, len(types), 6):
            req = []
            for ty in types[j:j + 6]:
                cap = rng.choice(["n", "0", "1", "7", "8", "16", "64", "300", "300", "300"])
                req.append(f"{ty:x}:{cap}")
            self.op(f"getattr @{k} @{oi} " + " ".join(req))

    def setattrs(self, k, oi, c):
        rng = self.rng
        n = rng.choice([1, 1, 2, 3])
        cand = [a for a in c["attrs"] if a["type"] not in (0x0,)]
        t = []
        for a in rng.sample(cand, min(n, len(cand))):
            valid = rng.random() < 0.85
            t.append(f"{a['type']:x}={attr_value(rng, a, valid, c['name'])}")
        if rng.random() < 0.1: t.append(f"9999={hx('q')}")
        self.op(f"setattr @{k} @{oi} " + " ".join(t))

    def copy(self, k, oi, c, tok):
        rng = self.rng
        t = []
        lab = self.new_label()
        if rng.random() < 0.9: t.append(f"3={hx(lab)}")
        if rng.random() < 0.5: t.append(f"1={rng.choice(['00', '01'])}")
        if rng.random() < 0.5: t.append(f"2={rng.choice(['00', '01'])}")
        for a in rng.sample(c["attrs"], rng.choice([0, 0, 1, 2])):
            if a["type"] in (0, 1, 2, 3): continue
            t.append(f"{a['type']:x}={attr_value(rng, a, rng.random() < 0.9, c['name'])}")
        i = self.op(f"copy @{k} @{oi} " + " ".join(t))
        self.minted += 1
        self.objs2.append((i, c, tok, True, True))      # belief only
        return i


def same(h, t):
    """objects created through sessions of token t (the property speaks about a token's own sessions and handles)"""
    return [o for o in h.objs2 if o[2] is t]


def object_history(seed, tables, nops=40, ntok=2):
    rng = random.Random(seed)
    h = ObjGen(rng, tables)
    h.prologue(ntok)
    for t in h.toks:                                   # a user session and a public session per token
        k = h.open(t, True); h.login(k, t, 'user'); h.open(t, rng.random() < 0.5)
    for _ in range(nops):
        r = rng.random()
        k, t, rw = rng.choice(h.sessions)
        if r < 0.30 or not same(h, t):
            d = None if rng.random() < 0.7 else rng.choice(["unknown", "wrongsize", "forbidden", "missing", "inconsistent", "toomany", "foreign"])
            h.create_obj(k, t, defect=d)
        elif r < 0.55:
            oi, c, tok, _, _ = rng.choice(same(h, t)); h.getattrs(k, oi, c)
        elif r < 0.72:
            oi, c, tok, _, _ = rng.choice(same(h, t)); h.setattrs(k, oi, c)
        elif r < 0.82:
            oi, c, tok, _, _ = rng.choice(same(h, t)); h.copy(k, oi, c, tok)
        elif r < 0.86:
            oi, c, tok, _, _ = rng.choice(same(h, t)); h.op(f"destroy @{k} @{oi}")
        elif r < 0.92:
            oi, c, tok, _, _ = rng.choice(same(h, t))
            a = rng.choice(c["attrs"])
            tpl = rng.choice(["", f" {a['type']:x}={attr_value(rng, a)}", f" 0={ul(c['cls'])}", f" 0={ul(c['cls'])} 1=01"])
            h.op(f"findinit @{k}{tpl}"); h.minted += len(h.objs2)
            h.op(f"find @{k} {rng.choice([1, 3, 100])}"); h.op(f"find @{k} 100"); h.op(f"findfinal @{k}")
        elif r < 0.95:
            h.login(k, t, rng.choice(['user', 'so']), rng.random() < 0.9)
        elif r < 0.98:
            h.logout(k, t)
        else:
            h.open(t, rng.random() < 0.5)
    h.op("fini")
    return h.text()


def flag_matrix(tables, seed=1):
    """EXHAUSTIVE small scope for the protection flags: every secret/private key class x (SENSITIVE, EXTRACTABLE, WRAP_WITH_TRUSTED) in {0,1}^3
    at creation, then: read every secret attribute with NULL / 0 / short / exact / large buffers (alone and mixed), try to weaken each flag by
    C_SetAttributeValue and by C_CopyObject, strengthen each flag, re-read the flags of the object and of the copies."""
    rng = random.Random(seed)
    h = ObjGen(rng, tables)
    h.prologue(1)
    t = h.toks[0]
    k = h.open(t, True); h.login(k, t, 'user')
    SECRET = (0x11, 0x123, 0x124, 0x125, 0x126, 0x127, 0x128)
    for c in h.classes:
        if c["cls"] not in (3, 4): continue
        has = {a["type"]: a for a in c["attrs"]}
        for sens in (0, 1):
            for extr in (0, 1):
                for wwt in (0, 1):
                    lab = h.new_label()
                    tpl = h.base_template(c, False, True, lab)
                    for a in c["attrs"]:
                        if a["checks"] & CK[1] and a["type"] not in (0, 0x100):
                            tpl.append(f"{a['type']:x}={attr_value(rng, a, True, c['name'])}")
                    for ty in SECRET:
                        if ty in has and not any(x.startswith(f"{ty:x}=") for x in tpl):
                            tpl.append(f"{ty:x}={bytes(rng.randrange(1, 256) for _ in range(16)).hex()}")
                    tpl += [f"103={sens:02x}", f"162={extr:02x}", f"210={wwt:02x}"]
                    o = h.op(f"create @{k} " + " ".join(tpl)); h.minted += 1
                    sec = [ty for ty in SECRET if ty in has]
                    for ty in sec:
                        h.op(f"getattr @{k} @{o} {ty:x}:n {ty:x}:0 {ty:x}:15 {ty:x}:16 {ty:x}:64")
                    h.op(f"getattr @{k} @{o} 3:64 " + " ".join(f"{ty:x}:64" for ty in sec) + " 103:1 162:1 210:1 163:1 164:1 165:1")
                    # weaken / strengthen by C_SetAttributeValue
                    for ty, weak in ((0x103, 0), (0x162, 1), (0x210, 0)):
                        h.op(f"setattr @{k} @{o} {ty:x}={weak:02x}")
                        h.op(f"setattr @{k} @{o} 3={hx(lab)} {ty:x}={weak:02x}")
                    h.op(f"getattr @{k} @{o} 103:1 162:1 210:1 164:1 165:1")
                    # … by C_CopyObject
                    for ty, weak in ((0x103, 0), (0x162, 1), (0x210, 0)):
                        cp = h.op(f"copy @{k} @{o} 3={hx(h.new_label())} {ty:x}={weak:02x}"); h.minted += 1
                        h.op(f"getattr @{k} @{cp} 103:1 162:1 210:1 164:1 165:1 " + " ".join(f"{ty2:x}:64" for ty2 in sec[:2]))
                    cp = h.op(f"copy @{k} @{o} 3={hx(h.new_label())} 103=01 162=00 210=01"); h.minted += 1
                    h.op(f"getattr @{k} @{cp} 103:1 162:1 210:1 164:1 165:1 " + " ".join(f"{ty2:x}:64" for ty2 in sec[:2]))
                    h.op(f"setattr @{k} @{o} 103=01"); h.op(f"setattr @{k} @{o} 162=00"); h.op(f"setattr @{k} @{o} 210=01")
                    h.op(f"setattr @{k} @{o} 162=01"); h.op(f"setattr @{k} @{o} 103=00"); h.op(f"setattr @{k} @{o} 210=00")
                    h.op(f"getattr @{k} @{o} 103:1 162:1 210:1 164:1 165:1 " + " ".join(f"{ty2:x}:64" for ty2 in sec))
                    h.op(f"destroy @{k} @{o}")
    h.op("fini")
    return h.text()
