"""C15 at file-operation granularity: one call A of process 0 is PAUSED at its k-th libc file operation (the harness's interposition, `pauseat k`), other processes run calls
meanwhile (they answer, or block on A's fcntl lock until A goes on), then A is resumed.  The run is judged by linearizability against the multi-process Lean model: the calls that
overlapped A may be ordered before or after it (any order respecting real-time precedence), and some such order must explain every result.

Op file: `P<i> <op>` lines plus `P<i> pauseat <k>` (arms the NEXT op of that process) and `P<i> resume`."""
import os, subprocess, select, time, re
from . import core, threads

TAG = re.compile(r"^P(\d+) (.*)$")
BLOCK_WAIT = 0.25          # seconds without an answer, while another process is paused, after which a call counts as blocked on that process's lock


class Proc:
    def __init__(self, i, variant, env, workdir):
        self.i = i
        self.err = open(os.path.join(workdir, "stderr.%d" % i), "wb")
        self.p = subprocess.Popen([core.harness_path(variant, "p11drv"), "-i"], stdin=subprocess.PIPE, stdout=subprocess.PIPE, stderr=self.err, env=env, bufsize=0)
        self.buf = bytearray(); self.state = "idle"; self.call = None

    def send(self, text):
        self.p.stdin.write((text + "\n").encode("latin1")); self.p.stdin.flush()

    def in_lock_wait(self):
        """is the process sleeping inside fcntl (F_SETLKW: waiting for another process's file lock)?  /proc/<pid>/syscall starts with the system call number (x86-64: 72)"""
        try: return open("/proc/%d/syscall" % self.p.pid).read().split()[0] == "72"
        except (OSError, IndexError): return False

    def read_or_blocked(self, timeout):
        """like read_until, but returns ("blocked", None) as soon as the process is seen waiting for a file lock on four polls in a row — a fact about the process, not a guess
        from elapsed time, so that the schedule (and the replay) is the same on a loaded machine"""
        t_end = time.time() + timeout; streak = 0
        while time.time() < t_end:
            kind, val = self.read_until(0.004)
            if kind != "timeout": return kind, val
            streak = streak + 1 if self.in_lock_wait() else 0
            if streak >= 4: return "blocked", None
        return "timeout", None

    def read_until(self, timeout):
        """-> ("res", line) | ("paused", None) | ("timeout", None) | ("dead", rc); lines before the answer (the op echo) are skipped"""
        t_end = time.time() + timeout
        while True:
            nl = self.buf.find(b"\n")
            if nl < 0:
                left = t_end - time.time()
                if left <= 0: return "timeout", None
                r, _, _ = select.select([self.p.stdout], [], [], left)
                if not r: return "timeout", None
                chunk = os.read(self.p.stdout.fileno(), 1 << 16)
                if not chunk: return "dead", self.p.wait()
                self.buf += chunk; continue
            l = bytes(self.buf[:nl]).decode("latin1"); del self.buf[:nl + 1]
            if l.startswith("~ paused"): return "paused", None
            if l.startswith("="): return "res", l


def run_overlap(ops_text, workdir, variant="plain", env_extra=None, timeout=60):
    """-> (rc, calls, info): calls = [{tid, op, res, start, end}], in start order; info = {"paused": bool, "blocked": n, "stderr": text}"""
    conf = core.scratch_conf(workdir, "file", "")
    env = dict(os.environ); env["SOFTHSM2_CONF"] = conf; env["VERIF_TOKENDIR"] = os.path.join(workdir, "tokens")
    if env_extra: env.update(env_extra)
    procs, calls, tick, rc = {}, [], [0], 0
    info = {"paused": False, "blocked": 0, "stderr": ""}
    def stamp():
        tick[0] += 1; return tick[0]
    def close(pr, line):
        pr.call["res"] = line; pr.call["end"] = stamp(); pr.call = None; pr.state = "idle"
    try:
        for line in ops_text.splitlines():
            m = TAG.match(line)
            if not m: continue
            i, op = int(m.group(1)), m.group(2)
            if i not in procs: procs[i] = Proc(i, variant, env, workdir)
            pr = procs[i]
            w = op.split()
            def resume_all():
                nonlocal rc
                for q in procs.values():
                    if q.state == "paused":
                        q.send("resume")
                        kind, val = q.read_until(timeout)
                        if kind != "res": rc = -9 if kind == "timeout" else (val or 70); return
                        close(q, val)
                for q in procs.values():           # whoever was waiting for a lock can finish now
                    if q.state == "blocked":
                        kind, val = q.read_until(timeout)
                        if kind != "res": rc = -9 if kind == "timeout" else (val or 70); return
                        close(q, val)
            if w[0] == "resume":
                resume_all()
                if rc: break
                continue
            if pr.state == "blocked":
                # the process waits for a lock of the paused one: nothing more can happen inside the pause, the paused call goes on first
                resume_all()
                if rc: break
            if pr.state != "idle": rc = -8; break           # script error: the process is inside a call
            pr.send(op)
            if w[0] == "pauseat":
                kind, val = pr.read_until(timeout)
                if kind != "res": rc = -9; break
                continue
            pr.call = {"tid": i, "op": op, "res": None, "start": stamp(), "end": None}; calls.append(pr.call)
            someone_paused = any(q.state == "paused" for q in procs.values())
            kind, val = pr.read_or_blocked(timeout) if someone_paused else pr.read_until(timeout)
            if kind == "res": close(pr, val)
            elif kind == "paused": pr.state = "paused"; info["paused"] = True
            elif kind == "blocked" and someone_paused: pr.state = "blocked"; info["blocked"] += 1
            else: rc = -9 if kind == "timeout" else (val or 70); break
    finally:
        for pr in procs.values():
            try: pr.p.stdin.close()
            except Exception: pass
        for pr in procs.values():
            try:
                r = pr.p.wait(timeout=10)
                if rc == 0 and r != 0: rc = r
            except subprocess.TimeoutExpired:
                pr.p.kill(); rc = rc or -9
            pr.err.close()
    for i in sorted(procs):
        try:
            e = open(os.path.join(workdir, "stderr.%d" % i), "rb").read().decode("latin1")
            if e.strip(): info["stderr"] += "[process %d]\n%s\n" % (i, e[-2000:])
        except OSError: pass
    return rc, calls, info


def transcript_procs(seq):
    """sequential transcript of one candidate order for the multi-process driver: a `proc <i>` line wherever control passes to another process"""
    out, cur, linemap = [], None, {}
    for k, c in enumerate(seq):
        if c["tid"] != cur:
            out += ["proc %d" % c["tid"], "= 0"]; cur = c["tid"]
        linemap[len(out) + 1] = k; linemap[len(out) + 2] = k
        out += [c["op"], c["res"]]
    return "\n".join(out) + "\n", linemap


def judge(calls):
    return threads.linearize(calls, transcript_fn=transcript_procs)
