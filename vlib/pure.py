"""Unit-level correspondence of the library's PURE helper functions with their Lean definitions (lean/Shm/Pure/*.lean, plus the padding /
parity / PBE definitions the state model already uses).  harness/purefn.cpp calls the C++ functions compiled from /repo's working tree;
`shm-driver --pure` re-evaluates every line with the model definitions.  The theorems about these functions (DER round trip, serialise
round trip, padding laws, configuration loader lemmas) are stated on exactly the definitions diffed here."""
import os, random, subprocess
from . import core
from .main import Violation

LIB_INCS = None


def build():
    incs = [os.path.join(core.REPO, i) for i in core.LIB_INCS] + [os.path.join(core.BUILD, "plain")]
    with core.Lock("purefn"):
        out = core.harness_path("plain", "purefn")
        src = os.path.join(core.VERIF, "harness", "purefn.cpp")
        lib = core.lib_path("plain")
        if os.path.exists(out) and os.path.getmtime(out) > max(os.path.getmtime(src), os.path.getmtime(lib)):
            return True, ""
        return core.build_harness("plain", "purefn", None, incs)


def hx(b):
    return b.hex() if b else "."


def rbytes(r, n):
    return bytes(r.randrange(256) for _ in range(n))


LENS = [0, 1, 2, 3, 7, 8, 9, 15, 16, 17, 31, 32, 33, 55, 56, 57, 64, 65, 66, 96, 97, 98, 126, 127, 128, 129, 130, 132, 133, 134, 254, 255, 256, 257, 300, 1000, 65535, 65536, 65537]


def der_lines(r, n):
    """DerUtil + getECDHPubData + padding + parity + bits"""
    out = []
    for L in LENS:
        out.append("r2o " + hx(rbytes(r, L)))
        out.append("ecdhpub " + hx(rbytes(r, L)))
        out.append("ecdhpub " + hx(b"\x04" + rbytes(r, max(0, L - 1))))
    def derish():
        # well-formed and nearly well-formed DER octet strings
        L = r.choice(LENS[:34]); body = rbytes(r, L)
        form = r.randrange(8)
        if form == 0 and L < 128: hdr = bytes([4, L])
        elif form == 1: hdr = bytes([4, (L + r.choice([-1, 1, 2])) & 0x7f])
        elif form == 2:
            k = r.choice([1, 2, 3, 4, 8]); hdr = bytes([4, 0x80 | k]) + (L % (1 << (8 * k))).to_bytes(k, "big")
        elif form == 3:
            k = r.choice([1, 2, 3, 8, 9, 10, 127]); hdr = bytes([4, 0x80 | k]) + ((L + r.choice([-1, 0, 1])) % (1 << (8 * min(k, 8)))).to_bytes(min(k, 8), "big") + bytes(max(0, k - 8))
        elif form == 4: hdr = bytes([r.choice([3, 4, 5, 0x24]), L & 0x7f])
        elif form == 5: hdr = bytes([4, 0x80])
        elif form == 6:
            k = r.choice([9, 12]); hdr = bytes([4, 0x80 | k]) + bytes(k - 2) + L.to_bytes(2, "big")      # long_val reads only 8 of the length octets
        else: hdr = rbytes(r, r.randrange(3))
        return hdr + body
    for _ in range(n):
        d = derish()
        out.append("o2r " + hx(d)); out.append("ecdhpub " + hx(d))
        b = rbytes(r, r.choice(LENS[:30]))
        out.append("o2r " + hx(b))
    for _ in range(n // 2):
        bs = r.choice([8, 16, 8, 16, 1, 2, 255, 256, 300])
        b = rbytes(r, r.choice(LENS[:25]))
        out.append("pad5652 %s %d" % (hx(b), bs))
        out.append("pad3394 " + hx(b))
        # unpad: valid paddings, damaged ones, arbitrary
        k = r.randrange(1, min(bs, 255) + 1)
        body = rbytes(r, (r.randrange(1, 5) * bs - k) % (4 * bs)) if r.random() < 0.8 else rbytes(r, r.randrange(40))
        padded = body + bytes([k]) * k
        form = r.randrange(5)
        if form == 1 and len(padded) > 1:
            i = r.randrange(len(padded)); padded = padded[:i] + bytes([padded[i] ^ (1 << r.randrange(8))]) + padded[i + 1:]
        elif form == 2: padded = padded[:-1] + bytes([r.choice([0, bs & 0xff, (bs + 1) & 0xff, 255])])
        elif form == 3: padded = rbytes(r, r.choice([0, 1, bs, 2 * bs, bs + 1]))
        out.append("unpad5652 %s %d" % (hx(padded), bs))
        out.append("parity " + hx(rbytes(r, r.randrange(1, 40))))
        z = r.randrange(0, 6); bitsb = bytes(z) + (bytes([1 << r.randrange(8) | r.randrange(1 << 7) >> r.randrange(8)]) if r.random() < 0.9 else b"") + rbytes(r, r.randrange(0, 5))
        out.append("bits " + hx(bitsb))
    out.append("parity " + hx(bytes(range(256))))
    out.append("bits " + hx(bytes(9))); out.append("bits .")
    return out


def bytestring_lines(r, n):
    out = []
    for L in LENS[:34]:
        out.append("ser " + hx(rbytes(r, L)))
    for v in [0, 1, 255, 256, 65535, 1 << 31, (1 << 32) - 1, 1 << 32, (1 << 63) - 1, 1 << 63, (1 << 64) - 1]:
        out.append("oflong %d" % v)
    for _ in range(n):
        b = rbytes(r, r.choice(LENS[:28]))
        out.append("long " + hx(b))
        # serialised chains: well-formed, with a length field larger than what follows, truncated headers
        L = r.choice(LENS[:20]); body = rbytes(r, L); tail = rbytes(r, r.randrange(12))
        form = r.randrange(5)
        if form == 0: s = L.to_bytes(8, "big") + body + tail
        elif form == 1: s = (L + r.randrange(1, 300)).to_bytes(8, "big") + body
        elif form == 2: s = rbytes(r, r.randrange(8))
        elif form == 3: s = bytes([0xff] * 8) + body
        else: s = max(0, L - r.randrange(1, 4)).to_bytes(8, "big") + body + tail
        out.append("deser " + hx(s))
        a, c = rbytes(r, r.randrange(20)), rbytes(r, r.randrange(20))
        out.append("xor %s %s" % (hx(a), hx(c)))
        out.append("split %s %d" % (hx(b), r.choice([0, 1, len(b) // 2, max(0, len(b) - 1), len(b), len(b) + 1, len(b) + 1000])))
        out.append("substr %s %d %d" % (hx(b), r.choice([0, 1, len(b) // 2, max(0, len(b) - 1), len(b), len(b) + 1]), r.choice([0, 1, 2, len(b), len(b) + 5, (1 << 64) - 1])))
    return out


def pbe_lines(r, n):
    out = []
    for _ in range(n):
        pw = rbytes(r, r.choice([0, 1, 4, 8, 16, 31, 32, 33, 55, 56, 64, 100, 255]))
        salt = rbytes(r, r.choice([0, 7, 8, 8, 8, 8, 9, 16]))
        if r.random() < 0.2 and salt: salt = salt[:-1] + bytes([r.choice([0, 255])])
        out.append("pbe %s %s" % (hx(pw), hx(salt)))
    return out


KEYS = [b"directories.tokendir", b"objectstore.backend", b"objectstore.umask", b"log.level", b"slots.removable", b"slots.mechanisms", b"library.reset_on_fork"]
SP = [b"", b" ", b"  ", b"\t", b" \t ", b"\x0b", b"\x0c"]


def conf_value(r, key):
    if key == b"objectstore.umask":
        return r.choice([b"077", b"0077", b"77", b"027", b"0", b"7", b"8", b"9", b"0o77", b"0x1f", b"-1", b"+22", b"-077", b"777777", b"17777777777", b"37777777777", b"40000000000",
                         b"777777777777777777777", b"1777777777777777777777", b"-1000000000000000000000", b"-777777777777777777777", b"12a", b"1 2", b"abc", b"0777", b"022", b"--1", b"+-1", b"07 # c"])
    if key in (b"slots.removable", b"library.reset_on_fork"):
        return r.choice([b"true", b"false", b"TRUE", b"False", b"tRuE", b"yes", b"1", b"0", b"truee", b"t rue", b"true false", b"FALSE\t", b"\xc3\x9crue"])
    if key == b"slots.mechanisms":
        return r.choice([b"ALL", b"CKM_RSA_PKCS,CKM_AES_CBC", b"-CKM_SHA256,CKM_AES_KEY_GEN", b"CKM_RSA_PKCS, CKM_SHA_1", b"-", b",", b"all", b"-ALL", b"CKM_NOPE"])
    if key == b"log.level":
        return r.choice([b"ERROR", b"WARNING", b"INFO", b"DEBUG", b"error", b"TRACE", b"ERROR x"])
    if key == b"objectstore.backend":
        return r.choice([b"file", b"db", b"FILE", b"sqlite", b"file "])
    return r.choice([b"/tmp/tokens", b"/a b/c", b"relative/dir", b"/x=y/z", b"/with#hash", b"/" + b"d" * r.choice([10, 300, 990, 1010, 1100])])


def conf_file(r):
    lines = []
    for _ in range(r.randrange(0, 9)):
        form = r.randrange(14)
        key = r.choice(KEYS)
        val = conf_value(r, key)
        s1, s2, s3, s4 = (r.choice(SP) for _ in range(4))
        if form <= 5: l = s1 + key + s2 + b"=" + s3 + val + s4
        elif form == 6: l = b"#" + key + b" = " + val
        elif form == 7: l = key + b" = " + val + r.choice([b" # comment", b"#c", b" #= x"])
        elif form == 8: l = key + r.choice([b" == ", b"= =", b"=", b" ", b" = = = "]) + val + r.choice([b"", b"=extra", b" = more"])
        elif form == 9: l = r.choice([key.upper(), key + b"x", key[:-1], b" " + key + b" ", key.replace(b".", b" . "), b"=" + key, b"==" + key]) + b" = " + val
        elif form == 10: l = r.choice([b"", b"   ", b"=", b"===", b" = ", b"\t", b"key", b"= value", b"#"])
        elif form == 11:
            l = key + b" = " + val
            i = r.randrange(len(l) + 1); l = l[:i] + bytes([r.choice([0, 0, 0x80, 0xff, 0x0d, 0x1f, 0x7f])]) + l[i:]
        elif form == 12: l = b" " * r.choice([1000, 1020, 1022, 1023, 1024, 1030]) + key + b" = " + val
        else: l = rbytes(r, r.randrange(0, 40))
        lines.append(l)
    nl = r.choice([b"\n", b"\n", b"\n", b"\r\n", b"\r"])
    f = nl.join(lines)
    if r.random() < 0.8: f += nl
    return f


def conf_lines(r, n):
    out = ["conf .", "conf 0a", "conf " + hx(b"objectstore.umask = 077\nslots.removable = true\nslots.mechanisms = -CKM_MD5\n")]
    for _ in range(n):
        out.append("conf " + hx(conf_file(r)))
    for _ in range(n // 8):
        out.append("conf " + hx(rbytes(r, r.choice([1, 10, 100, 2000]))))
    return out


def mx_lines(r, n):
    """sequences of C_Initialize flavours (failing ones in upper case) and C_Finalize"""
    out = ["mxseq nfo", "mxseq nfa", "mxseq ofnfo", "mxseq Nfo", "mxseq NofAnfa", "mxseq oo", "mxseq f"]
    for _ in range(n):
        out.append("mxseq " + "".join(r.choice("nnooaafffNOA") for _ in range(r.choice([2, 3, 5, 8, 12]))))
    return out


GROUPS = {"mx": mx_lines, "der": der_lines, "bytestring": bytestring_lines, "pbe": pbe_lines, "conf": conf_lines}


def run_group(ctx, kres, suite_name, group, n):
    """-> list of Violations (signature `pure.<fn>`); merges coverage into kres"""
    kres["suites"] += 1
    ok, out = build()
    if not ok:
        return [Violation("pure.build", "harness/purefn.cpp does not compile against the current tree (an internal helper changed its interface):\n" + out[-1500:],
                          '{"obligation": "unit correspondence %s", "detail": "purefn does not build"}' % suite_name, False)]
    r = random.Random(ctx.seed * 7907 + hash(group) % 1000)
    r = random.Random("%d-%s" % (ctx.seed, group))
    lines = GROUPS[group](r, n)
    with core.Scratch("pure") as sc:
        f = os.path.join(sc.dir, "lines.txt"); open(f, "w").write("\n".join(lines) + "\n")
        env = dict(os.environ); env["SOFTHSM2_CONF"] = core.scratch_conf(sc.dir)
        p = subprocess.run([core.harness_path("plain", "purefn"), f, sc.dir], env=env, stdout=subprocess.PIPE, stderr=subprocess.PIPE, timeout=900)
        transcript = p.stdout.decode("latin1")
    viols = []
    tl = transcript.splitlines()
    answered = sum(1 for l in tl if l.startswith("= "))
    if p.returncode != 0 or answered != len(lines):
        last = [l for l in tl if not l.startswith("= ")][-1:] or ["?"]
        viols.append(Violation("pure.crash", "the library helper crashed / exited (rc=%s) on `%s`: %s" % (p.returncode, last[0][:300], p.stderr.decode("latin1")[-400:]), last[0] + "\n"))
    drc, dout = core.run_driver(transcript, args=("--pure",))
    seen = set()
    for l in dout.splitlines():
        if l.startswith("ok "):
            k = "pure:" + l[3:]; kres["hist"][k] = kres["hist"].get(k, 0) + 1; kres["evaluations"] += 1
        elif l.startswith("MISMATCH"):
            kres["evaluations"] += 1
            fn = l.split("fn=")[1].split()[0]
            if fn in seen: continue
            seen.add(fn)
            inp = l.split(" :: ")[1]
            viols.append(Violation("pure." + fn, "the library's helper and its Lean definition disagree (%s): %s" % (suite_name, l[:1200]), "## pure\n" + inp + "\n"))
    if len(kres["samples"]) < 6:
        kres["samples"].append({"suite": suite_name, "trace": group, "ops": tl[:8]})
    return viols


def replay_pure(text):
    """re-run the lines of a `## pure` replay file; prints both answers"""
    ok, out = build()
    lines = [l for l in text.splitlines() if l and not l.startswith("##")]
    with core.Scratch("pure") as sc:
        f = os.path.join(sc.dir, "lines.txt"); open(f, "w").write("\n".join(lines) + "\n")
        env = dict(os.environ); env["SOFTHSM2_CONF"] = core.scratch_conf(sc.dir)
        p = subprocess.run([core.harness_path("plain", "purefn"), f, sc.dir], env=env, stdout=subprocess.PIPE, stderr=subprocess.PIPE, timeout=900)
    drc, dout = core.run_driver(p.stdout.decode("latin1"), args=("--pure",))
    print(p.stdout.decode("latin1")); print(dout)
    return 1 if (drc != 0 or p.returncode != 0) else 0
