import Shm.Proto
import Shm.Store.DiskView
import Shm.CryptoMon
import Shm.Model.Multi
import Shm.Pure.Drv
open Shm

/-- model-side context of a call, printed with every mismatch so that the per-property judges can tell what the
    disagreement is about: the session's CK_STATE and, for an object handle, whether the object is private / on token -/
def callCtxCore (s : State) (c : Call) : String :=
  let sess (h : Nat) : String :=
    match sessTok s h with
    | some (ss, t) => s!"state={(stateOf t ss.rw).toNat}"
    | none => "state=-"
  let obj (o : Nat) : String :=
    match resolveObj s o with
    | some (_, ob) => s!"objPriv={if ob.isPriv then 1 else 0} objTok={if ob.onToken then 1 else 0} cls={getULongD ob.attrs 0 99} sens={if getBoolD ob.attrs 0x103 false then 1 else 0} extr={if getBoolD ob.attrs 0x162 true then 1 else 0}"
    | none => "obj=-"
  match c with
  | .create h tpl _ => s!"{sess h} tplPriv={match tplBool tpl 2 with | some true => 1 | some false => 0 | none => 2} tplTok={if (tplBool tpl 1).getD false then 1 else 0}"
  | .destroy h o | .objProbe h o | .objSize h o => s!"{sess h} {obj o}"
  | .getAttr h o _ _ => s!"{sess h} {obj o}"
  | .setAttr h o _ _ => s!"{sess h} {obj o}"
  | .copy h o _ _ => s!"{sess h} {obj o}"
  | .findInit h _ _ | .find h _ | .findFinal h => sess h
  | _ => ""

def callCtx (s : State) (c : AnyCall) : String :=
  match c with
  | .core c => callCtxCore s c
  | .op (.opInit _ h _ _ k _) =>
    let st := match sessTok s h with | some (ss, t) => s!"state={(stateOf t ss.rw).toNat}" | none => "state=-"
    let ob := match resolveObj s k with
      | some (_, ob) => s!"objPriv={if ob.isPriv then 1 else 0} objTok={if ob.onToken then 1 else 0} keyType={getULongD ob.attrs 0x100 99}"
      | none => "obj=-"
    s!"{st} {ob}"
  | _ => ""

/-- summary of one model step for the coverage histogram: op name + rv -/
def sig (op : List String) (rv : Nat) : String := s!"{op.headD "?"}:{rv}"

structure Drv where
  st : State := {}
  saved : List (String × State) := []
  disk : Shm.Store.DiskCfg := {}
  mon : Shm.CryptoMon.Mon := {}
  lineNo : Nat := 0
  pairs : Nat := 0
  mism : Nat := 0
  unparsed : Nat := 0
  procs : List (Nat × State) := []   -- C15: the other processes on the same token directory (see Shm.Model.Multi); `st` is the one that ran last
  cur : Nat := 0
  mutated : Bool := false            -- C17: the files of the token directory are being damaged; the state model is not followed
  expectValid : Option Nat := none   -- object files the independent decoder accepts, from the last dumpdir
  armed : Bool := false              -- the next find must return exactly that many handles

partial def loop (h : IO.FS.Stream) (d : Drv) (pendingOp : Option (List String)) : IO Drv := do
  let line ← h.getLine
  if line.isEmpty then return d
  let d := { d with lineNo := d.lineNo + 1 }
  let ws := words line
  match ws with
  | [] => loop h d pendingOp
  | "=" :: res =>
    match pendingOp with
    | none => IO.println s!"PROTOCOL line {d.lineNo}: result without operation"; loop h d none
    | some op =>
      if d.mutated then
        -- C17 loader correspondence: after arbitrary damage to the object files, a logged-in search for everything finds exactly the files that the
        -- Lean decoder (`Shm.Store.loadsValid`, the model of ObjectFile::refresh over File::read*) accepts.  Nothing else is compared in this mode.
        match op, res with
        | ["dumpdir"], _rv :: _n :: rows =>
          (match rows.mapM Shm.Store.parseDEntry with
           | none => do
             IO.println s!"UNPARSED line {d.lineNo}: dumpdir rows"
             loop h { d with unparsed := d.unparsed + 1 } none
           | some ents => do
             let n := Shm.Store.countLoadable ents
             IO.println s!"ok loadable:{if n == 0 then "none" else if n == (Shm.Store.objectFiles ents).length then "all" else "some"}"
             loop h { d with expectValid := some n, pairs := d.pairs + 1 } none)
        | ["nop", "expectcount"], _ => loop h { d with armed := true } none
        | ["find", _, _], rv :: _ :: cnt :: _ =>
          if d.armed then
            (match d.expectValid, parseNat? rv, parseNat? cnt with
             | some n, some 0, some c =>
               if c == n then do
                 IO.println s!"ok loadcount:agree"
                 loop h { d with armed := false, pairs := d.pairs + 1 } none
               else do
                 IO.println s!"MISMATCH line {d.lineNo} cat=load op=find :: {" ".intercalate op} => {" ".intercalate (res.take 3)} :: object files accepted: decoder {n} library {c} :: ctx  modelrv=0"
                 loop h { d with armed := false, mism := d.mism + 1, pairs := d.pairs + 1 } none
             | _, _, _ => do
               IO.println s!"ok loadcount:notcompared"
               loop h { d with armed := false } none)
          else do
            IO.println s!"ok mutated:find"
            loop h d none
        | _, _ => do
          IO.println s!"ok mutated:{op.headD "?"}"
          loop h d none
      else
      match op, res with
      | ["nop"], _ => loop h d none
      | ["nop", "mutated"], _ => loop h { d with mutated := true } none
      | "nop" :: _ :: _, _ => loop h d none          -- annotations for the python judges (e.g. `nop samevalues`)
      | ["proc", i], _ =>
        (match parseNat? i with
         | some k =>
           let m : MState := { procs := d.procs, cur := d.cur, st := d.st }
           let m' := m.switch k
           loop h { d with procs := m'.procs, cur := m'.cur, st := m'.st, mon := {} } none
         | none => do
           IO.println s!"UNPARSED line {d.lineNo}: proc"
           loop h { d with unparsed := d.unparsed + 1 } none)
      | ["wipe"], _ => loop h { d with st := {} } none
      | ["snapshot", name], _ => loop h { d with saved := (name, d.st) :: d.saved } none
      | ["restore", name], _ =>
        match d.saved.find? (·.1 == name) with
        | some (_, s) => loop h { d with st := s } none
        | none => IO.println s!"PROTOCOL line {d.lineNo}: unknown snapshot {name}"; loop h d none
      | ["dumpdir"], _rv :: _n :: rows =>
        -- the independent decoder: the directory must be exactly what the model state implies
        (match rows.mapM Shm.Store.parseDEntry with
         | none => do
           IO.println s!"UNPARSED line {d.lineNo}: dumpdir rows"
           loop h { d with unparsed := d.unparsed + 1 } none
         | some ents =>
           let errs := Shm.Store.checkDisk d.st d.disk ents
           if errs.isEmpty then do
             IO.println s!"ok dumpdir:0"
             loop h { d with pairs := d.pairs + 1 } none
           else do
             IO.println s!"MISMATCH line {d.lineNo} cat=disk op=dumpdir :: dumpdir => {errs.length} discrepancies :: {" ; ".intercalate (errs.take 4)} :: ctx  modelrv=0"
             loop h { d with mism := d.mism + 1, pairs := d.pairs + 1 } none)
      | ["umask", m], _ =>
        (match Shm.Store.parseOctal m with
         | some u => loop h { d with disk := { umask := u } } none
         | none => loop h d none)
      | "fsmut" :: _, _ => loop h d none
      | "misc" :: _, _ => loop h d none          -- C17: the entry points outside the model (CKR_FUNCTION_NOT_SUPPORTED and pure queries); only crashes count
      | "decrelay" :: _, _ => loop h d none
      | "verrelay" :: _, _ => loop h d none
      | ["kcv", _, _], [rv, _, _, kt, val, cv] =>
        -- C13: a non-empty CKA_CHECK_VALUE of a secret key whose value is readable must be the standard check value for its type
        (match parseNat? rv, parseHexNat? kt, (if val == "-" then none else parseHex val), (if cv == "-" || cv == "." then none else parseHex cv) with
         | some 0, some ktv, some v, some c =>
           (match keyCheckValue ktv v with
            | some want =>
              if want == c then do
                IO.println s!"ok kcv:0"
                loop h { d with pairs := d.pairs + 1 } none
              else do
                IO.println s!"MISMATCH line {d.lineNo} cat=kcv op=kcv :: {" ".intercalate op} => {" ".intercalate res} :: check value: standard {toHex want} stored {toHex c} :: ctx  modelrv=0"
                loop h { d with mism := d.mism + 1, pairs := d.pairs + 1 } none
            | none => do
              IO.println s!"ok kcv:notcomputed"
              loop h { d with pairs := d.pairs + 1 } none)
         | _, _, _, _ => do
           IO.println s!"ok kcv:unreadable"
           loop h { d with pairs := d.pairs + 1 } none)
      | _, _ =>
      match parsePair op res with
      | none =>
        IO.println s!"UNPARSED line {d.lineNo}: {" ".intercalate op} => {" ".intercalate res}"
        loop h { d with unparsed := d.unparsed + 1 } none
      | some p =>
        let (st', r) := stepAny d.st p.call
        let ctxStr := callCtx d.st p.call
        -- C10: the reference implementations recompute every completed cryptographic operation
        -- (for C_GenerateKeyPair the monitor notes which public key belongs to which private key: the two objects exist in the state AFTER the call)
        let (mon', fin) := Shm.CryptoMon.step (if op.headD "" == "genpair" then st' else d.st) d.mon op res
        match fin with
        | some (some why, cls) => IO.println s!"MISMATCH line {d.lineNo} cat=crypto op={op.headD "?"} :: {" ".intercalate op} => {" ".intercalate res} :: {why} :: ctx cls={cls} modelrv={r.rv}"
        | some (none, cls) => IO.println s!"ok ref:{cls}"
        | none => pure ()
        let d := { d with mon := mon', mism := d.mism + (match fin with | some (some _, _) => 1 | _ => 0) }
        let d := { d with st := st', pairs := d.pairs + 1 }
        match compareResp r p.obs with
        | none => IO.println s!"ok {sig op r.rv}"; loop h d none
        | some why =>
          IO.println s!"MISMATCH line {d.lineNo} cat={mismatchCat r p.obs} op={op.headD "?"} :: {" ".intercalate op} => {" ".intercalate res} :: {why} :: ctx {ctxStr} modelrv={r.rv}"
          loop h { d with mism := d.mism + 1 } none
  | "#trace" :: _ => IO.println line.trimAscii.toString; loop h { d with st := {}, saved := [] } none
  | op => loop h d (some op)

/-- unit-level correspondence of the pure helpers: the transcript of harness/purefn (input line, `= answer` line) is re-evaluated with the model definitions -/
partial def pureLoop (h : IO.FS.Stream) (pending : Option (List String)) (n bad : Nat) : IO (Nat × Nat) := do
  let line ← h.getLine
  if line.isEmpty then return (n, bad)
  match words line with
  | [] => pureLoop h pending n bad
  | "=" :: res =>
    match pending with
    | none => pureLoop h none n bad
    | some op =>
      let want := Shm.Pure.pureLine op
      let got := " ".intercalate res
      if want == got then do
        -- coverage class of the answer: how many settings a configuration file produced; refused / empty / non-empty otherwise
        let cls := if op.headD "" == "conf" then s!"set{(res.filter (fun w => !w.endsWith "=-")).length - 1}"
                   else if res == ["."] || res == ["0"] || res == [".", "."] then "empty-or-refused" else "value"
        IO.println s!"ok {op.headD "?"}:{cls}"
        pureLoop h none (n + 1) bad
      else do
        IO.println s!"MISMATCH fn={op.headD "?"} :: {" ".intercalate op} :: library {got} :: model {want}"
        pureLoop h none (n + 1) (bad + 1)
  | op => pureLoop h (some op) n bad

def main (args : List String) : IO UInt32 := do
  if args == ["--pure"] then
    let (n, bad) ← pureLoop (← IO.getStdin) none 0 0
    IO.println s!"SUMMARY pairs={n} mismatches={bad} unparsed=0"
    return (if bad == 0 then 0 else 1)
  let d ← loop (← IO.getStdin) {} none
  IO.println s!"SUMMARY pairs={d.pairs} mismatches={d.mism} unparsed={d.unparsed}"
  return (if d.mism == 0 && d.unparsed == 0 then 0 else 1)
