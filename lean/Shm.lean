import Shm.Base.Hex
import Shm.Model.Consts
import Shm.Gen.Access
import Shm.Model.Types
import Shm.Model.Handles
import Shm.Model.Step
import Shm.Proto
