/-
  C13 — wrap, unwrap and derive produce exactly the specified keys.

  Value level: the wrapping formats (RFC 3394 with SoftHSM's zero padding, PKCS#7-padded CBC) are round trips for EVERY block
  function with a left inverse; the shaping of derived secrets (cut to length from the specified end, DES parity).
  State level (model of C_UnwrapKey): an unwrapped key is never local, never "never extractable", never "always sensitive";
  a refused C_UnwrapKey / C_DeriveKey creates nothing.
  Tie: K13 computes every AES-wrapped blob, every unwrapped value, every derived value (AES-ECB/CBC data encryption,
  concatenations, Diffie-Hellman, ECDH on P-256) and every check value with the Lean reference implementations of
  Shm/Crypto and compares them with what the library returns.
-/
import Shm.Lemmas.KeyWrapLemmas
import Shm.Lemmas.EncInv
import Shm.Lemmas.AbsInt
import Shm.Lemmas.PureThms
namespace Shm.C13
open Shm Shm.Crypto

/-! ### the wrapping formats -/

/-- SoftHSM's `RFC3394Pad`: the key bytes, then zero bytes up to a multiple of 8 -/
theorem C13_zeroPad8 (p : Bytes) : (zeroPad8 p).length % 8 = 0 ∧ (zeroPad8 p).take p.length = p ∧ ∀ b ∈ (zeroPad8 p).drop p.length, b = 0 := by
  unfold zeroPad8
  refine ⟨?_, by rw [List.take_left], ?_⟩
  · simp only [List.length_append, List.length_replicate]; omega
  · rw [List.drop_left]; intro b hb; exact (List.mem_replicate.mp hb).2

/-- **CKM_AES_KEY_WRAP**: unwrapping what wrapping produced yields the key bytes zero-padded to a multiple of eight — for every key of
    at least 9 bytes (shorter ones are refused with CKR_KEY_SIZE_RANGE), every block function with a left inverse -/
theorem C13_aes_key_wrap_roundtrip {E D : Bytes → Bytes} (h : BlockInv E D) (kd : Bytes) (hlen : 16 ≤ (zeroPad8 kd).length) :
    rfc3394Unwrap D (rfc3394Wrap E (zeroPad8 kd)) = some (zeroPad8 kd) :=
  rfc3394_roundtrip h _ (C13_zeroPad8 kd).1 hlen

/-- **CKM_AES_CBC_PAD**: PKCS#7-padded CBC under the caller's IV is a round trip for every key length, block multiples or not -/
theorem C13_cbc_pad_roundtrip {E D : Bytes → Bytes} (h : BlockInv E D) (iv kd : Bytes) (hiv : iv.length = 16) :
    pkcs7Unpad 16 (cbcDecrypt D iv (cbcEncrypt E iv (pkcs7Pad 16 kd))) = some kd := by
  rw [cbc_roundtrip h iv _ hiv (pkcs7Pad_length 16 kd (by decide)), pkcs7_roundtrip 16 kd (by decide) (by decide)]

/-- the model's wrap / unwrap functions compose to the identity (modulo the zero padding of CKM_AES_KEY_WRAP), whenever the AES instance
    of the wrapping key is a block function with a left inverse — validated for AES by execution (FIPS-197 vectors, every unwrap of K13),
    not proved -/
theorem C13_model_key_wrap (kek kd : Bytes) (p : MParam) (hAES : BlockInv (aesEncBlock (aesKey kek)) (aesDecBlock (aesKey kek)))
    (hl : 16 ≤ (zeroPad8 kd).length) :
    ∃ w, wrapSym CKM.AES_KEY_WRAP p kek kd = .ok w ∧ unwrapSym CKM.AES_KEY_WRAP p kek w = .ok (zeroPad8 kd) := by
  refine ⟨rfc3394Wrap (aesEncBlock (aesKey kek)) (zeroPad8 kd), ?_, ?_⟩
  · have hnot : ¬ (zeroPad8 kd).length < 16 := by omega
    simp only [wrapSym, CKM.AES_KEY_WRAP, beq_self_eq_true, if_true, hnot, if_false]
  · simp only [unwrapSym, CKM.AES_KEY_WRAP, beq_self_eq_true, if_true]
    rw [rfc3394_roundtrip hAES _ (C13_zeroPad8 kd).1 hl]

/-- **CKM_AES_KEY_WRAP_PAD** (RFC 5649): unwrapping what wrapping produced yields exactly the key bytes — every non-empty key shorter than 2^32 bytes, whatever its
    length modulo eight (the alternative initial value with the length field, the one-block special case and the zero-padding check included) -/
theorem C13_aes_key_wrap_pad_roundtrip {E D : Bytes → Bytes} (h : BlockInv E D) (kd : Bytes) (h0 : 0 < kd.length) (h32 : kd.length < 2 ^ 32) :
    rfc5649Unwrap D (rfc5649Wrap E kd) = some kd := rfc5649_roundtrip h kd h0 h32

theorem C13_model_key_wrap_pad (kek kd : Bytes) (p : MParam) (hAES : BlockInv (aesEncBlock (aesKey kek)) (aesDecBlock (aesKey kek)))
    (h0 : 0 < kd.length) (h32 : kd.length < 2 ^ 32) :
    ∃ w, wrapSym CKM.AES_KEY_WRAP_PAD p kek kd = .ok w ∧ unwrapSym CKM.AES_KEY_WRAP_PAD p kek w = .ok kd := by
  refine ⟨rfc5649Wrap (aesEncBlock (aesKey kek)) kd, ?_, ?_⟩
  · simp only [wrapSym, CKM.AES_KEY_WRAP, CKM.AES_KEY_WRAP_PAD, show ((0x210A : Nat) == 0x2109) = false from by decide, beq_self_eq_true,
      Bool.false_eq_true, if_false, if_true]
  · simp only [unwrapSym, CKM.AES_KEY_WRAP, CKM.AES_KEY_WRAP_PAD, show ((0x210A : Nat) == 0x2109) = false from by decide, beq_self_eq_true,
      Bool.false_eq_true, if_false, if_true]
    rw [rfc5649_roundtrip hAES kd h0 h32]

theorem C13_model_cbc_pad (kek kd iv : Bytes) (p : MParam) (hAES : BlockInv (aesEncBlock (aesKey kek)) (aesDecBlock (aesKey kek)))
    (hp : (p.raw.headD []).take 16 = iv) (hiv : iv.length = 16) :
    ∃ w, wrapSym CKM.AES_CBC_PAD p kek kd = .ok w ∧ unwrapSym CKM.AES_CBC_PAD p kek w = .ok kd := by
  refine ⟨cbcEncrypt (aesEncBlock (aesKey kek)) iv (pkcs7Pad 16 kd), ?_, ?_⟩
  · simp only [wrapSym, CKM.AES_KEY_WRAP, CKM.AES_KEY_WRAP_PAD, CKM.AES_CBC_PAD, hp,
      show ((0x1085 : Nat) == 0x2109) = false from by decide, show ((0x1085 : Nat) == 0x210A) = false from by decide, beq_self_eq_true,
      Bool.false_eq_true, if_false, if_true]
  · have hpl := pkcs7Pad_length 16 kd (by decide)
    have hlen := cbcEncrypt_length hAES iv (pkcs7Pad 16 kd) hiv hpl
    have hpos : 0 < (pkcs7Pad 16 kd).length := by
      simp only [pkcs7Pad, List.length_append, List.length_replicate]
      have := Nat.mod_lt kd.length (by decide : 0 < 16)
      omega
    have hne : (cbcEncrypt (aesEncBlock (aesKey kek)) iv (pkcs7Pad 16 kd)).isEmpty = false := by
      cases hc : cbcEncrypt (aesEncBlock (aesKey kek)) iv (pkcs7Pad 16 kd) with
      | nil => rw [hc] at hlen; simp at hlen; omega
      | cons _ _ => rfl
    have hmod : ((cbcEncrypt (aesEncBlock (aesKey kek)) iv (pkcs7Pad 16 kd)).length % 16 != 0) = false := by rw [hlen, hpl]; rfl
    simp only [unwrapSym, CKM.AES_KEY_WRAP, CKM.AES_KEY_WRAP_PAD, CKM.AES_CBC_PAD, hp,
      show ((0x1085 : Nat) == 0x2109) = false from by decide, show ((0x1085 : Nat) == 0x210A) = false from by decide, beq_self_eq_true,
      Bool.false_eq_true, if_false, if_true, hne, hmod, Bool.or_self]
    rw [cbc_roundtrip hAES iv _ hiv hpl, pkcs7_roundtrip 16 kd (by decide) (by decide)]

/-! ### the unwrapped key -/

theorem saveTemplate_error_ne_ok (cd : ClassDesc) (o : Attrs) (tpl : Template) (op : Nat) (p so : Bool) (oRv e : RV)
    (h : saveTemplate cd o tpl op p so oRv = .error e) : e ≠ CKR.OK := by
  unfold saveTemplate at h
  split at h
  · injection h with h; rw [← h]; decide
  · split at h
    · injection h with h; rw [← h]; decide
    · dsimp only at h
      split at h
      · next hne => injection h with h; rw [← h]; simpa using hne
      · split at h
        · injection h with h; rw [← h]; decide
        · simp at h


theorem getA_markUnk_other (tys : List Nat) (ty : Nat) (hn : ty ∉ tys) : ∀ (a : Attrs), getA (markUnk a tys) ty = getA a ty := by
  unfold markUnk
  induction tys with
  | nil => intro a; rfl
  | cons t ts ih =>
    intro a
    simp only [List.foldl_cons]
    have hne : ty ≠ t := fun h => hn (by simp [h])
    have hts : ty ∉ ts := fun h => hn (by simp [h])
    rw [ih hts]
    split
    · exact getA_setA_other _ _ _ _ hne
    · rfl

/-- **an unwrapped key is marked not local, not always-sensitive, not never-extractable** — whatever the template, the mechanism, the key class -/
theorem C13_unwrapped_key_flags (s : State) (slot h cls kt : Nat) (onToken isPriv soIn : Bool) (tpl : Template) (kd : Option (Except RV Bytes)) (oRv : RV)
    (hok : (unwrapFinish s slot h cls kt onToken isPriv soIn tpl kd oRv).2.rv = CKR.OK) :
    ∃ o, (unwrapFinish s slot h cls kt onToken isPriv soIn tpl kd oRv).1.objs = s.objs ++ [o] ∧ o.oid = s.nextOid ∧ o.isPriv = isPriv ∧ o.onToken = onToken ∧
      getA o.attrs CKA.LOCAL = some (.bool false) ∧ getA o.attrs CKA.ALWAYS_SENSITIVE = some (.bool false) ∧ getA o.attrs CKA.NEVER_EXTRACTABLE = some (.bool false) := by
  revert hok
  unfold unwrapFinish
  cases findClass cls kt 0 with
  | none => intro hok; simp only [rOnly] at hok; exact absurd hok (by decide)
  | some cd =>
    dsimp only
    cases hst : saveTemplate cd (initAttrs cd) (reorderTpl (keyTemplate cls kt onToken isPriv tpl [])) OP.UNWRAP isPriv soIn oRv with
    | error e =>
      intro hok
      -- a template the engine refuses: saveTemplate never reports CKR_OK as an error
      have : e ≠ CKR.OK := saveTemplate_error_ne_ok _ _ _ _ _ _ _ _ hst
      simp only [rOnly] at hok
      exact absurd hok this
    | ok attrs =>
      dsimp only
      have hL : ∀ (a : Attrs), getA (setA (setA (setA a CKA.LOCAL (.bool false)) CKA.ALWAYS_SENSITIVE (.bool false)) CKA.NEVER_EXTRACTABLE (.bool false)) CKA.LOCAL = some (.bool false) := by
        intro a
        rw [getA_setA_other _ _ _ _ (by decide), getA_setA_other _ _ _ _ (by decide), getA_setA_same]
      have hA : ∀ (a : Attrs), getA (setA (setA (setA a CKA.LOCAL (.bool false)) CKA.ALWAYS_SENSITIVE (.bool false)) CKA.NEVER_EXTRACTABLE (.bool false)) CKA.ALWAYS_SENSITIVE = some (.bool false) := by
        intro a
        rw [getA_setA_other _ _ _ _ (by decide), getA_setA_same]
      have hN : ∀ (a : Attrs), getA (setA (setA (setA a CKA.LOCAL (.bool false)) CKA.ALWAYS_SENSITIVE (.bool false)) CKA.NEVER_EXTRACTABLE (.bool false)) CKA.NEVER_EXTRACTABLE = some (.bool false) := by
        intro a
        rw [getA_setA_same]
      split
      · intro _
        refine ⟨_, rfl, rfl, rfl, rfl, ?_, ?_, ?_⟩
        · rw [getA_setA_other _ _ _ _ (by decide)]; exact hL attrs
        · rw [getA_setA_other _ _ _ _ (by decide)]; exact hA attrs
        · rw [getA_setA_other _ _ _ _ (by decide)]; exact hN attrs
      · split
        · next hff => intro hok; simp only [rOnly] at hok; rw [hok] at hff; exact absurd hff (by decide)
        · intro _
          refine ⟨_, rfl, rfl, rfl, rfl, ?_, ?_, ?_⟩
          · rw [getA_markUnk_other _ _ (by decide)]; exact hL attrs
          · rw [getA_markUnk_other _ _ (by decide)]; exact hA attrs
          · rw [getA_markUnk_other _ _ (by decide)]; exact hN attrs

/-! ### a refused call creates nothing -/

def OkOrSame (s : State) (r : State × Resp) : Prop := r.2.rv = CKR.OK ∨ r.1.objs = s.objs

theorem oos_rOnly (s : State) (rv : RV) : OkOrSame s (rOnly s rv) := Or.inr rfl
theorem oos_bump (s : State) (x : Resp) : OkOrSame s ({ s with counter := s.counter + 1 }, x) := Or.inr rfl
theorem oos_ite {s : State} (c : Prop) [Decidable c] (a b : State × Resp) (ha : OkOrSame s a) (hb : OkOrSame s b) : OkOrSame s (if c then a else b) := by
  split <;> assumption

theorem oos_unwrapFinish (s : State) (slot h cls kt : Nat) (a b c : Bool) (t : Template) (kd : Option (Except RV Bytes)) (rv : RV) :
    OkOrSame s (unwrapFinish s slot h cls kt a b c t kd rv) := by
  unfold unwrapFinish
  cases findClass cls kt 0 with
  | none => exact oos_rOnly _ _
  | some cd =>
    dsimp only
    cases saveTemplate cd (initAttrs cd) (reorderTpl (keyTemplate cls kt a b t [])) OP.UNWRAP b c rv with
    | error e => exact oos_rOnly _ _
    | ok attrs =>
      dsimp only
      split
      · exact Or.inl rfl
      · split
        · exact oos_rOnly _ _
        · exact Or.inl rfl

theorem oos_deriveFinish (s : State) (slot h cls kt : Nat) (a b c : Bool) (t : Template) (v : AVal) (m : Nat) (ba : Attrs) (oa : Option Attrs) : OkOrSame s (deriveFinish s slot h cls kt a b c t v m ba oa) := by
  unfold deriveFinish
  cases findClass cls kt 0 with
  | none => exact oos_rOnly _ _
  | some cd =>
    dsimp only
    cases saveTemplate cd (initAttrs cd) (reorderTpl (keyTemplate cls kt a b t [CKA.CHECK_VALUE])) OP.DERIVE b c CKR.OK with
    | error e => exact oos_rOnly _ _
    | ok attrs => exact Or.inl rfl

/-- **malformed, truncated or otherwise refused input creates no object**: whenever C_UnwrapKey or C_DeriveKey answers anything but CKR_OK, the
    object population is exactly what it was -/
theorem C13_refused_creates_nothing (s : State) (h m : Nat) (p : MParam) (k : Nat) (b : Option Bytes) (t : Template) (rv : RV) :
    ((stepUnwrap s h m p k b t rv).2.rv ≠ CKR.OK → (stepUnwrap s h m p k b t rv).1.objs = s.objs) ∧
    ((stepDerive s h m p k t rv).2.rv ≠ CKR.OK → (stepDerive s h m p k t rv).1.objs = s.objs) := by
  have h1 : OkOrSame s (stepUnwrap s h m p k b t rv) := by
    unfold stepUnwrap
    repeat' (first | exact oos_rOnly _ _ | exact oos_unwrapFinish _ _ _ _ _ _ _ _ _ _ _ | apply oos_ite | split | extract_lets)
  have h2 : OkOrSame s (stepDerive s h m p k t rv) := by
    unfold stepDerive
    repeat' (first | exact oos_rOnly _ _ | exact oos_bump _ _ | exact oos_deriveFinish _ _ _ _ _ _ _ _ _ _ _ _ _ | apply oos_ite | split | extract_lets)
  exact ⟨fun hne => h1.resolve_left hne, fun hne => h2.resolve_left hne⟩

/-! ### derived secrets -/

/-- DES parity (`odd_parity[]` of odd.h): every byte gets odd parity, only its lowest bit may change, applying it twice changes nothing -/
theorem C13_odd_parity : ∀ n, n < 256 →
    let b := UInt8.ofNat n
    ((List.range 8).foldl (fun k i => k + ((oddParity b >>> UInt8.ofNat i) &&& 1).toNat) 0) % 2 = 1 ∧
    (oddParity b &&& 0xFE) = (b &&& 0xFE) ∧ oddParity (oddParity b) = oddParity b := by
  decide +kernel

/-- the derived value has exactly the requested length and is the specified end of the secret: the trailing bytes for the Diffie-Hellman
    family, the leading bytes for the symmetric derivations (non-DES key types; DES types are additionally parity-adjusted byte by byte) -/
theorem C13_shape (kt len : Nat) (fromEnd : Bool) (secret v : Bytes) (hk : isDesType kt = false) (h : shapeSecret kt len fromEnd secret = some v) :
    v.length = len ∧ v = (if fromEnd then secret.drop (secret.length - len) else secret.take len) := by
  unfold shapeSecret at h
  split at h
  · simp at h
  · next hle =>
    simp only [hk, Bool.false_eq_true, if_false, Option.some.injEq] at h
    subst h
    constructor
    · cases fromEnd
      · simp only [Bool.false_eq_true, if_false, List.length_take]; omega
      · simp only [if_true, List.length_drop]; omega
    · rfl

/-- non-vacuity: the parity table on two bytes, a cut from the trailing end -/
example : oddParity 0x00 = 0x01 ∧ oddParity 0x03 = 0x02 ∧ shapeSecret CKK.GENERIC 2 true [1, 2, 3] = some [2, 3] ∧ shapeSecret CKK.AES 2 false [1, 2, 3] = some [1, 2] := by decide

end Shm.C13

/-! ### the byte-level helpers of wrap / unwrap / derive, as the C++ has them (unit-tied definitions of Shm/Pure) -/
namespace Shm.Pure
open Shm Shm.Crypto

/-- **DER octet strings** (`DERUTIL::raw2Octet` / `octet2Raw`, used for CKA_EC_POINT and for the ECDH public data): decoding what was encoded
    gives the bytes back, for every byte string the address space can hold (short and long length forms) -/
theorem C13_der_roundtrip (b : Bytes) (h : b.length < 2 ^ 64) : octet2Raw (raw2Octet b) = b := der_roundtrip b h

/-- **ECDH public data** (`SoftHSM::getECDHPubData`): whatever the caller passes, the derivation receives an octet string that decodes to the
    caller's own bytes (raw input) or to the content of the caller's octet string; a raw point of a supported curve is never taken for DER -/
theorem C13_ecdh_pubdata (d : Bytes) (h : d.length < 2 ^ 64) :
    octet2Raw (ecdhPubData d) = (if isDerOctet d then octet2Raw d else d) ∧
    ((d.length = 32 ∨ d.length = 56 ∨ d.length = 65 ∨ d.length = 97 ∨ d.length = 133) → octet2Raw (ecdhPubData d) = d) :=
  ⟨ecdhPubData_decodes d h, fun hl => (ecdhPubData_raw_point d hl).2⟩

/-- **the padding helpers of C_WrapKey / C_UnwrapKey are the standard ones**: `RFC5652Pad` is PKCS#7 padding, `RFC5652Unpad` inverts it (and agrees with the
    model's unpadding on every block-aligned input), `RFC3394Pad` is the zero padding to a multiple of eight of CKM_AES_KEY_WRAP -/
theorem C13_padding_helpers (b : Bytes) (bs : Nat) (h0 : 0 < bs) (h1 : bs < 256) :
    rfc5652Pad b bs = pkcs7Pad bs b ∧ rfc5652Unpad (rfc5652Pad b bs) bs = some b ∧ rfc3394Pad b = zeroPad8 b ∧
    (∀ p, p ≠ [] → p.length % bs = 0 → rfc5652Unpad p bs = pkcs7Unpad bs p) :=
  ⟨rfl, pad5652_roundtrip b bs h0 h1, pad3394_eq_model b, fun p hne hm => unpad5652_eq_model p bs h0 hm hne⟩

/-- **unpadding is exact**: what `RFC5652Unpad` accepts is its result followed by `k` bytes of value `k`, `1 ≤ k ≤ blocksize` — nothing else is accepted -/
theorem C13_unpad_sound (p v : Bytes) (bs : Nat) (h : rfc5652Unpad p bs = some v) :
    ∃ k : UInt8, 1 ≤ k.toNat ∧ k.toNat ≤ bs ∧ k.toNat ≤ p.length ∧ p = v ++ List.replicate k.toNat k := unpad5652_sound p v bs h

/-- non-vacuity: a 200-byte string takes the long form `04 81 C8`, an uncompressed P-256 point (65 bytes, first byte 04) is wrapped, not "recognised" -/
example : (raw2Octet (List.replicate 200 7)).take 3 = [0x04, 0x81, 0xC8] ∧ octet2Raw (raw2Octet (List.replicate 200 7)) = List.replicate 200 7 ∧
    ecdhPubData (0x04 :: List.replicate 64 1) = 0x04 :: 0x41 :: 0x04 :: List.replicate 64 1 ∧ rfc5652Unpad [1, 2, 2, 2] 4 = some [1, 2] ∧ rfc5652Unpad [1, 2, 3, 2] 4 = none := by decide +kernel

/-- **`ByteString::bits`** (what CKA_VALUE_BITS of a derived DH key and the key-size checks are computed with) is the bit length of the big-endian number the bytes spell:
    the value is below 2^bits, and at least 2^(bits-1) unless it is zero - for every byte string, leading zero bytes included -/
theorem C13_bits_is_bit_length (b : Bytes) : Shm.Store.beVal b < 2 ^ bits b ∧ (bits b ≠ 0 → 2 ^ (bits b - 1) ≤ Shm.Store.beVal b) := bits_spec b

example : bits [0x00, 0x01, 0xff] = 9 ∧ bits [0x00, 0x00] = 0 ∧ bits [0x80] = 8 := by decide

end Shm.Pure
