/-
  C12 — One active operation per session and an honest output-length protocol.
  About the model of Ops.lean (tie: K12, exhaustive small scope + histories against the library).
-/
import Shm.Model.Machine
import Shm.Lemmas.StepInv
namespace Shm.C12
open Shm

/-! ### one active operation -/

/-- starting a keyed operation while another one is active: CKR_OPERATION_ACTIVE, nothing changes -/
theorem C12_opInit_active (s : State) (kind : InitKind) (h mech : Nat) (p : MParam) (key : Nat) (oRv : RV) (ss : Sess)
    (hs : s.handles.getSess h = some ss) (hop : ss.op ≠ .none) :
    stepOpInit s kind h mech p key oRv = (s, { rv := CKR.OPERATION_ACTIVE }) := by
  have : (ss.op != OpKind.none) = true := by simp [bne_iff_ne]; exact hop
  simp [stepOpInit, initGuards, hs, this, rOnly]

theorem C12_digestInit_active (s : State) (h mech : Nat) (oRv : RV) (ss : Sess)
    (hs : s.handles.getSess h = some ss) (hop : ss.op ≠ .none) :
    stepDigestInit s h mech oRv = (s, { rv := CKR.OPERATION_ACTIVE }) := by
  have : (ss.op != OpKind.none) = true := by simp [bne_iff_ne]; exact hop
  simp [stepDigestInit, hs, this, rOnly]

/-- the same for C_FindObjectsInit -/
theorem C12_findInit_active (s : State) (h : Nat) (tpl : Template) (m : List (Nat × Bytes)) (ss : Sess) (t : Tok)
    (hst : sessTok s h = some (ss, t)) (hop : ss.op ≠ .none) :
    stepFindInit s h tpl m = (s, { rv := CKR.OPERATION_ACTIVE }) := by
  have : (ss.op != OpKind.none) = true := by simp [bne_iff_ne]; exact hop
  simp [stepFindInit, hst, this, rOnly]

/-- continuing an operation of another kind (or none): CKR_OPERATION_NOT_INITIALIZED, nothing changes -/
theorem C12_wrong_kind (s : State) (h : Nat) (ss : Sess) (hs : s.handles.getSess h = some ss) (n : Nat) (cap : Option Nat) (o : OutObs) :
    (ss.op ≠ .encrypt → stepCrypt s true h (some n) cap o.rv o.len o.data = (s, { rv := CKR.OPERATION_NOT_INITIALIZED }) ∧
                        stepCryptUpdate s true h (some n) cap o.rv o.data = (s, { rv := CKR.OPERATION_NOT_INITIALIZED }) ∧
                        stepCryptFinal s true h cap o.rv o.len o.data = (s, { rv := CKR.OPERATION_NOT_INITIALIZED })) ∧
    (ss.op ≠ .decrypt → stepCrypt s false h (some n) cap o.rv o.len o.data = (s, { rv := CKR.OPERATION_NOT_INITIALIZED }) ∧
                        stepCryptUpdate s false h (some n) cap o.rv o.data = (s, { rv := CKR.OPERATION_NOT_INITIALIZED }) ∧
                        stepCryptFinal s false h cap o.rv o.len o.data = (s, { rv := CKR.OPERATION_NOT_INITIALIZED })) ∧
    (ss.op ≠ .sign → stepSignLike s .sign h (some n) cap o.rv o.data = (s, { rv := CKR.OPERATION_NOT_INITIALIZED }) ∧
                     stepUpdateLike s .sign h (some n) o.rv = (s, { rv := CKR.OPERATION_NOT_INITIALIZED }) ∧
                     stepFinalLike s .sign h cap o.rv o.data = (s, { rv := CKR.OPERATION_NOT_INITIALIZED })) ∧
    (ss.op ≠ .digest → stepSignLike s .digest h (some n) cap o.rv o.data = (s, { rv := CKR.OPERATION_NOT_INITIALIZED }) ∧
                       stepUpdateLike s .digest h (some n) o.rv = (s, { rv := CKR.OPERATION_NOT_INITIALIZED }) ∧
                       stepFinalLike s .digest h cap o.rv o.data = (s, { rv := CKR.OPERATION_NOT_INITIALIZED })) ∧
    (ss.op ≠ .find → stepFind s h n = (s, { rv := CKR.OPERATION_NOT_INITIALIZED }) ∧
                     stepFindFinal s h = (s, { rv := CKR.OPERATION_NOT_INITIALIZED })) := by
  refine ⟨?_, ?_, ?_, ?_, ?_⟩ <;> intro hk
  · have : (ss.op != OpKind.encrypt) = true := by simp [bne_iff_ne]; exact hk
    simp [stepCrypt, stepCryptUpdate, stepCryptFinal, hs, this, rOnly]
  · have : (ss.op != OpKind.decrypt) = true := by simp [bne_iff_ne]; exact hk
    simp [stepCrypt, stepCryptUpdate, stepCryptFinal, hs, this, rOnly]
  · have : (ss.op != OpKind.sign) = true := by simp [bne_iff_ne]; exact hk
    simp [stepSignLike, stepUpdateLike, stepFinalLike, hs, this, rOnly]
  · have : (ss.op != OpKind.digest) = true := by simp [bne_iff_ne]; exact hk
    simp [stepSignLike, stepUpdateLike, stepFinalLike, hs, this, rOnly]
  · have : (ss.op != OpKind.find) = true := by simp [bne_iff_ne]; exact hk
    simp [stepFind, stepFindFinal, hs, this, rOnly]

/-! ### the length protocol leaves the operation untouched -/

/-- the shared "report / check / produce" step: a NULL output pointer or a too small buffer changes nothing and reports
    the needed length -/
theorem C12_lenProto_query (s : State) (h : Nat) (ss : Sess) (need : Nat) (produce : State × Resp) :
    lenProto s h ss need none produce = (s, { rv := CKR.OK, nums := [need] }) ∧
    ∀ c, c < need → lenProto s h ss need (some c) produce = (s, { rv := CKR.BUFFER_TOO_SMALL, nums := [need] }) := by
  refine ⟨rfl, ?_⟩
  intro c hc
  simp [lenProto, hc]

/-- close a goal from a hypothesis equating two different return-code constants -/
macro "rv_absurd" : tactic => `(tactic| first
  | (exfalso; rename_i hh; exact absurd hh (by decide))
  | (exfalso; simp_all (config := { decide := true }) ; done))

theorem startOp_fail (s : State) (h : Nat) (ss : Sess) (k : OpKind) (late : Option RV) (d : OpDetail)
    (hf : (startOp s h ss k late d).2.rv ≠ CKR.OK) : (startOp s h ss k late d).1 = s := by
  unfold startOp at *
  cases late <;> simp_all [rOnly]

/-- an `*Init` that does not return CKR_OK leaves everything as it was (in particular no operation becomes active) -/
theorem C12_failed_init_frame (s : State) (kind : InitKind) (h mech : Nat) (p : MParam) (key : Nat) (oRv : RV)
    (hf : (stepOpInit s kind h mech p key oRv).2.rv ≠ CKR.OK) : (stepOpInit s kind h mech p key oRv).1 = s := by
  revert hf
  unfold stepOpInit
  split
  · simp [rOnly]
  · dsimp only
    split <;> (repeat' (first | split | (dsimp only)))
    all_goals first | (intro _; rfl) | exact startOp_fail _ _ _ _ _ _

theorem C12_failed_digestInit_frame (s : State) (h mech : Nat) (oRv : RV)
    (hf : (stepDigestInit s h mech oRv).2.rv ≠ CKR.OK) : (stepDigestInit s h mech oRv).1 = s := by
  revert hf
  unfold stepDigestInit
  repeat' (first | split | (dsimp only))
  all_goals first | (intro _; rfl) | (intro hh; exact absurd rfl hh) | (intro hh; simp_all (config := { decide := true }))

/-- C_EncryptUpdate / C_DecryptUpdate: CKR_BUFFER_TOO_SMALL (and the NULL-pointer query) leave the whole state — the operation
    and the cipher's buffered count included — exactly as it was -/
theorem C12_update_query_frame (s : State) (enc : Bool) (h : Nat) (n : Nat) (cap : Option Nat) (oRv : RV) (od : Option Bytes)
    (hq : (stepCryptUpdate s enc h (some n) cap oRv od).2.rv = CKR.BUFFER_TOO_SMALL ∨
          (cap = none ∧ (stepCryptUpdate s enc h (some n) cap oRv od).2.rv = CKR.OK)) :
    (stepCryptUpdate s enc h (some n) cap oRv od).1 = s := by
  revert hq
  unfold stepCryptUpdate lenProto
  repeat' (first | split | (dsimp only))
  all_goals first
    | (intro _; rfl)
    | (intro hh; rcases hh with hh | ⟨h1, hh⟩ <;> first | (exact absurd hh (by decide)) | (cases h1) | (cases enc <;> exact absurd hh (by decide)) | (simp_all (config := { decide := true })))

set_option maxHeartbeats 1600000 in
/-- C_EncryptFinal / C_DecryptFinal -/
theorem C12_final_query_frame (s : State) (enc : Bool) (h : Nat) (cap : Option Nat) (oRv : RV) (ol : Nat) (od : Option Bytes)
    (hq : (stepCryptFinal s enc h cap oRv ol od).2.rv = CKR.BUFFER_TOO_SMALL ∨
          (cap = none ∧ (stepCryptFinal s enc h cap oRv ol od).2.rv = CKR.OK)) :
    (stepCryptFinal s enc h cap oRv ol od).1 = s := by
  revert hq
  unfold stepCryptFinal lenProto finishOp
  repeat' (first | split | (dsimp only))
  all_goals first
    | (intro _; rfl)
    | (intro hh; rcases hh with hh | ⟨h1, hh⟩ <;> first | (exact absurd hh (by decide)) | (cases h1) | (cases enc <;> exact absurd hh (by decide)) | (simp_all (config := { decide := true })))

/-- C_Sign / C_Digest / C_SignFinal / C_DigestFinal -/
theorem C12_signlike_query_frame (s : State) (kind : OpKind) (h : Nat) (n : Nat) (cap : Option Nat) (oRv : RV) (od : Option Bytes) :
    (((stepSignLike s kind h (some n) cap oRv od).2.rv = CKR.BUFFER_TOO_SMALL ∨
      (cap = none ∧ (stepSignLike s kind h (some n) cap oRv od).2.rv = CKR.OK)) → (stepSignLike s kind h (some n) cap oRv od).1 = s) ∧
    (((stepFinalLike s kind h cap oRv od).2.rv = CKR.BUFFER_TOO_SMALL ∨
      (cap = none ∧ (stepFinalLike s kind h cap oRv od).2.rv = CKR.OK)) → (stepFinalLike s kind h cap oRv od).1 = s) := by
  constructor
  · unfold stepSignLike lenProto finishOp
    repeat' (first | split | (dsimp only))
    all_goals first
      | (intro _; rfl)
      | (intro hh; rcases hh with hh | ⟨h1, hh⟩ <;> first | (exact absurd hh (by decide)) | (cases h1) | (simp_all (config := { decide := true })))
  · unfold stepFinalLike lenProto finishOp
    repeat' (first | split | (dsimp only))
    all_goals first
      | (intro _; rfl)
      | (intro hh; rcases hh with hh | ⟨h1, hh⟩ <;> first | (exact absurd hh (by decide)) | (cases h1) | (simp_all (config := { decide := true })))

/-! ### the reported length is bounded and sufficient -/

/-- C_EncryptUpdate / C_DecryptUpdate: the length reported by a query is at most input + buffered bytes, and the bytes an
    accepted call returns are at most that length -/
theorem C12_update_lengths (c : Cipher) (n : Nat) :
    (if isBlock c then
       (if c.encrypt then ((n + c.buffered) / c.bs) * c.bs
        else (((n + c.buffered) - (if c.padding && (n + c.buffered) ≥ 1 then 1 else 0)) / c.bs) * c.bs)
     else (n + c.buffered)) ≤ n + c.buffered ∧
    updOut c (n + c.buffered) n ≤
      (if isBlock c then
         (if c.encrypt then ((n + c.buffered) / c.bs) * c.bs
          else (((n + c.buffered) - (if c.padding && (n + c.buffered) ≥ 1 then 1 else 0)) / c.bs) * c.bs)
       else (n + c.buffered)) := by
  obtain ⟨enc, bs, mode, pad, tag, buf, lim⟩ := c
  have hdiv : ∀ x : Nat, (x / bs) * bs ≤ x := fun x => Nat.div_mul_le_self x bs
  constructor
  · simp only [isBlock]
    split
    · split
      · exact hdiv _
      · exact Nat.le_trans (hdiv _) (Nat.sub_le _ _)
    · exact Nat.le_refl _
  · simp only [updOut, isBlock]
    by_cases hn : n = 0
    · simp [hn]
    · have hn' : (n == 0) = false := by simp [hn]
      have h1 : 1 ≤ n + buf := by omega
      simp only [hn']
      cases mode <;> cases enc <;> cases pad <;> simp [h1]
      all_goals (try omega)

/-- C_EncryptFinal: what is reported is what is produced, at most buffered + one block + the tag -/
theorem C12_encFinal_bound (c : Cipher) (hbs : 0 < c.bs) :
    (if isBlock c then (if c.padding then ((c.buffered + c.tagBytes + c.bs) / c.bs) * c.bs else c.buffered + c.tagBytes)
     else c.buffered + c.tagBytes) ≤ c.buffered + c.bs + c.tagBytes := by
  split
  · split
    · have := Nat.div_mul_le_self (c.buffered + c.tagBytes + c.bs) c.bs; omega
    · omega
  · omega

/-- single-part C_Encrypt: the reported length is at most input + one block + the tag, and it is exactly what is produced -/
theorem C12_encrypt_bound (c : Cipher) (n : Nat) (hbs : 0 < c.bs) :
    (if isBlock c then (if n % c.bs != 0 then n + c.bs - n % c.bs else if c.padding then n + c.bs else n) else n + c.tagBytes)
      ≤ n + c.bs + c.tagBytes := by
  split
  · split
    · omega
    · split <;> omega
  · omega

/-- **a final call that fails ends the operation**: C_SignFinal / C_VerifyFinal on an active signing / verification operation of a single-part-only mechanism
    (CKM_RSA_PKCS, CKM_RSA_X_509, CKM_ECDSA, CKM_EDDSA, ...) answer CKR_OPERATION_NOT_INITIALIZED and leave the session with NO active operation (`resetOp`), so that the
    next C_SignInit / C_VerifyInit is not refused with CKR_OPERATION_ACTIVE.  (The pinned tree returned the error without ending the operation: repaired, see
    known_findings.txt `fixed:`; the exhaustive call orders of K12 compare exactly this.) -/
theorem C12_final_on_singlepart_ends_operation (s : State) (h : Nat) (ss : Sess) (hs : s.handles.getSess h = some ss) (hm : ss.opd.multi = false)
    (cap : Option Nat) (oRv : RV) (od : Option Bytes) :
    (ss.op = .sign → stepFinalLike s .sign h cap oRv od = (resetOp s h ss, { rv := CKR.OPERATION_NOT_INITIALIZED })) ∧
    (ss.op = .verify → ∀ n sl, stepVerify s false h (some n) (some sl) oRv = (resetOp s h ss, { rv := CKR.OPERATION_NOT_INITIALIZED })) := by
  constructor
  · intro hop
    simp [stepFinalLike, hs, hop, hm]
  · intro hop n sl
    simp [stepVerify, hs, hop, hm]

/-- the session that `resetOp` leaves has no operation -/
theorem C12_resetOp_none (s : State) (h : Nat) (ss : Sess) :
    ∃ ss', (resetOp s h ss).handles = s.handles.setSess h ss' ∧ ss'.op = .none := ⟨_, rfl, rfl⟩

end Shm.C12
