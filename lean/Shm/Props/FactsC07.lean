/-
  C07, tied to the SOURCE TEXT (Gen/EntryFacts.lean): each of the eleven places where a keyed operation starts reads the matching usage attribute, asks `isMechanismPermitted`
  (CKA_ALLOWED_MECHANISMS and slots.mechanisms) and names CKR_KEY_FUNCTION_NOT_PERMITTED and CKR_MECHANISM_INVALID; the three entry points without a key test the
  configured mechanism list; the private-key starts read CKA_ALWAYS_AUTHENTICATE and the data calls ask for the re-authentication flag.
-/
import Shm.Gen.EntryFacts
namespace Shm.FactsC07
open Shm.Gen

def starts : List (String × String) :=
  [("SymEncryptInit", "bool:CKA_ENCRYPT"), ("AsymEncryptInit", "bool:CKA_ENCRYPT"), ("SymDecryptInit", "bool:CKA_DECRYPT"), ("AsymDecryptInit", "bool:CKA_DECRYPT"),
   ("MacSignInit", "bool:CKA_SIGN"), ("AsymSignInit", "bool:CKA_SIGN"), ("MacVerifyInit", "bool:CKA_VERIFY"), ("AsymVerifyInit", "bool:CKA_VERIFY"),
   ("C_WrapKey", "bool:CKA_WRAP"), ("C_UnwrapKey", "bool:CKA_UNWRAP"), ("C_DeriveKey", "bool:CKA_DERIVE")]

theorem T07_starts_check_usage_flag : starts.all (fun p => mentionsDirectly p.1 p.2 && mentionsDirectly p.1 "rv:CKR_KEY_FUNCTION_NOT_PERMITTED") = true := by decide +kernel

theorem T07_starts_check_mechanism_permission : starts.all (fun p => mentionsDirectly p.1 "isMechanismPermitted" && mentionsDirectly p.1 "rv:CKR_MECHANISM_INVALID") = true := by decide +kernel

theorem T07_keyless_entry_points_check_configured_list :
    ["C_DigestInit", "C_GenerateKey", "C_GenerateKeyPair"].all (fun f => mentionsDirectly f "supportedMechanisms" && mentionsDirectly f "rv:CKR_MECHANISM_INVALID") = true := by decide +kernel

theorem T07_always_authenticate_wired :
    ["AsymSignInit", "AsymDecryptInit"].all (fun f => mentionsDirectly f "bool:CKA_ALWAYS_AUTHENTICATE" && mentionsDirectly f "setReAuthentication") = true ∧
    ["AsymSign", "AsymSignUpdate", "AsymSignFinal", "AsymDecrypt"].all (fun f => mentionsDirectly f "getReAuthentication" && mentionsDirectly f "rv:CKR_USER_NOT_LOGGED_IN") = true ∧
    mentionsDirectly "C_Login" "setReAuthentication" = true := by decide +kernel

end Shm.FactsC07
