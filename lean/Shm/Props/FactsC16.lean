/-
  C16 / C17 ("opened without crash or hang"), tied to the SOURCE TEXT (Gen/LockFacts.lean, regenerated on every run by tools/extract_locks.py).
  The library's mutexes are not recursive (OSLockMutex = pthread_mutex_lock on a default mutex; an application's LockMutex need not be either).  A method that calls, inside a
  region it holds its class's mutex in, a method of the same class that takes that mutex never returns.  The loader of the object store runs under such lockers
  (`ObjectFile::refresh`, the error branches for damaged files included), so this is what decides whether a directory with a half-written file can be opened at all.
  The table lists every such call in src/lib; the only one is `commitTransaction -> store(true)`, whose callee takes the mutex in its `!isCommit` branch only
  (that this call returns is exercised by every committed transaction of the suites that run with locking enabled: K16 recovery, K18).
-/
import Shm.Gen.LockFacts
namespace Shm.FactsC16
open Shm.Gen

/-- calls under a held mutex into a method that takes it: none but the commit path -/
theorem T16_no_relock_under_lock :
    relockCalls.all (fun e => e == ("ObjectFile::commitTransaction", "ObjectFile::store", "objectMutex")) = true := by decide +kernel

/-- the table is about something: the source has lock regions, and the extractor still sees the commit path -/
theorem T16_regions_seen : 50 ≤ lockRegions ∧ relockCalls.length = 1 := by decide +kernel

end Shm.FactsC16
