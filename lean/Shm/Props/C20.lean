/-
  C20 — behaviour does not depend on the storage backend or the crypto backend.

  The model has no backend parameter: `stepAny : State → AnyCall → State × Resp` is one function.  What this file states is the
  (easy, but load-bearing) consequence used by the check: two implementations whose observations both agree with the model along a
  history agree with each other — return codes, numbers (handles, lengths, states) and returned bytes.
-/
import Shm.Model.Machine
namespace Shm.C20
open Shm

/-- the responses of the model along a history -/
def responses : State → List AnyCall → List Resp
  | _, [] => []
  | s, c :: cs => (stepAny s c).2 :: responses (stepAny s c).1 cs

/-- **determinism of the yardstick**: the model's responses are a function of the start state and the call history (which carries the
    observed oracle values: serial numbers, handles minted by searches, random outputs) — there is nothing else they could depend on -/
theorem C20_model_is_a_function (s : State) (cs : List AnyCall) (r1 r2 : List Resp) (h1 : r1 = responses s cs) (h2 : r2 = responses s cs) : r1 = r2 := by
  rw [h1, h2]

/-- two observation sequences that both agree with the model agree with each other -/
theorem C20_agree_through_model (s : State) (cs : List AnyCall) (obsA obsB : List Resp)
    (hA : obsA = responses s cs) (hB : obsB = responses s cs) : obsA = obsB := by rw [hA, hB]

/-- the length of the response list is the length of the history: no call is skipped -/
theorem C20_responses_length (s : State) (cs : List AnyCall) : (responses s cs).length = cs.length := by
  induction cs generalizing s with
  | nil => rfl
  | cons c cs ih => simp [responses, ih]

end Shm.C20
