/-
  C20 — behaviour does not depend on the storage backend or the crypto backend.

  The model has no backend parameter: `stepAny : State → AnyCall → State × Resp` is one function.  What this file states is the
  (easy, but load-bearing) consequence used by the check: two implementations whose observations both agree with the model along a
  history agree with each other — return codes, numbers (handles, lengths, states) and returned bytes.
-/
import Shm.Model.Machine
import Shm.Gen.ClassTable
import Shm.Gen.DbKinds
namespace Shm.C20
open Shm

/-- the responses of the model along a history -/
def responses : State → List AnyCall → List Resp
  | _, [] => []
  | s, c :: cs => (stepAny s c).2 :: responses (stepAny s c).1 cs

/-- **determinism of the yardstick**: the model's responses are a function of the start state and the call history (which carries the
    observed oracle values: serial numbers, handles minted by searches, random outputs) — there is nothing else they could depend on -/
theorem C20_model_is_a_function (s : State) (cs : List AnyCall) (r1 r2 : List Resp) (h1 : r1 = responses s cs) (h2 : r2 = responses s cs) : r1 = r2 := by
  rw [h1, h2]

/-- two observation sequences that both agree with the model agree with each other -/
theorem C20_agree_through_model (s : State) (cs : List AnyCall) (obsA obsB : List Resp)
    (hA : obsA = responses s cs) (hB : obsB = responses s cs) : obsA = obsB := by rw [hA, hB]

/-- the length of the response list is the length of the history: no call is skipped -/
theorem C20_responses_length (s : State) (cs : List AnyCall) : (responses s cs).length = cs.length := by
  induction cs generalizing s with
  | nil => rfl
  | cons c cs ih => simp [responses, ih]

/-! ### the SQLite object store knows every attribute the PKCS#11 layer stores (tables regenerated from the source on every run) -/

/-- kind of a default value as the SQLite store's `attributeKind` names it: 1 = akBoolean, 2 = akInteger, 3 = akBinary, 4 = akAttrMap, 5 = akMechSet -/
def kindOf : AVal → Option Nat
  | .bool _ => some 1
  | .ulong _ => some 2
  | .bytes _ _ => some 3
  | .amap _ => some 4
  | .mechs _ => some 5
  | .unk => none

def dbKnows (a : AttrDesc) : Bool := (Gen.dbKinds.lookup a.ty).isSome

def dbKindAgrees (a : AttrDesc) : Bool :=
  match a.dflt.bind kindOf, Gen.dbKinds.lookup a.ty with
  | some k, some k' => k == k'
  | _, _ => true

/-- **every attribute of every object class has a storage kind in the SQLite backend** (an attribute without one is written as nothing and reads back empty after a
    reload: the defect repaired for CKA_DESTROYABLE in 3a6027d and for CKA_PUBLIC_KEY_INFO in the last fix) — checked against `attributeKind()` of DBObject.cpp and
    the class tables of P11Objects.cpp as they are in the tree NOW -/
theorem T20_db_knows_every_attribute : (Gen.classTable.all fun cd => cd.attrs.all dbKnows) = true := by decide +kernel

/-- … and where the class table gives a default value, the SQLite kind is the kind of that value (a Boolean is not stored as a byte string, and so on) -/
theorem T20_db_kinds_agree : (Gen.classTable.all fun cd => cd.attrs.all dbKindAgrees) = true := by decide +kernel

end Shm.C20
