/-
  C10 — cryptographic results are correct, interoperable, and verification is sound.

  What is decided where.  "The token's outputs equal those of an independent implementation of the standard" is decided by K10: the
  reference implementations of Shm/Crypto (written from FIPS 197, FIPS 180-4, SP 800-38A/B/D, RFC 2104, RFC 8017, FIPS 186-4; each
  checked against the standards' vectors) recompute EVERY completed operation of every history — ciphertexts, plaintexts, MACs,
  digests, deterministic signatures; they verify the randomised ones; and the token's accept/reject verdicts on untouched and on
  tampered inputs must equal the reference's.  The theorems here are about the reference itself, for every block function:
  the modes are correct inverses, and feeding a message in pieces is the same as feeding it at once.
-/
import Shm.Lemmas.ModesLemmas
import Shm.Crypto.More
import Shm.Lemmas.DesLemmas
import Shm.Lemmas.RsaPadLemmas
import Shm.Crypto.Ecc
namespace Shm.C10
open Shm.Crypto

/-- CBC decryption undoes CBC encryption (block-aligned messages, any 16-byte IV) -/
theorem C10_cbc_roundtrip {E D : Bytes → Bytes} (h : BlockInv E D) (iv m : Bytes) (hiv : iv.length = 16) (hm : m.length % 16 = 0) :
    cbcDecrypt D iv (cbcEncrypt E iv m) = m := cbc_roundtrip h iv m hiv hm

/-- CBC with PKCS#7 padding (CKM_AES_CBC_PAD) round-trips every message -/
theorem C10_cbc_pad_roundtrip {E D : Bytes → Bytes} (h : BlockInv E D) (iv m : Bytes) (hiv : iv.length = 16) :
    pkcs7Unpad 16 (cbcDecrypt D iv (cbcEncrypt E iv (pkcs7Pad 16 m))) = some m := by
  rw [cbc_roundtrip h iv _ hiv (pkcs7Pad_length 16 m (by decide)), pkcs7_roundtrip 16 m (by decide) (by decide)]

/-- **multi-part = single-part, CBC**: encrypting `a ++ b` is encrypting `a` and then `b` under the last ciphertext block of `a` as IV —
    so any split of the message at block boundaries yields the same ciphertext -/
theorem C10_cbc_pieces (E : Bytes → Bytes) : ∀ (a b : List Bytes) (iv : Bytes),
    cbcEncBlocks E iv (a ++ b) = cbcEncBlocks E iv a ++ cbcEncBlocks E ((cbcEncBlocks E iv a).getLast?.getD iv) b := by
  intro a
  induction a with
  | nil => intro b iv; simp [cbcEncBlocks]
  | cons p rest ih =>
    intro b iv
    simp only [List.cons_append, cbcEncBlocks]
    rw [ih b (E (xorBytes p iv))]
    congr 2
    cases hr : cbcEncBlocks E (E (xorBytes p iv)) rest with
    | nil => simp
    | cons c cs =>
      have hne : ((c :: cs).getLast?).isSome := by simp
      obtain ⟨x, hx⟩ := Option.isSome_iff_exists.mp hne
      simp [List.getLast?_cons_cons, hx]

/-! ### CTR -/

theorem ctrInc_length (bits : Nat) (cb : Bytes) : (ctrInc bits cb).length = 16 := by simp [ctrInc, natToBytes]

theorem ctrStream_length {E : Bytes → Bytes} (hE : ∀ b, b.length = 16 → (E b).length = 16) (bits : Nat) :
    ∀ (n : Nat) (cb : Bytes), cb.length = 16 → (ctrStream E bits n cb).flatten.length = 16 * n := by
  intro n
  induction n with
  | zero => intro _ _; rfl
  | succ n ih =>
    intro cb hcb
    simp only [ctrStream, List.flatten_cons, List.length_append]
    rw [hE cb hcb, ih _ (ctrInc_length bits cb)]; omega

/-- **CTR is its own inverse**: decrypting is encrypting again with the same counter block, for every message length, every counter width -/
theorem C10_ctr_involution {E : Bytes → Bytes} (hE : ∀ b, b.length = 16 → (E b).length = 16) (bits : Nat) (cb m : Bytes) (hcb : cb.length = 16) :
    ctrCrypt E bits cb (ctrCrypt E bits cb m) = m := by
  unfold ctrCrypt
  have hs := ctrStream_length hE bits ((m.length + 15) / 16) cb hcb
  have hlen : (xorBytes m (ctrStream E bits ((m.length + 15) / 16) cb).flatten).length = m.length := by
    rw [xorBytes_length, hs]; omega
  rw [hlen]
  exact xorBytes_cancel m _ (by rw [hs]; omega)

/-! ### GCM -/

/-- **GCM**: authenticated decryption accepts exactly what encryption produced and returns the plaintext — for every IV length, AAD,
    plaintext and every tag length up to 16 bytes -/
theorem C10_gcm_roundtrip {E : Bytes → Bytes} (hE : ∀ b, b.length = 16 → (E b).length = 16) (iv aad pt : Bytes) (tagLen : Nat) (ht : tagLen ≤ 16)
    (hj : (gcmJ0 (bytesToNat (E (List.replicate 16 0))) iv).length = 16) :
    let r := gcmEncrypt E iv aad pt
    gcmDecrypt E iv aad (r.1 ++ r.2.take tagLen) tagLen = some pt := by
  intro r
  have hr1 : r.1 = ctrCrypt E 32 (ctrInc 32 (gcmJ0 (bytesToNat (E (List.replicate 16 0))) iv)) pt := rfl
  have htag : r.2.length = 16 := by
    show (xorBytes (natToBytes _ 16) (E _)).length = 16
    rw [xorBytes_length, hE _ hj]; simp [natToBytes]
  have htl : (r.2.take tagLen).length = tagLen := by rw [List.length_take, htag]; omega
  unfold gcmDecrypt
  have hlen : (r.1 ++ r.2.take tagLen).length = r.1.length + tagLen := by rw [List.length_append, htl]
  have hnot : ¬ (r.1 ++ r.2.take tagLen).length < tagLen := by omega
  simp only [hnot, if_false, hlen, Nat.add_sub_cancel]
  rw [List.take_left' rfl, List.drop_left' rfl]
  have hsame : (xorBytes (natToBytes (ghash (bytesToNat (E (List.replicate 16 0)))
      (pad16 aad ++ pad16 r.1 ++ natToBytes (aad.length * 8) 8 ++ natToBytes (r.1.length * 8) 8)) 16)
      (E (gcmJ0 (bytesToNat (E (List.replicate 16 0))) iv))) = r.2 := rfl
  rw [hsame]
  simp only [beq_self_eq_true, if_true]
  rw [hr1, C10_ctr_involution hE 32 _ pt (ctrInc_length _ _)]
  split
  · omega
  · rfl

/-- PKCS#7 padding: unpad undoes pad; the padded length is a multiple of the block size -/
theorem C10_pkcs7 (bs : Nat) (m : Bytes) (h0 : 0 < bs) (h1 : bs < 256) :
    pkcs7Unpad bs (pkcs7Pad bs m) = some m ∧ (pkcs7Pad bs m).length % bs = 0 := ⟨pkcs7_roundtrip bs m h0 h1, pkcs7Pad_length bs m h0⟩

/-- **DES / triple DES: decryption is the same rounds with the key schedule reversed** - the sixteen Feistel rounds followed by the exchange of the halves are undone
    by the same procedure under the reversed schedule, for EVERY round function and EVERY key schedule (so in particular for `fFun` and `subkeys`; that the
    tables are the FIPS 46-3 ones is validated by execution: the FIPS example vector and every 3DES operation of K10 / K20) -/
theorem C10_feistel_inverse {K : Type} (f : K → UInt32 → UInt32) (ks : List K) (x : UInt32 × UInt32) :
    Shm.Crypto.DES.core f ks.reverse (Shm.Crypto.DES.core f ks x) = x := Shm.Crypto.DES.core_inverse f ks x

/-- **RSA PKCS#1 v1.5 encryption framing**: the reference decoder (which the monitor applies to `c^d mod n` of every RSA ciphertext the token makes, and to which the token's own
    C_Decrypt answers are compared) returns exactly the message from `00 02 PS 00 M`, for every non-zero padding of at least eight bytes; MGF1 never yields more than asked -/
theorem C10_pkcs1_encryption_framing (ps m : Bytes) (h : ∀ b ∈ ps, b ≠ 0) (h8 : 8 ≤ ps.length) (hash : Bytes → Bytes) (seed : Bytes) (len : Nat) :
    Shm.Crypto.emePkcs1Decode (0x00 :: 0x02 :: (ps ++ 0x00 :: m)) = some m ∧ (Shm.Crypto.mgf1 hash seed len).length ≤ len :=
  ⟨Shm.Crypto.pkcs1_type2_roundtrip ps m h h8, Shm.Crypto.mgf1_length_le hash seed len⟩

/-- **RSA-OAEP framing round trip** (RFC 8017 7.1): the reference decoder - which the monitor applies to `c^d mod n` of every OAEP ciphertext the token makes - recovers exactly the message
    the encoder framed, for every message that fits, every seed of hash length, every hash with a fixed non-empty output length (MGF1 then returns exactly what is asked for) -/
theorem C10_oaep_roundtrip (hash mgfHash : Bytes → Bytes) (hLen gLen : Nat) (hg0 : 0 < gLen) (hg : ∀ x, (mgfHash x).length = gLen)
    (m seed : Bytes) (k : Nat) (hseed : seed.length = (hash []).length) (hfit : m.length + 2 * (hash []).length + 2 ≤ k) :
    Shm.Crypto.emeOaepDecode hash mgfHash (Shm.Crypto.emeOaepEncode hash mgfHash m seed k) = some m :=
  Shm.Crypto.oaep_roundtrip hash mgfHash m seed k (fun s n => Shm.Crypto.mgf1_length mgfHash gLen hg0 hg s n) hseed hfit

/-- **RSASSA-PSS encoding round trip** (RFC 8017 9.1): the reference verifier - which the monitor applies to `s^e mod n` of every PSS signature the token makes - accepts every
    encoding the EMSA-PSS encoder produces, for every message hash, every salt, every modulus size in which they fit (`emBits` need not be a multiple of 8: the leftmost
    `8·emLen - emBits` bits are cleared by the encoder and ignored by the verifier), every hash with a fixed non-empty output length -/
theorem C10_pss_roundtrip (hash mgfHash : Bytes → Bytes) (hLen gLen : Nat) (hg0 : 0 < gLen) (hg : ∀ x, (mgfHash x).length = gLen) (hh : ∀ x, (hash x).length = hLen)
    (mHash salt : Bytes) (emBits : Nat) (hm : mHash.length = hLen) (hfit : hLen + salt.length + 2 ≤ (emBits + 7) / 8) :
    Shm.Crypto.emsaPssVerify hash mgfHash mHash (Shm.Crypto.emsaPssEncode hash mgfHash mHash salt emBits) emBits salt.length = true :=
  Shm.Crypto.pss_roundtrip hash mgfHash mHash salt emBits hLen hh (fun s n => Shm.Crypto.mgf1_length mgfHash gLen hg0 hg s n) hm hfit

/-- non-vacuity: a toy hash of two bytes (fixed length, non-empty), a 3-byte salt, a modulus of 61 bits -/
example : Shm.Crypto.emsaPssVerify (fun x => [UInt8.ofNat x.length, x.foldl (· ^^^ ·) 0x5a]) (fun x => [UInt8.ofNat x.length, x.foldl (· + ·) 7])
    [0x11, 0x22] (Shm.Crypto.emsaPssEncode (fun x => [UInt8.ofNat x.length, x.foldl (· ^^^ ·) 0x5a]) (fun x => [UInt8.ofNat x.length, x.foldl (· + ·) 7]) [0x11, 0x22] [9, 8, 7] 61) 61 3 = true := by
  decide +kernel

/-- **ECDSA verification, what is never accepted** (the reference the monitor judges the token's verifications and signatures with, on all eight named curves): a signature whose
    length is not twice the octet length of the group ORDER, a component r or s outside [1, n-1], a public point that is not on the curve -/
theorem C10_ecdsa_reference_guards (c : Shm.Crypto.Curve) (q : Nat × Nat) (hash sig : Bytes) (h : c.ecdsaVerify q hash sig = true) :
    sig.length = 2 * c.orderLen ∧ 0 < Shm.Crypto.bytesToNat (sig.take c.orderLen) ∧ Shm.Crypto.bytesToNat (sig.take c.orderLen) < c.n ∧
    0 < Shm.Crypto.bytesToNat (sig.drop c.orderLen) ∧ Shm.Crypto.bytesToNat (sig.drop c.orderLen) < c.n ∧ c.onCurve (some q) = true :=
  Shm.Crypto.ecdsaVerify_guards c q hash sig h

end Shm.C10
