/-
  C07 — Key usage flags, key type and mechanism restrictions are enforced.
  Model: Ops.lean; tie: K07 = the COMPLETE matrix operation × key kind × usage flag × mechanism × allowed list × configuration
  run against the library, and the generated mechanism registry (Gen.mechTable).
-/
import Shm.Model.Machine
import Shm.Lemmas.StepInv
import Shm.Model.Wrap
import Shm.Lemmas.ConfigLemmas
namespace Shm.C07
open Shm

/-! ### specification tables, written from PKCS#11 (independent of the model's dispatch tables) -/

/-- key types a mechanism may be used with for encryption/decryption -/
def cipherFits : List (Nat × List Nat) :=
  [(0x121, [0x13]), (0x122, [0x13]), (0x125, [0x13]),                                   -- DES
   (0x132, [0x14, 0x15]), (0x133, [0x14, 0x15]), (0x136, [0x14, 0x15]),                 -- DES3 with double/triple length keys
   (0x1081, [0x1F]), (0x1082, [0x1F]), (0x1085, [0x1F]), (0x1086, [0x1F]), (0x1087, [0x1F]),   -- AES
   (0x1, [0x0]), (0x3, [0x0]), (0x9, [0x0])]                                            -- RSA PKCS / X.509 / OAEP

/-- key types a mechanism may be used with for signing/verifying -/
def signFits : List (Nat × List Nat) :=
  [(0x211, [0x10, 0x27]), (0x221, [0x10, 0x28]), (0x256, [0x10, 0x2E]), (0x251, [0x10, 0x2B]), (0x261, [0x10, 0x2C]), (0x271, [0x10, 0x2D]),
   (0x138, [0x14, 0x15]), (0x108A, [0x1F]),
   (0x1, [0x0]), (0x3, [0x0]), (0x5, [0x0]), (0x6, [0x0]), (0x46, [0x0]), (0x40, [0x0]), (0x41, [0x0]), (0x42, [0x0]),
   (0xD, [0x0]), (0xE, [0x0]), (0x47, [0x0]), (0x43, [0x0]), (0x44, [0x0]), (0x45, [0x0]),
   (0x11, [0x1]), (0x12, [0x1]), (0x13, [0x1]), (0x14, [0x1]), (0x15, [0x1]), (0x16, [0x1]),
   (0x1041, [0x3]), (0x1057, [0x40])]

def fits (kind : InitKind) (mech kt : Nat) : Bool :=
  let tbl := match kind with | .encrypt | .decrypt => cipherFits | .sign | .verify => signFits
  match tbl.find? (·.1 == mech) with
  | some (_, kts) => kts.contains kt
  | none => false

theorem tblFind_mem {β} (t : List (Nat × β)) (m : Nat) (x : β) (h : tblFind t m = some x) : (m, x) ∈ t := by
  unfold tblFind at h
  cases hf : t.find? (·.1 == m) with
  | none => simp [hf] at h
  | some e =>
    simp [hf] at h
    have hm := List.mem_of_find?_eq_some hf
    have he := List.find?_some hf
    simp at he
    obtain ⟨a, b⟩ := e
    simp at he h; subst he; subst h; exact hm

/-- the model's dispatch tables agree with the specification tables: every arm, every key type it admits -/
theorem sym_tbl_fits : (symMechTbl.all fun e => e.2.1.all fun kt => fits .encrypt e.1 kt && fits .decrypt e.1 kt) = true := by decide
theorem mac_tbl_fits : (macMechTbl.all fun e => e.2.1.all fun kt => fits .sign e.1 kt && fits .verify e.1 kt) = true := by decide
theorem asymSig_tbl_fits : (asymSigMechTbl.all fun e => fits .sign e.1 e.2.1 && fits .verify e.1 e.2.1) = true := by decide
theorem asymEnc_tbl_fits : (asymEncMechTbl.all fun e => fits .encrypt e.1 e.2 && fits .decrypt e.1 e.2) = true := by decide

theorem sym_fits (m kt : Nat) (x : List Nat × Nat × CMode × Bool) (h : symMech m = some x) (hk : x.1.contains kt = true) :
    fits .encrypt m kt = true ∧ fits .decrypt m kt = true := by
  have hm := tblFind_mem _ _ _ h
  have := sym_tbl_fits
  rw [List.all_eq_true] at this
  have h2 := this _ hm
  rw [List.all_eq_true] at h2
  have h3 := h2 kt (by simpa using hk)
  simpa using h3

theorem mac_fits (m kt : Nat) (x : List Nat × Nat × Nat) (h : macMech m = some x) (hk : x.1.contains kt = true) :
    fits .sign m kt = true ∧ fits .verify m kt = true := by
  have hm := tblFind_mem _ _ _ h
  have := mac_tbl_fits
  rw [List.all_eq_true] at this
  have h2 := this _ hm
  rw [List.all_eq_true] at h2
  have h3 := h2 kt (by simpa using hk)
  simpa using h3

theorem asymSig_fits (m : Nat) (x : Nat × Bool) (h : asymSigMech m = some x) :
    fits .sign m x.1 = true ∧ fits .verify m x.1 = true := by
  have hm := tblFind_mem _ _ _ h
  have := asymSig_tbl_fits
  rw [List.all_eq_true] at this
  simpa using this _ hm

theorem asymEnc_fits (m akt : Nat) (h : asymEncMech m = some akt) :
    fits .encrypt m akt = true ∧ fits .decrypt m akt = true := by
  have hm := tblFind_mem _ _ _ h
  have := asymEnc_tbl_fits
  rw [List.all_eq_true] at this
  simpa using this _ hm

/-- `isMechanismPermitted`: enabled by the configuration AND (no allowed list or listed in it) -/
theorem C07_permitted_iff (cfg : MechCfg) (key : Attrs) (m : Nat) :
    mechPermitted cfg key m = true ↔
      (supportedMechs cfg).contains m = true ∧
      (match getA key 0x40000600 with | some (.mechs l) => l = [] ∨ l.contains m = true | _ => True) := by
  unfold mechPermitted
  cases h : getA key 0x40000600 with
  | none => simp
  | some v => cases v <;> simp [List.isEmpty_iff]

/-- what the guards in front of every keyed start function establish, or which error they produce (never CKR_OK) -/
theorem C07_guards (s : State) (kind : InitKind) (h mech keyH : Nat) :
    (∃ rv, initGuards s kind h mech keyH = .error rv ∧ rv ≠ CKR.OK) ∨
    (∃ ss t key e, initGuards s kind h mech keyH = .ok (ss, t, key) ∧
      s.handles.getSess h = some ss ∧ ss.op = .none ∧ resolveObj s keyH = some (e, key) ∧
      Gen.haveRead (stateOf t ss.rw) key.onToken key.isPriv = CKR.OK ∧
      getBoolD key.attrs kind.usage false = true ∧ mechPermitted s.mechCfg key.attrs mech = true) := by
  unfold initGuards
  cases hs : s.handles.getSess h with
  | none => exact Or.inl ⟨_, rfl, by decide⟩
  | some ss =>
    simp only []
    by_cases hop : (ss.op != OpKind.none) = true
    · simp only [hop, if_true]; exact Or.inl ⟨_, rfl, by decide⟩
    · simp only [hop, if_false, Bool.false_eq_true]
      cases ht : findTok s.slots ss.slot with
      | none => exact Or.inl ⟨_, rfl, by decide⟩
      | some t =>
        simp only []
        cases hres : resolveObj s keyH with
        | none => exact Or.inl ⟨_, rfl, by decide⟩
        | some r =>
          obtain ⟨e, key⟩ := r
          simp only []
          by_cases hacc : (Gen.haveRead (stateOf t ss.rw) key.onToken key.isPriv != CKR.OK) = true
          · simp only [hacc, if_true]; exact Or.inl ⟨_, rfl, by simpa using hacc⟩
          · simp only [hacc, if_false, Bool.false_eq_true]
            by_cases hus : (!getBoolD key.attrs kind.usage false) = true
            · simp only [hus, if_true]; exact Or.inl ⟨_, rfl, by decide⟩
            · simp only [hus, if_false, Bool.false_eq_true]
              by_cases hp : (!mechPermitted s.mechCfg key.attrs mech) = true
              · simp only [hp, if_true]; exact Or.inl ⟨_, rfl, by decide⟩
              · simp only [hp, if_false, Bool.false_eq_true]
                exact Or.inr ⟨ss, t, key, e, rfl, rfl, by simpa using hop, rfl, by simpa using hacc, by simpa using hus, by simpa using hp⟩

/-- C_EncryptInit / C_DecryptInit / C_SignInit / C_VerifyInit succeed ONLY IF the key's usage attribute is true, the key type fits the
    mechanism, the mechanism is enabled by slots.mechanisms and allowed by CKA_ALLOWED_MECHANISMS (when non-empty), no other operation is
    active, and the session may read the key -/
theorem C07_main (s : State) (kind : InitKind) (h mech : Nat) (p : MParam) (keyH : Nat) (oRv : RV)
    (hok : (stepOpInit s kind h mech p keyH oRv).2.rv = CKR.OK) :
    ∃ ss key e, s.handles.getSess h = some ss ∧ ss.op = .none ∧ resolveObj s keyH = some (e, key) ∧
      getBoolD key.attrs kind.usage false = true ∧ mechPermitted s.mechCfg key.attrs mech = true ∧
      fits kind mech (getULongD key.attrs CKA.KEY_TYPE 0x80000000) = true := by
  rcases C07_guards s kind h mech keyH with ⟨rv, hg, hne⟩ | ⟨ss, t, key, e, hg, hs, hop, hres, _, hus, hperm⟩
  · unfold stepOpInit at hok; simp only [hg, rOnly] at hok; exact absurd hok hne
  · refine ⟨ss, key, e, hs, hop, hres, hus, hperm, ?_⟩
    unfold stepOpInit at hok
    simp only [hg] at hok
    cases kind <;> simp only [] at hok
    · -- encrypt
      cases hsm : symMech mech with
      | some x =>
        obtain ⟨kts, bs, mode, pad⟩ := x
        simp only [hsm] at hok
        split at hok
        · simp [rOnly] at hok
        · rename_i hc; exact (sym_fits _ _ _ hsm (by simpa using hc)).1
      | none =>
        simp only [hsm] at hok
        cases ham : asymEncMech mech with
        | some akt =>
          simp only [ham] at hok
          split at hok
          · simp [rOnly] at hok
          · rename_i hc; have : getULongD key.attrs CKA.KEY_TYPE 0x80000000 = akt := by simpa using hc
            rw [this]; exact (asymEnc_fits _ _ ham).1
        | none => simp [ham, rOnly] at hok
    · -- decrypt
      cases hsm : symMech mech with
      | some x =>
        obtain ⟨kts, bs, mode, pad⟩ := x
        simp only [hsm] at hok
        split at hok
        · simp [rOnly] at hok
        · rename_i hc; exact (sym_fits _ _ _ hsm (by simpa using hc)).2
      | none =>
        simp only [hsm] at hok
        cases ham : asymEncMech mech with
        | some akt =>
          simp only [ham] at hok
          split at hok
          · simp [rOnly] at hok
          · rename_i hc; have : getULongD key.attrs CKA.KEY_TYPE 0x80000000 = akt := by simpa using hc
            rw [this]; exact (asymEnc_fits _ _ ham).2
        | none => simp [ham, rOnly] at hok
    · -- sign
      cases hmm : macMech mech with
      | some x =>
        obtain ⟨kts, mn, ml⟩ := x
        simp only [hmm] at hok
        split at hok
        · simp [rOnly] at hok
        · rename_i hc; exact (mac_fits _ _ _ hmm (by simpa using hc)).1
      | none =>
        simp only [hmm] at hok
        cases ham : asymSigMech mech with
        | some x =>
          obtain ⟨akt, multi⟩ := x
          simp only [ham] at hok
          split at hok
          · rename_i hc; simp [rOnly] at hok; simp_all
          · split at hok
            · simp [rOnly] at hok
            · rename_i hc; have : getULongD key.attrs CKA.KEY_TYPE 0x80000000 = akt := by simpa using hc
              rw [this]; exact (asymSig_fits _ _ ham).1
        | none => simp [ham, rOnly] at hok
    · -- verify
      cases hmm : macMech mech with
      | some x =>
        obtain ⟨kts, mn, ml⟩ := x
        simp only [hmm] at hok
        split at hok
        · simp [rOnly] at hok
        · rename_i hc; exact (mac_fits _ _ _ hmm (by simpa using hc)).2
      | none =>
        simp only [hmm] at hok
        cases ham : asymSigMech mech with
        | some x =>
          obtain ⟨akt, multi⟩ := x
          simp only [ham] at hok
          split at hok
          · rename_i hc; simp [rOnly] at hok; simp_all
          · split at hok
            · simp [rOnly] at hok
            · rename_i hc; have : getULongD key.attrs CKA.KEY_TYPE 0x80000000 = akt := by simpa using hc
              rw [this]; exact (asymSig_fits _ _ ham).2
        | none => simp [ham, rOnly] at hok

/-- a mechanism that slots.mechanisms removed is refused by EVERY entry point that takes a mechanism:
    the four keyed start functions, C_DigestInit, C_GenerateKey and C_GenerateKeyPair -/
theorem C07_config (s : State) (mech : Nat) (hno : (supportedMechs s.mechCfg).contains mech = false) :
    (∀ kind h p keyH oRv, (stepOpInit s kind h mech p keyH oRv).2.rv ≠ CKR.OK) ∧
    (∀ h oRv, (stepDigestInit s h mech oRv).2.rv ≠ CKR.OK) ∧
    (∀ h tpl oRv, (stepGenKey s h mech tpl oRv).2.rv ≠ CKR.OK) ∧
    (∀ h pt vt oRv, (stepGenPair s h mech pt vt oRv).2.rv ≠ CKR.OK) := by
  have hno' : mech ∉ supportedMechs s.mechCfg := by simpa using hno
  refine ⟨?_, ?_, ?_, ?_⟩
  · intro kind h p keyH oRv hok
    obtain ⟨_, key, _, _, _, _, _, hperm, _⟩ := C07_main s kind h mech p keyH oRv hok
    unfold mechPermitted at hperm
    simp [hno'] at hperm
  · intro h oRv
    unfold stepDigestInit
    cases s.handles.getSess h with
    | none => simp [rOnly]
    | some ss => simp only []; split <;> simp [rOnly, hno']
  · intro h tpl oRv
    unfold stepGenKey
    cases s.handles.getSess h with
    | none => simp [rOnly]
    | some ss => simp [rOnly, hno']
  · intro h pt vt oRv
    unfold stepGenPair
    cases s.handles.getSess h with
    | none => simp [rOnly]
    | some ss => simp [rOnly, hno']

/-- CKA_ALWAYS_AUTHENTICATE: while re-authentication is pending, C_Sign / C_SignUpdate / C_SignFinal / C_Decrypt end the operation
    with CKR_USER_NOT_LOGGED_IN and return neither a length nor a byte — for every buffer, the size query included -/
theorem C07_reauth (s : State) (h : Nat) (ss : Sess) (hs : s.handles.getSess h = some ss) (hre : ss.opd.reauth = true)
    (n : Nat) (cap : Option Nat) (oRv : RV) (ol : Nat) (od : Option Bytes) :
    (ss.op = .sign → ss.opd.single = true → stepSignLike s .sign h (some n) cap oRv od = (resetOp s h ss, { rv := CKR.USER_NOT_LOGGED_IN })) ∧
    (ss.op = .sign → ss.opd.multi = true → stepUpdateLike s .sign h (some n) oRv = (resetOp s h ss, { rv := CKR.USER_NOT_LOGGED_IN })) ∧
    (ss.op = .sign → ss.opd.multi = true → stepFinalLike s .sign h cap oRv od = (resetOp s h ss, { rv := CKR.USER_NOT_LOGGED_IN })) ∧
    (ss.op = .decrypt → ss.opd.sym = none → ss.opd.single = true →
      stepCrypt s false h (some n) cap oRv ol od = (resetOp s h ss, { rv := CKR.USER_NOT_LOGGED_IN })) := by
  refine ⟨?_, ?_, ?_, ?_⟩
  · intro hop hsg; simp [stepSignLike, hs, hop, hsg, hre]
  · intro hop hm; simp [stepUpdateLike, hs, hop, hm, hre]
  · intro hop hm; simp [stepFinalLike, hs, hop, hm, hre]
  · intro hop hsym hsg; simp [stepCrypt, hs, hop, hsym, hsg, hre]

/-! ### wrap / unwrap / derive: ONLY-IF — a call that succeeds had the flag, the mechanism was allowed for the key and configured -/

theorem wrapParamErr_ne_ok (mech : Nat) (p : MParam) (oRv e : RV) (h : wrapParamErr mech p oRv = some e) : e ≠ CKR.OK := by
  unfold wrapParamErr at h
  repeat' (split at h)
  all_goals (simp only [Option.some.injEq, reduceCtorEq] at h)
  all_goals (subst h)
  all_goals (first | decide | skip)
  rename_i hc
  intro he
  rw [he] at hc
  exact absurd hc (by decide)

/-- a guard that refuses with a constant code other than CKR_OK: a successful call did not take it -/
theorem ite_refuse {c : Prop} [Decidable c] (s : State) (e : RV) (x : State × Resp) (he : e ≠ CKR.OK)
    (h : (if c then rOnly s e else x).2.rv = CKR.OK) : ¬c ∧ x.2.rv = CKR.OK := by
  by_cases hc : c
  · rw [if_pos hc] at h; exact absurd h he
  · rw [if_neg hc] at h; exact ⟨hc, h⟩

/-- a guard that passes an access-check code through when it is not CKR_OK -/
theorem ite_refuse_acc (s : State) (a : RV) (x : State × Resp)
    (h : (if (a != CKR.OK) = true then rOnly s a else x).2.rv = CKR.OK) : a = CKR.OK ∧ x.2.rv = CKR.OK := by
  by_cases hc : (a != CKR.OK) = true
  · rw [if_pos hc] at h
    have : a = CKR.OK := h
    rw [this] at hc; exact absurd hc (by decide)
  · rw [if_neg hc] at h; exact ⟨by simpa using hc, h⟩

/-- **C_WrapKey succeeds only if** the wrapping key has CKA_WRAP, the mechanism is permitted for it (CKA_ALLOWED_MECHANISMS and slots.mechanisms), the key to be wrapped
    is CKA_EXTRACTABLE, and a CKA_WRAP_WITH_TRUSTED key is wrapped under a CKA_TRUSTED key only -/
theorem C07_wrap_only_if (s : State) (h mech : Nat) (p : MParam) (wkH keyH : Nat) (cap : Option Nat) (oRv : RV) (oLen : Nat) (oData : Option Bytes)
    (hok : (stepWrap s h mech p wkH keyH cap oRv oLen oData).2.rv = CKR.OK) :
    ∃ e1 wk e2 key, resolveObj s wkH = some (e1, wk) ∧ resolveObj s keyH = some (e2, key) ∧
      getBoolD wk.attrs CKA.WRAP false = true ∧ mechPermitted s.mechCfg wk.attrs mech = true ∧
      getBoolD key.attrs CKA.EXTRACTABLE false = true ∧
      (getBoolD key.attrs 0x210 false = true → getBoolD wk.attrs CKA.TRUSTED false = true) := by
  unfold stepWrap at hok
  split at hok
  · simp only [rOnly] at hok; exact absurd hok (by decide)
  split at hok
  · rename_i e he; exact absurd hok (wrapParamErr_ne_ok _ _ _ _ he)
  split at hok
  · simp only [rOnly] at hok; exact absurd hok (by decide)
  split at hok
  · simp only [rOnly] at hok; exact absurd hok (by decide)
  rename_i e1 wk hwk
  extract_lets st acc wcls rsaMech at hok
  obtain ⟨_, hok⟩ := ite_refuse_acc _ _ _ hok
  obtain ⟨_, hok⟩ := ite_refuse _ _ _ (by decide) hok
  obtain ⟨_, hok⟩ := ite_refuse _ _ _ (by decide) hok
  obtain ⟨_, hok⟩ := ite_refuse _ _ _ (by decide) hok
  obtain ⟨_, hok⟩ := ite_refuse _ _ _ (by decide) hok
  obtain ⟨hwrap, hok⟩ := ite_refuse _ _ _ (by decide) hok
  obtain ⟨hperm, hok⟩ := ite_refuse _ _ _ (by decide) hok
  split at hok
  · simp only [rOnly] at hok; exact absurd hok (by decide)
  rename_i e2 key hkey
  extract_lets acc2 at hok
  obtain ⟨_, hok⟩ := ite_refuse_acc _ _ _ hok
  obtain ⟨hextr, hok⟩ := ite_refuse _ _ _ (by decide) hok
  obtain ⟨htrust, hok⟩ := ite_refuse _ _ _ (by decide) hok
  refine ⟨e1, wk, e2, key, hwk, hkey, ?_, ?_, ?_, ?_⟩
  · simpa using hwrap
  · simpa using hperm
  · simpa using hextr
  · intro hw; simpa [hw] using htrust

theorem unwrapParamErr_ne_ok (mech : Nat) (p : MParam) (n : Nat) (oRv e : RV) (h : unwrapParamErr mech p n oRv = some e) : e ≠ CKR.OK := by
  unfold unwrapParamErr at h
  repeat' (split at h)
  all_goals (simp only [Option.some.injEq, reduceCtorEq] at h)
  all_goals (subst h)
  all_goals (first | decide | skip)
  all_goals (rename_i hc; intro he; rw [he] at hc; exact absurd hc (by decide))

/-- **C_UnwrapKey succeeds only if** the unwrapping key has CKA_UNWRAP and the mechanism is permitted for it -/
theorem C07_unwrap_only_if (s : State) (h mech : Nat) (p : MParam) (ukH : Nat) (blob : Option Bytes) (tpl : Template) (oRv : RV)
    (hok : (stepUnwrap s h mech p ukH blob tpl oRv).2.rv = CKR.OK) :
    ∃ e1 uk, resolveObj s ukH = some (e1, uk) ∧ getBoolD uk.attrs CKA.UNWRAP false = true ∧ mechPermitted s.mechCfg uk.attrs mech = true := by
  unfold stepUnwrap at hok
  split at hok
  · simp only [rOnly] at hok; exact absurd hok (by decide)
  split at hok
  · simp only [rOnly] at hok; exact absurd hok (by decide)
  split at hok
  · rename_i e he; exact absurd hok (unwrapParamErr_ne_ok _ _ _ _ _ he)
  split at hok
  · simp only [rOnly] at hok; exact absurd hok (by decide)
  split at hok
  · simp only [rOnly] at hok; exact absurd hok (by decide)
  rename_i e1 uk huk
  extract_lets st acc ucls ukt rsaMech at hok
  obtain ⟨_, hok⟩ := ite_refuse_acc _ _ _ hok
  obtain ⟨_, hok⟩ := ite_refuse _ _ _ (by decide) hok
  obtain ⟨_, hok⟩ := ite_refuse _ _ _ (by decide) hok
  obtain ⟨_, hok⟩ := ite_refuse _ _ _ (by decide) hok
  obtain ⟨hunwrap, hok⟩ := ite_refuse _ _ _ (by decide) hok
  obtain ⟨hperm, hok⟩ := ite_refuse _ _ _ (by decide) hok
  exact ⟨e1, uk, huk, by simpa using hunwrap, by simpa using hperm⟩

/-- **C_DeriveKey succeeds only if** the base key has CKA_DERIVE, the mechanism is a derivation mechanism and is permitted for the key -/
theorem C07_derive_only_if (s : State) (h mech : Nat) (p : MParam) (bkH : Nat) (tpl : Template) (oRv : RV)
    (hok : (stepDerive s h mech p bkH tpl oRv).2.rv = CKR.OK) :
    ∃ e1 bk, resolveObj s bkH = some (e1, bk) ∧ getBoolD bk.attrs CKA.DERIVE false = true ∧ mechPermitted s.mechCfg bk.attrs mech = true ∧
      deriveMechs.contains mech = true := by
  unfold stepDerive at hok
  split at hok
  · simp only [rOnly] at hok; exact absurd hok (by decide)
  obtain ⟨hmech, hok⟩ := ite_refuse _ _ _ (by decide) hok
  split at hok
  · simp only [rOnly] at hok; exact absurd hok (by decide)
  split at hok
  · simp only [rOnly] at hok; exact absurd hok (by decide)
  rename_i e1 bk hbk
  extract_lets st acc at hok
  obtain ⟨_, hok⟩ := ite_refuse_acc _ _ _ hok
  obtain ⟨hder, hok⟩ := ite_refuse _ _ _ (by decide) hok
  obtain ⟨hperm, hok⟩ := ite_refuse _ _ _ (by decide) hok
  exact ⟨e1, bk, hbk, by simpa using hder, by simpa using hperm, by simpa using hmech⟩

end Shm.C07

/-! ### from the configuration file to the mechanism filter -/
namespace Shm.Pure.Config
open Shm

/-- **`slots.mechanisms = <list>` reaches the mechanism filter verbatim**: a configuration file consisting of that one line yields exactly the string setting `slots.mechanisms`
    with exactly the list as written (which `parseMechCfg` / `supportedMechs` of the state model then interpret, and the K07 matrices exercise) -/
theorem C07_conf_mechanisms_line (v : Bytes) (hv : PlainTok v) (hlen : v.length < 990) :
    (load (keyBytes "slots.mechanisms" ++ [0x20, 0x3d, 0x20] ++ v ++ [0x0a])).get "slots.mechanisms" = some (.str v) := by
  have hk : typeOf (keyBytes "slots.mechanisms") = some ("slots.mechanisms", .str) := by decide +kernel
  have hkp : PlainTok (keyBytes "slots.mechanisms") := by
    constructor
    · decide +kernel
    · decide +kernel
  have hl : (keyBytes "slots.mechanisms").length = 16 := by decide +kernel
  exact load_single_string "slots.mechanisms" v hk hkp hv (by rw [hl]; omega)

example : PlainTok ("-CKM_SHA256,CKM_AES_KEY_GEN".toUTF8.toList) := by constructor <;> decide +kernel

end Shm.Pure.Config
