/-
  C08 — Attribute policy: read-only, one-way and history attributes hold.
  Statements over the GENERATED class table / update programs and the model's entry points.
-/
import Shm.Props.C02
namespace Shm.C08
open Shm

/-! ### the object-level gates -/

section
variable (s : State) (h o : Nat) (ss : Sess) (t : Tok) (e : ObjH) (ob : Obj)
variable (hi : s.initialised = true) (hst : sessTok s h = some (ss, t)) (hres : resolveObj s o = some (e, ob))
include hi hst hres

/-- CKA_MODIFIABLE = false: C_SetAttributeValue answers CKR_ACTION_PROHIBITED (when access is granted at all) and changes nothing -/
theorem C08_modifiable_gate (tpl : Template) (oe : RV) (hm : getBoolD ob.attrs CKA.MODIFIABLE true = false)
    (hacc : Gen.haveWrite (stateOf t ss.rw) ob.onToken ob.isPriv = CKR.OK) :
    step s (.setAttr h o tpl oe) = (s, { rv := CKR.ACTION_PROHIBITED }) := by
  simp [step, guardInit, hi, stepSetAttr, hst, hres, hacc, hm, rOnly]

/-- CKA_COPYABLE = false: C_CopyObject answers CKR_ACTION_PROHIBITED and changes nothing -/
theorem C08_copyable_gate (tpl : Template) (oe : RV) (hm : getBoolD ob.attrs CKA.COPYABLE true = false)
    (hacc : Gen.haveRead (stateOf t ss.rw) ob.onToken ob.isPriv = CKR.OK) :
    step s (.copy h o tpl oe) = (s, { rv := CKR.ACTION_PROHIBITED }) := by
  simp [step, guardInit, hi, stepCopy, hst, hres, hacc, hm, rOnly]

/-- CKA_DESTROYABLE = false: C_DestroyObject answers CKR_ACTION_PROHIBITED and changes nothing -/
theorem C08_destroyable_gate (hm : getBoolD ob.attrs CKA.DESTROYABLE true = false)
    (hacc : Gen.haveWrite (stateOf t ss.rw) ob.onToken ob.isPriv = CKR.OK) :
    step s (.destroy h o) = (s, { rv := CKR.ACTION_PROHIBITED }) := by
  simp [step, guardInit, hi, stepDestroy, hst, hres, hacc, hm, rOnly]

/-- copying cannot turn a private object public: CKR_TEMPLATE_INCONSISTENT, nothing changes -/
theorem C08_copy_private_to_public (tpl : Template) (oe : RV) (hp : ob.isPriv = true) (htp : tplBool tpl CKA.PRIVATE = some false)
    (hacc : Gen.haveRead (stateOf t ss.rw) ob.onToken ob.isPriv = CKR.OK) (hc : getBoolD ob.attrs CKA.COPYABLE true = true) :
    step s (.copy h o tpl oe) = (s, { rv := CKR.TEMPLATE_INCONSISTENT }) := by
  simp [step, guardInit, hi, stepCopy, hst, hres, hacc, hc, htp, rOnly]
  simp [hp]

end

/-! ### CKA_TRUSTED can be set true only by the SO -/

theorem trusted_tbl (op : Nat) (hop : op ∈ [OP.COPY, OP.CREATE, OP.DERIVE, OP.GENERATE, OP.SET, OP.UNWRAP]) :
    C02.allClassesPreserve op (some false) CKA.TRUSTED false = true := by
  simp only [List.mem_cons, List.mem_nil_iff, or_false] at hop
  rcases hop with rfl | rfl | rfl | rfl | rfl | rfl <;> decide +kernel

/-- for every class, every operation kind and every template: while the SO is NOT logged in an accepted template
    leaves CKA_TRUSTED = false as it was (so it becomes true only in an SO session) -/
theorem C08_trusted_only_by_so (cd : ClassDesc) (hcd : cd ∈ Gen.classTable) (op : Nat)
    (hop : op ∈ [OP.COPY, OP.CREATE, OP.DERIVE, OP.GENERATE, OP.SET, OP.UNWRAP])
    (o o' : Attrs) (tpl : Template) (isPriv : Bool) (oRv : RV)
    (hk : Knows o CKA.TRUSTED false)
    (h : saveTemplate cd o tpl op isPriv false oRv = .ok o') : Knows o' CKA.TRUSTED false := by
  have hall := trusted_tbl op hop
  unfold C02.allClassesPreserve at hall
  rw [List.all_eq_true] at hall
  exact saveTemplate_preserves cd op isPriv false (some false) (fun b hb => by cases hb; rfl) CKA.TRUSTED false (hall cd hcd) oRv tpl o o' hk h

/-- … and the SO can, at creation (the theorem above is not true for the wrong reason); in this code base CKA_TRUSTED
    carries no footnote 8, so after creation nobody can change it -/
example :
    (applyEntries Gen.cls_PUB_RSA OP.CREATE false true 0 [⟨CKA.TRUSTED, some [1], 1, none⟩] (initAttrs Gen.cls_PUB_RSA)).1 = CKR.OK ∧
    Knows (applyEntries Gen.cls_PUB_RSA OP.CREATE false true 0 [⟨CKA.TRUSTED, some [1], 1, none⟩] (initAttrs Gen.cls_PUB_RSA)).2 CKA.TRUSTED true ∧
    (applyEntries Gen.cls_PUB_RSA OP.CREATE false false 0 [⟨CKA.TRUSTED, some [1], 1, none⟩] (initAttrs Gen.cls_PUB_RSA)).1 = CKR.ATTRIBUTE_READ_ONLY := by
  decide +kernel

/-! ### the history attributes cannot be supplied by the caller -/

def historyAttrs : List Nat := [CKA.LOCAL, CKA.KEY_GEN_MECHANISM, CKA.ALWAYS_SENSITIVE, CKA.NEVER_EXTRACTABLE]

def isHistory (ty : Nat) : Bool := historyAttrs.contains ty

/-- in every class their `updateAttr` can never succeed -/
theorem history_tbl :
    (Gen.classTable.all fun cd => cd.attrs.all fun d => !isHistory d.ty || attrNeverOk d) = true := by
  decide +kernel

/-- for every class, every operation kind (create, generate, unwrap, derive, set, copy — any `op` at all) and every
    template that names CKA_LOCAL, CKA_KEY_GEN_MECHANISM, CKA_ALWAYS_SENSITIVE or CKA_NEVER_EXTRACTABLE at ANY position,
    mixed with any other attributes: the template is rejected (and by C09 nothing is stored) -/
theorem C08_history_unsuppliable (cd : ClassDesc) (hcd : cd ∈ Gen.classTable) (op : Nat) (o : Attrs) (tpl : Template)
    (isPriv soIn : Bool) (oRv : RV) (hh : ∃ e ∈ tpl, isHistory e.ty = true) :
    ∃ rv, saveTemplate cd o tpl op isPriv soIn oRv = .error rv := by
  apply saveTemplate_rejects cd op isPriv soIn oRv isHistory _ tpl o hh
  intro d hd hb
  have := history_tbl
  rw [List.all_eq_true] at this
  have h2 := this cd hcd
  rw [List.all_eq_true] at h2
  have h3 := h2 d hd
  simpa [hb] using h3

/-- what C_CreateObject writes itself: CKA_LOCAL = false, and for secret/private keys CKA_ALWAYS_SENSITIVE = false,
    CKA_NEVER_EXTRACTABLE = false (an imported key was not generated here and was once outside) -/
theorem C08_created_history (cls : Nat) (o : Attrs) (hk : cls = CKO.SECRET_KEY ∨ cls = CKO.PRIVATE_KEY) :
    Knows (postCreate cls o) CKA.LOCAL false ∧ Knows (postCreate cls o) CKA.ALWAYS_SENSITIVE false ∧
    Knows (postCreate cls o) CKA.NEVER_EXTRACTABLE false := by
  rcases hk with rfl | rfl
  all_goals
    simp only [postCreate]
    refine ⟨?_, ?_, ?_⟩
    · exact (Knows.setA_other (Knows.setA_other (Knows.setA_same _ _ _) _ _ (by decide)) _ _ (by decide))
    · exact (Knows.setA_other (Knows.setA_same _ _ _) _ _ (by decide))
    · exact Knows.setA_same _ _ _

/-- read-only attributes: CKA_CLASS / CKA_KEY_TYPE / CKA_TOKEN / CKA_PRIVATE / CKA_MODIFIABLE … are rejected by
    C_SetAttributeValue in every class (their footnotes do not allow a change after creation); checked on the generated
    programs for a concrete value of each kind, for all 25 classes -/
def setRejected (cd : ClassDesc) (ty : Nat) (v : Bytes) : Bool :=
  match saveTemplate cd (initAttrs cd) [⟨ty, some v, v.length, none⟩] OP.SET false false 0 with
  | .error _ => true
  | .ok _ => false

theorem C08_readonly_on_set :
    (Gen.classTable.all fun cd =>
      setRejected cd CKA.CLASS (ulongLE (cd.cls + 1)) && setRejected cd CKA.TOKEN [1] && setRejected cd CKA.PRIVATE [0] &&
      setRejected cd CKA.MODIFIABLE [0] && setRejected cd CKA.DESTROYABLE [0] &&
      (cd.cls == CKO.DATA || cd.cls == CKO.CERTIFICATE || setRejected cd CKA.KEY_TYPE (ulongLE (cd.keyType + 1)))) = true := by
  decide +kernel

end Shm.C08
