/-
  C08: the object life-cycle flags are consulted, tied to the SOURCE TEXT of src/lib/SoftHSM.cpp (table Gen/EntryFacts.lean, regenerated on every run by tools/extract_facts.py).
-/
import Shm.Gen.EntryFacts
namespace Shm.FactsC08
open Shm.Gen

theorem T08_life_cycle_flags_consulted :
    (mentionsDirectly "C_SetAttributeValue" "bool:CKA_MODIFIABLE" && mentionsDirectly "C_CopyObject" "bool:CKA_COPYABLE" && mentionsDirectly "C_DestroyObject" "bool:CKA_DESTROYABLE" &&
     ["C_SetAttributeValue", "C_CopyObject", "C_DestroyObject"].all (fun f => mentionsDirectly f "rv:CKR_ACTION_PROHIBITED")) = true := by decide +kernel

/-- every derivation function takes the derived key's history attributes from the BASE key's history attributes (CKA_ALWAYS_SENSITIVE, CKA_NEVER_EXTRACTABLE), not from its current flags -/
theorem T08_derivations_read_history_attributes :
    ["deriveDH", "deriveECDH", "deriveEDDSA", "deriveSymmetric"].all (fun f =>
      mentionsDirectly f "bool:CKA_ALWAYS_SENSITIVE" && mentionsDirectly f "bool:CKA_NEVER_EXTRACTABLE") = true := by decide +kernel

end Shm.FactsC08
