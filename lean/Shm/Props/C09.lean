/-
  C09 — A call that fails has no effect on objects.
-/
import Shm.Lemmas.StepInv
namespace Shm.C09
open Shm

/-- the object-management calls of the model -/
def isObjectCall : Call → Bool
  | .create _ _ _ | .copy _ _ _ _ | .setAttr _ _ _ _ | .destroy _ _ => true
  | _ => false

/-- A failing object-management call changes nothing at all: not the objects (their set and every attribute
    value), not the handle table, not the tokens.  The template may be invalid at any position: `saveTemplate`
    either commits the whole template or reports the error and the object keeps its attributes. -/
theorem C09_failed_call_frame (s : State) (c : Call) (hc : isObjectCall c = true)
    (hf : (step s c).2.rv ≠ CKR.OK) : (step s c).1 = s := by
  revert hf
  cases c <;> simp only [isObjectCall] at hc <;> simp only [step, guardInit]
  all_goals (first | contradiction | skip)
  all_goals (split; · simp [rOnly])
  case create => unfold stepCreate addObject; step_cases <;> simp [rOnly]
  case copy => unfold stepCopy addObject; step_cases <;> simp [rOnly]
  case setAttr => unfold stepSetAttr; step_cases <;> simp [rOnly]
  case destroy => unfold stepDestroy; step_cases <;> simp [rOnly]

/-- `saveTemplate` never hands back a partially applied template: on an error it returns only the code -/
theorem C09_saveTemplate_all_or_nothing (cd : ClassDesc) (o : Attrs) (tpl : Template) (op : Nat) (p so : Bool) (oRv : RV) :
    (∃ rv, saveTemplate cd o tpl op p so oRv = .error rv) ∨
    (∃ o', saveTemplate cd o tpl op p so oRv = .ok o' ∧ (applyEntries cd op p so oRv tpl o) = (CKR.OK, o')) := by
  unfold saveTemplate
  split
  · exact Or.inl ⟨_, rfl⟩
  · split
    · exact Or.inl ⟨_, rfl⟩
    · dsimp only
      split
      · exact Or.inl ⟨_, rfl⟩
      · split
        · exact Or.inl ⟨_, rfl⟩
        · rename_i h _
          refine Or.inr ⟨_, rfl, ?_⟩
          have : (applyEntries cd op p so oRv tpl o).1 = CKR.OK := by simpa using h
          rw [← this]

end Shm.C09
