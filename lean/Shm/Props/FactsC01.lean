/-
  C01, tied to the SOURCE TEXT of src/lib/SoftHSM.cpp (table Gen/EntryFacts.lean, regenerated on every run by tools/extract_facts.py):
  every entry point that takes an object handle consults the access matrix (`haveRead` / `haveWrite`) for the object, in its own body or in a helper it calls directly.
  What the matrix answers is Gen/Access.lean (C01_matrix theorems); that the answer is obeyed is what the K01 suites compare.
-/
import Shm.Gen.EntryFacts
namespace Shm.FactsC01
open Shm.Gen

/-- the calls that read through an object handle -/
def readers : List String := ["C_GetAttributeValue", "C_CopyObject", "C_WrapKey", "C_UnwrapKey", "C_DeriveKey", "C_DigestKey",
  "SymEncryptInit", "AsymEncryptInit", "SymDecryptInit", "AsymDecryptInit", "MacSignInit", "AsymSignInit", "MacVerifyInit", "AsymVerifyInit"]

/-- the calls that create, change or destroy an object -/
def writers : List String := ["C_SetAttributeValue", "C_CopyObject", "C_DestroyObject", "CreateObject", "C_GenerateKey", "C_GenerateKeyPair", "C_UnwrapKey", "C_DeriveKey"]

theorem T01_readers_consult_the_access_matrix : readers.all (fun f => mentions f "haveRead") = true := by decide +kernel

theorem T01_writers_consult_the_access_matrix : writers.all (fun f => mentions f "haveWrite") = true := by decide +kernel

/-- every one of them also refuses a stale object (`isValid`) and names the refusal code of the private / read-only case -/
theorem T01_access_refusals_named : (readers ++ writers).all (fun f => mentions f "isValid" || f == "CreateObject") = true ∧
    (writers.all fun f => mentions f "rv:CKR_USER_NOT_LOGGED_IN" || mentions f "rv:CKR_SESSION_READ_ONLY" || mentions f "haveWrite") = true := by decide +kernel

/-- C_Logout purges the handles of private objects -/
theorem T01_logout_purges : mentions "C_Logout" "tokenLoggedOut" = true := by decide +kernel

end Shm.FactsC01
