/-
  C06 — private objects are encrypted at rest under a key only a PIN unlocks.

  Model side: `AVal.bytes v enc` records whether a byte string is stored through `token->encrypt` (IV ‖ AES-256-CBC under the token
  key).  The update programs are TRANSLATED from P11Attributes.cpp on every run; the theorems below show that none of them — and no
  creation path of SoftHSM.cpp that the model has — can leave a non-empty byte string of a private object unencrypted.
  Code side (K06): the Lean driver decodes the real token directory after every few calls: every non-empty byte string of every
  private object must be IV ‖ ciphertext of the right length, must differ from its plaintext, and must decrypt — with the Lean AES,
  under the key obtained by opening the PIN blob with the Lean PBE — to the value the API returns; the token key itself must occur
  nowhere in the directory; public objects are stored in the clear (so the check is not vacuous); no file mode bit lies inside
  objectstore.umask.
-/
import Shm.Lemmas.EncInv
namespace Shm.C06
open Shm

/-- **T06** (regenerated tables): in every object class every attribute's `updateAttr`, as translated from the source of this run, stores
    byte strings only through the encrypting pattern `P11Attribute::updateAttr` (or a named idiom built on it), the generic
    `P11Attribute::update` contains no byte-string store at all, and no default value is a non-empty byte string -/
theorem T06_sites :
    Gen.classTable.all (fun cd => classNoPlain cd && encOKb (initAttrs cd)) = true ∧ noPlain Gen.genericUpdate = true :=
  ⟨classTable_noPlain, genericUpdate_noPlain⟩

/-- **C06, invariant**: in every state reachable by any history of the complete machine (object creation, copy with public→private
    upgrade, attribute changes, key and key-pair generation, PIN changes, token re-initialisation, restarts, cryptographic calls),
    every non-empty byte-string attribute of a private object is stored encrypted — and of a public object in the clear -/
theorem C06_encrypted_at_rest (cs : List AnyCall) (o : Obj) (ho : o ∈ (runAny {} cs).objs) (ty : Nat) (v : Bytes) (enc : Bool)
    (hm : (ty, AVal.bytes v enc) ∈ o.attrs) (hne : v ≠ []) : enc = o.isPriv :=
  encInv_reachable cs o ho ty v enc hm hne

/-- one step, from any state satisfying the invariants (for use with histories that do not start at the empty state) -/
theorem C06_step (s : State) (c : AnyCall) (h1 : OidInv s) (h2 : OidNodup s) (h3 : EncInv s) :
    OidInv (stepAny s c).1 ∧ OidNodup (stepAny s c).1 ∧ EncInv (stepAny s c).1 :=
  ⟨oidInv_of_evolves h1 (evolves_stepAny s c), nodupStep_stepAny s c h1 h2, (encStep_stepAny s h2 h3 c).inv h3⟩

/-- the public→private upgrade of C_CopyObject re-encrypts what it copies: the only direction a copy can change privacy -/
theorem C06_copy_upgrade (o : Attrs) (h : EncOK false o) : EncOK true (copyAttrs o false true) :=
  encOK_copyAttrs h (by simp)

/-- **file and directory modes**: `open(path, flags, 0666 & ~umask)` / `mkdir(path, 0777 & ~umask)` (File.cpp, Directory.cpp) can set no
    bit inside the configured umask — for every umask and every base mode -/
theorem C06_mode (base umask : BitVec 12) : (base &&& ~~~umask) &&& umask = 0#12 := by
  ext i
  simp

/-- non-vacuity: a private data object created through the model's C_CreateObject carries its value encrypted, a public one in clear -/
example : valOK true (.bytes [1, 2, 3] true) ∧ ¬ valOK true (.bytes [1, 2, 3] false) := by
  constructor
  · exact Or.inr rfl
  · intro h; rcases h with h | h <;> simp at h

end Shm.C06
