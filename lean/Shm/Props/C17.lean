/-
  C17 — no input makes the library crash, corrupt memory or kill the host process.

  Memory safety of the C++ code is not something a theorem about a model can exhibit: it is OBSERVED, by running the library built with
  AddressSanitizer + UndefinedBehaviorSanitizer on hostile call sequences, degenerate key objects, damaged token directories and
  damaged configuration files (suites K17-*).  What IS logic, and is modelled and proved here for every input, is the part the property
  calls "bounded parsing" and "size arithmetic":

  * the object-file reader never hands out more bytes than the file holds, whatever the length fields say (the model of File::read*);
  * a file only loads as an object when it is a complete sequence of well-formed attributes (at least 25 bytes);
  * PKCS#7 / RFC 5652 unpadding refuses the empty string and never looks outside its input (RFC5652Unpad);
  * an empty or short wrapped key is refused by every symmetric unwrapping mechanism.

  K17-files ties the first two to the real loader on arbitrary bytes: after every round of damage, the number of objects the library finds
  equals the number of files `loadsValid` accepts.
-/
import Shm.Model.MutexLife
import Shm.Props.C16
import Shm.Lemmas.ModesLemmas
import Shm.Model.Wrap
import Shm.Lemmas.PureThms
import Shm.Pure.Config
import Shm.Lemmas.ConfigLemmas
namespace Shm.C17
open Shm Shm.Store Shm.Crypto

/-- **File::readULong** consumes exactly 8 bytes that are there -/
theorem C17_rdULong_bounded (bs r : Bytes) (n : Nat) (h : rdULong bs = some (n, r)) : bs.length = 8 + r.length ∧ r = bs.drop 8 := by
  unfold rdULong at h
  split at h
  · cases h
  · simp only [Option.some.injEq, Prod.mk.injEq] at h
    obtain ⟨_, rfl⟩ := h
    simp only [List.length_drop, and_true]; omega

/-- **File::readByteString never yields bytes that are not in the file**: the value and the rest are consecutive pieces of the input after the 8-byte length -/
theorem C17_rdBytes_bounded (bs v r : Bytes) (h : rdBytes bs = some (v, r)) : bs.drop 8 = v ++ r ∧ bs.length = 8 + v.length + r.length := by
  unfold rdBytes at h
  cases hu : rdULong bs with
  | none => simp [hu] at h
  | some p =>
    obtain ⟨len, r0⟩ := p
    obtain ⟨hl, hr⟩ := C17_rdULong_bounded bs r0 len hu
    simp only [hu] at h
    split at h
    · cases h
    · simp only [Option.some.injEq, Prod.mk.injEq] at h
      obtain ⟨rfl, rfl⟩ := h
      subst hr
      refine ⟨(List.take_append_drop len _).symm, ?_⟩
      simp only [List.length_take, List.length_drop] at *; omega

/-- **a length field larger than what is left of the file** (2^63, say) makes the read fail; nothing is allocated or returned for it -/
theorem C17_rdBytes_huge_length (bs r : Bytes) (len : Nat) (h : rdULong bs = some (len, r)) (hbig : r.length < len) : rdBytes bs = none := by
  simp [rdBytes, h, hbig]

example : rdBytes (be8 (2^63) ++ [1, 2, 3]) = none := by decide

theorem rdULong_nil : rdULong [] = none := by simp [rdULong]
theorem rdBytes_nil : rdBytes [] = none := by simp [rdBytes, rdULong_nil]
theorem rdMechs_nil : rdMechs [] = none := by simp [rdMechs, rdULong_nil]
theorem rdMap_nil : rdMap [] = none := by simp [rdMap, rdULong_nil]

/-- fewer than 17 bytes after the generation word hold no attribute: the loop ends without one, or the file is corrupt -/
theorem rdAttrs_short (fuel : Nat) (r : Bytes) (acc : FAttrs) (h : r.length < 17) : rdAttrs fuel r acc = some acc ∨ rdAttrs fuel r acc = none := by
  cases fuel with
  | zero => left; simp [rdAttrs]
  | succ fuel =>
    unfold rdAttrs
    cases ht : rdULong r with
    | none => left; rfl
    | some p1 =>
      obtain ⟨ty, r1⟩ := p1
      obtain ⟨hl1, _⟩ := C17_rdULong_bounded r r1 ty ht
      right
      cases hk : rdULong r1 with
      | none => simp only [hk]
      | some p2 =>
        obtain ⟨kind, r2⟩ := p2
        obtain ⟨hl2, _⟩ := C17_rdULong_bounded r1 r2 kind hk
        have h0 : r2 = [] := by
          cases r2 with
          | nil => rfl
          | cons a t => simp only [List.length_cons] at hl2; omega
        subst h0
        simp only [hk, rdBool, rdULong_nil, rdBytes_nil, rdMechs_nil, rdMap_nil]
        repeat' split
        all_goals rfl

/-- a file that loads as an object holds at least a generation word, one attribute type, its kind and one byte of value -/
theorem C17_loadsValid_min_length (bs : Bytes) (h : loadsValid bs = true) : 25 ≤ bs.length := by
  unfold loadsValid decodeFile at h
  by_cases he : bs.isEmpty
  · simp [he] at h
  · simp only [he, Bool.false_eq_true, if_false] at h
    cases hg : rdULong bs with
    | none => simp [hg] at h
    | some p =>
      obtain ⟨g, r⟩ := p
      obtain ⟨hl, _⟩ := C17_rdULong_bounded bs r g hg
      simp only [hg] at h
      by_cases hs : r.length < 17
      · rcases rdAttrs_short (r.length + 1) r [] hs with h1 | h1 <;> simp [h1] at h
      · omega

/-- … in particular neither the empty file nor a bare generation word is an object (the state an interrupted creation leaves, C16) -/
example : loadsValid [] = false ∧ loadsValid (be8 7) = false := by decide

/-- what the loader accepts is a subset of the files that are there -/
theorem C17_countLoadable_le (ents : List DEntry) : countLoadable ents ≤ (objectFiles ents).length := by
  unfold countLoadable; exact List.length_filter_le _ _

/-- **RFC5652Unpad refuses the empty string** (the case in which the C++ code read the byte before its buffer, fixed in 374db8b) -/
theorem C17_unpad_empty (bs : Nat) : pkcs7Unpad bs [] = none := by simp [pkcs7Unpad]

/-- **RFC5652Unpad only ever shortens its input**: an accepted padding is between 1 and the block size bytes long and lies inside the input -/
theorem C17_unpad_bounded (bs : Nat) (m k : Bytes) (h : pkcs7Unpad bs m = some k) :
    ∃ pad : Bytes, m = k ++ pad ∧ 0 < pad.length ∧ pad.length ≤ bs ∧ pad.length ≤ m.length := by
  unfold pkcs7Unpad at h
  cases hl : m.getLast? with
  | none => simp [hl] at h
  | some b =>
    simp only [hl] at h
    split at h
    · cases h
    · split at h
      · simp only [Option.some.injEq] at h
        subst h
        rename_i hc _
        simp only [Bool.or_eq_true, beq_iff_eq, decide_eq_true_eq, not_or, Nat.not_lt] at hc
        obtain ⟨⟨h0, h1⟩, h2⟩ := hc
        refine ⟨m.drop (m.length - b.toNat), (List.take_append_drop _ _).symm, ?_, ?_, ?_⟩ <;> simp only [List.length_drop] <;> omega
      · cases h

/-- **an empty wrapped key is refused by every symmetric unwrapping mechanism**, whatever the key and the parameter -/
theorem C17_unwrap_empty_refused (mech : Nat) (p : MParam) (kek : Bytes) : ∃ rv, unwrapSym mech p kek [] = .error rv := by
  unfold unwrapSym
  simp only [rfc3394Unwrap, rfc5649Unwrap, List.length_nil, List.isEmpty_nil]
  split
  · exact ⟨_, rfl⟩
  · split
    · exact ⟨_, rfl⟩
    · split
      · exact ⟨_, rfl⟩
      · exact ⟨_, rfl⟩

end Shm.C17

/-! ### the remaining byte-level readers never hand out more than they were given (unit-tied definitions of Shm/Pure) -/
namespace Shm.Pure
open Shm

/-- **`chainDeserialise` on ANY bytes** (a damaged blob, a length field of 2^64 - 1): value and remainder together are exactly the input behind the 8 header bytes -
    never a byte that was not there -/
theorem C17_chainDeserialise_bounded (s : Bytes) : (chainDeserialise s).1.length + (chainDeserialise s).2.length = s.length - 8 := chainDeserialise_bounded s

/-- `ByteString::substr` never reads past the end, whatever start and length are asked for -/
theorem C17_substr_bounded (b : Bytes) (start len : Nat) : (substr b start len).length ≤ len ∧ (substr b start len).length ≤ b.length - start := substr_bounded b start len

/-- `DERUTIL::octet2Raw` on ANY bytes returns a suffix of its input (the empty string for everything malformed) -/
theorem C17_octet2Raw_suffix (r : Bytes) : ∃ k, octet2Raw r = r.drop k := by
  have hnil : ∀ x : Bytes, ([] : Bytes) = x.drop x.length := by intro x; simp
  unfold octet2Raw
  split
  · dsimp only
    repeat' split
    all_goals first | exact ⟨_, rfl⟩ | exact ⟨_, hnil _⟩
  · exact ⟨_, hnil _⟩

end Shm.Pure

/-! ### the configuration file: any byte content (unit-tied model of SimpleConfigLoader / Configuration) -/
namespace Shm.Pure.Config
open Shm

/-- **comments and NUL bytes**: whatever follows a `#`, or a NUL byte, on a line has no effect on what the loader makes of the line - for ALL byte strings before and after -/
theorem C17_conf_line_cut (a b : Bytes) : parseLine (a ++ 0x23 :: b) = parseLine a ∧ parseLine (a ++ 0 :: b) = parseLine a :=
  ⟨parseLine_comment a b, parseLine_nul a b⟩

/-- **an assignment line means what it says**: `name = value` with any blanks around two plain tokens (no blanks, `=`, `#`, NUL, CR, LF inside), followed by a newline and anything -/
theorem C17_conf_assignment (n v s1 s2 s3 s4 tail : Bytes) (hn : PlainTok n) (hv : PlainTok v)
    (h1 : ∀ c ∈ s1, blank c = true) (h2 : ∀ c ∈ s2, blank c = true) (h3 : ∀ c ∈ s3, blank c = true) (h4 : ∀ c ∈ s4, blank c = true) :
    parseLine (s1 ++ n ++ s2 ++ 0x3d :: (s3 ++ v ++ s4) ++ 0x0a :: tail) = some (n, v) := parseLine_assign n v s1 s2 s3 s4 tail hn hv h1 h2 h3 h4

/-- THE LAST ASSIGNMENT WINS, whatever the file holds before it (damaged lines, other assignments of the same name, binary garbage): a string setting has the value of the
    last chunk `fgets` delivers that assigns it.  (`load file = loadChunks [] (fileChunks file)` by definition.) -/
theorem C17_conf_last_assignment_wins (k : String) (pre post : List Bytes) (c n v : Bytes) (s : Settings)
    (hp : parseLine c = some (n, v)) (hk : typeOf n = some (k, .str)) (hpost : ∀ c' ∈ post, touches k c' = false) :
    (loadChunks s (pre ++ c :: post)).get k = some (.str v) := loadChunks_last_wins k pre post c n v s hp hk hpost

/-- the loader is a total function of the file's bytes: every file yields at most one value per known setting (no setting is reported twice) -/
theorem C17_conf_settings_functional (s : Settings) (k : String) (v : CVal) : ((s.set k v).filter (·.1 == k)).length = 1 := by
  simp [Settings.set, List.filter_cons, List.filter_filter]

/-- non-vacuity of the last-assignment theorem: a file that sets the same name three times, with a damaged line in between -/
example : (load ("log.level = DEBUG\n=\x00junk\nlog.level = INFO\nslots.removable = true\nlog.level = ERROR\n# end\n".toUTF8.toList)).get "log.level"
    = some (.str "ERROR".toUTF8.toList) := by decide +kernel

/-- non-vacuity: a real line -/
example : parseLine ("slots.removable\t=  true # as shipped\n".toUTF8.toList) = some ("slots.removable".toUTF8.toList, "true".toUTF8.toList) := by decide +kernel

end Shm.Pure.Config

/-! ### the library's mutexes across C_Initialize / C_Finalize (model: Shm/Model/MutexLife.lean; tie: K17-conf with the three locking flavours and `nop mxstat`) -/
namespace Shm.C17

/-- **No mutex is ever locked or destroyed by mutex functions other than the ones that created it, and none survives outside an initialised period** - for every history of
    C_Initialize (locking disabled, OS locking, application callbacks; succeeding or failing behind the creation of the singletons), C_Finalize and other calls.
    This is the code as repaired by `fix: a failed C_Initialize releases the singletons it created`. -/
theorem C17_mutex_functions_never_mixed (ops : List Shm.MutexLife.Op) :
    (Shm.MutexLife.run true ops {}).misuse = 0 ∧ ((Shm.MutexLife.run true ops {}).initialised = false → (Shm.MutexLife.run true ops {}).singletons = [] ∧ (Shm.MutexLife.run true ops {}).managers = []) :=
  let h := Shm.MutexLife.run_inv ops {} Shm.MutexLife.init_inv
  ⟨h.1, h.2.1⟩

/-- the same history on the pinned tree (failure keeps the singletons): the registry's mutex, made by the application's callbacks, is locked by the OS functions -/
theorem C17_pinned_tree_mixed_mutex_functions : (Shm.MutexLife.run false [.init .app false, .init .os true, .work] {}).misuse > 0 := Shm.MutexLife.pinned_tree_misuses

/-- non-vacuity: a history with two failures, three flavours and work in between ends with nothing alive -/
example : (Shm.MutexLife.run true [.init .app false, .init .os true, .work, .fini, .init .none false, .init .app true, .work, .fini] {}).singletons = [] := by decide

end Shm.C17

