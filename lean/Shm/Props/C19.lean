/-
  C19 — Object search is sound and complete.
-/
import Shm.Lemmas.Purge
namespace Shm.C19
open Shm

/-- specification of matching: every template entry matches (`matchEntry`), an empty template matches everything -/
def MatchSpec (o : Obj) (tpl : Template) : Prop := ∀ e ∈ tpl, matchEntry o e = some true

/-- the loop with its `break`s computes the specification (when no attribute comparison fails with an error) -/
theorem C19_match_loop_eq_spec (o : Obj) (tpl : Template) (hne : ∀ e ∈ tpl, matchEntry o e ≠ none) :
    matchTpl o tpl = some true ↔ MatchSpec o tpl := by
  induction tpl with
  | nil => simp [matchTpl, MatchSpec]
  | cons e rest ih =>
    have hrest : ∀ e' ∈ rest, matchEntry o e' ≠ none := fun e' he' => hne e' (by simp [he'])
    have he := hne e (by simp)
    unfold matchTpl MatchSpec
    cases hm : matchEntry o e with
    | none => exact absurd hm he
    | some b =>
      cases b
      · simp [hm]
      · simp only [hm, List.mem_cons, forall_eq_or_imp, true_and]
        exact ih hrest

/-- an empty template matches every object -/
theorem C19_empty_template (o : Obj) : matchTpl o [] = some true := rfl

/-- a mismatch stops the loop with "no match" whatever follows -/
theorem C19_mismatch_rejects (o : Obj) (e : TEntry) (rest : Template) (h : matchEntry o e = some false) :
    matchTpl o (e :: rest) = some false := by
  simp [matchTpl, h]

/-- batches handed out by successive C_FindObjects calls -/
def batches : List Nat → List Nat → List (List Nat)
  | _, [] => []
  | res, n :: ns => res.take n :: batches (res.drop n) ns

/-- for EVERY sequence of batch sizes the concatenation of the batches is a prefix of the result list:
    `take (Σ sizes)`; nothing is repeated or skipped -/
theorem C19_batching (res : List Nat) (ns : List Nat) : (batches res ns).flatten = res.take ns.sum := by
  induction ns generalizing res with
  | nil => simp [batches]
  | cons n ns ih =>
    simp only [batches, List.flatten_cons, List.sum_cons, ih]
    rw [List.take_add]

/-- with enough room the batches are exactly the result list -/
theorem C19_batching_complete (res : List Nat) (ns : List Nat) (h : res.length ≤ ns.sum) :
    (batches res ns).flatten = res := by
  rw [C19_batching, List.take_of_length_le h]

/-- the model's C_FindObjects hands out exactly `batches`: one call returns `take n` and keeps `drop n` -/
theorem C19_find_step (s : State) (hi : s.initialised = true) (h n : Nat) (ss : Sess)
    (hs : s.handles.getSess h = some ss) (hop : ss.op = .find) :
    (step s (.find h n)).2 = { rv := CKR.OK, nums := ss.findRes.take n } ∧
    (step s (.find h n)).1.handles = s.handles.setSess h { ss with findRes := ss.findRes.drop n } := by
  simp [step, guardInit, hi, stepFind, hs, hop]

/-- objects of other slots are never candidates; invisible (private, non-user session) objects neither -/
theorem C19_candidates (s : State) (slot : Nat) (st : SState) (tpl : Template) (o : Obj)
    (h : o ∈ ((s.objs.filter fun o => o.slot == slot && visible st o).filter fun o => (matchTpl o tpl) == some true)) :
    o ∈ s.objs ∧ o.slot = slot ∧ visible st o = true ∧ matchTpl o tpl = some true := by
  simp only [List.mem_filter] at h
  obtain ⟨⟨hm, hsv⟩, hmt⟩ := h
  simp at hsv hmt
  exact ⟨hm, hsv.1, hsv.2, hmt⟩

/-- … and every object of the slot that is visible and matches IS a candidate (completeness) -/
theorem C19_candidates_complete (s : State) (slot : Nat) (st : SState) (tpl : Template) (o : Obj)
    (hm : o ∈ s.objs) (hs : o.slot = slot) (hv : visible st o = true) (hmt : matchTpl o tpl = some true) :
    o ∈ ((s.objs.filter fun o => o.slot == slot && visible st o).filter fun o => (matchTpl o tpl) == some true) := by
  simp only [List.mem_filter]
  exact ⟨⟨hm, by simp [hs, hv]⟩, by simp [hmt]⟩

example : batches [10, 11, 12, 13, 14] [0, 2, 1, 5, 3] = [[], [10, 11], [12], [13, 14], []] := by decide

end Shm.C19
