/-
  C14 — token initialisation, re-initialisation and isolation between tokens.
-/
import Shm.Lemmas.Pins
namespace Shm.C14
open Shm

/-! ### C_InitToken is exact -/

/-- **C_InitToken**: it succeeds only without open sessions on that slot and with a PIN of admissible length; on the free slot it
    creates a token with the given label and SO PIN and no user PIN; on an initialised token it succeeds only with that token's
    SO PIN and then removes exactly that token's token objects and its user PIN, keeps the SO PIN and the serial, and sets the new label.
    A refused call changes no token record except the SO-PIN-count-low flag after a wrong PIN, and no object. -/
theorem C14_initToken (s : State) (slot : Nat) (pin : Option Bytes) (label oSerial : Bytes) :
    let r := stepInitToken s slot pin label oSerial
    (r.2.rv = CKR.OK →
      ∃ sl p, findSlot s.slots slot = some sl ∧ s.handles.haveSession slot = false ∧ pin = some p ∧ pinLenOk p = true ∧
        ((sl.tok = none ∧ r.1.slots = setTok s.slots slot { label := label, serial := oSerial, soPin := p, userPin := none } ∧ r.1.objs = s.objs) ∨
         (∃ t, sl.tok = some t ∧ p = t.soPin ∧
            r.1.slots = setTok s.slots slot { t with label := label, userPin := none, soLow := false, userLow := false, soIn := false, userIn := false } ∧
            r.1.objs = s.objs.filter fun o => !(o.onToken && o.slot == slot)))) ∧
    (r.2.rv ≠ CKR.OK → r.1.objs = s.objs ∧ ∀ id, pinOf r.1.slots id = pinOf s.slots id) := by
  intro r
  show (r.2.rv = CKR.OK → _) ∧ (r.2.rv ≠ CKR.OK → _)
  simp only [r]
  unfold stepInitToken
  cases hsl : findSlot s.slots slot with
  | none => simp [rOnly]
  | some sl =>
    dsimp only
    by_cases hse : s.handles.haveSession slot = true
    · simp [hse, rOnly]
    · rw [if_neg hse]
      cases pin with
      | none => simp [rOnly]
      | some p =>
        dsimp only
        by_cases hl : (!pinLenOk p) = true
        · simp [hl, rOnly]
        · rw [if_neg hl]
          cases htk : sl.tok with
          | none =>
            dsimp only
            refine ⟨fun _ => ⟨sl, p, rfl, by simpa using hse, rfl, by simpa using hl, Or.inl ⟨htk, rfl, rfl⟩⟩, fun hne => absurd rfl hne⟩
          | some t =>
            dsimp only
            have hft : findTok s.slots slot = some t := by simp [findTok, hsl, htk]
            by_cases hp : (p != t.soPin) = true
            · simp only [hp, if_true]
              refine ⟨fun h => by simp at h, fun _ => ⟨by first | rfl | trivial, fun id => pinOf_setTok_same _ _ _ _ hft (by rfl) (by rfl) id⟩⟩
            · rw [if_neg hp]
              refine ⟨fun _ => ⟨sl, p, rfl, by simpa using hse, rfl, by simpa using hl, Or.inr ⟨t, htk, by simpa using hp, rfl, rfl⟩⟩, fun hne => absurd rfl hne⟩

/-- after a successful initialisation of the last free slot, C_GetSlotList shows a new free slot -/
theorem C14_new_free_slot (ss : List Slot) : (ensureFreeSlot ss).any (·.tok.isNone) = true ∨ ∃ sl ∈ ss, sl.id = tokenCount ss := by
  unfold ensureFreeSlot
  split
  · left; assumption
  · dsimp only
    split
    · next h => right; simpa using h
    · left; simp

/-! ### after a restart -/

/-- the persistent record of a token: label, serial, both PINs and the flags that are stored (login state is not) -/
def tokRecord (t : Tok) : Bytes × Bytes × Bytes × Option Bytes × Bool × Bool := (t.label, t.serial, t.soPin, t.userPin, t.soLow, t.userLow)

/-- **C_Initialize finds every token again**, with label, serial, PINs and stored flags unchanged, nobody logged in, in the slot
    computed from its serial number (`strtoul(last 8 characters, 16) & 0x7FFFFFFF`) -/
theorem C14_initialize (s : State) (hi : s.initialised = false) :
    ∀ sl' ∈ (stepInitialize s).1.slots, ∀ t', sl'.tok = some t' →
      sl'.id = slotIdOfSerial t'.serial ∧ t'.soIn = false ∧ t'.userIn = false ∧
      ∃ sl ∈ s.slots, ∃ t, sl.tok = some t ∧ tokRecord t = tokRecord t' := by
  intro sl' hm t' ht'
  unfold stepInitialize at hm
  simp only [hi, Bool.false_eq_true, if_false] at hm
  have key : sl' ∈ (s.slots.filterMap fun sl => sl.tok.map fun t =>
      ({ id := slotIdOfSerial t.serial, tok := some { t with soIn := false, userIn := false } } : Slot)) := by
    split at hm
    · exact hm
    · rcases List.mem_append.mp hm with h | h
      · exact h
      · simp at h; subst h; simp at ht'
  obtain ⟨sl, hsl, he⟩ := List.mem_filterMap.mp key
  cases htk : sl.tok with
  | none => simp [htk] at he
  | some t =>
    simp only [htk, Option.map_some, Option.some.injEq] at he
    subst he
    simp only [Option.some.injEq] at ht'
    subst ht'
    exact ⟨rfl, rfl, rfl, sl, hsl, t, htk, rfl⟩

/-- … and no token is lost: every token of the store is in some slot afterwards -/
theorem C14_initialize_complete (s : State) (hi : s.initialised = false) :
    ∀ sl ∈ s.slots, ∀ t, sl.tok = some t →
      ∃ sl' ∈ (stepInitialize s).1.slots, ∃ t', sl'.tok = some t' ∧ tokRecord t' = tokRecord t ∧ sl'.id = slotIdOfSerial t.serial := by
  intro sl hm t ht
  unfold stepInitialize
  simp only [hi, Bool.false_eq_true, if_false]
  have key : ({ id := slotIdOfSerial t.serial, tok := some { t with soIn := false, userIn := false } } : Slot) ∈
      (s.slots.filterMap fun sl => sl.tok.map fun t =>
        ({ id := slotIdOfSerial t.serial, tok := some { t with soIn := false, userIn := false } } : Slot)) :=
    List.mem_filterMap.mpr ⟨sl, hm, by simp [ht]⟩
  refine ⟨{ id := slotIdOfSerial t.serial, tok := some { t with soIn := false, userIn := false } }, ?_, { t with soIn := false, userIn := false }, rfl, rfl, rfl⟩
  split
  · exact key
  · exact List.mem_append_left _ key

/-- a process restart (with or without C_Finalize) keeps every token record; only the login state is dropped -/
theorem C14_restart (s : State) (id : Nat) :
    findTok (stepRestart s).1.slots id = (findTok s.slots id).map Tok.logout := by
  simp only [stepRestart, stepFinalize, Bool.not_true, Bool.false_eq_true, if_false]
  exact findTok_map_logout s.slots id

/-! ### isolation at the level of token records, PINs and login state -/

/-- the slot a call is addressed to: the slot of its session, or its slot argument -/
def slotOfCall (s : State) : Call → Option Nat
  | .initToken slot .. => some slot
  | .openSession slot _ => some slot
  | .closeAll slot => some slot
  | .closeSession h | .sessInfo h | .login h _ _ | .logout h | .initPin h _ | .setPin h _ _ | .create h _ _ | .destroy h _ | .objProbe h _
  | .getAttr h _ _ _ | .setAttr h _ _ _ | .copy h _ _ _ | .objSize h _ | .findInit h _ _ | .find h _ | .findFinal h =>
      (s.handles.getSess h).map (·.slot)
  | _ => none

def TokKept (a : Nat) (s s' : State) : Prop := ∀ b, b ≠ a → findTok s'.slots b = findTok s.slots b

theorem tokKept_same {a : Nat} {s s' : State} (h : s'.slots = s.slots) : TokKept a s s' := fun _ _ => by rw [h]

theorem tokKept_setTok {a : Nat} {s s' : State} (t : Tok) (h : s'.slots = setTok s.slots a t) : TokKept a s s' := by
  intro b hb; rw [h, findTok_setTok]; simp [hb]

theorem tokKept_logoutSlot {a : Nat} {s s' : State} (h : s'.slots = logoutSlot s.slots a) : TokKept a s s' := by
  intro b hb; rw [h, findTok_logoutSlot]; simp [hb]

theorem tokKept_logoutIf {a : Nat} {s s' : State} (c : Bool) (h : s'.slots = if c then logoutSlot s.slots a else s.slots) : TokKept a s s' := by
  cases c
  · exact tokKept_same (by simpa using h)
  · exact tokKept_logoutSlot (by simpa using h)

macro "tok_leaf" : tactic =>
  `(tactic| first
      | exact tokKept_same rfl
      | exact tokKept_setTok _ rfl
      | exact tokKept_logoutSlot rfl
      | exact tokKept_logoutIf _ rfl)

/-- **isolation**: a call addressed to slot `a` — through a session of that slot or by slot number — leaves the complete record of
    the token in every other slot untouched: label, serial, both PINs, flags, and who is logged in -/
theorem C14_token_isolation (s : State) (c : Call) (a : Nat) (ha : slotOfCall s c = some a) : TokKept a s (step s c).1 := by
  cases c <;> simp only [slotOfCall] at ha <;> simp only [step, guardInit]
  all_goals first | (simp at ha; done) | skip
  all_goals (split; · exact tokKept_same rfl)
  case initToken => injection ha with ha; subst ha; unfold stepInitToken; step_cases <;> tok_leaf
  case openSession => unfold stepOpenSession; step_cases <;> tok_leaf
  case closeAll => injection ha with ha; subst ha; unfold stepCloseAll; step_cases <;> tok_leaf
  case closeSession =>
    unfold stepCloseSession
    split
    · exact tokKept_same rfl
    · next ss hs => simp only [hs, Option.map_some, Option.some.injEq] at ha; subst ha; dsimp only; tok_leaf
  case sessInfo => unfold stepSessInfo; step_cases <;> tok_leaf
  case login =>
    unfold stepLogin
    split
    · exact tokKept_same rfl
    · next ss hs => simp only [hs, Option.map_some, Option.some.injEq] at ha; subst ha; (try dsimp only); step_cases <;> tok_leaf
  case logout =>
    unfold stepLogout
    split
    · exact tokKept_same rfl
    · next ss hs => simp only [hs, Option.map_some, Option.some.injEq] at ha; subst ha; (try dsimp only); step_cases <;> tok_leaf
  case initPin =>
    unfold stepInitPin
    split
    · exact tokKept_same rfl
    · next ss hs => simp only [hs, Option.map_some, Option.some.injEq] at ha; subst ha; (try dsimp only); step_cases <;> tok_leaf
  case setPin =>
    unfold stepSetPin
    split
    · exact tokKept_same rfl
    · next ss hs => simp only [hs, Option.map_some, Option.some.injEq] at ha; subst ha; (try dsimp only); step_cases <;> tok_leaf
  case create => unfold stepCreate; step_cases <;> tok_leaf
  case getAttr => unfold stepGetAttr; step_cases <;> tok_leaf
  case setAttr => unfold stepSetAttr; step_cases <;> tok_leaf
  case copy => unfold stepCopy; step_cases <;> tok_leaf
  case objSize => unfold stepObjSize; step_cases <;> tok_leaf
  case destroy => unfold stepDestroy; step_cases <;> tok_leaf
  case objProbe => unfold stepObjProbe; step_cases <;> tok_leaf
  case findInit => unfold stepFindInit; step_cases <;> tok_leaf
  case find => unfold stepFind; step_cases <;> tok_leaf
  case findFinal => unfold stepFindFinal; step_cases <;> tok_leaf

/-- the cryptographic and key-generation calls change no token record at all -/
theorem C14_ops_keep_tokens (s : State) (c : OpCall) : (stepOp s c).1.slots = s.slots := by
  cases c <;> simp only [stepOp]
  all_goals (split; · rfl)
  case mechList => split <;> rfl
  case opInit => exact (onlyHandles_opInit ..).2.2.1
  case digestInit => exact (onlyHandles_digestInit ..).2.2.1
  case crypt => exact (onlyHandles_crypt ..).2.2.1
  case cryptUpdate => exact (onlyHandles_cryptUpdate ..).2.2.1
  case cryptFinal => exact (onlyHandles_cryptFinal ..).2.2.1
  case sign => exact (onlyHandles_signLike ..).2.2.1
  case digest => exact (onlyHandles_signLike ..).2.2.1
  case update => exact (onlyHandles_updateLike ..).2.2.1
  case digestKey => exact (onlyHandles_digestKey ..).2.2.1
  case signFinal => exact (onlyHandles_finalLike ..).2.2.1
  case digestFinal => exact (onlyHandles_finalLike ..).2.2.1
  case verify => exact (onlyHandles_verify ..).2.2.1
  case verifyFinal => exact (onlyHandles_verify ..).2.2.1
  case genKey => exact slotsSame_genKey ..
  case genPair => exact slotsSame_genPair ..
  case wrap => rw [adds_wrap]
  case unwrap => exact (adds_unwrap ..).slots
  case derive => exact (adds_derive ..).slots

/-- non-vacuity: re-initialising token 0 of two tokens with its SO PIN removes its object and user PIN and leaves token 1 alone -/
example :
    let t0 : Tok := { label := [0x41], serial := [0x30], soPin := [1, 2, 3, 4], userPin := some [5, 6, 7, 8] }
    let t1 : Tok := { label := [0x42], serial := [0x31], soPin := [4, 3, 2, 1], userPin := some [8, 7, 6, 5] }
    let s : State := { initialised := true, slots := [{ id := 0, tok := some t0 }, { id := 1, tok := some t1 }],
                       objs := [{ oid := 1, slot := 0, onToken := true, owner := 0, isPriv := false, attrs := [] },
                                { oid := 2, slot := 1, onToken := true, owner := 0, isPriv := false, attrs := [] }], nextOid := 3 }
    let r := stepInitToken s 0 (some [1, 2, 3, 4]) [0x43] []
    r.2.rv = CKR.OK ∧ r.1.objs.map (·.oid) = [2] ∧ pinOf r.1.slots 0 = some ([1, 2, 3, 4], none) ∧ findTok r.1.slots 1 = some t1 := by decide

end Shm.C14
