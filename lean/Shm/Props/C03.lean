/-
  C03 — Session and login state machine follows the PKCS#11 rules.
  Statements are about the executable model `step`; tie: K03 (exhaustive short sequences + histories).
-/
import Shm.Lemmas.Purge
import Shm.Lemmas.Slots
import Shm.Lemmas.LoginStep
namespace Shm.C03
open Shm

/-! ## vocabulary -/


/-- login class reported by a CK_STATE: 0 public, 1 user, 2 SO -/
def loginClass : SState → Nat
  | .roPublic | .rwPublic => 0
  | .roUser | .rwUser => 1
  | .rwSO => 2

/-! ## all sessions of a token report the same login state -/

/-- the login class of the state a session reports depends only on its token, not on the session -/
theorem C03_same_login_class (t : Tok) (rw1 rw2 : Bool) :
    loginClass (stateOf t rw1) = loginClass (stateOf t rw2) := by
  unfold stateOf
  cases t.soIn <;> cases t.userIn <;> cases rw1 <;> cases rw2 <;> rfl

/-- two sessions of the same slot: `C_GetSessionInfo` reports states of the same login class -/
theorem C03_same_state (s : State) (hi : s.initialised = true) (h1 h2 : Nat) (s1 s2 : Sess)
    (g1 : s.handles.getSess h1 = some s1) (g2 : s.handles.getSess h2 = some s2) (hslot : s1.slot = s2.slot)
    (t : Tok) (ht : findTok s.slots s1.slot = some t) :
    (step s (.sessInfo h1)).2 = { rv := CKR.OK, nums := [s1.slot, (stateOf t s1.rw).toNat, CKF_SERIAL + (if s1.rw then CKF_RW else 0)] } ∧
    (step s (.sessInfo h2)).2 = { rv := CKR.OK, nums := [s2.slot, (stateOf t s2.rw).toNat, CKF_SERIAL + (if s2.rw then CKF_RW else 0)] } ∧
    loginClass (stateOf t s1.rw) = loginClass (stateOf t s2.rw) := by
  have ht2 : findTok s.slots s2.slot = some t := hslot ▸ ht
  refine ⟨?_, ?_, C03_same_login_class t _ _⟩
  · simp [step, guardInit, hi, stepSessInfo, g1, ht]
  · simp [step, guardInit, hi, stepSessInfo, g2, ht2]

/-! ## C_Login succeeds only with the correct PIN while nobody is logged in -/

theorem C03_login_user_iff (s : State) (hi : s.initialised = true) (h : Nat) (p : Bytes) :
    (step s (.login h 1 (some p))).2.rv = CKR.OK ↔
      ∃ ss t, s.handles.getSess h = some ss ∧ findTok s.slots ss.slot = some t ∧
              t.soIn = false ∧ t.userIn = false ∧ t.userPin = some p := by
  simp only [step, guardInit, hi]
  constructor
  · unfold stepLogin
    step_cases <;> simp [rOnly]
    all_goals (first | (exfalso; simp at *; done) | skip)
    all_goals exact ⟨_, by assumption, _, by assumption, by simp_all, by simp_all, by simp_all⟩
  · rintro ⟨ss, t, hs, ht, hso, hu, hp⟩
    simp [stepLogin, hs, ht, hso, hu, hp]

theorem C03_login_so_iff (s : State) (hi : s.initialised = true) (h : Nat) (p : Bytes) :
    (step s (.login h 0 (some p))).2.rv = CKR.OK ↔
      ∃ ss t, s.handles.getSess h = some ss ∧ findTok s.slots ss.slot = some t ∧
              s.handles.haveROSession ss.slot = false ∧ t.soIn = false ∧ t.userIn = false ∧ t.soPin = p := by
  simp only [step, guardInit, hi]
  constructor
  · unfold stepLogin
    step_cases <;> simp [rOnly]
    all_goals (first | (exfalso; simp at *; done) | skip)
    all_goals exact ⟨_, by assumption, _, by assumption, by simp_all, by simp_all, by simp_all, by simp_all⟩
  · rintro ⟨ss, t, hs, ht, hro, hso, hu, hp⟩
    simp [stepLogin, hs, ht, hso, hu, hp, hro]

/-- after a successful user login the token of that slot is in the user state, nothing else about logins changed -/
theorem C03_login_user_effect (s : State) (h : Nat) (p : Bytes)
    (hok : (step s (.login h 1 (some p))).2.rv = CKR.OK) :
    ∃ ss, s.handles.getSess h = some ss ∧
      loginOf (step s (.login h 1 (some p))).1 ss.slot = some (false, true) ∧
      ∀ id, id ≠ ss.slot → loginOf (step s (.login h 1 (some p))).1 id = loginOf s id := by
  have hi : s.initialised = true := by
    cases hin : s.initialised with
    | true => rfl
    | false => simp [step, guardInit, hin, rOnly] at hok
  obtain ⟨ss, t, hs, ht, hso, hu, hp⟩ := (C03_login_user_iff s hi h p).mp hok
  refine ⟨ss, hs, ?_, ?_⟩
  · simp [step, guardInit, hi, stepLogin, hs, ht, hso, hu, hp, loginOf, loginAt_setTok _ _ _ _ (findTok_some_findSlot ht)]
  · intro id hid
    simp [step, guardInit, hi, stepLogin, hs, ht, hso, hu, hp, loginOf, loginAt_setTok _ _ _ _ (findTok_some_findSlot ht), hid]

theorem C03_login_so_effect (s : State) (h : Nat) (p : Bytes)
    (hok : (step s (.login h 0 (some p))).2.rv = CKR.OK) :
    ∃ ss, s.handles.getSess h = some ss ∧
      loginOf (step s (.login h 0 (some p))).1 ss.slot = some (true, false) ∧
      ∀ id, id ≠ ss.slot → loginOf (step s (.login h 0 (some p))).1 id = loginOf s id := by
  have hi : s.initialised = true := by
    cases hin : s.initialised with
    | true => rfl
    | false => simp [step, guardInit, hin, rOnly] at hok
  obtain ⟨ss, t, hs, ht, hro, hso, hu, hp⟩ := (C03_login_so_iff s hi h p).mp hok
  refine ⟨ss, hs, ?_, ?_⟩
  · simp [step, guardInit, hi, stepLogin, hs, ht, hso, hu, hp, hro, loginOf, loginAt_setTok _ _ _ _ (findTok_some_findSlot ht)]
  · intro id hid
    simp [step, guardInit, hi, stepLogin, hs, ht, hso, hu, hp, hro, loginOf, loginAt_setTok _ _ _ _ (findTok_some_findSlot ht), hid]

/-- a read-only session cannot be opened while the SO is logged in; nothing changes -/
theorem C03_open_ro_refused_while_so (s : State) (hi : s.initialised = true) (slot flags : Nat) (t : Tok)
    (ht : findTok s.slots slot = some t) (hso : t.soIn = true)
    (hser : (flags / CKF_SERIAL) % 2 = 1) (hro : (flags / CKF_RW) % 2 = 0) :
    step s (.openSession slot flags) = (s, { rv := CKR.SESSION_READ_WRITE_SO_EXISTS }) := by
  have hf : ∃ sl, findSlot s.slots slot = some sl ∧ sl.tok = some t := by
    unfold findTok at ht
    cases hf : findSlot s.slots slot with
    | none => simp [hf] at ht
    | some sl => exact ⟨sl, rfl, by simpa [hf] using ht⟩
  obtain ⟨sl, hsl, htok⟩ := hf
  simp [step, guardInit, hi, stepOpenSession, hsl, htok, hser, hro, hso, rOnly]

/-- C_InitToken is refused while any session on the slot is open; nothing changes -/
theorem C03_initToken_refused_with_session (s : State) (hi : s.initialised = true) (slot : Nat)
    (pin : Option Bytes) (label ser : Bytes) (sl : Slot) (hsl : findSlot s.slots slot = some sl)
    (hsess : s.handles.haveSession slot = true) :
    step s (.initToken slot pin label ser) = (s, { rv := CKR.SESSION_EXISTS }) := by
  simp [step, guardInit, hi, stepInitToken, hsl, hsess, rOnly]

/-- C_Logout through a valid session returns the token to the public state -/
theorem C03_logout_public (s : State) (hi : s.initialised = true) (h : Nat) (ss : Sess) (t : Tok)
    (hs : s.handles.getSess h = some ss) (ht : findTok s.slots ss.slot = some t) :
    (step s (.logout h)).2.rv = CKR.OK ∧ loginOf (step s (.logout h)).1 ss.slot = some (false, false) := by
  have hla : loginAt s.slots ss.slot = some (t.soIn, t.userIn) := by simp [loginAt, ht]
  simp only [step, guardInit, hi, stepLogout, hs, ht, loginOf]
  simp only [Bool.not_true, Bool.false_eq_true, if_false]
  rw [loginAt_logoutSlot]
  simp [hla]

/-- C_CloseAllSessions returns the token to the public state and leaves no session on the slot -/
theorem C03_closeAll_public (s : State) (hwf : s.WF) (hi : s.initialised = true) (slot : Nat) (t : Tok)
    (ht : findTok s.slots slot = some t) :
    (step s (.closeAll slot)).2.rv = CKR.OK ∧ loginOf (step s (.closeAll slot)).1 slot = some (false, false) ∧
    ∀ k ss, (step s (.closeAll slot)).1.handles.getSess k = some ss → ss.slot ≠ slot := by
  have hsl := findTok_some_findSlot ht
  cases hf : findSlot s.slots slot with
  | none => simp [hf] at hsl
  | some sl =>
    refine ⟨by simp [step, guardInit, hi, stepCloseAll, hf], ?_, ?_⟩
    · have hla : loginAt s.slots slot = some (t.soIn, t.userIn) := by simp [loginAt, ht]
      simp only [step, guardInit, hi, stepCloseAll, hf, loginOf]
      simp only [Bool.not_true, Bool.false_eq_true, if_false]
      rw [loginAt_logoutSlot]
      simp [hla]
    · intro k ss hk
      simp only [step, guardInit, hi, stepCloseAll, hf] at hk
      simp only [Bool.not_true, Bool.false_eq_true, if_false] at hk
      have hget := getSess_get hk
      unfold HTable.allSessionsClosed at hget
      rw [get_eraseIf hwf] at hget
      cases hg : s.handles.get k with
      | none => simp [hg] at hget
      | some e =>
        simp [hg, Option.filter] at hget
        obtain ⟨hne, he⟩ := hget
        subst he
        simpa [Ent.slot] using hne

/-- closing the last session of a slot returns the token to the public state; closing another session
    leaves the login state as it was -/
theorem C03_close_login_state (s : State) (hi : s.initialised = true) (h : Nat) (ss : Sess) (t : Tok)
    (hs : s.handles.getSess h = some ss) (ht : findTok s.slots ss.slot = some t) :
    loginOf (step s (.closeSession h)).1 ss.slot =
      (if (s.handles.eraseIf fun k _ => k == h).haveSession ss.slot then some (t.soIn, t.userIn) else some (false, false)) ∧
    ∀ id, id ≠ ss.slot → loginOf (step s (.closeSession h)).1 id = loginOf s id := by
  simp only [step, guardInit, hi, stepCloseSession, hs]
  simp only [Bool.not_true, Bool.false_eq_true, if_false]
  have hla : loginAt s.slots ss.slot = some (t.soIn, t.userIn) := by simp [loginAt, ht]
  cases hl : (s.handles.eraseIf fun k _ => k == h).haveSession ss.slot
  · simp only [loginOf, Bool.not_false, if_true, Bool.false_eq_true, if_false]
    refine ⟨by rw [loginAt_logoutSlot]; simp [hla], ?_⟩
    intro id hid; rw [loginAt_logoutSlot]; simp [hid]
  · simp [loginOf, hla]

/-! ## invariants of every reachable state -/

/-- states reachable from the initial state by any sequence of calls (any oracle values) -/
def Reachable (s : State) : Prop := ∃ cs : List Call, s = run {} cs

/-- In every reachable state, for every slot: SO and user are never logged in together; while the SO is
    logged in there is no read-only session on the slot; a token without open sessions is in the public
    state. -/
theorem C03_inv (s : State) (hr : Reachable s) (id : Nat) :
    loginOf s id ≠ some (true, true) ∧
    (∀ u, loginOf s id = some (true, u) → s.handles.haveROSession id = false) ∧
    (∀ l, loginOf s id = some l → s.handles.haveSession id = false → l = (false, false)) := by
  obtain ⟨cs, rfl⟩ := hr
  have h := linv_run {} cs wf_init linv_init
  exact ⟨h.excl id, h.soNoRO id, h.noSessPublic id⟩

/-- a call that fails leaves the sessions (the whole handle table) and every token's login state unchanged -/
theorem C03_failed_frame (s : State) (c : Call) (hf : (step s c).2.rv ≠ CKR.OK) :
    (step s c).1.handles = s.handles ∧ ∀ id, loginOf (step s c).1 id = loginOf s id := by
  have same : ∀ (id : Nat) (t t' : Tok), findTok s.slots id = some t → t'.soIn = t.soIn → t'.userIn = t.userIn →
      ∀ id', loginAt (setTok s.slots id t') id' = loginAt s.slots id' := by
    intro id t t' ht h1 h2 id'
    rw [loginAt_setTok _ _ _ _ (findTok_some_findSlot ht)]
    by_cases hid : id' = id
    · subst hid; simp [loginAt, ht, h1, h2]
    · simp [hid]
  revert hf
  unfold loginOf
  cases c with
  | initLib => simp only [step]; unfold stepInitialize; step_cases <;> simp [rOnly]
  | finiLib => simp only [step]; unfold stepFinalize; step_cases <;> simp [rOnly]
  | slots => simp only [step, guardInit]; split <;> simp [rOnly, stepSlots]
  | initToken slot pin label ser =>
    simp only [step, guardInit]; split
    · simp [rOnly]
    · unfold stepInitToken
      split
      · simp [rOnly]
      next sl hsl =>
        step_cases <;> simp [rOnly]
        rename_i t ht _
        exact same slot t _ (by simp [findTok, hsl, ht]) rfl rfl
  | openSession slot flags =>
    simp only [step, guardInit]; split
    · simp [rOnly]
    · unfold stepOpenSession; step_cases <;> simp [rOnly]
  | closeSession k =>
    simp only [step, guardInit]; split
    · simp [rOnly]
    · unfold stepCloseSession; step_cases <;> simp [rOnly]
  | closeAll slot =>
    simp only [step, guardInit]; split
    · simp [rOnly]
    · unfold stepCloseAll; step_cases <;> simp [rOnly]
  | sessInfo k =>
    simp only [step, guardInit]; split
    · simp [rOnly]
    · unfold stepSessInfo; step_cases <;> simp [rOnly]
  | login k u p =>
    simp only [step, guardInit]; split
    · simp [rOnly]
    · unfold stepLogin
      split
      · simp [rOnly]
      next ss hs =>
        split
        · simp [rOnly]
        next p =>
          split
          · simp [rOnly]
          next t ht =>
            step_cases <;> simp [rOnly]
            all_goals exact same ss.slot t _ ht rfl rfl
  | logout k =>
    simp only [step, guardInit]; split
    · simp [rOnly]
    · unfold stepLogout; step_cases <;> simp [rOnly]
  | initPin k p =>
    simp only [step, guardInit]; split
    · simp [rOnly]
    · unfold stepInitPin; step_cases <;> simp [rOnly]
  | setPin k o n =>
    simp only [step, guardInit]; split
    · simp [rOnly]
    · unfold stepSetPin
      split
      · simp [rOnly]
      next ss hs =>
        split
        · simp [rOnly]
        · simp [rOnly]
        next o n =>
          split
          · simp [rOnly]
          · split
            · simp [rOnly]
            next t ht =>
              step_cases <;> simp [rOnly]
              all_goals exact same ss.slot t _ ht rfl rfl
  | create k tpl e =>
    simp only [step, guardInit]; split
    · simp [rOnly]
    · unfold stepCreate addObject; step_cases <;> simp [rOnly]
  | copy k o tpl e =>
    simp only [step, guardInit]; split
    · simp [rOnly]
    · unfold stepCopy addObject; step_cases <;> simp [rOnly]
  | getAttr k o r ov =>
    simp only [step, guardInit]; split
    · simp [rOnly]
    · unfold stepGetAttr; step_cases <;> simp [rOnly]
  | setAttr k o tpl e =>
    simp only [step, guardInit]; split
    · simp [rOnly]
    · unfold stepSetAttr; step_cases <;> simp [rOnly]
  | objSize k o =>
    simp only [step, guardInit]; split
    · simp [rOnly]
    · unfold stepObjSize; step_cases <;> simp [rOnly]
  | destroy k o =>
    simp only [step, guardInit]; split
    · simp [rOnly]
    · unfold stepDestroy; step_cases <;> simp [rOnly]
  | objProbe k o =>
    simp only [step, guardInit]; split
    · simp [rOnly]
    · unfold stepObjProbe; step_cases <;> simp [rOnly]
  | findInit k tpl m =>
    simp only [step, guardInit]; split
    · simp [rOnly]
    · unfold stepFindInit; step_cases <;> simp [rOnly]
  | find k m =>
    simp only [step, guardInit]; split
    · simp [rOnly]
    · unfold stepFind; step_cases <;> simp [rOnly]
  | findFinal k =>
    simp only [step, guardInit]; split
    · simp [rOnly]
    · unfold stepFindFinal; step_cases <;> simp [rOnly]

/-- non-vacuity: a reachable state with the SO logged in on one token (so the premises of the invariant
    and of `C03_open_ro_refused_while_so` are met by a concrete history) -/
example :
    let s := run {} [.initLib, .slots, .initToken 0 (some [49,50,51,52]) [65] [48,48,48,48,48,48,48,48],
                     .openSession 0 6, .login 1 0 (some [49,50,51,52])]
    Reachable s ∧ loginOf s 0 = some (true, false) ∧ (step s (.openSession 0 4)).2.rv = CKR.SESSION_READ_WRITE_SO_EXISTS ∧
    (step s (.login 1 1 (some [49]))).2.rv = CKR.USER_ANOTHER_ALREADY_LOGGED_IN := by
  refine ⟨⟨_, rfl⟩, ?_⟩
  decide

end Shm.C03
