/-
  C18 — thread safety with locking enabled.

  Which schedules the library survives is runtime behaviour: it is decided by running real threads under a deterministic scheduler that owns every mutex callback
  (K18-systematic: one call pre-empted at EVERY callback it makes, another thread's calls run inside; K18-random: random scripts and schedules), and judging each run by
  LINEARIZABILITY against this model: some total order of the calls that respects real-time precedence must make the sequential model produce every observed result.
  The theorems below are the facts about the sequential specification that the judgement leans on, for every state and every call:

  * in every sequential history the live handles are pairwise distinct and bounded by the issue counter, and the counter never decreases: a run that a sequential order
    explains has not issued a handle twice;
  * a call that fails changes neither the handle table nor any login state: where such a call is placed among the others cannot matter for them.
-/
import Shm.Props.C03
import Shm.Lemmas.StepInv
namespace Shm.C18
open Shm

/-- **no handle is issued twice in any sequential history**: after any sequence of calls from the initial state the live handles are strictly ascending (hence pairwise
    distinct) and none exceeds the issue counter -/
theorem C18_sequential_handles_distinct (cs : List Call) :
    (run {} cs).handles.Pairwise (fun a b => a.1 < b.1) ∧ ∀ e ∈ (run {} cs).handles, e.1 ≤ (run {} cs).counter := by
  have h := wf_run {} cs wf_init
  exact ⟨h.asc, h.bound⟩

/-- … and a handle minted later is larger than every live one: the table stays well-formed under every further call, whatever the state -/
theorem C18_step_keeps_handles_distinct (s : State) (c : Call) (h : s.WF) : (step s c).1.WF := wf_step s c h

/-- **a failed call can be placed anywhere**: it leaves the handle table and every token's login state as they were, so the calls of the other threads see the same
    sessions, operations and login state whether it is ordered before or after them -/
theorem C18_failed_call_is_invisible (s : State) (c : Call) (hf : (step s c).2.rv ≠ CKR.OK) :
    (step s c).1.handles = s.handles ∧ ∀ id, loginOf (step s c).1 id = loginOf s id := C03.C03_failed_frame s c hf

/-- non-vacuity: two sessions opened one after the other get different handles -/
example : ((run {} [.initLib]).WF) := wf_run {} _ wf_init

end Shm.C18
