/-
  C18 — thread safety with locking enabled.

  Which schedules the library survives is runtime behaviour: it is decided by running real threads under a deterministic scheduler that owns every mutex callback
  (K18-systematic: one call pre-empted at EVERY callback it makes, another thread's calls run inside; K18-random: random scripts and schedules), and judging each run by
  LINEARIZABILITY against this model: some total order of the calls that respects real-time precedence must make the sequential model produce every observed result.
  The theorems below are the facts about the sequential specification that the judgement leans on, for every state and every call:

  * in every sequential history the live handles are pairwise distinct and bounded by the issue counter, and the counter never decreases: a run that a sequential order
    explains has not issued a handle twice;
  * a call that fails changes neither the handle table nor any login state: where such a call is placed among the others cannot matter for them.
-/
import Shm.Props.C03
import Shm.Model.MutexLife
import Shm.Lemmas.StepInv
import Shm.Lemmas.Commute
namespace Shm.C18
open Shm

/-- **no handle is issued twice in any sequential history**: after any sequence of calls from the initial state the live handles are strictly ascending (hence pairwise
    distinct) and none exceeds the issue counter -/
theorem C18_sequential_handles_distinct (cs : List Call) :
    (run {} cs).handles.Pairwise (fun a b => a.1 < b.1) ∧ ∀ e ∈ (run {} cs).handles, e.1 ≤ (run {} cs).counter := by
  have h := wf_run {} cs wf_init
  exact ⟨h.asc, h.bound⟩

/-- … and a handle minted later is larger than every live one: the table stays well-formed under every further call, whatever the state -/
theorem C18_step_keeps_handles_distinct (s : State) (c : Call) (h : s.WF) : (step s c).1.WF := wf_step s c h

/-- **a failed call can be placed anywhere**: it leaves the handle table and every token's login state as they were, so the calls of the other threads see the same
    sessions, operations and login state whether it is ordered before or after them -/
theorem C18_failed_call_is_invisible (s : State) (c : Call) (hf : (step s c).2.rv ≠ CKR.OK) :
    (step s c).1.handles = s.handles ∧ ∀ id, loginOf (step s c).1 id = loginOf s id := C03.C03_failed_frame s c hf

/-- **calls of different sessions commute**: for any two session-local calls — C_EncryptInit/DecryptInit/SignInit/VerifyInit, C_DigestInit, every single-part,
    update and final call of encryption, decryption, signing, verification and digesting, C_DigestKey — issued in DIFFERENT sessions, both orders leave the same state,
    and each call returns in either order exactly what it returns when the other call does not happen at all.  So every interleaving of two threads that each run
    cryptographic operations in a session of their own is explained by ANY sequential order, and each thread sees the results it would see alone. -/
theorem C18_session_local_calls_commute (c1 c2 : OpCall) (h1 h2 : Nat) (hc1 : c1.sess? = some h1) (hc2 : c2.sess? = some h2) (hne : h1 ≠ h2) (s : State) :
    (stepOp (stepOp s c1).1 c2).1 = (stepOp (stepOp s c2).1 c1).1 ∧
    (stepOp (stepOp s c1).1 c2).2 = (stepOp s c2).2 ∧
    (stepOp (stepOp s c2).1 c1).2 = (stepOp s c1).2 :=
  commute_frames (f := fun s => stepOp s c1) (g := fun s => stepOp s c2) hne
    (frame_stepOp c1 h1 hc1 h2 hne) (frame_stepOp c2 h2 hc2 h1 (Ne.symm hne)) (loc_stepOp c1 h1 hc1) (loc_stepOp c2 h2 hc2) s

/-- such a call changes at most the record of its own session: sessions of other threads, objects, tokens, login state and the handle counter are untouched -/
theorem C18_session_local_calls_write_own_session (c : OpCall) (h : Nat) (hc : c.sess? = some h) (s : State) :
    (stepOp s c).1 = s ∨ ∃ y, (stepOp s c).1 = { s with handles := s.handles.setSess h y } := loc_stepOp c h hc s

/-- non-vacuity of the commutation theorem: an encryption update in session 1 and a digest final in session 2 are session-local calls of different sessions -/
example : (OpCall.cryptUpdate true 1 (some 16) (some 16) { rv := 0, len := 16, data := none }).sess? = some 1 ∧
    (OpCall.digestFinal 2 (some 32) { rv := 0, len := 32, data := none }).sess? = some 2 := ⟨rfl, rfl⟩

/-- non-vacuity: two sessions opened one after the other get different handles -/
example : ((run {} [.initLib]).WF) := wf_run {} _ wf_init

/-- **Locking asked for is locking switched on**: whatever came before in the process - a C_Initialize(NULL) that switched the mutex factory off, failed attempts, C_Finalize - a
    C_Initialize with CKF_OS_LOCKING_OK or with mutex callbacks answers CKR_OK with the factory switched ON (model `mxTrace`, tied to `MutexFactory::enabled` by `purefn mxseq`) -/
theorem C18_locking_requested_is_enabled (c : Char) (r : List Char) (en : Bool) (hc : c = 'o' ∨ c = 'a') :
    (Shm.MutexLife.mxTrace (c :: r) false en).head? = some (.ini 0 true) := Shm.MutexLife.init_with_locking_enables c r en hc

/-- non-vacuity / the history of the seeded change: no locking, finalize, OS locking -/
example : Shm.MutexLife.mxTrace "nfo".toList false true = [.ini 0 false, .fin 0, .ini 0 true] := by decide

end Shm.C18
