/-
  C02: the wrap rules are consulted where a key leaves the token, tied to the SOURCE TEXT of src/lib/SoftHSM.cpp (table Gen/EntryFacts.lean, regenerated on every run by tools/extract_facts.py).
-/
import Shm.Gen.EntryFacts
namespace Shm.FactsC02
open Shm.Gen

theorem T02_wrap_rules_consulted :
    ["bool:CKA_EXTRACTABLE", "bool:CKA_WRAP_WITH_TRUSTED", "bool:CKA_TRUSTED", "rv:CKR_KEY_UNEXTRACTABLE", "rv:CKR_KEY_NOT_WRAPPABLE"].all (fun g => mentionsDirectly "C_WrapKey" g) = true := by decide +kernel

end Shm.FactsC02
