/-
  C11 — Handles are never reused and die exactly with what they denote.

  Statements are about the executable model `step` (Shm/Model/Step.lean); the model is tied to the code
  by the correspondence suite K11 (every handle value probed after every call).
  Only property theorems live in this file; helper lemmas are in Shm/Lemmas.
-/
import Shm.Lemmas.Purge
namespace Shm.C11
open Shm

/-! ## Specification vocabulary (written from the property text, not from the model) -/

/-- handle values a call hands out (that its caller did not pass in) -/
def issued (c : Call) (r : Resp) : List Nat :=
  match c with
  | .openSession _ _ => if r.rv = CKR.OK then r.nums else []
  | .create _ _ _ => if r.rv = CKR.OK then r.nums else []
  | .copy _ _ _ _ => if r.rv = CKR.OK then r.nums else []
  | .findInit _ _ _ => if r.rv = CKR.OK then r.nums else []     -- handles minted for objects that had none
  | _ => []

/-- all handle values handed out along a trace -/
def issuedTrace : State → List Call → List Nat
  | _, [] => []
  | s, c :: cs => issued c (step s c).2 ++ issuedTrace (step s c).1 cs

/-- the library stays initialised: no C_Initialize / C_Finalize in the trace -/
def StaysInitialised (cs : List Call) : Prop := ∀ c ∈ cs, c ≠ Call.initLib ∧ c ≠ Call.finiLib

/-- two table entries denote the same session / the same object -/
def sameThing : Ent → Ent → Prop
  | .sess a, .sess b => a.slot = b.slot ∧ a.rw = b.rw
  | .obj a, .obj b => a = b
  | _, _ => False

/-- `h` is the only open session of `slot` -/
def lastSessionOf (s : State) (h slot : Nat) : Bool :=
  !(s.handles.any fun e => e.1 != h && (match e.2 with | .sess x => x.slot == slot | _ => false))

/-- C_CloseSession h: the session itself, the session objects registered under it, and — when it was the
    last session of its slot — everything of the slot -/
def diesOnClose (s : State) (h slot : Nat) (k : Nat) (e : Ent) : Bool :=
  k == h || ownedBy h e || (lastSessionOf s h slot && e.slot == slot)

/-- C_CloseAllSessions slot: everything of the slot -/
def diesOnCloseAll (slot : Nat) (e : Ent) : Bool := e.slot == slot

/-- C_Logout: the private objects of the slot -/
def diesOnLogout (slot : Nat) (e : Ent) : Bool := privOn slot e

/-- the calls that invalidate handles -/
def isPurging : Call → Bool
  | .initLib | .finiLib | .closeSession _ | .closeAll _ | .logout _ | .destroy _ _ => true
  | _ => false

/-! ## Theorems -/

/-- every value a call hands out lies strictly above the counter before the call and at most at the
    counter after it -/
theorem C11_fresh (s : State) (c : Call) (h : Nat) (hh : h ∈ issued c (step s c).2) :
    s.counter < h ∧ h ≤ (step s c).1.counter := by
  cases c <;> simp only [issued] at hh <;> try (simp at hh)
  case openSession slot flags =>
    revert hh
    simp only [step, guardInit]
    split
    · simp [rOnly]
    · unfold stepOpenSession; step_cases <;> simp [rOnly]
      intro hh; omega
  case create k tpl e =>
    revert hh
    simp only [step, guardInit]
    split
    · simp [rOnly]
    · unfold stepCreate addObject; step_cases <;> simp [rOnly]
      all_goals (try (intro _ hh; omega))
      all_goals (try (intro hh; omega))
  case copy k o tpl e =>
    revert hh
    simp only [step, guardInit]
    split
    · simp [rOnly]
    · unfold stepCopy addObject; step_cases <;> simp [rOnly]
      all_goals (try (intro _ hh; omega))
      all_goals (try (intro hh; omega))
  case findInit k tpl m =>
    revert hh
    simp only [step, guardInit]
    split
    · simp [rOnly]
    · unfold stepFindInit; step_cases <;> simp [rOnly]
      all_goals (try (intro x hx hh; subst hh; simp_all; omega))

/-- while the library stays initialised the counter never decreases -/
theorem C11_counter_mono (s : State) (c : Call) (h1 : c ≠ .initLib) (h2 : c ≠ .finiLib) :
    s.counter ≤ (step s c).1.counter := by
  cases c <;> simp only [step, guardInit] <;> try contradiction
  all_goals (split; · simp [rOnly])
  case slots => simp [stepSlots]
  case initToken => unfold stepInitToken; step_cases <;> simp [rOnly]
  case openSession => unfold stepOpenSession; step_cases <;> simp [rOnly]
  case closeSession => unfold stepCloseSession; step_cases <;> simp [rOnly]
  case closeAll => unfold stepCloseAll; step_cases <;> simp [rOnly]
  case sessInfo => unfold stepSessInfo; step_cases <;> simp [rOnly]
  case login => unfold stepLogin; step_cases <;> simp [rOnly]
  case logout => unfold stepLogout; step_cases <;> simp [rOnly]
  case initPin => unfold stepInitPin; step_cases <;> simp [rOnly]
  case setPin => unfold stepSetPin; step_cases <;> simp [rOnly]
  case create => unfold stepCreate addObject; step_cases <;> simp [rOnly]
  case destroy => unfold stepDestroy; step_cases <;> simp [rOnly]
  case objProbe => unfold stepObjProbe; step_cases <;> simp [rOnly]
  case getAttr => unfold stepGetAttr; step_cases <;> simp [rOnly]
  case setAttr => unfold stepSetAttr; step_cases <;> simp [rOnly]
  case copy => unfold stepCopy addObject; step_cases <;> simp [rOnly]
  case objSize => unfold stepObjSize; step_cases <;> simp [rOnly]
  case findInit => unfold stepFindInit; step_cases <;> simp [rOnly]
  case find => unfold stepFind; step_cases <;> simp [rOnly]
  case findFinal => unfold stepFindFinal; step_cases <;> simp [rOnly]

/-- along any trace during which the library stays initialised, every value handed out is above the
    starting counter … -/
theorem C11_issued_above (s : State) (cs : List Call) (hcs : StaysInitialised cs) :
    ∀ h ∈ issuedTrace s cs, s.counter < h := by
  induction cs generalizing s with
  | nil => simp [issuedTrace]
  | cons c cs ih =>
    intro h hh
    simp only [issuedTrace, List.mem_append] at hh
    have hc := hcs c (by simp)
    rcases hh with hh | hh
    · exact (C11_fresh s c h hh).1
    · have := ih (step s c).1 (fun c' hc' => hcs c' (by simp [hc'])) h hh
      have := C11_counter_mono s c hc.1 hc.2
      omega

/-- … and no value is handed out twice: the sequence of issued values is strictly increasing.
    (Session and object handles come from the same sequence, so they never coincide either.) -/
theorem C11_never_reused (s : State) (cs : List Call) (hcs : StaysInitialised cs) :
    (issuedTrace s cs).Pairwise (· < ·) := by
  induction cs generalizing s with
  | nil => simp [issuedTrace]
  | cons c cs ih =>
    simp only [issuedTrace]
    have hc := hcs c (by simp)
    have hrest : StaysInitialised cs := fun c' hc' => hcs c' (by simp [hc'])
    rw [List.pairwise_append]
    refine ⟨?_, ih _ hrest, ?_⟩
    · -- within one call: `open`/`create` hand out one value, `findInit` an increasing range
      cases c <;> simp only [issued] <;> try (simp)
      case openSession slot flags =>
        split
        · simp only [step, guardInit]; split
          · simp [rOnly]
          · unfold stepOpenSession; step_cases <;> simp [rOnly]
        · simp
      case create k tpl e =>
        split
        · simp only [step, guardInit]; split
          · simp [rOnly]
          · unfold stepCreate addObject; step_cases <;> simp [rOnly]
        · simp
      case copy k o tpl e =>
        split
        · simp only [step, guardInit]; split
          · simp [rOnly]
          · unfold stepCopy addObject; step_cases <;> simp [rOnly]
        · simp
      case findInit k tpl m =>
        split
        · simp only [step, guardInit]; split
          · simp [rOnly]
          · unfold stepFindInit; step_cases <;> simp [rOnly]
            all_goals (rw [List.pairwise_map]; exact List.Pairwise.imp (by intro a b hab; omega) List.pairwise_lt_range)
        · simp
    · intro a ha b hb
      have h1 := (C11_fresh s c a ha).2
      have h2 := C11_issued_above (step s c).1 cs hrest b hb
      omega

/-- a value handed out by a call was not a valid handle before the call, nor at any earlier time
    (all earlier values are ≤ the counter; see `C11_dead_forever`) -/
theorem C11_issued_not_in_table (s : State) (hwf : s.WF) (c : Call) (h : Nat) (hh : h ∈ issued c (step s c).2) :
    s.handles.get h = none :=
  get_none_of_gt hwf h (C11_fresh s c h hh).1

/-- a call that fails leaves the whole handle table as it was -/
theorem C11_failed_keeps_all (s : State) (c : Call) (hf : (step s c).2.rv ≠ CKR.OK) :
    (step s c).1.handles = s.handles := by
  revert hf
  cases c <;> simp only [step, guardInit]
  case initLib => unfold stepInitialize; step_cases <;> simp [rOnly]
  case finiLib => unfold stepFinalize; step_cases <;> simp [rOnly]
  all_goals (split; · simp [rOnly])
  case slots => simp [stepSlots]
  case initToken => unfold stepInitToken; step_cases <;> simp [rOnly]
  case openSession => unfold stepOpenSession; step_cases <;> simp [rOnly]
  case closeSession => unfold stepCloseSession; step_cases <;> simp [rOnly]
  case closeAll => unfold stepCloseAll; step_cases <;> simp [rOnly]
  case sessInfo => unfold stepSessInfo; step_cases <;> simp [rOnly]
  case login => unfold stepLogin; step_cases <;> simp [rOnly]
  case logout => unfold stepLogout; step_cases <;> simp [rOnly]
  case initPin => unfold stepInitPin; step_cases <;> simp [rOnly]
  case setPin => unfold stepSetPin; step_cases <;> simp [rOnly]
  case create => unfold stepCreate addObject; step_cases <;> simp [rOnly]
  case destroy => unfold stepDestroy; step_cases <;> simp [rOnly]
  case objProbe => unfold stepObjProbe; step_cases <;> simp [rOnly]
  case getAttr => unfold stepGetAttr; step_cases <;> simp [rOnly]
  case setAttr => unfold stepSetAttr; step_cases <;> simp [rOnly]
  case copy => unfold stepCopy addObject; step_cases <;> simp [rOnly]
  case objSize => unfold stepObjSize; step_cases <;> simp [rOnly]
  case findInit => unfold stepFindInit; step_cases <;> simp [rOnly]
  case find => unfold stepFind; step_cases <;> simp [rOnly]
  case findFinal => unfold stepFindFinal; step_cases <;> simp [rOnly]

/-- C_CloseSession on a valid session handle: exactly the session, the session objects registered under it
    and (if it was the slot's last session) everything of the slot become invalid; every other handle is
    valid afterwards iff it was before, and denotes the same entry. -/
theorem C11_purge_closeSession (s : State) (hwf : s.WF) (hi : s.initialised = true) (h : Nat) (ss : Sess)
    (hs : s.handles.getSess h = some ss) (k : Nat) :
    (step s (.closeSession h)).2.rv = CKR.OK ∧
    (step s (.closeSession h)).1.handles.get k = (s.handles.get k).filter (fun e => !diesOnClose s h ss.slot k e) := by
  simp only [step, guardInit, hi, stepCloseSession, hs]
  refine ⟨by simp, ?_⟩
  simp only [Bool.not_true, Bool.false_eq_true, if_false]
  rw [get_sessionClosed hwf h k ss hs]
  congr 1; funext e
  simp [diesOnClose, lastSessionOf, isSessOn, Bool.and_assoc]
  congr 2

/-- C_CloseAllSessions on an existing slot: exactly the handles of that slot die -/
theorem C11_purge_closeAll (s : State) (hwf : s.WF) (hi : s.initialised = true) (slot : Nat)
    (hsl : (findSlot s.slots slot).isSome) (k : Nat) :
    (step s (.closeAll slot)).2.rv = CKR.OK ∧
    (step s (.closeAll slot)).1.handles.get k = (s.handles.get k).filter (fun e => !diesOnCloseAll slot e) := by
  simp only [step, guardInit, hi, stepCloseAll]
  cases hf : findSlot s.slots slot with
  | none => simp [hf] at hsl
  | some sl =>
    simp only [Bool.not_true, Bool.false_eq_true, if_false]
    refine ⟨by simp, ?_⟩
    unfold HTable.allSessionsClosed
    rw [get_eraseIf hwf]
    rfl

/-- C_Logout through a valid session: exactly the private-object handles of the session's slot die
    (C_Logout always succeeds on a valid session handle, logged in or not) -/
theorem C11_purge_logout (s : State) (hwf : s.WF) (hi : s.initialised = true) (h : Nat) (ss : Sess) (t : Tok)
    (hs : s.handles.getSess h = some ss) (ht : findTok s.slots ss.slot = some t) (k : Nat) :
    (step s (.logout h)).2.rv = CKR.OK ∧
    (step s (.logout h)).1.handles.get k = (s.handles.get k).filter (fun e => !diesOnLogout ss.slot e) := by
  simp only [step, guardInit, hi, stepLogout, hs, ht]
  simp only [Bool.not_true, Bool.false_eq_true, if_false]
  refine ⟨by simp, ?_⟩
  unfold HTable.tokenLoggedOut
  rw [get_eraseIf hwf]
  rfl

/-- C_DestroyObject that succeeds: exactly the handle passed in dies -/
theorem C11_purge_destroy (s : State) (hwf : s.WF) (h o : Nat)
    (hok : (step s (.destroy h o)).2.rv = CKR.OK) (k : Nat) :
    (step s (.destroy h o)).1.handles.get k = if k = o then none else s.handles.get k := by
  revert hok
  simp only [step, guardInit]
  split
  · simp [rOnly]
  · unfold stepDestroy
    step_cases <;> simp [rOnly]
    all_goals (have := get_destroyObject hwf o k _ (resolveObj_getObjH (by assumption)); simp_all)

/-- every call other than C_Initialize / C_Finalize / C_CloseSession / C_CloseAllSessions / C_Logout /
    C_DestroyObject keeps every valid handle valid and denoting the same session or object -/
theorem C11_other_calls_keep (s : State) (hwf : s.WF) (c : Call) (hc : isPurging c = false)
    (k : Nat) (e : Ent) (hg : s.handles.get k = some e) :
    ∃ e', (step s c).1.handles.get k = some e' ∧ sameThing e e' := by
  have hk : k ≤ s.counter := by
    have := hwf.bound (k, e) (lookup_mem _ _ _ hg); simpa using this
  have hrefl : sameThing e e := by cases e <;> simp [sameThing]
  have hupd : ∀ (h : Nat) (x : Sess) (ss : Sess), s.handles.getSess h = some ss → x.slot = ss.slot → x.rw = ss.rw →
      sameThing e (updSess h x k e) := by
    intro h x ss hs h1 h2
    unfold updSess
    by_cases hkh : k = h
    · subst hkh
      have := getSess_get hs
      rw [hg] at this
      cases this
      simp [sameThing, replSess, h1, h2]
    · have : (k == h) = false := by simp [beq_eq_false_iff_ne]; exact hkh
      simp [this, hrefl]
  have keep : ∃ e', s.handles.get k = some e' ∧ sameThing e e' := ⟨e, hg, hrefl⟩
  cases c with
  | initLib => simp [isPurging] at hc
  | finiLib => simp [isPurging] at hc
  | closeSession _ => simp [isPurging] at hc
  | closeAll _ => simp [isPurging] at hc
  | logout _ => simp [isPurging] at hc
  | destroy _ _ => simp [isPurging] at hc
  | slots => simp only [step, guardInit]; split <;> exact keep
  | initToken slot pin label ser =>
    simp only [step, guardInit]; split
    · exact keep
    · unfold stepInitToken; step_cases <;> exact keep
  | openSession slot flags =>
    simp only [step, guardInit]; split
    · exact keep
    · unfold stepOpenSession; step_cases
      all_goals first | exact keep | exact ⟨e, by show HTable.get (_ ++ _) k = _; rw [get_append_old hwf _ k hk]; exact hg, hrefl⟩
  | sessInfo h => simp only [step, guardInit]; split
                  · exact keep
                  · unfold stepSessInfo; step_cases <;> exact keep
  | login hS u p =>
    simp only [step, guardInit]; split
    · exact keep
    · unfold stepLogin
      split
      · exact keep
      next ss hs =>
        have hget : ∀ (x : Sess), (s.handles.setSess hS x).get k = some (updSess hS x k e) := by
          intro x; rw [get_setSess, hg]; rfl
        step_cases
        all_goals first | exact keep | exact ⟨_, hget _, hupd hS _ ss hs (by rfl) (by rfl)⟩
  | initPin h p => simp only [step, guardInit]; split
                   · exact keep
                   · unfold stepInitPin; step_cases <;> exact keep
  | setPin h o n => simp only [step, guardInit]; split
                    · exact keep
                    · unfold stepSetPin; step_cases <;> exact keep
  | objProbe h o => simp only [step, guardInit]; split
                    · exact keep
                    · unfold stepObjProbe; step_cases <;> exact keep
  | create h tpl en =>
    simp only [step, guardInit]; split
    · exact keep
    · unfold stepCreate addObject; step_cases
      all_goals first | exact keep | exact ⟨e, by show HTable.get (_ ++ _) k = _; rw [get_append_old hwf _ k hk]; exact hg, hrefl⟩
  | copy h o tpl en =>
    simp only [step, guardInit]; split
    · exact keep
    · unfold stepCopy addObject; step_cases
      all_goals first | exact keep | exact ⟨e, by show HTable.get (_ ++ _) k = _; rw [get_append_old hwf _ k hk]; exact hg, hrefl⟩
  | getAttr h o req ov => simp only [step, guardInit]; split
                          · exact keep
                          · unfold stepGetAttr; step_cases <;> exact keep
  | setAttr h o tpl en => simp only [step, guardInit]; split
                          · exact keep
                          · unfold stepSetAttr; step_cases <;> exact keep
  | objSize h o => simp only [step, guardInit]; split
                   · exact keep
                   · unfold stepObjSize; step_cases <;> exact keep
  | findInit hS tpl m =>
    simp only [step, guardInit]; split
    · exact keep
    · unfold stepFindInit
      split
      · split <;> exact keep
      next ss t hst =>
        have hs : s.handles.getSess hS = some ss := sessTok_getSess hst
        step_cases
        all_goals first | exact keep | skip
        have hget : ∀ (os : List Obj) (x : Sess),
            ((mintAll s.handles s.counter ss.slot hS os).setSess hS x).get k = some (updSess hS x k e) := by
          intro os x; rw [get_setSess, get_mintAll_old hwf _ _ _ k hk, hg]; rfl
        exact ⟨_, hget _ _, hupd hS _ ss hs (by rfl) (by rfl)⟩
  | find hS m =>
    simp only [step, guardInit]; split
    · exact keep
    · unfold stepFind; step_cases
      all_goals first | exact keep | skip
      rename_i ss hs _
      have hget : ∀ (x : Sess), (s.handles.setSess hS x).get k = some (updSess hS x k e) := by
        intro x; rw [get_setSess, hg]; rfl
      exact ⟨_, hget _, hupd hS _ ss hs rfl rfl⟩
  | findFinal hS =>
    simp only [step, guardInit]; split
    · exact keep
    · unfold stepFindFinal; step_cases
      all_goals first | exact keep | skip
      rename_i ss hs _
      have hget : ∀ (x : Sess), (s.handles.setSess hS x).get k = some (updSess hS x k e) := by
        intro x; rw [get_setSess, hg]; rfl
      exact ⟨_, hget _, hupd hS _ ss hs rfl rfl⟩

/-- a handle value that has been issued (`k ≤ counter`) and is invalid stays invalid across any call:
    the calls only erase entries or add entries above the counter -/
theorem C11_dead_stays_dead (s : State) (hwf : s.WF) (c : Call) (k : Nat) (hk : k ≤ s.counter)
    (hg : s.handles.get k = none) : (step s c).1.handles.get k = none := by
  have happ : ∀ e : Ent, HTable.get (s.handles ++ [(s.counter + 1, e)]) k = none := by
    intro e; rw [get_append_old hwf _ k hk]; exact hg
  have hmint : ∀ (slot hS : Nat) (os : List Obj) (x : Sess),
      ((mintAll s.handles s.counter slot hS os).setSess hS x).get k = none := by
    intro slot hS os x; rw [get_setSess, get_mintAll_old hwf _ _ _ k hk, hg]; rfl
  cases c with
  | initLib => simp only [step]; unfold stepInitialize; step_cases <;> first | exact hg | rfl
  | finiLib => simp only [step]; unfold stepFinalize; step_cases <;> first | exact hg | rfl
  | slots => simp only [step, guardInit]; split <;> exact hg
  | initToken slot pin label ser =>
    simp only [step, guardInit]; split
    · exact hg
    · unfold stepInitToken; step_cases <;> exact hg
  | openSession slot flags =>
    simp only [step, guardInit]; split
    · exact hg
    · unfold stepOpenSession; step_cases <;> first | exact hg | exact happ _
  | closeSession h =>
    simp only [step, guardInit]; split
    · exact hg
    · unfold stepCloseSession; step_cases <;> first | exact hg | exact get_none_sessionClosed hwf _ k hg
  | closeAll slot =>
    simp only [step, guardInit]; split
    · exact hg
    · unfold stepCloseAll; step_cases <;> first | exact hg | exact get_none_eraseIf hwf _ k hg
  | sessInfo h => simp only [step, guardInit]; split
                  · exact hg
                  · unfold stepSessInfo; step_cases <;> exact hg
  | login h u p => simp only [step, guardInit]; split
                   · exact hg
                   · unfold stepLogin; step_cases <;> first | exact hg | exact get_none_setSess _ _ _ k hg
  | logout h =>
    simp only [step, guardInit]; split
    · exact hg
    · unfold stepLogout; step_cases <;> first | exact hg | exact get_none_eraseIf hwf _ k hg
  | initPin h p => simp only [step, guardInit]; split
                   · exact hg
                   · unfold stepInitPin; step_cases <;> exact hg
  | setPin h o n => simp only [step, guardInit]; split
                    · exact hg
                    · unfold stepSetPin; step_cases <;> exact hg
  | objProbe h o => simp only [step, guardInit]; split
                    · exact hg
                    · unfold stepObjProbe; step_cases <;> exact hg
  | create h tpl en =>
    simp only [step, guardInit]; split
    · exact hg
    · unfold stepCreate addObject; step_cases <;> first | exact hg | exact happ _
  | copy h o tpl en =>
    simp only [step, guardInit]; split
    · exact hg
    · unfold stepCopy addObject; step_cases <;> first | exact hg | exact happ _
  | getAttr h o req ov => simp only [step, guardInit]; split
                          · exact hg
                          · unfold stepGetAttr; step_cases <;> exact hg
  | setAttr h o tpl en => simp only [step, guardInit]; split
                          · exact hg
                          · unfold stepSetAttr; step_cases <;> exact hg
  | objSize h o => simp only [step, guardInit]; split
                   · exact hg
                   · unfold stepObjSize; step_cases <;> exact hg
  | destroy h o =>
    simp only [step, guardInit]; split
    · exact hg
    · unfold stepDestroy; step_cases <;> first | exact hg | exact get_none_destroyObject hwf _ k hg
  | findInit hS tpl m =>
    simp only [step, guardInit]; split
    · exact hg
    · unfold stepFindInit; step_cases <;> first | exact hg | exact hmint _ _ _ _
  | find hS m =>
    simp only [step, guardInit]; split
    · exact hg
    · unfold stepFind; step_cases <;> first | exact hg | exact get_none_setSess _ _ _ k hg
  | findFinal hS =>
    simp only [step, guardInit]; split
    · exact hg
    · unfold stepFindFinal; step_cases <;> first | exact hg | exact get_none_setSess _ _ _ k hg

/-- “rejected as invalid from then on”: along any trace during which the library stays initialised, a handle
    value that was issued and has become invalid is invalid in every later state -/
theorem C11_dead_forever (s : State) (hwf : s.WF) (cs : List Call) (hcs : StaysInitialised cs) (k : Nat)
    (hk : k ≤ s.counter) (hg : s.handles.get k = none) : (run s cs).handles.get k = none := by
  induction cs generalizing s with
  | nil => exact hg
  | cons c cs ih =>
    have hc := hcs c (by simp)
    show (run (step s c).1 cs).handles.get k = none
    apply ih (step s c).1 (wf_step s c hwf) (fun c' hc' => hcs c' (by simp [hc']))
    · have := C11_counter_mono s c hc.1 hc.2; omega
    · exact C11_dead_stays_dead s hwf c k hk hg

/-- the session objects of a closed session are destroyed, and no other object is -/
theorem C11_close_destroys_session_objects (s : State) (hi : s.initialised = true) (h : Nat) (ss : Sess)
    (hs : s.handles.getSess h = some ss) :
    (step s (.closeSession h)).1.objs = s.objs.filter (fun o => o.onToken || o.owner != h) := by
  simp only [step, guardInit, hi, stepCloseSession, hs, objsSessionClosed]
  simp only [Bool.not_true, Bool.false_eq_true, if_false]
  congr 1; funext o
  cases hot : o.onToken <;> cases hoh : (o.owner == h) <;> simp [bne, hoh]

/-- non-vacuity: a reachable state with two sessions, a session object and a token object, in which
    closing the first session kills exactly its handle and its session object's handle -/
example :
    let s := run {} [.initLib, .slots, .initToken 0 (some [49,50,51,52]) [65] [48,48,48,48,48,48,48,48],
                     .openSession 0 6, .openSession 0 6,
                     .create 1 [⟨0, some (ulongLE 0), 8, none⟩, ⟨1, some [0], 1, none⟩, ⟨2, some [0], 1, none⟩] 0,
                     .create 2 [⟨0, some (ulongLE 0), 8, none⟩, ⟨1, some [1], 1, none⟩, ⟨2, some [0], 1, none⟩] 0]
    s.WF ∧ s.counter = 4 ∧ (s.handles.get 3).isSome ∧ (s.handles.get 4).isSome ∧
    ((step s (.closeSession 1)).1.handles.get 1).isNone ∧ ((step s (.closeSession 1)).1.handles.get 3).isNone ∧
    ((step s (.closeSession 1)).1.handles.get 2).isSome ∧ ((step s (.closeSession 1)).1.handles.get 4).isSome := by
  refine ⟨wf_run _ _ wf_init, ?_⟩
  decide

end Shm.C11
