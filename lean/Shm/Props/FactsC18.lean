/-
  C18, tied to the SOURCE TEXT (Gen/LockFacts.lean, regenerated on every run by tools/extract_locks.py): the methods of the shared tables - handle table, session table, session object
  store, token login state and its one cipher object - run ENTIRELY under their class's mutex: `MutexLocker lock(<mutex>)` is their first statement (plain local declarations aside).
  A locker that moves behind a check, into a nested block, or disappears breaks the theorem; what such a change lets threads observe is what the K18 scheduler explores.
-/
import Shm.Gen.LockFacts
namespace Shm.FactsC18
open Shm.Gen

/-- the methods whose every statement must be serialised -/
def serialised : List String := ["HandleManager::addSession", "HandleManager::addSessionObject", "HandleManager::addTokenObject", "HandleManager::destroyObject", "HandleManager::getObject", "HandleManager::getObjectHandle", "HandleManager::getSession", "HandleManager::sessionClosed", "HandleManager::tokenLoggedOut", "SessionManager::getSession", "SessionManager::haveROSession", "SessionManager::haveSession", "SessionObjectStore::allSessionsClosed", "SessionObjectStore::clearStore", "SessionObjectStore::deleteObject", "SessionObjectStore::getObjects", "SessionObjectStore::sessionClosed", "SessionObjectStore::tokenLoggedOut", "Token::createToken", "Token::decrypt", "Token::encrypt", "Token::getTokenInfo", "Token::initUserPIN", "Token::isSOLoggedIn", "Token::isUserLoggedIn", "Token::isValid", "Token::loginSO", "Token::loginUser", "Token::logout", "Token::reAuthenticate", "Token::setSOPIN", "Token::setUserPIN"]

theorem T18_shared_tables_lock_first : serialised.all locksFirst = true := by decide +kernel

/-- and each class uses ONE mutex for them -/
theorem T18_one_mutex_per_class :
    (lockFacts.filter fun e => e.2.1 == "first").all (fun e =>
      (e.1.startsWith "HandleManager::" → e.2.2 == "handlesMutex") && (e.1.startsWith "SessionManager::" → e.2.2 == "sessionsMutex") &&
      (e.1.startsWith "SessionObjectStore::" → e.2.2 == "storeMutex") && (e.1.startsWith "Token::" → e.2.2 == "tokenMutex")) = true := by decide +kernel

end Shm.FactsC18
