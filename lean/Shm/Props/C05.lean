/-
  C05 — token objects persist durably, faithfully and in a stable on-disk format.

  Two layers.
  (1) The byte format: the Lean codec of Shm/Store/Codec.lean (a total decoder that reproduces `ObjectFile::refresh`
      on every byte string, and the encoder of `writeAttributes`).  Round trip, injectivity, canonical form.
  (2) The state machine: what survives C_Finalize/C_Initialize and a process restart, what never comes back, and that
      no call other than C_SetAttributeValue(on that object) changes an attribute value — for every history of the
      complete machine (core calls, cryptographic calls, key generation, restarts).
  The tie between (1), (2) and the code is the correspondence suite K05: after every few calls and around every
  restart the real token directory is dumped, decoded by (1) (PIN blobs opened and private values decrypted by the Lean
  AES/SHA-256), and must be exactly the image of the model state of (2).
-/
import Shm.Store.CodecLemmas
import Shm.Lemmas.Kept
import Shm.Gen.StoreSample
import Shm.Store.DiskView
import Shm.Lemmas.PureThms
namespace Shm.C05
open Shm Shm.Store

/-! ### (1) the format -/

/-- **Round trip**: whatever `writeAttributes` can be handed is read back identically by `refresh` — every attribute kind,
    nested attribute maps included, any number of attributes, any lengths below 2^64. -/
theorem C05_codec_roundtrip (gen : Nat) (attrs : FAttrs) (hg : gen < 2^64) (h : AttrsWF attrs) :
    decodeFile (encodeFile gen attrs) = .valid (some gen) attrs := by
  have hne : (be8 gen ++ attrs.flatMap encAttr).isEmpty = false := by simp [be8]
  have := rdAttrs_enc attrs [] ((attrs.flatMap encAttr).length + 1)
    (by have := flatMap_encAttr_length_ge attrs; omega) (by simpa using h.1) h.2
  simp only [List.nil_append] at this
  simp only [decodeFile, encodeFile, hne, Bool.false_eq_true, if_false, rdULong_be8 _ _ hg, this]

/-- the encoder loses nothing: different contents give different files -/
theorem C05_encode_injective (g1 g2 : Nat) (a1 a2 : FAttrs) (h1 : g1 < 2^64) (h2 : g2 < 2^64) (w1 : AttrsWF a1) (w2 : AttrsWF a2)
    (he : encodeFile g1 a1 = encodeFile g2 a2) : g1 = g2 ∧ a1 = a2 := by
  have r1 := C05_codec_roundtrip g1 a1 h1 w1
  have r2 := C05_codec_roundtrip g2 a2 h2 w2
  rw [he, r2] at r1
  injection r1 with hg ha
  injection hg with hg
  exact ⟨hg.symm, ha.symm⟩

/-- a prefix of the attribute list is well formed -/
theorem attrsWF_take {l : FAttrs} (h : AttrsWF l) (k : Nat) : AttrsWF (l.take k) := by
  refine ⟨?_, fun e he => h.2 e (List.mem_of_mem_take he)⟩
  have : (l.take k).map Prod.fst = (l.map Prod.fst).take k := by simp [List.map_take]
  rw [this]
  exact List.Pairwise.sublist (List.take_sublist _ _) h.1

/-- **What a torn write looks like to the loader** (the format has no length, count or checksum): a file cut at any attribute
    boundary is a VALID object with fewer attributes.  This is the formal content of the C16 finding about in-place rewrites. -/
theorem C05_truncated_at_boundary_is_valid (gen : Nat) (attrs : FAttrs) (k : Nat) (hg : gen < 2^64) (h : AttrsWF attrs) :
    decodeFile (be8 gen ++ (attrs.take k).flatMap encAttr) = .valid (some gen) (attrs.take k) :=
  C05_codec_roundtrip gen (attrs.take k) hg (attrsWF_take h k)

/-- non-vacuity of the hypotheses and a concrete instance (class, token, label, a mechanism set and a nested template) -/
def sampleAttrs : FAttrs :=
  [(0x0, .ulong 4), (0x1, .bool true), (0x3, .bytes [0x61, 0x62]), (0x40000211, .amap [(0x104, .bool true), (0x161, .ulong 16)]),
   (0x40000600, .mechs [0x1081, 0x1082])]

example : decodeFile (encodeFile 7 sampleAttrs) = .valid (some 7) sampleAttrs := by decide +kernel
example : decodeFile (be8 7 ++ (sampleAttrs.take 2).flatMap encAttr) = .valid (some 7) (sampleAttrs.take 2) := by decide +kernel
/-- … and cut in the middle of a value the loader rejects the file -/
example : decodeFile ((encodeFile 7 sampleAttrs).take 45) = .invalid := by decide +kernel
/-- … but cut inside an attribute-TYPE word it is accepted, with the attributes read so far -/
example : decodeFile ((encodeFile 7 sampleAttrs).take 50) = .valid (some 7) (sampleAttrs.take 2) := by decide +kernel

/-! ### (T) the codec against the real writer, executed on this tree -/

/-- what tools/tabledump.cpp put into the sample object (one attribute of every kind, a nested template with all four inner kinds) -/
def writerSample : FAttrs :=
  [(0x0, .ulong 4), (0x1, .bool true), (0x2, .bool false), (0x3, .bytes [0x6c, 0x61, 0x62, 0x65, 0x6c]), (0x102, .bytes []),
   (0x40000211, .amap [(0x3, .bytes [0x69, 0x6e, 0x6e, 0x65, 0x72]), (0x104, .bool true), (0x161, .ulong 32), (0x40000600, .mechs [0x251, 0x1081, 0x1082])]),
   (0x40000600, .mechs [0x251, 0x1081, 0x1082]), (0x8000534B, .ulong 0x42D)]

/-- **T05**: the bytes the real `ObjectFile` wrote for the sample (regenerated into Shm/Gen/StoreSample.lean on every run) decode, with the
    Lean decoder, to exactly the sample — and the Lean encoder reproduces them byte for byte. -/
def sampleAgrees : Bool :=
  match decodeFile Gen.storeSample with
  | .valid (some g) a => a == writerSample && encodeFile g a == Gen.storeSample
  | _ => false

theorem T05_writer_sample : sampleAgrees = true := by decide +kernel

/-- constants the hand-written store model uses, against their values as compiled -/
theorem T05_consts :
    Gen.CKA_OS_TOKENLABEL = Store.CKA_OS_TOKENLABEL ∧ Gen.CKA_OS_TOKENSERIAL = Store.CKA_OS_TOKENSERIAL ∧
    Gen.CKA_OS_TOKENFLAGS = Store.CKA_OS_TOKENFLAGS ∧ Gen.CKA_OS_SOPIN = Store.CKA_OS_SOPIN ∧ Gen.CKA_OS_USERPIN = Store.CKA_OS_USERPIN ∧
    Gen.PBE_ITERATION_BASE_COUNT = 1500 ∧
    (∀ p : Bytes, pinLenOk p = (decide (Gen.MIN_PIN_LEN ≤ p.length) && decide (p.length ≤ Gen.MAX_PIN_LEN))) := by
  refine ⟨rfl, rfl, rfl, rfl, rfl, rfl, fun p => ?_⟩
  simp only [pinLenOk, Gen.MIN_PIN_LEN, Gen.MAX_PIN_LEN]; rfl

/-! ### (2) the state machine -/

/-- the persistent content of the store: identity, privacy and attributes of the token objects -/
def tokView (s : State) : List (Nat × Bool × Attrs) := (s.objs.filter (·.onToken)).map fun o => (o.oid, o.isPriv, o.attrs)

theorem filter_onToken_idem (l : List Obj) : (l.filter (·.onToken)).filter (·.onToken) = l.filter (·.onToken) := by
  simp [List.filter_filter]

theorem tokView_reslot (l : List Obj) (f : Obj → Obj)
    (hf : ∀ o, (f o).oid = o.oid ∧ (f o).isPriv = o.isPriv ∧ (f o).attrs = o.attrs ∧ (f o).onToken = o.onToken) :
    (((l.filter (·.onToken)).map f).filter (·.onToken)).map (fun o => (o.oid, o.isPriv, o.attrs)) =
    (l.filter (·.onToken)).map (fun o => (o.oid, o.isPriv, o.attrs)) := by
  induction l with
  | nil => rfl
  | cons o os ih =>
    by_cases ht : o.onToken = true
    · simp only [List.filter_cons, ht, if_true, List.map_cons, (hf o).2.2.2, (hf o).1, (hf o).2.1, (hf o).2.2.1]
      rw [ih]
    · simp only [List.filter_cons, ht, Bool.false_eq_true, if_false]
      exact ih

/-- **C_Finalize keeps every token object** with identical attributes and drops every session object -/
theorem C05_finalize (s : State) (hi : s.initialised = true) :
    tokView (stepFinalize s).1 = tokView s ∧ ∀ o ∈ (stepFinalize s).1.objs, o.onToken = true := by
  unfold stepFinalize tokView
  simp only [hi, Bool.not_true, Bool.false_eq_true, if_false, filter_onToken_idem]
  exact ⟨trivial, fun o ho => by simpa using (List.mem_filter.mp ho).2⟩

/-- **a process restart** (with or without C_Finalize) keeps exactly the token objects -/
theorem C05_restart (s : State) :
    tokView (stepRestart s).1 = tokView s ∧ ∀ o ∈ (stepRestart s).1.objs, o.onToken = true := by
  unfold stepRestart stepFinalize tokView
  simp only [Bool.not_true, Bool.false_eq_true, if_false, filter_onToken_idem]
  exact ⟨trivial, fun o ho => by simpa using (List.mem_filter.mp ho).2⟩

/-- **C_Initialize finds every token object again** with identical attributes (only the slot number is recomputed from the serial) -/
theorem C05_initialize (s : State) (hi : s.initialised = false) : tokView (stepInitialize s).1 = tokView s := by
  unfold stepInitialize tokView
  simp only [hi, Bool.false_eq_true, if_false, filter_onToken_idem]
  exact tokView_reslot _ _ (fun o => by split <;> simp)

/-- restart followed by C_Initialize: the store content is what it was -/
theorem C05_restart_initialize (s : State) :
    tokView (stepAny (stepAny s .restart).1 (.core .initLib)).1 = tokView s := by
  have h1 := (C05_restart s).1
  have hi : (stepRestart s).1.initialised = false := by simp [stepRestart]
  simp only [stepAny, step]
  rw [C05_initialize _ hi, h1]

/-- **attribute values are stable**: after any single call, every object that existed before and still exists has identical
    attributes, token/session nature and privacy — unless the call is C_SetAttributeValue on that very object. -/
theorem C05_values_stable (s : State) (c : AnyCall) (o' : Obj) (ho : o' ∈ (stepAny s c).1.objs) (hold : o'.oid < s.nextOid)
    (hne : some o'.oid ≠ changeTarget s c) :
    ∃ o ∈ s.objs, o.oid = o'.oid ∧ o.attrs = o'.attrs ∧ o.onToken = o'.onToken ∧ o.isPriv = o'.isPriv :=
  kept_stepAny s c o' ho hold hne

/-- reachable states: every object id is below the allocation counter -/
def OidInv (s : State) : Prop := ∀ o ∈ s.objs, o.oid < s.nextOid

theorem oidInv_init : OidInv {} := fun _ h => by simp at h

theorem oidInv_runAny (s : State) (cs : List AnyCall) (h : OidInv s) : OidInv (runAny s cs) := by
  intro o ho
  rcases (evolves_runAny s cs).2 o ho with ⟨o0, hm, he, _⟩ | ⟨_, h2⟩
  · have := h o0 hm; have := (evolves_runAny s cs).1; omega
  · exact h2

/-- **destroyed objects never reappear; object identities are never reused**: an object id that is not in the store and is below
    the allocation counter (every id ever issued is) is in no later state — over arbitrary histories including restarts. -/
theorem C05_never_reappears (s : State) (oid : Nat) (hgone : ∀ o ∈ s.objs, o.oid ≠ oid) (hissued : oid < s.nextOid) (cs : List AnyCall) :
    ∀ o ∈ (runAny s cs).objs, o.oid ≠ oid := by
  intro o ho heq
  rcases (evolves_runAny s cs).2 o ho with ⟨o0, hm, he, _⟩ | ⟨h1, _⟩
  · exact hgone o0 hm (he.trans heq)
  · omega

/-- a successful C_DestroyObject removes the object (so `C05_never_reappears` applies to it from then on) -/
theorem C05_destroy_removes (s : State) (h o : Nat) (hok : (stepDestroy s h o).2.rv = CKR.OK) :
    ∃ ob, (resolveObj s o).map (·.2) = some ob ∧ ∀ x ∈ (stepDestroy s h o).1.objs, x.oid ≠ ob.oid := by
  unfold stepDestroy at hok ⊢
  cases hst : sessTok s h with
  | none => rw [hst] at hok; dsimp only at hok; split at hok <;> simp [rOnly] at hok
  | some p =>
    obtain ⟨ss, t⟩ := p
    rw [hst] at hok
    dsimp only at hok ⊢
    cases hres : resolveObj s o with
    | none => rw [hres] at hok; simp [rOnly] at hok
    | some q =>
      obtain ⟨oh, ob⟩ := q
      rw [hres] at hok
      dsimp only at hok ⊢
      by_cases h1 : (Gen.haveWrite (stateOf t ss.rw) ob.onToken ob.isPriv != CKR.OK) = true
      · rw [if_pos h1] at hok; simp only [rOnly] at hok; rw [hok] at h1; simp at h1
      · rw [if_neg h1] at hok ⊢
        by_cases h2 : (!getBoolD ob.attrs CKA.DESTROYABLE true) = true
        · rw [if_pos h2] at hok; simp [rOnly] at hok
        · rw [if_neg h2]
          refine ⟨ob, rfl, fun x hx => ?_⟩
          have := (List.mem_filter.mp hx).2
          simpa using this

/-- the token/session nature of an object never changes, and a session object's owner never changes (so it dies with that session) -/
theorem C05_nature_fixed (s : State) (cs : List AnyCall) (o' : Obj) (ho : o' ∈ (runAny s cs).objs) (hold : o'.oid < s.nextOid) :
    ∃ o ∈ s.objs, o.oid = o'.oid ∧ o.onToken = o'.onToken ∧ o.isPriv = o'.isPriv ∧ o.owner = o'.owner := by
  rcases (evolves_runAny s cs).2 o' ho with h | ⟨h1, _⟩
  · exact h
  · omega

end Shm.C05

/-! ### the stored encodings are built from `ByteString::serialise` / `chainDeserialise` (unit-tied definitions of Shm/Pure) -/
namespace Shm.Pure
open Shm

/-- **serialised byte strings chain**: what `serialise` wrote is read back exactly by `chainDeserialise`, and the rest of the chain is left for the next read -
    for every value below 2^64 bytes and every continuation -/
theorem C05_serialise_roundtrip (b rest : Bytes) (h : b.length < 2 ^ 64) : chainDeserialise (serialise b ++ rest) = (b, rest) := ser_roundtrip b rest h

/-- `ByteString(unsigned long)` / `long_val` are inverse on 64-bit values (lengths, generation numbers, attribute types and kinds are stored this way) -/
theorem C05_ulong_roundtrip (n : Nat) (h : n < 2 ^ 64) : longVal (ofULong n) = n := by
  unfold longVal ofULong
  rw [List.take_of_length_le (by simp [Shm.Store.be8_length]), Shm.Store.beVal_be8 n h]

example : chainDeserialise (serialise [1, 2, 3] ++ serialise [9]) = ([1, 2, 3], serialise [9]) ∧ longVal (ofULong 258) = 258 := by decide

end Shm.Pure
