/-
  C12, tied to the SOURCE TEXT (Gen/EntryFacts.lean): every operation start asks whether an operation is active and names CKR_OPERATION_ACTIVE; every continuation
  (single-part, update, final) can end the operation (`resetOp`) and names CKR_OPERATION_NOT_INITIALIZED in its own body or in its dispatcher.
-/
import Shm.Gen.EntryFacts
namespace Shm.FactsC12
open Shm.Gen

def starts : List String := ["SymEncryptInit", "AsymEncryptInit", "SymDecryptInit", "AsymDecryptInit", "MacSignInit", "AsymSignInit", "MacVerifyInit", "AsymVerifyInit", "C_DigestInit", "C_FindObjectsInit"]

def continuations : List String := ["SymEncrypt", "AsymEncrypt", "SymEncryptUpdate", "SymEncryptFinal", "SymDecrypt", "AsymDecrypt", "SymDecryptUpdate", "SymDecryptFinal",
  "MacSign", "AsymSign", "MacSignUpdate", "AsymSignUpdate", "MacSignFinal", "AsymSignFinal", "MacVerify", "AsymVerify", "MacVerifyUpdate", "AsymVerifyUpdate", "MacVerifyFinal", "AsymVerifyFinal",
  "C_Digest", "C_DigestUpdate", "C_DigestFinal", "C_FindObjectsFinal"]

def dispatchers : List String := ["C_Encrypt", "C_EncryptUpdate", "C_EncryptFinal", "C_Decrypt", "C_DecryptUpdate", "C_DecryptFinal", "C_Sign", "C_SignUpdate", "C_SignFinal",
  "C_Verify", "C_VerifyUpdate", "C_VerifyFinal", "C_Digest", "C_DigestUpdate", "C_DigestFinal", "C_FindObjects", "C_FindObjectsFinal"]

theorem T12_starts_refuse_a_second_operation : starts.all (fun f => mentionsDirectly f "getOpType" && mentionsDirectly f "rv:CKR_OPERATION_ACTIVE" && mentionsDirectly f "setOpType") = true := by decide +kernel

theorem T12_continuations_can_end_the_operation : continuations.all (fun f => mentionsDirectly f "resetOp") = true := by decide +kernel

theorem T12_dispatchers_check_the_operation_kind : dispatchers.all (fun f => mentionsDirectly f "getOpType" && mentionsDirectly f "rv:CKR_OPERATION_NOT_INITIALIZED") = true := by decide +kernel

end Shm.FactsC12
