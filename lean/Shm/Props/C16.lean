/-
  C16 — a crash at any point leaves the token usable and loses nothing committed.

  What a theorem can carry here: (a) a process death BETWEEN calls (every file is complete and flushed: the write-through
  abstraction of C05) loses nothing — the restart theorems; (b) what the loader makes of a torn file, for every cut point.
  What happens when the process dies INSIDE a call is decided by the crash-point enumeration K16 against the real library, with
  this model as the oracle for the two admissible outcomes.
-/
import Shm.Props.C05
import Shm.Props.C14
namespace Shm.C16
open Shm Shm.Store

/-- **between calls nothing is lost**: after any history, a process death followed by C_Initialize yields exactly the token objects
    (identity, privacy, attributes) the store had — no committed object is lost, changed or duplicated, no session object survives -/
theorem C16_restart_loses_nothing (cs : List AnyCall) :
    let s := runAny {} cs
    C05.tokView (stepAny (stepAny s .restart).1 (.core .initLib)).1 = C05.tokView s :=
  C05.C05_restart_initialize _

/-- … and every token record (label, serial, both PINs, stored flags) survives; only the login state is dropped -/
theorem C16_restart_keeps_tokens (s : State) (id : Nat) :
    findTok (stepRestart s).1.slots id = (findTok s.slots id).map Tok.logout := C14.C14_restart s id

/-- **torn files, cut inside the generation word**: fewer than 8 bytes are an object without attributes (since the fix 8179b37: not presented as an object) -/
theorem C16_cut_in_generation (bs : Bytes) (h1 : bs ≠ []) (h2 : bs.length < 8) : decodeFile bs = .valid none [] := by
  unfold decodeFile
  have : bs.isEmpty = false := by cases bs <;> simp_all
  simp [this, rdULong, h2]

/-- **torn files, cut at an attribute boundary**: accepted as a valid object carrying exactly the attributes written so far -/
theorem C16_cut_at_boundary (gen : Nat) (attrs : FAttrs) (k : Nat) (hg : gen < 2^64) (h : AttrsWF attrs) :
    decodeFile (be8 gen ++ (attrs.take k).flatMap encAttr) = .valid (some gen) (attrs.take k) :=
  C05.C05_truncated_at_boundary_is_valid gen attrs k hg h

/-- **torn files, cut inside the kind word or a fixed-size value of the next attribute**: rejected ("Corrupt object file") -/
theorem C16_cut_inside_kind (gen : Nat) (attrs : FAttrs) (ty : Nat) (part : Bytes) (hg : gen < 2^64) (h : AttrsWF attrs) (ht : ty < 2^64)
    (hp : part.length < 8) :
    decodeFile (be8 gen ++ (attrs.flatMap encAttr ++ (be8 ty ++ part))) = .invalid := by
  have hne : (be8 gen ++ (attrs.flatMap encAttr ++ (be8 ty ++ part))).isEmpty = false := by simp [be8]
  simp only [decodeFile, hne, Bool.false_eq_true, if_false, rdULong_be8 _ _ hg]
  -- read the complete attributes, then fail on the short kind word
  have key : ∀ (l acc : FAttrs) (fuel : Nat), l.length + 1 < fuel → ((acc ++ l).map Prod.fst).Pairwise (· < ·) → (∀ e ∈ l, e.1 < 2^64 ∧ e.2.WF) →
      rdAttrs fuel (l.flatMap encAttr ++ (be8 ty ++ part)) acc = none := by
    intro l
    induction l with
    | nil =>
      intro acc fuel hf _ _
      cases fuel with
      | zero => omega
      | succ f =>
        simp only [List.flatMap_nil, List.nil_append]
        unfold rdAttrs
        simp only [rdULong_be8 _ _ ht]
        simp [rdULong, hp]
    | cons e es ih =>
      intro acc fuel hf hpw hb
      cases fuel with
      | zero => omega
      | succ f =>
        obtain ⟨k, v⟩ := e
        have hk : k < 2^64 := (hb (k, v) (by simp)).1
        have hv : v.WF := (hb (k, v) (by simp)).2
        have hlt : ∀ y ∈ acc, y.1 < k := by
          intro y hy
          have := List.pairwise_append.mp (by simpa [List.map_append] using hpw)
          exact this.2.2 y.1 (List.mem_map_of_mem hy) k (by simp)
        have hrest := ih (acc ++ [(k, v)]) f (by simp at hf; omega) (by simpa [List.append_assoc] using hpw) (fun y hy => hb y (by simp [hy]))
        have hkind : v.kind < 2^64 := by cases v <;> simp [FVal.kind]
        unfold rdAttrs
        simp only [List.flatMap_cons, encAttr, List.append_assoc, rdULong_be8 _ _ hk, rdULong_be8 _ _ hkind]
        cases v with
        | bool b =>
          simp only [FVal.kind, FVal.payload, rdBool_enc, mapSet_last k _ acc hlt]
          simpa [List.append_assoc, encAttr] using hrest
        | ulong n =>
          have hn : n < 2^64 := hv
          simp only [FVal.kind, FVal.payload, rdULong_be8 _ _ hn, mapSet_last k _ acc hlt]
          simpa [List.append_assoc, encAttr] using hrest
        | bytes b =>
          have hn : b.length < 2^64 := hv
          simp only [FVal.kind, FVal.payload, rdBytes_enc _ _ hn, mapSet_last k _ acc hlt]
          simpa [List.append_assoc, encAttr] using hrest
        | mechs l =>
          have hn : AscNat l ∧ l.length < 2^64 := hv
          simp only [FVal.kind, FVal.payload, rdMechs_enc _ _ hn.1 hn.2, mapSet_last k _ acc hlt]
          simpa [List.append_assoc, encAttr] using hrest
        | amap l =>
          have hn : MapWF l := hv
          simp only [FVal.kind, FVal.payload, rdMap_enc _ _ hn, mapSet_last k _ acc hlt]
          simpa [List.append_assoc, encAttr] using hrest
  have := key attrs [] ((attrs.flatMap encAttr ++ (be8 ty ++ part)).length + 1)
    (by have := flatMap_encAttr_length_ge attrs; simp only [List.length_append, be8_length]; omega) (by simpa using h.1) h.2
  rw [this]

end Shm.C16
