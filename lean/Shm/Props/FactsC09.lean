/-
  C09: every creating call can remove what it built when it fails, tied to the SOURCE TEXT of src/lib/SoftHSM.cpp (table Gen/EntryFacts.lean, regenerated on every run by tools/extract_facts.py).
-/
import Shm.Gen.EntryFacts
namespace Shm.FactsC09
open Shm.Gen

theorem T09_failing_creations_clean_up :
    ["CreateObject", "C_CopyObject", "C_GenerateKey", "C_GenerateKeyPair", "C_UnwrapKey", "C_DeriveKey"].all (fun f => mentions f "destroyObject") = true := by decide +kernel

end Shm.FactsC09
