/-
  C04 — only the current PIN authenticates; PIN changes are exact and lossless.

  In the model a token carries the PINs its two key blobs were made from (`Tok.soPin`, `Tok.userPin`): the reading "a blob opens
  exactly under the PIN it was made with".  That reading is CHECKED on every run, not assumed: the Lean driver opens the real
  blobs of the real token.object with its own PBE (SHA-256 × (1500 + salt[7])) and AES-256-CBC and must obtain the same 32-byte
  token key from both, for exactly the PINs the model holds (K04, `Shm.Store.checkDisk`).
-/
import Shm.Lemmas.Pins
namespace Shm.C04
open Shm

/-! ### who can log in -/

/-- **C_Login(CKU_USER)** on a token where nobody is logged in: CKR_OK iff the PIN is the token's current user PIN -/
theorem C04_user_login_iff (s : State) (h : Nat) (ss : Sess) (t : Tok) (p : Bytes)
    (hs : s.handles.getSess h = some ss) (ht : findTok s.slots ss.slot = some t) (hso : t.soIn = false) (hu : t.userIn = false) :
    (stepLogin s h 1 (some p)).2.rv = CKR.OK ↔ t.userPin = some p := by
  unfold stepLogin
  simp only [hs, ht, hso, hu, Bool.false_eq_true, if_false]
  cases hup : t.userPin with
  | none => simp [rOnly]
  | some up =>
    simp only
    by_cases hp : p = up
    · subst hp; simp
    · have : (p != up) = true := by simpa using hp
      simp only [this, if_true]
      constructor
      · intro h1; simp at h1
      · intro h1; exact absurd (Option.some.inj h1).symm hp

/-- **C_Login(CKU_SO)**: with no read-only session and nobody logged in, CKR_OK iff the PIN is the token's current SO PIN -/
theorem C04_so_login_iff (s : State) (h : Nat) (ss : Sess) (t : Tok) (p : Bytes)
    (hs : s.handles.getSess h = some ss) (ht : findTok s.slots ss.slot = some t) (hro : s.handles.haveROSession ss.slot = false)
    (hso : t.soIn = false) (hu : t.userIn = false) :
    (stepLogin s h 0 (some p)).2.rv = CKR.OK ↔ p = t.soPin := by
  unfold stepLogin
  simp only [hs, ht, hro, hso, hu, Bool.false_eq_true, if_false]
  by_cases hp : p = t.soPin
  · simp [hp]
  · have : (p != t.soPin) = true := by simpa using hp
    simp [this, hp]

/-! ### which calls change a PIN, and how -/

/-- **frame**: no call other than C_InitToken, C_InitPIN, C_SetPIN (and the re-reading of the directory by C_Initialize, see
    `C04_initialize_keeps_pins`) changes any PIN of any token — cryptographic calls, object management, logins with wrong PINs,
    C_Finalize and process restarts included -/
theorem C04_frame (s : State) (c : AnyCall) (hc : c.isPinCall = false) (id : Nat) :
    pinOf (stepAny s c).1.slots id = pinOf s.slots id := pinsKept_stepAny s c hc id

/-- C_Initialize reads every token back with the PINs it had (tokens are identified by their serial number) -/
theorem C04_initialize_keeps_pins (s : State) (hi : s.initialised = false) :
    (stepInitialize s).1.slots.filterMap (fun sl => sl.tok.map fun t => (t.serial, t.soPin, t.userPin)) =
    s.slots.filterMap (fun sl => sl.tok.map fun t => (t.serial, t.soPin, t.userPin)) := by
  unfold stepInitialize
  simp only [hi, Bool.false_eq_true, if_false]
  have key : ∀ l : List Slot,
      (l.filterMap fun sl => sl.tok.map fun t => ({ id := slotIdOfSerial t.serial, tok := some { t with soIn := false, userIn := false } } : Slot)).filterMap
        (fun sl => sl.tok.map fun t => (t.serial, t.soPin, t.userPin)) =
      l.filterMap (fun sl => sl.tok.map fun t => (t.serial, t.soPin, t.userPin)) := by
    intro l
    induction l with
    | nil => rfl
    | cons sl rest ih =>
      cases htk : sl.tok with
      | none => simp [List.filterMap_cons, htk, ih]
      | some t => simp [List.filterMap_cons, htk, ih]
  split
  · exact key _
  · rw [List.filterMap_append, key]; simp

/-- **C_InitPIN is exact**: it succeeds only in an SO session (R/W SO functions) with a PIN of admissible length, sets exactly the
    user PIN of that token to exactly that PIN, keeps the SO PIN and every object; a refused call changes nothing at all -/
theorem C04_initPin (s : State) (h : Nat) (pin : Option Bytes) :
    ((stepInitPin s h pin).2.rv = CKR.OK →
       ∃ ss t p, s.handles.getSess h = some ss ∧ findTok s.slots ss.slot = some t ∧ stateOf t ss.rw = .rwSO ∧ pin = some p ∧ pinLenOk p = true ∧
         (stepInitPin s h pin).1.slots = setTok s.slots ss.slot { t with userPin := some p, userLow := false } ∧
         (stepInitPin s h pin).1.objs = s.objs) ∧
    ((stepInitPin s h pin).2.rv ≠ CKR.OK → (stepInitPin s h pin).1 = s) := by
  unfold stepInitPin
  cases hs : s.handles.getSess h with
  | none => simp [rOnly]
  | some ss =>
    dsimp only
    cases ht : findTok s.slots ss.slot with
    | none => simp [rOnly]
    | some t =>
      dsimp only
      by_cases hst : (stateOf t ss.rw != SState.rwSO) = true
      · simp [hst, rOnly]
      · rw [if_neg hst]
        cases pin with
        | none => simp [rOnly]
        | some p =>
          dsimp only
          by_cases hl : (!pinLenOk p) = true
          · simp [hl, rOnly]
          · rw [if_neg hl]
            refine ⟨fun _ => ⟨ss, t, p, rfl, ht, by simpa using hst, rfl, by simpa using hl, rfl, rfl⟩, fun hne => absurd rfl hne⟩

/-- **C_SetPIN is exact**: it succeeds only in an R/W public, R/W user or SO session state, only with the correct old PIN of the user the session state selects
    (public or user session: the user PIN; SO session: the SO PIN) and a new PIN of admissible length; it then replaces exactly that PIN by
    exactly the new one and keeps the other PIN; whatever the outcome, no object changes -/
theorem C04_setPin (s : State) (h : Nat) (old new : Option Bytes) :
    ((stepSetPin s h old new).2.rv = CKR.OK →
       ∃ ss t o n, s.handles.getSess h = some ss ∧ findTok s.slots ss.slot = some t ∧ old = some o ∧ new = some n ∧ pinLenOk n = true ∧
         (((stateOf t ss.rw = .rwPublic ∨ stateOf t ss.rw = .rwUser) ∧ t.userPin = some o ∧
             (stepSetPin s h old new).1.slots = setTok s.slots ss.slot { t with userPin := some n, userLow := false }) ∨
          (stateOf t ss.rw = .rwSO ∧ t.soPin = o ∧
             (stepSetPin s h old new).1.slots = setTok s.slots ss.slot { t with soPin := n, soLow := false }))) ∧
    (stepSetPin s h old new).1.objs = s.objs := by
  unfold stepSetPin
  cases hs : s.handles.getSess h with
  | none => simp [rOnly]
  | some ss =>
    dsimp only
    cases old with
    | none => simp [rOnly]
    | some o =>
      cases new with
      | none => simp [rOnly]
      | some n =>
        dsimp only
        by_cases hl : (!pinLenOk n) = true
        · simp [hl, rOnly]
        · rw [if_neg hl]
          cases ht : findTok s.slots ss.slot with
          | none => simp [rOnly]
          | some t =>
            dsimp only
            cases hst : stateOf t ss.rw with
            | roPublic => simp [rOnly]
            | roUser => simp [rOnly]
            | rwPublic =>
              dsimp only
              by_cases hp : (t.userPin != some o) = true
              · simp [hp]
              · rw [if_neg hp]
                refine ⟨fun _ => ⟨ss, t, o, n, rfl, ht, rfl, rfl, by simpa using hl, Or.inl ⟨Or.inl hst, by simpa using hp, rfl⟩⟩, rfl⟩
            | rwUser =>
              dsimp only
              by_cases hp : (t.userPin != some o) = true
              · simp [hp]
              · rw [if_neg hp]
                refine ⟨fun _ => ⟨ss, t, o, n, rfl, ht, rfl, rfl, by simpa using hl, Or.inl ⟨Or.inr hst, by simpa using hp, rfl⟩⟩, rfl⟩
            | rwSO =>
              dsimp only
              by_cases hp : (t.soPin != o) = true
              · simp [hp]
              · rw [if_neg hp]
                refine ⟨fun _ => ⟨ss, t, o, n, rfl, ht, rfl, rfl, by simpa using hl, Or.inr ⟨hst, by simpa using hp, rfl⟩⟩, rfl⟩

/-- a refused C_SetPIN leaves both PINs of every token as they were (only the PIN-count-low flag of that user may be raised) -/
theorem C04_setPin_refused (s : State) (h : Nat) (old new : Option Bytes) (hne : (stepSetPin s h old new).2.rv ≠ CKR.OK) (id : Nat) :
    pinOf (stepSetPin s h old new).1.slots id = pinOf s.slots id := by
  revert hne
  unfold stepSetPin
  cases hs : s.handles.getSess h with
  | none => intro _; rfl
  | some ss =>
    dsimp only
    cases old with
    | none => intro _; rfl
    | some o =>
      cases new with
      | none => intro _; rfl
      | some n =>
        dsimp only
        by_cases hl : (!pinLenOk n) = true
        · simp only [hl, if_true]; intro _; rfl
        · rw [if_neg hl]
          cases ht : findTok s.slots ss.slot with
          | none => intro _; rfl
          | some t =>
            dsimp only
            cases hst : stateOf t ss.rw with
            | roPublic => intro _; rfl
            | roUser => intro _; rfl
            | rwPublic =>
              dsimp only
              by_cases hp : (t.userPin != some o) = true
              · simp only [hp, if_true]; intro _; exact pinOf_setTok_same _ _ _ _ ht (by rfl) (by rfl) id
              · rw [if_neg hp]; intro hne; exact absurd rfl hne
            | rwUser =>
              dsimp only
              by_cases hp : (t.userPin != some o) = true
              · simp only [hp, if_true]; intro _; exact pinOf_setTok_same _ _ _ _ ht (by rfl) (by rfl) id
              · rw [if_neg hp]; intro hne; exact absurd rfl hne
            | rwSO =>
              dsimp only
              by_cases hp : (t.soPin != o) = true
              · simp only [hp, if_true]; intro _; exact pinOf_setTok_same _ _ _ _ ht (by rfl) (by rfl) id
              · rw [if_neg hp]; intro hne; exact absurd rfl hne

/-- **neither PIN call touches the other user's PIN, another token, or any object** (reading the two exact theorems together with `findTok_setTok`) -/
theorem C04_independent (ss : List Slot) (slot : Nat) (t : Tok) (hf : findTok ss slot = some t) (n : Bytes) (id : Nat) :
    pinOf (setTok ss slot { t with userPin := some n, userLow := false }) id =
      (if id = slot then some (t.soPin, some n) else pinOf ss id) ∧
    pinOf (setTok ss slot { t with soPin := n, soLow := false }) id =
      (if id = slot then some (n, t.userPin) else pinOf ss id) := by
  have hsl := findTok_some_findSlot hf
  unfold pinOf
  constructor <;> (rw [findTok_setTok]; by_cases h : id = slot <;> simp [h, hsl])

/-- non-vacuity: a token with both PINs, an SO session: C_InitPIN succeeds, afterwards exactly the new user PIN logs in -/
example :
    let t : Tok := { label := [], serial := [0x31], soPin := [1, 2, 3, 4], userPin := some [5, 6, 7, 8], soIn := true }
    let s : State := { initialised := true, slots := [{ id := 0, tok := some t }], handles := [(1, .sess { slot := 0, rw := true })], counter := 1 }
    (stepInitPin s 1 (some [9, 9, 9, 9])).2.rv = CKR.OK ∧
    pinOf (stepInitPin s 1 (some [9, 9, 9, 9])).1.slots 0 = some ([1, 2, 3, 4], some [9, 9, 9, 9]) := by decide

end Shm.C04
