/-
  C01 — Private objects are unreachable unless the normal user is logged in; token objects need R/W sessions.
  The access matrix is the GENERATED `Gen.haveRead` / `Gen.haveWrite` (exhaustive evaluation of access.cpp).
-/
import Shm.Lemmas.Purge
import Shm.Props.C11
namespace Shm.C01
open Shm

def isUserState : SState → Bool
  | .roUser | .rwUser => true
  | _ => false

def isRW : SState → Bool
  | .rwPublic | .rwUser | .rwSO => true
  | _ => false

/-! ## the matrix -/

theorem C01_matrix_read_private (st : SState) (tok : Bool) (h : Gen.haveRead st tok true = CKR.OK) : isUserState st = true := by
  cases st <;> cases tok <;> simp_all [Gen.haveRead, isUserState]

theorem C01_matrix_write_private (st : SState) (tok : Bool) (h : Gen.haveWrite st tok true = CKR.OK) : isUserState st = true := by
  cases st <;> cases tok <;> simp_all [Gen.haveWrite, isUserState]

theorem C01_matrix_write_token (st : SState) (priv : Bool) (h : Gen.haveWrite st true priv = CKR.OK) : isRW st = true := by
  cases st <;> cases priv <;> simp_all [Gen.haveWrite, isRW]

/-- public objects stay readable in every state, and writable wherever the token/RW rule allows (the matrix is
    not simply "refuse everything") -/
theorem C01_matrix_public_ok (st : SState) : Gen.haveRead st false false = CKR.OK ∧ Gen.haveWrite st false false = CKR.OK := by
  cases st <;> simp [Gen.haveRead, Gen.haveWrite]

/-! ## every call that takes an object handle refuses a private object outside the user states, changes
       nothing and returns neither handle nor attribute bytes -/

section
variable (s : State) (h o : Nat) (ss : Sess) (t : Tok) (e : ObjH) (ob : Obj)
variable (hi : s.initialised = true) (hst : sessTok s h = some (ss, t)) (hres : resolveObj s o = some (e, ob))
variable (hpriv : ob.isPriv = true) (hnu : isUserState (stateOf t ss.rw) = false)

include hi hst hres hpriv hnu

theorem C01_getAttr_private (req : List (Nat × Option Nat)) (ov : List (Nat × Option Bytes)) :
    step s (.getAttr h o req ov) = (s, { rv := CKR.GENERAL_ERROR }) := by
  have hr : Gen.haveRead (stateOf t ss.rw) ob.onToken ob.isPriv ≠ CKR.OK := by
    rw [hpriv]; intro hc; have := C01_matrix_read_private _ _ hc; simp [hnu] at this
  simp [step, guardInit, hi, stepGetAttr, hst, hres, hr, rOnly]

theorem C01_probe_private : step s (.objProbe h o) = (s, { rv := CKR.GENERAL_ERROR }) := by
  have hr : Gen.haveRead (stateOf t ss.rw) ob.onToken ob.isPriv ≠ CKR.OK := by
    rw [hpriv]; intro hc; have := C01_matrix_read_private _ _ hc; simp [hnu] at this
  simp [step, guardInit, hi, stepObjProbe, hst, hres, hr, rOnly]

theorem C01_setAttr_private (tpl : Template) (oe : RV) :
    (step s (.setAttr h o tpl oe)).1 = s ∧ (step s (.setAttr h o tpl oe)).2.rv ≠ CKR.OK ∧
    (step s (.setAttr h o tpl oe)).2.nums = [] ∧ (step s (.setAttr h o tpl oe)).2.vals = [] := by
  have hr : Gen.haveWrite (stateOf t ss.rw) ob.onToken ob.isPriv ≠ CKR.OK := by
    rw [hpriv]; intro hc; have := C01_matrix_write_private _ _ hc; simp [hnu] at this
  simp [step, guardInit, hi, stepSetAttr, hst, hres, hr, rOnly]

theorem C01_destroy_private :
    (step s (.destroy h o)).1 = s ∧ (step s (.destroy h o)).2.rv ≠ CKR.OK := by
  have hr : Gen.haveWrite (stateOf t ss.rw) ob.onToken ob.isPriv ≠ CKR.OK := by
    rw [hpriv]; intro hc; have := C01_matrix_write_private _ _ hc; simp [hnu] at this
  simp [step, guardInit, hi, stepDestroy, hst, hres, hr, rOnly]

theorem C01_copy_private (tpl : Template) (oe : RV) :
    (step s (.copy h o tpl oe)).1 = s ∧ (step s (.copy h o tpl oe)).2.rv ≠ CKR.OK ∧
    (step s (.copy h o tpl oe)).2.nums = [] := by
  have hr : Gen.haveRead (stateOf t ss.rw) ob.onToken ob.isPriv ≠ CKR.OK := by
    rw [hpriv]; intro hc; have := C01_matrix_read_private _ _ hc; simp [hnu] at this
  simp [step, guardInit, hi, stepCopy, hst, hres, hr, rOnly]

end

/-- private objects cannot be created outside the user states -/
theorem C01_create_private_refused (s : State) (h : Nat) (ss : Sess) (t : Tok) (tpl : Template) (oe : RV) (info : ObjInfo)
    (hi : s.initialised = true) (hst : sessTok s h = some (ss, t)) (hinfo : extractObjectInformation tpl = .ok info)
    (hpriv : info.isPriv = true) (hnu : isUserState (stateOf t ss.rw) = false) :
    (step s (.create h tpl oe)).1 = s ∧ (step s (.create h tpl oe)).2.rv ≠ CKR.OK ∧ (step s (.create h tpl oe)).2.nums = [] := by
  have hr : Gen.haveWrite (stateOf t ss.rw) info.onToken info.isPriv ≠ CKR.OK := by
    rw [hpriv]; intro hc; have := C01_matrix_write_private _ _ hc; simp [hnu] at this
  simp [step, guardInit, hi, stepCreate, hst, hinfo, hr, rOnly]

/-- token objects can be created only through read-write sessions -/
theorem C01_create_token_needs_rw (s : State) (h : Nat) (ss : Sess) (t : Tok) (tpl : Template) (oe : RV) (info : ObjInfo)
    (hi : s.initialised = true) (hst : sessTok s h = some (ss, t)) (hinfo : extractObjectInformation tpl = .ok info)
    (htok : info.onToken = true) (hro : isRW (stateOf t ss.rw) = false) :
    (step s (.create h tpl oe)).1 = s ∧ (step s (.create h tpl oe)).2.rv ≠ CKR.OK := by
  have hr : Gen.haveWrite (stateOf t ss.rw) info.onToken info.isPriv ≠ CKR.OK := by
    rw [htok]; intro hc; have := C01_matrix_write_token _ _ hc; simp [hro] at this
  simp [step, guardInit, hi, stepCreate, hst, hinfo, hr, rOnly]

/-- … changed … -/
theorem C01_setAttr_token_needs_rw (s : State) (h o : Nat) (ss : Sess) (t : Tok) (e : ObjH) (ob : Obj) (tpl : Template) (oe : RV)
    (hi : s.initialised = true) (hst : sessTok s h = some (ss, t)) (hres : resolveObj s o = some (e, ob))
    (htok : ob.onToken = true) (hro : isRW (stateOf t ss.rw) = false) :
    (step s (.setAttr h o tpl oe)).1 = s ∧ (step s (.setAttr h o tpl oe)).2.rv ≠ CKR.OK := by
  have hr : Gen.haveWrite (stateOf t ss.rw) ob.onToken ob.isPriv ≠ CKR.OK := by
    rw [htok]; intro hc; have := C01_matrix_write_token _ _ hc; simp [hro] at this
  simp [step, guardInit, hi, stepSetAttr, hst, hres, hr, rOnly]

/-- … or destroyed only through read-write sessions -/
theorem C01_destroy_token_needs_rw (s : State) (h o : Nat) (ss : Sess) (t : Tok) (e : ObjH) (ob : Obj)
    (hi : s.initialised = true) (hst : sessTok s h = some (ss, t)) (hres : resolveObj s o = some (e, ob))
    (htok : ob.onToken = true) (hro : isRW (stateOf t ss.rw) = false) :
    (step s (.destroy h o)).1 = s ∧ (step s (.destroy h o)).2.rv ≠ CKR.OK := by
  have hr : Gen.haveWrite (stateOf t ss.rw) ob.onToken ob.isPriv ≠ CKR.OK := by
    rw [htok]; intro hc; have := C01_matrix_write_token _ _ hc; simp [hro] at this
  simp [step, guardInit, hi, stepDestroy, hst, hres, hr, rOnly]

/-- the SO session is not a user state: the SO is refused like a public session -/
theorem C01_so_is_not_user (t : Tok) (rw : Bool) (hso : t.soIn = true) : isUserState (stateOf t rw) = false := by
  simp [stateOf, hso, isUserState]

/-- outside the user states no private object is a candidate of a search -/
theorem C01_find_candidates_public (st : SState) (o : Obj) (hnu : isUserState st = false) (hv : visible st o = true) :
    o.isPriv = false := by
  cases st <;> simp_all [visible, isUserState]

open Shm.C11 in
/-- **NOT the property - the finding, stated on the model**: C_Logout invalidates the handles of private objects but leaves every session as it was, its active
    operation included.  An operation that was started with a private key while the user was logged in therefore goes on in a public session (the model says so
    because the code does so; K01-op-after-logout exhibits it on the library; listed in known_findings.txt).  PKCS#11 leaves open whether operations survive a
    logout; the property does not. -/
theorem C01_partial_operations_survive_logout (s : State) (hwf : s.WF) (hi : s.initialised = true) (h : Nat) (ss : Sess) (t : Tok)
    (hs : s.handles.getSess h = some ss) (ht : findTok s.slots ss.slot = some t) (k : Nat) (sk : Sess) (hk : s.handles.getSess k = some sk) :
    (step s (.logout h)).1.handles.getSess k = some sk := by
  have h2 := (C11_purge_logout s hwf hi h ss t hs ht k).2
  unfold HTable.getSess at hk ⊢
  rw [h2]
  cases hg : s.handles.get k with
  | none => simp [hg] at hk
  | some e =>
    cases e with
    | sess x =>
      simp only [hg] at hk
      simp [Option.filter, diesOnLogout, privOn]
      exact Option.some.inj hk
    | obj o => simp [hg] at hk

end Shm.C01
