/-
  C15 — processes sharing a token directory see each other's committed changes.

  The multi-process model (Shm/Model/Multi.lean): every process is an instance of the single-process model; when control passes from process `p` to
  process `q`, `q` continues with its own sessions, handles, login state and session objects and with the token objects `p` left (`adopt`); a process
  that starts later begins from what is on disk (`spawn`).  The theorems say what this hand-over guarantees for every pair of states; K15 checks that
  real processes behave like this model on interleavings at call granularity.
-/
import Shm.Model.Multi
import Shm.Lemmas.MultiInv
import Shm.Props.C05
namespace Shm.C15
open Shm

/-- the projection of C05: identity, privacy and attributes of the token objects -/
abbrev proj (o : Obj) : Nat × Bool × Attrs := (o.oid, o.isPriv, o.attrs)

theorem view_filterMap (l : List Obj) (f : Obj → Option Obj)
    (hf : ∀ o ∈ l, o.onToken = true → ∃ o', f o = some o' ∧ proj o' = proj o ∧ o'.onToken = true) :
    (((l.filter (·.onToken)).filterMap f).filter (·.onToken)).map proj = (l.filter (·.onToken)).map proj := by
  induction l with
  | nil => rfl
  | cons o os ih =>
    have ih' := ih (fun x hx => hf x (List.mem_cons_of_mem _ hx))
    by_cases ht : o.onToken = true
    · obtain ⟨o', h1, h2, h3⟩ := hf o List.mem_cons_self ht
      simp only [List.filter_cons, ht, if_true, List.filterMap_cons, h1, h3, List.map_cons, ih', h2]
    · simp only [List.filter_cons, ht, Bool.false_eq_true, if_false]
      exact ih'

theorem carry_proj (q p : State) (o o' : Obj) (h : carry q p o = some o') : proj o' = proj o ∧ o'.onToken = o.onToken := by
  unfold carry at h
  cases hs : slotIn q p o.slot with
  | none => simp [hs] at h
  | some id => simp [hs] at h; subst h; exact ⟨rfl, rfl⟩

/-- **the next process sees exactly the committed store**: when `q` lists the tokens that hold `p`'s token objects, its view of the token objects after the
    hand-over is `p`'s — every object `p` created or changed is there with its new attribute values, every object `p` destroyed is gone, nothing is duplicated -/
theorem C15_adopt_view (q p : State) (hc : ∀ o ∈ p.objs, o.onToken = true → (slotIn q p o.slot).isSome) :
    C05.tokView (adopt q p) = C05.tokView p := by
  unfold C05.tokView adopt
  simp only [List.filter_append, List.map_append]
  have h2 : (q.objs.filter fun o => !o.onToken).filter (·.onToken) = [] := by
    simp [List.filter_filter]
  rw [h2, List.map_nil, List.append_nil]
  apply view_filterMap
  intro o ho ht
  have := hc o ho ht
  cases hs : slotIn q p o.slot with
  | none => simp [hs] at this
  | some id => exact ⟨{ o with slot := id }, by simp [carry, hs], rfl, ht⟩

/-- **what stays private to a process**: sessions, handles, the handle counter, login state and configuration of `q` are untouched by the hand-over … -/
theorem C15_adopt_keeps_own (q p : State) :
    (adopt q p).handles = q.handles ∧ (adopt q p).slots = q.slots ∧ (adopt q p).counter = q.counter ∧
    (adopt q p).initialised = q.initialised ∧ (adopt q p).mechCfg = q.mechCfg := ⟨rfl, rfl, rfl, rfl, rfl⟩

/-- … and so are its session objects; no session object of `p` ever reaches `q` -/
theorem C15_adopt_session_objects (q p : State) :
    (adopt q p).objs.filter (fun o => !o.onToken) = q.objs.filter (fun o => !o.onToken) := by
  unfold adopt
  simp only [List.filter_append, List.filter_filter, Bool.and_self]
  have : ((p.objs.filter (·.onToken)).filterMap (carry q p)).filter (fun o => !o.onToken) = [] := by
    rw [List.filter_eq_nil_iff]
    intro o ho
    rw [List.mem_filterMap] at ho
    obtain ⟨o0, h0, h1⟩ := ho
    have := (carry_proj q p o0 o h1).2
    rw [List.mem_filter] at h0
    simp [this, h0.2]
  rw [this, List.nil_append]

/-- **a handle to an object another process destroyed is dead**: if `p`'s store holds no token object with the identity a handle of `q` refers to, and `q` has
    no session object of that identity, the handle resolves to nothing in `q`'s next call (every call on it answers CKR_OBJECT_HANDLE_INVALID) -/
theorem C15_destroyed_handle_dead (q p : State) (h : Nat) (e : ObjH) (he : q.handles.getObjH h = some e)
    (hgone : ∀ o ∈ p.objs, o.onToken = true → o.oid ≠ e.oid) (hsess : ∀ o ∈ q.objs, o.onToken = false → o.oid ≠ e.oid) :
    resolveObj (adopt q p) h = none := by
  unfold resolveObj
  have hh : (adopt q p).handles = q.handles := rfl
  rw [hh, he]
  simp only [Option.map_eq_none_iff]
  unfold getObj
  rw [List.find?_eq_none]
  intro o ho
  unfold adopt at ho
  simp only [List.mem_append, List.mem_filterMap, List.mem_filter] at ho
  rcases ho with ⟨o0, ⟨h0, ht⟩, hc⟩ | ⟨h0, ht⟩
  · have := (carry_proj q p o0 o hc).1
    simp only [proj, Prod.mk.injEq] at this
    have hne := hgone o0 h0 ht
    simp [this.1, hne]
  · have hne := hsess o h0 (by simpa using ht)
    simp [hne]

/-- **a process that starts later** finds on disk exactly the token objects the running process has committed -/
theorem C15_spawn_view (p : State) : C05.tokView (stepAny (spawn p) (.core .initLib)).1 = C05.tokView p :=
  C05.C05_restart_initialize p

/-- the hand-over as the coordinator performs it: whichever process runs next — a known one that lists the tokens, or a new one — starts its call on the store
    the last process left -/
theorem C15_switch_view_known (m : MState) (i : Nat) (q : State) (hi : i ≠ m.cur) (hq : m.lookup i = some q)
    (hc : ∀ o ∈ m.st.objs, o.onToken = true → (slotIn q m.st o.slot).isSome) :
    C05.tokView (m.switch i).st = C05.tokView m.st := by
  unfold MState.switch
  have : (i == m.cur) = false := by simpa using hi
  simp only [this, Bool.false_eq_true, if_false, hq]
  exact C15_adopt_view q m.st hc

/-- **no interleaving duplicates an object or mixes up identities**: after ANY sequence of calls by ANY processes in ANY interleaving at call granularity, object
    identities are pairwise distinct in the process that ran last and in every other one, and the identity of a session object of one process occurs in no other process
    (so a session object can never be mistaken for, or overwrite, an object another process sees) -/
theorem C15_interleaving_no_duplicates (steps : List (Nat × AnyCall)) :
    OidNodup (mrun {} steps).st ∧
    ∀ e ∈ (mrun {} steps).procs, OidNodup e.2 ∧ Apart e.2 (mrun {} steps).st ∧ Apart (mrun {} steps).st e.2 := by
  have h := minv_run steps {} minv_init
  exact ⟨h.nodup, fun e he => ⟨(h.parked e he).nodup, (h.parked e he).out, (h.parked e he).inn⟩⟩

/-- … in particular what the next call sees of the committed store lists every object once -/
theorem C15_view_lists_once (steps : List (Nat × AnyCall)) : ((C05.tokView (mrun {} steps).st).map (·.1)).Nodup := by
  have h := (minv_run steps {} minv_init).nodup
  unfold C05.tokView
  rw [List.map_map]
  exact List.Nodup.sublist (List.Sublist.map _ List.filter_sublist) h

/-- non-vacuity: two processes that list one token under different slot numbers; an object created by the first is seen by the second under its own numbering -/
example :
    let tk : Tok := { label := [1], serial := [9], soPin := [1], userPin := none }
    let p : State := { slots := [{ id := 0, tok := some tk }], objs := [{ oid := 4, slot := 0, onToken := true, owner := 0, isPriv := false, attrs := [] }], nextOid := 5 }
    let q : State := { slots := [{ id := 77, tok := some tk }], objs := [{ oid := 2, slot := 77, onToken := false, owner := 1, isPriv := false, attrs := [] }], nextOid := 3 }
    (adopt q p).objs.map (fun o => (o.oid, o.slot)) = [(4, 77), (2, 77)] ∧ (adopt q p).nextOid = 5 := by decide

end Shm.C15
