/-
  C02 — Sensitive or unextractable key material never leaves the token in the clear.
  All statements are about the GENERATED class table and update programs (Shm/Gen), i.e. about what
  P11Objects.cpp / P11Attributes.cpp say now.
-/
import Shm.Lemmas.NoOk
import Shm.Model.Step
import Shm.Lemmas.StepInv
import Shm.Model.Wrap
import Shm.Props.C07
namespace Shm.C02
open Shm

/-- the secret value attributes named by the property -/
def secretAttrs : List Nat := [0x11, 0x123, 0x124, 0x125, 0x126, 0x127, 0x128]

def isKeyClass (cd : ClassDesc) : Bool := cd.cls == CKO.SECRET_KEY || cd.cls == CKO.PRIVATE_KEY

/-- every secret value attribute of every secret-key / private-key class carries footnote 7 -/
theorem C02_ck7_table :
    (Gen.classTable.all fun cd => !isKeyClass cd || cd.attrs.all fun d => !secretAttrs.contains d.ty || hasCheckN d.checks 7) = true := by
  decide +kernel

/-- … and every such class has at least one of them (the table statement is not vacuous) -/
theorem C02_ck7_table_nonvacuous :
    (Gen.classTable.all fun cd => !isKeyClass cd || cd.attrs.any fun d => secretAttrs.contains d.ty && hasCheckN d.checks 7) = true := by
  decide +kernel

/-- `P11Attribute::retrieve`: a footnote-7 attribute of a sensitive or unextractable object is never revealed:
    CKR_ATTRIBUTE_SENSITIVE, length CK_UNAVAILABLE_INFORMATION, no byte written — for every buffer -/
theorem C02_retrieve_sensitive (d : AttrDesc) (o : Attrs) (isPriv keyOk : Bool) (cap : Option Nat)
    (h7 : hasCheckN d.checks 7 = true)
    (hs : getBoolD o CKA.SENSITIVE false = true ∨ getBoolD o CKA.EXTRACTABLE true = false) :
    retrieve d o isPriv cap keyOk = (.sensitive, { len := UNAVAILABLE, data := none }) := by
  unfold retrieve
  rcases hs with hs | hs <;> simp [h7, hs]

/-- `loadTemplate`: the entry of a protected attribute reports UNAVAILABLE and carries no data, wherever it
    stands in the request and whatever else is requested -/
theorem C02_loadEntries_protected (cd : ClassDesc) (o : Attrs) (isPriv keyOk : Bool)
    (hs : getBoolD o CKA.SENSITIVE false = true ∨ getBoolD o CKA.EXTRACTABLE true = false) :
    ∀ (req : List (Nat × Option Nat)) (ov : List (Nat × Option Bytes)) (i : Nat) (ty : Nat) (cap : Option Nat) (d : AttrDesc),
      req[i]? = some (ty, cap) → descOf cd ty = some d → hasCheckN d.checks 7 = true →
      (loadEntries cd o isPriv keyOk req ov).1[i]? = some { len := UNAVAILABLE, data := none } ∧
      (loadEntries cd o isPriv keyOk req ov).2.1 = true := by
  intro req
  induction req with
  | nil => intro ov i ty cap d h; simp at h
  | cons r rest ih =>
    intro ov i ty cap d hi hd h7
    obtain ⟨rty, rcap⟩ := r
    cases i with
    | zero =>
      simp at hi
      obtain ⟨h1, h2⟩ := hi
      subst h1; subst h2
      simp only [loadEntries, hd, C02_retrieve_sensitive d o isPriv keyOk rcap h7 hs]
      simp
    | succ j =>
      simp at hi
      have := ih ov.tail j ty cap d hi hd h7
      simp only [loadEntries]
      cases hdr : descOf cd rty with
      | none => simp [this.1, this.2]
      | some d' =>
        simp only []
        rcases hret : retrieve d' o isPriv rcap keyOk with ⟨k, r⟩
        cases k <;> simp [this.1, this.2]

/-! ### the protections cannot be removed by C_SetAttributeValue or C_CopyObject -/

def allClassesPreserve (op : Nat) (soK : Option Bool) (T : Nat) (goal : Bool) : Bool :=
  Gen.classTable.all fun cd => cd.attrs.all fun d => attrPreserves d op soK T goal

/-- table facts (abstract interpretation of every generated update program of every class) -/
theorem sensitive_set : allClassesPreserve OP.SET none CKA.SENSITIVE true = true := by decide +kernel
theorem sensitive_copy : allClassesPreserve OP.COPY none CKA.SENSITIVE true = true := by decide +kernel
theorem extractable_set : allClassesPreserve OP.SET none CKA.EXTRACTABLE false = true := by decide +kernel
theorem extractable_copy : allClassesPreserve OP.COPY none CKA.EXTRACTABLE false = true := by decide +kernel
theorem wrapWithTrusted_set : allClassesPreserve OP.SET none CKA.WRAP_WITH_TRUSTED true = true := by decide +kernel
theorem wrapWithTrusted_copy : allClassesPreserve OP.COPY none CKA.WRAP_WITH_TRUSTED true = true := by decide +kernel

theorem classTable_mem_of_classOf {o : Attrs} {cd : ClassDesc} (h : classOfAttrs o = some cd) : cd ∈ Gen.classTable := by
  unfold classOfAttrs findClass at h
  exact List.mem_of_find?_eq_some h

/-- One-way flags, at the level of `saveTemplate` (which both C_SetAttributeValue and C_CopyObject run): for
    EVERY class of the table, EVERY template (any length, any order, any values, valid or not) and every
    session/login state, an accepted template leaves CKA_SENSITIVE = true / CKA_EXTRACTABLE = false /
    CKA_WRAP_WITH_TRUSTED = true as they were. -/
theorem C02_oneway (cd : ClassDesc) (hcd : cd ∈ Gen.classTable) (op : Nat) (hop : op = OP.SET ∨ op = OP.COPY)
    (o o' : Attrs) (tpl : Template) (isPriv soIn : Bool) (oRv : RV)
    (h : saveTemplate cd o tpl op isPriv soIn oRv = .ok o') :
    (Knows o CKA.SENSITIVE true → Knows o' CKA.SENSITIVE true) ∧
    (Knows o CKA.EXTRACTABLE false → Knows o' CKA.EXTRACTABLE false) ∧
    (Knows o CKA.WRAP_WITH_TRUSTED true → Knows o' CKA.WRAP_WITH_TRUSTED true) := by
  have pick : ∀ (T : Nat) (goal : Bool), allClassesPreserve op none T goal = true →
      Knows o T goal → Knows o' T goal := by
    intro T goal hall hk
    unfold allClassesPreserve at hall
    rw [List.all_eq_true] at hall
    exact saveTemplate_preserves cd op isPriv soIn none (fun b hb => by cases hb) T goal (hall cd hcd) oRv tpl o o' hk h
  rcases hop with rfl | rfl
  · exact ⟨pick _ _ sensitive_set, pick _ _ extractable_set, pick _ _ wrapWithTrusted_set⟩
  · exact ⟨pick _ _ sensitive_copy, pick _ _ extractable_copy, pick _ _ wrapWithTrusted_copy⟩

/-- the attributes a copy starts from keep every boolean of the source -/
theorem copyAttrs_knows (o : Attrs) (wp ip : Bool) (T : Nat) (tv : Bool) (h : Knows o T tv) : Knows (copyAttrs o wp ip) T tv := by
  unfold Knows getA at *
  unfold copyAttrs
  rw [lookup_map_keep (fun e : Nat × AVal => reEnc wp ip e.2) o T, h]
  rfl

/-- C_SetAttributeValue, end to end: when the call succeeds on a key that is sensitive / unextractable /
    wrap-with-trusted, the object still is afterwards -/
theorem C02_setAttr_oneway (s : State) (h o : Nat) (tpl : Template) (oe : RV) (e : ObjH) (ob : Obj)
    (hres : resolveObj s o = some (e, ob)) (hok : (step s (.setAttr h o tpl oe)).2.rv = CKR.OK) :
    (step s (.setAttr h o tpl oe)).1 = s ∨
    ∃ attrs', (step s (.setAttr h o tpl oe)).1.objs = updObj s.objs ob.oid attrs' ∧
      (Knows ob.attrs CKA.SENSITIVE true → Knows attrs' CKA.SENSITIVE true) ∧
      (Knows ob.attrs CKA.EXTRACTABLE false → Knows attrs' CKA.EXTRACTABLE false) ∧
      (Knows ob.attrs CKA.WRAP_WITH_TRUSTED true → Knows attrs' CKA.WRAP_WITH_TRUSTED true) := by
  revert hok
  simp only [step, guardInit]
  split
  · intro _; left; rfl
  · unfold stepSetAttr
    split
    · split <;> (intro _; left; rfl)
    next ss t hst =>
      simp only [hres]
      step_cases
      all_goals (first | (intro _; left; rfl) | skip)
      intro _
      right
      exact ⟨_, rfl, C02_oneway _ (classTable_mem_of_classOf (by assumption)) OP.SET (Or.inl rfl) _ _ tpl _ _ oe (by assumption)⟩

/-- non-vacuity: an AES key object as `P11AESSecretKeyObj::init` leaves it knows its flags, and a concrete
    C_SetAttributeValue(CKA_SENSITIVE = false) on a sensitive key is refused with CKR_ATTRIBUTE_READ_ONLY -/
def errOf : Except RV Attrs → Option RV
  | .error rv => some rv
  | .ok _ => none

example :
    Knows (setA (initAttrs Gen.cls_SECRET_AES) CKA.SENSITIVE (.bool true)) CKA.SENSITIVE true ∧
    Knows (setA (initAttrs Gen.cls_SECRET_AES) CKA.SENSITIVE (.bool true)) CKA.EXTRACTABLE false ∧
    errOf (saveTemplate Gen.cls_SECRET_AES (setA (initAttrs Gen.cls_SECRET_AES) CKA.SENSITIVE (.bool true))
      [⟨CKA.SENSITIVE, some [0], 1, none⟩] OP.SET false false 0) = some CKR.ATTRIBUTE_READ_ONLY ∧
    errOf (saveTemplate Gen.cls_SECRET_AES (setA (initAttrs Gen.cls_SECRET_AES) CKA.SENSITIVE (.bool true))
      [⟨CKA.EXTRACTABLE, some [1], 1, none⟩] OP.SET false false 0) = some CKR.ATTRIBUTE_READ_ONLY := by
  decide +kernel

theorem getBoolD_setA_same (o : Attrs) (t : Nat) (b d : Bool) : getBoolD (setA o t (.bool b)) t d = b := by
  simp [getBoolD, getA_setA_same]

theorem getBoolD_setA_other (o : Attrs) (t t' : Nat) (v : AVal) (d : Bool) (hne : t' ≠ t) : getBoolD (setA o t v) t' d = getBoolD o t' d := by
  simp [getBoolD, getA_setA_other _ _ _ _ hne]

/-- **the concatenation mechanisms hand the protection on** (`deriveFlags`, the model of the CKM_CONCATENATE_* branch of SoftHSM::deriveSymmetric, which the derive matrix K02 compares
    with the library): a key derived from a SENSITIVE base key is sensitive, from an UNEXTRACTABLE base key unextractable - whatever the template asked for; with
    CKM_CONCATENATE_BASE_AND_KEY the same holds for the second key -/
theorem getBoolD_false_of_default_true (o : Attrs) (t : Nat) (h : getBoolD o t true = false) : getBoolD o t false = false := by
  unfold getBoolD at *
  split at h <;> simp_all

theorem C02_concat_inherits (mech : Nat) (base a : Attrs) (other : Option Attrs) (d : Bool)
    (hm : mech = CKM.CONCATENATE_BASE_AND_DATA ∨ mech = CKM.CONCATENATE_DATA_AND_BASE ∨ (mech = CKM.CONCATENATE_BASE_AND_KEY ∧ other.isSome)) :
    (getBoolD base CKA.SENSITIVE true = true → getBoolD (deriveFlags mech base other a) CKA.SENSITIVE d = true) ∧
    (getBoolD base CKA.EXTRACTABLE true = false → getBoolD (deriveFlags mech base other a) CKA.EXTRACTABLE d = false) ∧
    (∀ ok, mech = CKM.CONCATENATE_BASE_AND_KEY → other = some ok →
      (getBoolD ok CKA.SENSITIVE true = true → getBoolD (deriveFlags mech base other a) CKA.SENSITIVE d = true) ∧
      (getBoolD ok CKA.EXTRACTABLE true = false → getBoolD (deriveFlags mech base other a) CKA.EXTRACTABLE d = false)) := by
  have hAS : CKA.SENSITIVE ≠ CKA.ALWAYS_SENSITIVE := by decide
  have hNS : CKA.SENSITIVE ≠ CKA.NEVER_EXTRACTABLE := by decide
  have hAE : CKA.EXTRACTABLE ≠ CKA.ALWAYS_SENSITIVE := by decide
  have hNE : CKA.EXTRACTABLE ≠ CKA.NEVER_EXTRACTABLE := by decide
  have hSE : CKA.SENSITIVE ≠ CKA.EXTRACTABLE := by decide
  have hES : CKA.EXTRACTABLE ≠ CKA.SENSITIVE := by decide
  rcases hm with hm | hm | ⟨hm, ho⟩
  all_goals subst hm
  · refine ⟨?_, ?_, ?_⟩
    · intro hs
      simp [deriveFlags, CKM.CONCATENATE_BASE_AND_KEY, CKM.CONCATENATE_BASE_AND_DATA, hs, getBoolD_setA_other _ _ _ _ _ hNS, getBoolD_setA_other _ _ _ _ _ hAS]
      split <;> simp [getBoolD_setA_other _ _ _ _ _ hSE, getBoolD_setA_same]
    · intro he0
      have he := getBoolD_false_of_default_true _ _ he0
      simp [deriveFlags, CKM.CONCATENATE_BASE_AND_KEY, CKM.CONCATENATE_BASE_AND_DATA, he, getBoolD_setA_other _ _ _ _ _ hNE, getBoolD_setA_other _ _ _ _ _ hAE, getBoolD_setA_same]
    · intro ok h; exact absurd h (by decide)
  · refine ⟨?_, ?_, ?_⟩
    · intro hs
      simp [deriveFlags, CKM.CONCATENATE_BASE_AND_KEY, CKM.CONCATENATE_BASE_AND_DATA, CKM.CONCATENATE_DATA_AND_BASE, hs, getBoolD_setA_other _ _ _ _ _ hNS, getBoolD_setA_other _ _ _ _ _ hAS]
      split <;> simp [getBoolD_setA_other _ _ _ _ _ hSE, getBoolD_setA_same]
    · intro he0
      have he := getBoolD_false_of_default_true _ _ he0
      simp [deriveFlags, CKM.CONCATENATE_BASE_AND_KEY, CKM.CONCATENATE_BASE_AND_DATA, CKM.CONCATENATE_DATA_AND_BASE, he, getBoolD_setA_other _ _ _ _ _ hNE, getBoolD_setA_other _ _ _ _ _ hAE, getBoolD_setA_same]
    · intro ok h; exact absurd h (by decide)
  · obtain ⟨ok, rfl⟩ := Option.isSome_iff_exists.mp ho
    have key : ∀ (cs ce : Bool), True := fun _ _ => trivial
    refine ⟨?_, ?_, ?_⟩
    · intro hs
      simp only [deriveFlags, if_true, beq_self_eq_true, hs, Bool.true_or]
      rw [getBoolD_setA_other _ _ _ _ _ hNS, getBoolD_setA_other _ _ _ _ _ hAS]
      split <;> simp [getBoolD_setA_other _ _ _ _ _ hSE, getBoolD_setA_same]
    · intro he
      simp only [deriveFlags, if_true, beq_self_eq_true, he, Bool.false_and, Bool.not_false]
      rw [getBoolD_setA_other _ _ _ _ _ hNE, getBoolD_setA_other _ _ _ _ _ hAE]
      simp [getBoolD_setA_same]
    · intro ok2 _ hoo
      cases hoo
      constructor
      · intro hs
        simp only [deriveFlags, if_true, beq_self_eq_true, hs, Bool.or_true]
        rw [getBoolD_setA_other _ _ _ _ _ hNS, getBoolD_setA_other _ _ _ _ _ hAS]
        split <;> simp [getBoolD_setA_other _ _ _ _ _ hSE, getBoolD_setA_same]
      · intro he
        simp only [deriveFlags, if_true, beq_self_eq_true, he, Bool.and_false, Bool.not_false]
        rw [getBoolD_setA_other _ _ _ _ _ hNE, getBoolD_setA_other _ _ _ _ _ hAE]
        simp [getBoolD_setA_same]

/-- non-vacuity: a sensitive, extractable second key makes the concatenation sensitive -/
example : getBoolD (deriveFlags CKM.CONCATENATE_BASE_AND_KEY [(CKA.SENSITIVE, .bool false), (CKA.EXTRACTABLE, .bool true)] (some [(CKA.SENSITIVE, .bool true), (CKA.EXTRACTABLE, .bool true)]) []) CKA.SENSITIVE false = true := by decide

/-- **a key with CKA_EXTRACTABLE false is never wrapped; a key with CKA_WRAP_WITH_TRUSTED only under a CKA_TRUSTED key** - for every state, every mechanism, every pair of
    handles: whenever the model's C_WrapKey answers CKR_OK, the wrapped key was extractable and, if it demands a trusted wrapping key, got one (corollary of the ONLY-IF
    theorem of C07; the wrap matrix K02 compares all 256 cells with the library) -/
theorem C02_wrap_rules (s : State) (h mech : Nat) (p : MParam) (wkH keyH : Nat) (cap : Option Nat) (oRv : RV) (oLen : Nat) (oData : Option Bytes)
    (e2 : ObjH) (key : Obj) (hkey : resolveObj s keyH = some (e2, key))
    (hprot : getBoolD key.attrs CKA.EXTRACTABLE false = false ∨
             (getBoolD key.attrs 0x210 false = true ∧ ∀ e1 wk, resolveObj s wkH = some (e1, wk) → getBoolD wk.attrs CKA.TRUSTED false = false)) :
    (stepWrap s h mech p wkH keyH cap oRv oLen oData).2.rv ≠ CKR.OK := by
  intro hok
  obtain ⟨e1, wk, e2', key', hwk, hk', _, _, hext, htr⟩ := Shm.C07.C07_wrap_only_if s h mech p wkH keyH cap oRv oLen oData hok
  rw [hkey] at hk'
  cases hk'
  rcases hprot with hne | ⟨hwwt, hun⟩
  · rw [hne] at hext; exact absurd hext (by decide)
  · have := htr hwwt
    rw [hun e1 wk hwk] at this; exact absurd this (by decide)

end Shm.C02
