/-
  C03: the login and session rules are consulted, tied to the SOURCE TEXT of src/lib/SoftHSM.cpp (table Gen/EntryFacts.lean, regenerated on every run by tools/extract_facts.py).
-/
import Shm.Gen.EntryFacts
namespace Shm.FactsC03
open Shm.Gen

theorem T03_login_and_session_rules_consulted :
    (mentionsDirectly "C_Login" "haveROSession" && mentionsDirectly "C_Login" "rv:CKR_SESSION_READ_ONLY_EXISTS" &&
     mentionsDirectly "C_InitToken" "haveSession" && mentionsDirectly "C_InitToken" "rv:CKR_SESSION_EXISTS" &&
     mentionsDirectly "C_InitPIN" "getState" && mentionsDirectly "C_InitPIN" "rv:CKR_USER_NOT_LOGGED_IN") = true := by decide +kernel

end Shm.FactsC03
