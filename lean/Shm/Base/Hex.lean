/-
  Bytes and hexadecimal text (the line protocol carries every byte string as hex).
-/
namespace Shm

abbrev Bytes := List UInt8

def hexDigitVal (c : Char) : Option Nat :=
  if '0' ≤ c ∧ c ≤ '9' then some (c.toNat - '0'.toNat)
  else if 'a' ≤ c ∧ c ≤ 'f' then some (c.toNat - 'a'.toNat + 10)
  else if 'A' ≤ c ∧ c ≤ 'F' then some (c.toNat - 'A'.toNat + 10)
  else none

def parseHexChars : List Char → Option Bytes
  | [] => some []
  | [_] => none
  | a :: b :: rest => do
      let x ← hexDigitVal a
      let y ← hexDigitVal b
      let r ← parseHexChars rest
      pure (UInt8.ofNat (x * 16 + y) :: r)

/-- `.` is the empty string, otherwise an even number of hex digits. -/
def parseHex (s : String) : Option Bytes :=
  if s == "." then some [] else parseHexChars s.toList

def hexNibble (n : Nat) : Char :=
  if n < 10 then Char.ofNat ('0'.toNat + n) else Char.ofNat ('a'.toNat + (n - 10))

def toHex (b : Bytes) : String :=
  if b.isEmpty then "." else
  String.ofList (b.flatMap fun x => [hexNibble (x.toNat / 16), hexNibble (x.toNat % 16)])

/-- little-endian CK_ULONG (8 bytes) as used in templates on this platform -/
def ulongLE (n : Nat) : Bytes := (List.range 8).map fun i => UInt8.ofNat ((n / 256 ^ i) % 256)

def leToNat : Bytes → Nat
  | [] => 0
  | b :: r => b.toNat + 256 * leToNat r

end Shm
