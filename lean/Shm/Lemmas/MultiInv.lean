/-
  Several processes on one token directory: object identities stay unique across ALL interleavings (C15).

  The invariant `MInv` of the multi-process machine (Shm/Model/Multi.lean): in the running process and in every parked one object identities are pairwise distinct and
  below the allocation counter the running process holds; and the identity of a session object of one process occurs in no other process.  It holds initially and is
  kept by every hand-over (`MState.switch`: adopt / spawn) and by every call (`MState.step`) — whatever the calls, whatever the interleaving.
-/
import Shm.Model.Multi
import Shm.Lemmas.OidUnique
namespace Shm

/-- no session object of `a` shares its identity with any object of `b` -/
def Apart (a b : State) : Prop := ∀ o ∈ a.objs, o.onToken = false → ∀ o' ∈ b.objs, o'.oid ≠ o.oid

structure Parked (q p : State) : Prop where
  below : ∀ o ∈ q.objs, o.oid < p.nextOid
  ctr : q.nextOid ≤ p.nextOid
  nodup : OidNodup q
  out : Apart q p
  inn : Apart p q

structure MInv (m : MState) : Prop where
  inv : OidInv m.st
  nodup : OidNodup m.st
  parked : ∀ e ∈ m.procs, Parked e.2 m.st
  apart : ∀ e1 ∈ m.procs, ∀ e2 ∈ m.procs, e1.1 ≠ e2.1 → Apart e1.2 e2.2

theorem carry_oid (q p : State) (o o' : Obj) (h : carry q p o = some o') : o'.oid = o.oid ∧ o'.onToken = o.onToken := by
  unfold carry at h
  cases hs : slotIn q p o.slot with
  | none => simp [hs] at h
  | some id => simp [hs] at h; subst h; exact ⟨rfl, rfl⟩

theorem mem_adopt (q p : State) (o : Obj) :
    o ∈ (adopt q p).objs ↔ (∃ o0 ∈ p.objs, o0.onToken = true ∧ carry q p o0 = some o) ∨ (o ∈ q.objs ∧ o.onToken = false) := by
  unfold adopt
  simp only [List.mem_append, List.mem_filterMap, List.mem_filter]
  constructor
  · rintro (⟨o0, ⟨h0, ht⟩, hc⟩ | ⟨h0, ht⟩)
    · exact Or.inl ⟨o0, h0, ht, hc⟩
    · exact Or.inr ⟨h0, by simpa using ht⟩
  · rintro (⟨o0, h0, ht, hc⟩ | ⟨h0, ht⟩)
    · exact Or.inl ⟨o0, ⟨h0, ht⟩, hc⟩
    · exact Or.inr ⟨h0, by simpa using ht⟩

theorem filterMap_carry_oids_sublist (q p : State) : ∀ (l : List Obj), ((l.filterMap (carry q p)).map (·.oid)).Sublist (l.map (·.oid)) := by
  intro l
  induction l with
  | nil => exact List.Sublist.refl _
  | cons o os ih =>
    simp only [List.filterMap_cons, List.map_cons]
    cases hc : carry q p o with
    | none => exact List.Sublist.cons _ ih
    | some o' =>
      simp only [List.map_cons]
      rw [(carry_oid q p o o' hc).1]
      exact List.Sublist.cons₂ _ ih

/-- identities stay unique through a hand-over to a known process -/
theorem nodup_adopt (q p : State) (hp : OidNodup p) (hq : OidNodup q) (hout : Apart q p) : OidNodup (adopt q p) := by
  unfold OidNodup adopt
  simp only [List.map_append]
  rw [List.nodup_append]
  refine ⟨?_, ?_, ?_⟩
  · exact List.Nodup.sublist ((filterMap_carry_oids_sublist q p _).trans (List.Sublist.map _ List.filter_sublist)) hp
  · exact List.Nodup.sublist (List.Sublist.map _ List.filter_sublist) hq
  · intro a ha b hb hab
    rw [List.mem_map] at ha hb
    obtain ⟨oa, hoa, rfl⟩ := ha
    obtain ⟨ob, hob, rfl⟩ := hb
    rw [List.mem_filterMap] at hoa
    obtain ⟨o0, h0, hc⟩ := hoa
    rw [List.mem_filter] at h0 hob
    have := hout ob hob.1 (by simpa using hob.2) o0 h0.1
    rw [← (carry_oid q p o0 oa hc).1] at this
    exact this hab

theorem inv_adopt (q p : State) (hp : OidInv p) (hb : ∀ o ∈ q.objs, o.oid < p.nextOid) : OidInv (adopt q p) := by
  intro o ho
  have hn : (adopt q p).nextOid = max q.nextOid p.nextOid := rfl
  rw [hn]
  rcases (mem_adopt q p o).mp ho with ⟨o0, h0, _, hc⟩ | ⟨h0, _⟩
  · have := hp o0 h0
    rw [(carry_oid q p o0 o hc).1]
    omega
  · have := hb o h0
    omega


/-- a call of the running process keeps the invariant -/
theorem minv_call (m : MState) (c : AnyCall) (h : MInv m) : MInv { m with st := (stepAny m.st c).1 } := by
  have ev := evolves_stepAny m.st c
  refine ⟨oidInv_of_evolves h.inv ev, nodupStep_stepAny m.st c h.inv h.nodup, ?_, h.apart⟩
  intro e he
  have pk := h.parked e he
  refine ⟨?_, ?_, pk.nodup, ?_, ?_⟩
  · intro o ho; have := pk.below o ho; have := ev.1; show o.oid < (stepAny m.st c).1.nextOid; omega
  · have := pk.ctr; have := ev.1; show e.2.nextOid ≤ (stepAny m.st c).1.nextOid; omega
  · intro o ho hs o' ho'
    rcases ev.2 o' ho' with ⟨o0, h0, e1, _⟩ | ⟨h1, _⟩
    · rw [← e1]; exact pk.out o ho hs o0 h0
    · have := pk.below o ho; omega
  · intro o ho hs o' ho'
    rcases ev.2 o ho with ⟨o0, h0, e1, e2, _⟩ | ⟨h1, _⟩
    · rw [← e1]; exact pk.inn o0 h0 (by rw [e2]; exact hs) o' ho'
    · have := pk.below o' ho'; omega

theorem spawn_all_token (p : State) : ∀ o ∈ (spawn p).objs, o.onToken = true := by
  intro o ho
  unfold spawn stepRestart stepFinalize at ho
  simp only [Bool.not_true, Bool.false_eq_true, if_false] at ho
  exact (List.mem_filter.mp ho).2

theorem mlookup_mem (m : MState) (i : Nat) (q : State) (h : m.lookup i = some q) : ∃ e ∈ m.procs, e.1 = i ∧ e.2 = q := by
  unfold MState.lookup at h
  cases hf : m.procs.find? (·.1 == i) with
  | none => simp [hf] at h
  | some e =>
    simp only [hf, Option.map_some, Option.some.injEq] at h
    exact ⟨e, List.mem_of_find?_eq_some hf, by simpa using List.find?_some hf, h⟩

/-- a hand-over (to a known process, to a new one, or to the one that is running) keeps the invariant -/
theorem minv_switch (m : MState) (i : Nat) (h : MInv m) : MInv (m.switch i) := by
  unfold MState.switch
  by_cases hi : (i == m.cur) = true
  · simp only [hi, if_true]; exact h
  simp only [hi, Bool.false_eq_true, if_false]
  -- the parked list after the hand-over: the process that ran, and the others except the one that goes on
  have hmemf : ∀ e', e' ∈ m.procs.filter (fun e => e.1 != i) → e' ∈ m.procs ∧ e'.1 ≠ i := by
    intro e' he'; rw [List.mem_filter] at he'; exact ⟨he'.1, by simpa using he'.2⟩
  have apart' : ∀ e1 ∈ (m.cur, m.st) :: m.procs.filter (fun e => e.1 != i), ∀ e2 ∈ (m.cur, m.st) :: m.procs.filter (fun e => e.1 != i),
      e1.1 ≠ e2.1 → Apart e1.2 e2.2 := by
    intro e1 h1 e2 h2 hne
    rw [List.mem_cons] at h1 h2
    rcases h1 with rfl | h1 <;> rcases h2 with rfl | h2
    · exact absurd rfl hne
    · exact (h.parked e2 (hmemf e2 h2).1).inn
    · exact (h.parked e1 (hmemf e1 h1).1).out
    · exact h.apart e1 (hmemf e1 h1).1 e2 (hmemf e2 h2).1 hne
  cases hl : m.lookup i with
  | some q =>
    obtain ⟨e, he, hei, heq⟩ := mlookup_mem m i q hl
    subst heq
    have pk := h.parked e he
    refine ⟨inv_adopt e.2 m.st h.inv pk.below, nodup_adopt e.2 m.st h.nodup pk.nodup pk.out, ?_, apart'⟩
    intro e' he'
    rw [List.mem_cons] at he'
    have hn : (adopt e.2 m.st).nextOid = max e.2.nextOid m.st.nextOid := rfl
    rcases he' with rfl | he'
    · -- the process that ran is parked now
      refine ⟨?_, ?_, h.nodup, ?_, ?_⟩
      · intro o ho; have := h.inv o ho; show o.oid < (adopt e.2 m.st).nextOid; rw [hn]; omega
      · show m.st.nextOid ≤ (adopt e.2 m.st).nextOid; rw [hn]; omega
      · intro o ho hs o' ho'
        rcases (mem_adopt e.2 m.st o').mp ho' with ⟨o0, h0, ht, hc⟩ | ⟨h0, _⟩
        · rw [(carry_oid _ _ _ _ hc).1]
          intro heq
          have := unique_of_nodup h.nodup h0 ho heq
          rw [this] at ht; rw [ht] at hs; exact absurd hs (by decide)
        · exact pk.inn o ho hs o' h0
      · intro o ho hs o' ho'
        rcases (mem_adopt e.2 m.st o).mp ho with ⟨o0, h0, ht, hc⟩ | ⟨h0, _⟩
        · rw [(carry_oid _ _ _ _ hc).2, ht] at hs; exact absurd hs (by decide)
        · exact pk.out o h0 hs o' ho'
    · -- the other parked processes
      obtain ⟨hm', hne'⟩ := hmemf e' he'
      have pk' := h.parked e' hm'
      have hne2 : e'.1 ≠ e.1 := by rw [hei]; exact hne'
      refine ⟨?_, ?_, pk'.nodup, ?_, ?_⟩
      · intro o ho; have := pk'.below o ho; show o.oid < (adopt e.2 m.st).nextOid; rw [hn]; omega
      · have := pk'.ctr; show e'.2.nextOid ≤ (adopt e.2 m.st).nextOid; rw [hn]; omega
      · intro o ho hs o' ho'
        rcases (mem_adopt e.2 m.st o').mp ho' with ⟨o0, h0, _, hc⟩ | ⟨h0, _⟩
        · rw [(carry_oid _ _ _ _ hc).1]; exact pk'.out o ho hs o0 h0
        · exact h.apart e' hm' e he hne2 o ho hs o' h0
      · intro o ho hs o' ho'
        rcases (mem_adopt e.2 m.st o).mp ho with ⟨o0, h0, ht, hc⟩ | ⟨h0, _⟩
        · rw [(carry_oid _ _ _ _ hc).2, ht] at hs; exact absurd hs (by decide)
        · exact h.apart e he e' hm' (Ne.symm hne2) o h0 hs o' ho'
  | none =>
    have ev : Evolves m.st (spawn m.st) := evolves_stepAny m.st .restart
    have hnd : OidNodup (spawn m.st) := nodupStep_stepAny m.st .restart h.inv h.nodup
    refine ⟨oidInv_of_evolves h.inv ev, hnd, ?_, apart'⟩
    intro e' he'
    rw [List.mem_cons] at he'
    rcases he' with rfl | he'
    · refine ⟨?_, ev.1, h.nodup, ?_, ?_⟩
      · intro o ho; have := h.inv o ho; have := ev.1; show o.oid < (spawn m.st).nextOid; omega
      · intro o ho hs o' ho'
        rcases ev.2 o' ho' with ⟨o0, h0, e1, e2, _⟩ | ⟨h1, _⟩
        · rw [← e1]
          intro heq
          have := unique_of_nodup h.nodup h0 ho heq
          rw [this] at e2
          rw [spawn_all_token m.st o' ho'] at e2
          rw [e2] at hs; exact absurd hs (by decide)
        · have := h.inv o ho; omega
      · intro o ho hs
        rw [spawn_all_token m.st o ho] at hs; exact absurd hs (by decide)
    · obtain ⟨hm', _⟩ := hmemf e' he'
      have pk' := h.parked e' hm'
      refine ⟨?_, ?_, pk'.nodup, ?_, ?_⟩
      · intro o ho; have := pk'.below o ho; have := ev.1; show o.oid < (spawn m.st).nextOid; omega
      · have := pk'.ctr; have := ev.1; show e'.2.nextOid ≤ (spawn m.st).nextOid; omega
      · intro o ho hs o' ho'
        rcases ev.2 o' ho' with ⟨o0, h0, e1, _⟩ | ⟨h1, _⟩
        · rw [← e1]; exact pk'.out o ho hs o0 h0
        · have := pk'.below o ho; omega
      · intro o ho hs
        rw [spawn_all_token m.st o ho] at hs; exact absurd hs (by decide)

/-- one call of process `i`, hand-over included -/
theorem minv_step (m : MState) (i : Nat) (c : AnyCall) (h : MInv m) : MInv (m.step i c).1 := by
  unfold MState.step
  exact minv_call (m.switch i) c (minv_switch m i h)

theorem minv_init : MInv {} := ⟨fun o ho => by simp at ho, by simp [OidNodup], fun e he => by simp at he, fun e he => by simp at he⟩

/-- any interleaving of calls of any number of processes -/
def mrun (m : MState) (steps : List (Nat × AnyCall)) : MState := steps.foldl (fun m sc => (m.step sc.1 sc.2).1) m

theorem minv_run (steps : List (Nat × AnyCall)) : ∀ m, MInv m → MInv (mrun m steps) := by
  induction steps with
  | nil => intro m h; exact h
  | cons sc rest ih => intro m h; exact ih _ (minv_step m sc.1 sc.2 h)

end Shm
