/-
  Effect of every call on the lookup of an arbitrary handle value.
-/
import Shm.Lemmas.Get
namespace Shm

theorem opt_filter_filter {α} (p q : α → Bool) (o : Option α) :
    (o.filter p).filter q = o.filter (fun a => p a && q a) := by
  cases o with
  | none => rfl
  | some a => cases hp : p a <;> simp [Option.filter, hp]

theorem haveSession_eq_any (t : HTable) (slot : Nat) : t.haveSession slot = t.any (fun e => isSessOn slot e.2) := rfl

theorem getSess_get {t : HTable} {h : Nat} {ss : Sess} (hs : t.getSess h = some ss) : t.get h = some (.sess ss) := by
  unfold HTable.getSess at hs
  split at hs <;> simp_all

/-- lookup after `HandleManager::sessionClosed` -/
theorem get_sessionClosed {t : HTable} {c : Nat} (hwf : t.WF c) (h k : Nat) (ss : Sess) (hs : t.getSess h = some ss) :
    (t.sessionClosed h).get k =
      (t.get k).filter (fun e => !(k == h) && !(ownedBy h e) &&
        !((!(t.any fun x => x.1 != h && isSessOn ss.slot x.2)) && e.slot == ss.slot)) := by
  unfold HTable.sessionClosed
  simp only [hs]
  have w1 := hwf.eraseIf (fun k _ => k == h)
  have w2 := w1.eraseIf (fun _ e => ownedBy h e)
  have hany : ((t.eraseIf fun k _ => k == h).eraseIf fun _ e => ownedBy h e).haveSession ss.slot
      = t.any (fun x => x.1 != h && isSessOn ss.slot x.2) := by
    rw [haveSession_eq_any]
    unfold HTable.eraseIf
    rw [List.any_filter, List.any_filter]
    congr 1; funext x
    obtain ⟨a, e⟩ := x
    cases e <;> simp [isSessOn, ownedBy, bne, Bool.and_comm]
  rw [hany]
  split
  · rename_i hp
    rw [get_eraseIf w1, get_eraseIf hwf, opt_filter_filter]
    congr 1; funext e
    simp [hp]
  · rename_i hp
    unfold HTable.allSessionsClosed
    rw [get_eraseIf w2, get_eraseIf w1, get_eraseIf hwf, opt_filter_filter, opt_filter_filter]
    have hp' : (t.any fun x => x.1 != h && isSessOn ss.slot x.2) = false := by simpa using hp
    congr 1; funext e
    simp [hp', Bool.and_assoc]

theorem get_destroyObject {t : HTable} {c : Nat} (hwf : t.WF c) (o k : Nat) (e : ObjH) (he : t.getObjH o = some e) :
    (t.destroyObject o).get k = if k = o then none else t.get k := by
  unfold HTable.destroyObject
  simp only [he]
  rw [get_eraseIf hwf]
  by_cases hko : k = o
  · subst hko
    cases hg : t.get k <;> simp [Option.filter]
  · have : (k == o) = false := by simp [beq_eq_false_iff_ne]; exact hko
    cases hg : t.get k <;> simp [Option.filter, this, hko]

theorem resolveObj_getObjH {s : State} {o : Nat} {r : ObjH × Obj} (h : resolveObj s o = some r) :
    s.handles.getObjH o = some r.1 := by
  unfold resolveObj at h
  split at h
  · simp at h
  · rename_i e he
    cases hg : getObj s.objs e.oid with
    | none => simp [hg] at h
    | some ob => simp [hg] at h; rw [← h]; exact he

theorem sessTok_getSess {s : State} {h : Nat} {r : Sess × Tok} (hst : sessTok s h = some r) :
    s.handles.getSess h = some r.1 := by
  unfold sessTok at hst
  split at hst
  · simp at hst
  · rename_i ss hss
    cases hf : findTok s.slots ss.slot with
    | none => simp [hf] at hst
    | some t => simp [hf] at hst; rw [← hst]; exact hss

theorem get_none_eraseIf {t : HTable} {c : Nat} (hwf : t.WF c) (p : Nat → Ent → Bool) (k : Nat) (hg : t.get k = none) :
    (t.eraseIf p).get k = none := by
  rw [get_eraseIf hwf, hg]; rfl

theorem get_none_sessionClosed {t : HTable} {c : Nat} (hwf : t.WF c) (h k : Nat) (hg : t.get k = none) :
    (t.sessionClosed h).get k = none := by
  unfold HTable.sessionClosed
  split
  · exact hg
  · dsimp only
    have w1 := hwf.eraseIf (fun k _ => k == h)
    have w2 := w1.eraseIf (fun _ e => ownedBy h e)
    have g1 := get_none_eraseIf hwf (fun k _ => k == h) k hg
    have g2 := get_none_eraseIf w1 (fun _ e => ownedBy h e) k g1
    split
    · exact g2
    · exact get_none_eraseIf w2 _ k g2

theorem get_none_destroyObject {t : HTable} {c : Nat} (hwf : t.WF c) (o k : Nat) (hg : t.get k = none) :
    (t.destroyObject o).get k = none := by
  unfold HTable.destroyObject
  split
  · exact hg
  · exact get_none_eraseIf hwf _ k hg

theorem get_none_setSess (t : HTable) (h : Nat) (x : Sess) (k : Nat) (hg : t.get k = none) :
    (t.setSess h x).get k = none := by
  rw [get_setSess, hg]; rfl

end Shm
