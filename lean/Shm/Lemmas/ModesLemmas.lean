/-
  Structural facts about the block-cipher modes, for EVERY block function with a left inverse on 16-byte blocks:
  PKCS#7 unpad∘pad, CBC decrypt∘encrypt, chunking.
-/
import Shm.Crypto.KeyWrap
namespace Shm.Crypto

theorem xorBytes_length (a b : Bytes) : (xorBytes a b).length = min a.length b.length := by
  simp [xorBytes]

theorem xorBytes_cancel : ∀ (a b : Bytes), a.length ≤ b.length → xorBytes (xorBytes a b) b = a := by
  intro a
  induction a with
  | nil => intro b _; simp [xorBytes]
  | cons x xs ih =>
    intro b h
    cases b with
    | nil => simp at h
    | cons y ys =>
      simp only [xorBytes, List.zipWith_cons_cons]
      have := ih ys (by simpa using h)
      simp only [xorBytes] at this
      rw [this]
      congr 1
      rw [UInt8.xor_assoc, UInt8.xor_self, UInt8.xor_zero]

/-- a block function pair: `D` undoes `E` on 16-byte blocks, `E` keeps the block length -/
structure BlockInv (E D : Bytes → Bytes) : Prop where
  inv : ∀ b, b.length = 16 → D (E b) = b
  len : ∀ b, b.length = 16 → (E b).length = 16

theorem cbc_blocks_roundtrip {E D : Bytes → Bytes} (h : BlockInv E D) :
    ∀ (ps : List Bytes) (iv : Bytes), iv.length = 16 → (∀ p ∈ ps, p.length = 16) → cbcDecBlocks D iv (cbcEncBlocks E iv ps) = ps := by
  intro ps
  induction ps with
  | nil => intro iv _ _; rfl
  | cons p rest ih =>
    intro iv hiv hp
    have hpl : p.length = 16 := hp p (by simp)
    have hx : (xorBytes p iv).length = 16 := by rw [xorBytes_length]; omega
    simp only [cbcEncBlocks, cbcDecBlocks]
    rw [h.inv _ hx, xorBytes_cancel p iv (by omega), ih (E (xorBytes p iv)) (h.len _ hx) (fun q hq => hp q (by simp [hq]))]

/-! ### chunking -/

theorem chunks_nil {α : Type} (n : Nat) : chunks n ([] : List α) = [] := by
  unfold chunks; simp

theorem chunks_cons_eq {α : Type} (n : Nat) (l : List α) (hn : n ≠ 0) (hl : l ≠ []) : chunks n l = l.take n :: chunks n (l.drop n) := by
  rw [chunks]
  simp [hn, hl]

/-- blocks of exactly `n` elements, concatenated and chunked again, are the same blocks -/
theorem chunks_flatten {α : Type} (n : Nat) (hn : n ≠ 0) : ∀ (bs : List (List α)), (∀ b ∈ bs, b.length = n) → chunks n bs.flatten = bs := by
  intro bs
  induction bs with
  | nil => intro _; simp [chunks_nil]
  | cons b rest ih =>
    intro h
    have hb : b.length = n := h b (by simp)
    have hne : (b :: rest).flatten ≠ [] := by
      intro he
      have hlen := congrArg List.length he
      simp only [List.flatten_cons, List.length_append, List.length_nil] at hlen
      omega
    rw [chunks_cons_eq n _ hn hne]
    simp only [List.flatten_cons]
    rw [List.take_left' hb, List.drop_left' hb, ih (fun c hc => h c (by simp [hc]))]

/-- chunking loses nothing -/
theorem flatten_chunks {α : Type} (n : Nat) (hn : n ≠ 0) : ∀ (k : Nat) (l : List α), l.length ≤ k → (chunks n l).flatten = l := by
  intro k
  induction k with
  | zero => intro l h; have : l = [] := List.length_eq_zero_iff.mp (by omega); subst this; simp [chunks_nil]
  | succ k ih =>
    intro l h
    by_cases hl : l = []
    · subst hl; simp [chunks_nil]
    · rw [chunks_cons_eq n l hn hl]
      simp only [List.flatten_cons]
      have hlen : 0 < l.length := List.length_pos_iff.mpr hl
      rw [ih (l.drop n) (by simp only [List.length_drop]; omega), List.take_append_drop]

/-- every chunk of a list whose length is a multiple of `n` has exactly `n` elements -/
theorem chunks_all_len {α : Type} (n : Nat) (hn : n ≠ 0) : ∀ (k : Nat) (l : List α), l.length ≤ k → l.length % n = 0 → ∀ c ∈ chunks n l, c.length = n := by
  intro k
  induction k with
  | zero => intro l h _ c hc; have : l = [] := List.length_eq_zero_iff.mp (by omega); subst this; simp [chunks_nil] at hc
  | succ k ih =>
    intro l h hm c hc
    by_cases hl : l = []
    · subst hl; simp [chunks_nil] at hc
    · rw [chunks_cons_eq n l hn hl] at hc
      have hlen : 0 < l.length := List.length_pos_iff.mpr hl
      have hge : n ≤ l.length := Nat.le_of_dvd hlen (Nat.dvd_of_mod_eq_zero hm)
      rcases List.mem_cons.mp hc with hc | hc
      · rw [hc, List.length_take]; omega
      · refine ih (l.drop n) (by simp only [List.length_drop]; omega) ?_ c hc
        simp only [List.length_drop]
        have : (l.length - n) % n = 0 := by
          obtain ⟨q, hq⟩ := Nat.dvd_of_mod_eq_zero hm
          rw [hq]
          have : n * q - n = n * (q - 1) := by cases q <;> simp [Nat.mul_succ]
          rw [this]; simp
        exact this

/-- **CBC**: decryption undoes encryption, for every message whose length is a multiple of the block size, every 16-byte IV -/
theorem cbc_roundtrip {E D : Bytes → Bytes} (h : BlockInv E D) (iv m : Bytes) (hiv : iv.length = 16) (hm : m.length % 16 = 0) :
    cbcDecrypt D iv (cbcEncrypt E iv m) = m := by
  unfold cbcDecrypt cbcEncrypt
  have hall := chunks_all_len 16 (by decide) m.length m (Nat.le_refl _) hm
  have henc : ∀ (ps : List Bytes) (iv : Bytes), iv.length = 16 → (∀ p ∈ ps, p.length = 16) → ∀ c ∈ cbcEncBlocks E iv ps, c.length = 16 := by
    intro ps
    induction ps with
    | nil => intro _ _ _ c hc; simp [cbcEncBlocks] at hc
    | cons p rest ih =>
      intro iv hiv hp c hc
      have hx : (xorBytes p iv).length = 16 := by rw [xorBytes_length, hp p (by simp)]; omega
      simp only [cbcEncBlocks, List.mem_cons] at hc
      rcases hc with hc | hc
      · rw [hc]; exact h.len _ hx
      · exact ih _ (h.len _ hx) (fun q hq => hp q (by simp [hq])) c hc
  rw [chunks_flatten 16 (by decide) _ (henc _ iv hiv hall), cbc_blocks_roundtrip h _ iv hiv hall, flatten_chunks 16 (by decide) m.length m (Nat.le_refl _)]

theorem flatten_length_of_all {α : Type} (n : Nat) : ∀ (l : List (List α)), (∀ x ∈ l, x.length = n) → l.flatten.length = n * l.length := by
  intro l
  induction l with
  | nil => intro _; rfl
  | cons x xs ih =>
    intro hx
    simp only [List.flatten_cons, List.length_append, List.length_cons]
    rw [hx x (by simp), ih (fun y hy => hx y (by simp [hy]))]
    rw [Nat.mul_succ]; omega

theorem cbcEncBlocks_length (E : Bytes → Bytes) : ∀ (ps : List Bytes) (iv : Bytes), (cbcEncBlocks E iv ps).length = ps.length := by
  intro ps
  induction ps with
  | nil => intro _; rfl
  | cons p rest ih => intro iv; simp only [cbcEncBlocks, List.length_cons, ih]

theorem cbcEncBlocks_all_len {E D : Bytes → Bytes} (h : BlockInv E D) :
    ∀ (ps : List Bytes) (iv : Bytes), iv.length = 16 → (∀ p ∈ ps, p.length = 16) → ∀ c ∈ cbcEncBlocks E iv ps, c.length = 16 := by
  intro ps
  induction ps with
  | nil => intro _ _ _ c hc; simp [cbcEncBlocks] at hc
  | cons p rest ih =>
    intro iv hiv hp c hc
    have hx : (xorBytes p iv).length = 16 := by rw [xorBytes_length, hp p (by simp)]; omega
    simp only [cbcEncBlocks, List.mem_cons] at hc
    rcases hc with hc | hc
    · rw [hc]; exact h.len _ hx
    · exact ih _ (h.len _ hx) (fun q hq => hp q (by simp [hq])) c hc

/-- CBC keeps the length of a block-aligned message -/
theorem cbcEncrypt_length {E D : Bytes → Bytes} (h : BlockInv E D) (iv m : Bytes) (hiv : iv.length = 16) (hm : m.length % 16 = 0) :
    (cbcEncrypt E iv m).length = m.length := by
  unfold cbcEncrypt
  have hall := chunks_all_len 16 (by decide) m.length m (Nat.le_refl _) hm
  rw [flatten_length_of_all 16 _ (cbcEncBlocks_all_len h _ iv hiv hall), cbcEncBlocks_length]
  have := flatten_length_of_all 16 _ hall
  rw [flatten_chunks 16 (by decide) m.length m (Nat.le_refl _)] at this
  omega

/-! ### PKCS#7 -/

theorem pkcs7Pad_length (bs : Nat) (m : Bytes) (hbs : 0 < bs) : (pkcs7Pad bs m).length % bs = 0 := by
  simp only [pkcs7Pad, List.length_append, List.length_replicate]
  have := Nat.mod_lt m.length hbs
  have h2 : m.length + (bs - m.length % bs) = (m.length / bs + 1) * bs := by
    have := Nat.div_add_mod m.length bs
    rw [Nat.add_mul, Nat.one_mul]
    rw [Nat.mul_comm] at this
    omega
  rw [h2]; simp

/-- **PKCS#7**: unpad undoes pad for every message and every block size 1 … 255 -/
theorem pkcs7_roundtrip (bs : Nat) (m : Bytes) (h0 : 0 < bs) (h1 : bs < 256) : pkcs7Unpad bs (pkcs7Pad bs m) = some m := by
  have hlt := Nat.mod_lt m.length h0
  have hn0 : 0 < bs - m.length % bs := by omega
  have hnb : bs - m.length % bs ≤ bs := by omega
  have htoNat : (UInt8.ofNat (bs - m.length % bs)).toNat = bs - m.length % bs := by
    rw [UInt8.toNat_ofNat']; omega
  unfold pkcs7Unpad pkcs7Pad
  have hlast : (m ++ List.replicate (bs - m.length % bs) (UInt8.ofNat (bs - m.length % bs))).getLast? = some (UInt8.ofNat (bs - m.length % bs)) := by
    rw [List.getLast?_append]
    have : (List.replicate (bs - m.length % bs) (UInt8.ofNat (bs - m.length % bs))).getLast? = some (UInt8.ofNat (bs - m.length % bs)) := by
      rw [List.getLast?_replicate]; simp; omega
    simp [this]
  simp only [hlast, htoNat, List.length_append, List.length_replicate]
  have c1 : ((bs - m.length % bs == 0) || decide (bs - m.length % bs > bs) || decide (bs - m.length % bs > m.length + (bs - m.length % bs))) = false := by
    simp; omega
  simp only [c1, Bool.false_eq_true, if_false]
  have hsub : m.length + (bs - m.length % bs) - (bs - m.length % bs) = m.length := by omega
  rw [hsub]
  have hdrop : (m ++ List.replicate (bs - m.length % bs) (UInt8.ofNat (bs - m.length % bs))).drop m.length = List.replicate (bs - m.length % bs) (UInt8.ofNat (bs - m.length % bs)) := by
    rw [List.drop_left]
  have htake : (m ++ List.replicate (bs - m.length % bs) (UInt8.ofNat (bs - m.length % bs))).take m.length = m := by
    rw [List.take_left]
  rw [hdrop, htake]
  simp

end Shm.Crypto
