/-
  RFC 3394: unwrap undoes wrap, for every block function with a left inverse on 16-byte blocks, every number of 64-bit blocks.
-/
import Shm.Lemmas.ModesLemmas
namespace Shm.Crypto

/-- the register state of the wrapping function: A of 8 bytes, every R[i] of 8 bytes -/
def KwWF (n : Nat) (s : Bytes × List Bytes) : Prop := s.1.length = 8 ∧ s.2.length = n ∧ ∀ r ∈ s.2, r.length = 8

theorem be8w_length (t : Nat) : (be8w t).length = 8 := rfl

theorem getD_of_lt {α : Type} (l : List α) (i : Nat) (d : α) (h : i < l.length) : l.getD i d = l[i] := by
  simp [List.getD_eq_getElem?_getD, List.getElem?_eq_getElem h]

theorem getD_len {n : Nat} {s : Bytes × List Bytes} (h : KwWF n s) (i : Nat) (hi : i < n) : (s.2.getD i []).length = 8 := by
  have hlt : i < s.2.length := by rw [h.2.1]; exact hi
  rw [getD_of_lt _ _ _ hlt]
  exact h.2.2 _ (List.getElem_mem hlt)

theorem kw_step_inv {E D : Bytes → Bytes} (h : BlockInv E D) (n : Nat) (hn : 0 < n) (s : Bytes × List Bytes) (hs : KwWF n s) (t : Nat) :
    kuStep D n (kwStep E n s t) t = s ∧ KwWF n (kwStep E n s t) := by
  obtain ⟨a, r⟩ := s
  have hi : (t - 1) % n < n := Nat.mod_lt _ hn
  have hri := getD_len hs _ hi
  have hal : a.length = 8 := hs.1
  have hin : (a ++ r.getD ((t - 1) % n) []).length = 16 := by rw [List.length_append, hal]; have := hri; simp only at this; omega
  have hbl := h.len _ hin
  have hlt : (t - 1) % n < r.length := by rw [hs.2.1]; exact hi
  have htake : ((E (a ++ r.getD ((t - 1) % n) [])).take 8).length = 8 := by rw [List.length_take]; omega
  have hdrop : ((E (a ++ r.getD ((t - 1) % n) [])).drop 8).length = 8 := by rw [List.length_drop]; omega
  constructor
  · simp only [kuStep, kwStep, setAt]
    rw [xorBytes_cancel _ _ (by rw [htake, be8w_length]; exact Nat.le_refl _)]
    have hget : (r.set ((t - 1) % n) ((E (a ++ r.getD ((t - 1) % n) [])).drop 8)).getD ((t - 1) % n) [] = (E (a ++ r.getD ((t - 1) % n) [])).drop 8 := by
      rw [getD_of_lt _ _ _ (by simpa using hlt)]; simp
    rw [hget, List.take_append_drop, h.inv _ hin]
    have h1 : (a ++ r.getD ((t - 1) % n) []).take 8 = a := by rw [List.take_left' hal]
    have h2 : (a ++ r.getD ((t - 1) % n) []).drop 8 = r.getD ((t - 1) % n) [] := by rw [List.drop_left' hal]
    rw [h1, h2, List.set_set]
    congr 1
    rw [getD_of_lt _ _ _ hlt]
    exact List.set_getElem_self hlt
  · refine ⟨?_, ?_, ?_⟩
    · simp only [kwStep]; rw [xorBytes_length, htake, be8w_length]; rfl
    · simp only [kwStep, setAt, List.length_set]; exact hs.2.1
    · intro x hx
      simp only [kwStep, setAt] at hx
      rcases List.mem_or_eq_of_mem_set hx with hx | hx
      · exact hs.2.2 x hx
      · rw [hx]; exact hdrop

theorem kw_fold_inv {E D : Bytes → Bytes} (h : BlockInv E D) (n : Nat) (hn : 0 < n) :
    ∀ (ts : List Nat) (s : Bytes × List Bytes), KwWF n s →
      ts.reverse.foldl (kuStep D n) (ts.foldl (kwStep E n) s) = s ∧ KwWF n (ts.foldl (kwStep E n) s) := by
  intro ts
  induction ts with
  | nil => intro s hs; exact ⟨rfl, hs⟩
  | cons t rest ih =>
    intro s hs
    have hstep := kw_step_inv h n hn s hs t
    have := ih (kwStep E n s t) hstep.2
    refine ⟨?_, this.2⟩
    simp only [List.foldl_cons, List.reverse_cons, List.foldl_append, List.foldl_nil]
    rw [this.1, hstep.1]

theorem kwIV_length : kwIV.length = 8 := rfl

/-- **RFC 3394**: `unwrap (wrap P) = P` for every plaintext of n ≥ 2 64-bit blocks -/
theorem rfc3394_roundtrip {E D : Bytes → Bytes} (h : BlockInv E D) (p : Bytes) (h8 : p.length % 8 = 0) (h16 : 16 ≤ p.length) :
    rfc3394Unwrap D (rfc3394Wrap E p) = some p := by
  have hall := chunks_all_len 8 (by decide) p.length p (Nat.le_refl _) h8
  have hflat := flatten_chunks 8 (by decide) p.length p (Nat.le_refl _)
  have hnpos : 0 < (chunks 8 p).length := by
    apply List.length_pos_iff.mpr
    intro he
    rw [he] at hflat
    simp at hflat
    rw [hflat] at h16; simp at h16
  have hwf : KwWF (chunks 8 p).length (kwIV, chunks 8 p) := ⟨rfl, rfl, hall⟩
  have hfold := kw_fold_inv h (chunks 8 p).length hnpos (kwTicks (chunks 8 p).length) (kwIV, chunks 8 p) hwf
  unfold rfc3394Wrap rfc3394Unwrap kwW
  generalize hres : (kwTicks (chunks 8 p).length).foldl (kwStep E (chunks 8 p).length) (kwIV, chunks 8 p) = res at hfold
  obtain ⟨a, r⟩ := res
  have hw := hfold.2
  have hal : a.length = 8 := hw.1
  have hrl : r.length = (chunks 8 p).length := hw.2.1
  have hflen : r.flatten.length = p.length := by
    have e1 : ∀ (l : List Bytes), (∀ x ∈ l, x.length = 8) → l.flatten.length = 8 * l.length := by
      intro l
      induction l with
      | nil => intro _; rfl
      | cons x xs ih => intro hx; simp only [List.flatten_cons, List.length_append, List.length_cons]; rw [hx x (by simp), ih (fun y hy => hx y (by simp [hy]))]; omega
    rw [e1 r hw.2.2, hrl, ← e1 (chunks 8 p) hall, hflat]
  dsimp only
  have hlen : (a ++ r.flatten).length = 8 + p.length := by simp [hal, hflen]
  have c1 : (decide ((a ++ r.flatten).length < 24) || ((a ++ r.flatten).length % 8 != 0)) = false := by
    rw [hlen]; simp; omega
  simp only [c1, Bool.false_eq_true, if_false]
  rw [List.take_left' hal, List.drop_left' hal, chunks_flatten 8 (by decide) r hw.2.2]
  unfold kwWinv
  rw [hrl]
  have := hfold.1
  rw [this]
  simp [hflat]

end Shm.Crypto
