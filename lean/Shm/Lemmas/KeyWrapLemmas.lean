/-
  RFC 3394: unwrap undoes wrap, for every block function with a left inverse on 16-byte blocks, every number of 64-bit blocks.
-/
import Shm.Lemmas.ModesLemmas
namespace Shm.Crypto

/-- the register state of the wrapping function: A of 8 bytes, every R[i] of 8 bytes -/
def KwWF (n : Nat) (s : Bytes × List Bytes) : Prop := s.1.length = 8 ∧ s.2.length = n ∧ ∀ r ∈ s.2, r.length = 8

theorem be8w_length (t : Nat) : (be8w t).length = 8 := rfl

theorem getD_of_lt {α : Type} (l : List α) (i : Nat) (d : α) (h : i < l.length) : l.getD i d = l[i] := by
  simp [List.getD_eq_getElem?_getD, List.getElem?_eq_getElem h]

theorem getD_len {n : Nat} {s : Bytes × List Bytes} (h : KwWF n s) (i : Nat) (hi : i < n) : (s.2.getD i []).length = 8 := by
  have hlt : i < s.2.length := by rw [h.2.1]; exact hi
  rw [getD_of_lt _ _ _ hlt]
  exact h.2.2 _ (List.getElem_mem hlt)

theorem kw_step_inv {E D : Bytes → Bytes} (h : BlockInv E D) (n : Nat) (hn : 0 < n) (s : Bytes × List Bytes) (hs : KwWF n s) (t : Nat) :
    kuStep D n (kwStep E n s t) t = s ∧ KwWF n (kwStep E n s t) := by
  obtain ⟨a, r⟩ := s
  have hi : (t - 1) % n < n := Nat.mod_lt _ hn
  have hri := getD_len hs _ hi
  have hal : a.length = 8 := hs.1
  have hin : (a ++ r.getD ((t - 1) % n) []).length = 16 := by rw [List.length_append, hal]; have := hri; simp only at this; omega
  have hbl := h.len _ hin
  have hlt : (t - 1) % n < r.length := by rw [hs.2.1]; exact hi
  have htake : ((E (a ++ r.getD ((t - 1) % n) [])).take 8).length = 8 := by rw [List.length_take]; omega
  have hdrop : ((E (a ++ r.getD ((t - 1) % n) [])).drop 8).length = 8 := by rw [List.length_drop]; omega
  constructor
  · simp only [kuStep, kwStep, setAt]
    rw [xorBytes_cancel _ _ (by rw [htake, be8w_length]; exact Nat.le_refl _)]
    have hget : (r.set ((t - 1) % n) ((E (a ++ r.getD ((t - 1) % n) [])).drop 8)).getD ((t - 1) % n) [] = (E (a ++ r.getD ((t - 1) % n) [])).drop 8 := by
      rw [getD_of_lt _ _ _ (by simpa using hlt)]; simp
    rw [hget, List.take_append_drop, h.inv _ hin]
    have h1 : (a ++ r.getD ((t - 1) % n) []).take 8 = a := by rw [List.take_left' hal]
    have h2 : (a ++ r.getD ((t - 1) % n) []).drop 8 = r.getD ((t - 1) % n) [] := by rw [List.drop_left' hal]
    rw [h1, h2, List.set_set]
    congr 1
    rw [getD_of_lt _ _ _ hlt]
    exact List.set_getElem_self hlt
  · refine ⟨?_, ?_, ?_⟩
    · simp only [kwStep]; rw [xorBytes_length, htake, be8w_length]; rfl
    · simp only [kwStep, setAt, List.length_set]; exact hs.2.1
    · intro x hx
      simp only [kwStep, setAt] at hx
      rcases List.mem_or_eq_of_mem_set hx with hx | hx
      · exact hs.2.2 x hx
      · rw [hx]; exact hdrop

theorem kw_fold_inv {E D : Bytes → Bytes} (h : BlockInv E D) (n : Nat) (hn : 0 < n) :
    ∀ (ts : List Nat) (s : Bytes × List Bytes), KwWF n s →
      ts.reverse.foldl (kuStep D n) (ts.foldl (kwStep E n) s) = s ∧ KwWF n (ts.foldl (kwStep E n) s) := by
  intro ts
  induction ts with
  | nil => intro s hs; exact ⟨rfl, hs⟩
  | cons t rest ih =>
    intro s hs
    have hstep := kw_step_inv h n hn s hs t
    have := ih (kwStep E n s t) hstep.2
    refine ⟨?_, this.2⟩
    simp only [List.foldl_cons, List.reverse_cons, List.foldl_append, List.foldl_nil]
    rw [this.1, hstep.1]

theorem kwIV_length : kwIV.length = 8 := rfl

/-- **RFC 3394**: `unwrap (wrap P) = P` for every plaintext of n ≥ 2 64-bit blocks -/
theorem rfc3394_roundtrip {E D : Bytes → Bytes} (h : BlockInv E D) (p : Bytes) (h8 : p.length % 8 = 0) (h16 : 16 ≤ p.length) :
    rfc3394Unwrap D (rfc3394Wrap E p) = some p := by
  have hall := chunks_all_len 8 (by decide) p.length p (Nat.le_refl _) h8
  have hflat := flatten_chunks 8 (by decide) p.length p (Nat.le_refl _)
  have hnpos : 0 < (chunks 8 p).length := by
    apply List.length_pos_iff.mpr
    intro he
    rw [he] at hflat
    simp at hflat
    rw [hflat] at h16; simp at h16
  have hwf : KwWF (chunks 8 p).length (kwIV, chunks 8 p) := ⟨rfl, rfl, hall⟩
  have hfold := kw_fold_inv h (chunks 8 p).length hnpos (kwTicks (chunks 8 p).length) (kwIV, chunks 8 p) hwf
  unfold rfc3394Wrap rfc3394Unwrap kwW
  generalize hres : (kwTicks (chunks 8 p).length).foldl (kwStep E (chunks 8 p).length) (kwIV, chunks 8 p) = res at hfold
  obtain ⟨a, r⟩ := res
  have hw := hfold.2
  have hal : a.length = 8 := hw.1
  have hrl : r.length = (chunks 8 p).length := hw.2.1
  have hflen : r.flatten.length = p.length := by
    have e1 : ∀ (l : List Bytes), (∀ x ∈ l, x.length = 8) → l.flatten.length = 8 * l.length := by
      intro l
      induction l with
      | nil => intro _; rfl
      | cons x xs ih => intro hx; simp only [List.flatten_cons, List.length_append, List.length_cons]; rw [hx x (by simp), ih (fun y hy => hx y (by simp [hy]))]; omega
    rw [e1 r hw.2.2, hrl, ← e1 (chunks 8 p) hall, hflat]
  dsimp only
  have hlen : (a ++ r.flatten).length = 8 + p.length := by simp [hal, hflen]
  have c1 : (decide ((a ++ r.flatten).length < 24) || ((a ++ r.flatten).length % 8 != 0)) = false := by
    rw [hlen]; simp; omega
  simp only [c1, Bool.false_eq_true, if_false]
  rw [List.take_left' hal, List.drop_left' hal, chunks_flatten 8 (by decide) r hw.2.2]
  unfold kwWinv
  rw [hrl]
  have := hfold.1
  rw [this]
  simp [hflat]


/-! ### RFC 5649 (CKM_AES_KEY_WRAP_PAD) -/

/-- the wrapping function with ANY 8-byte initial value is undone by the unwrapping function -/
theorem kw_core {E D : Bytes → Bytes} (h : BlockInv E D) (iv q : Bytes) (hiv : iv.length = 8) (h8 : q.length % 8 = 0) (hq : 8 ≤ q.length) :
    let w := kwW E iv (chunks 8 q)
    kwWinv D w.1 w.2 = (iv, chunks 8 q) ∧ w.1.length = 8 ∧ w.2.flatten.length = q.length ∧ (∀ x ∈ w.2, x.length = 8) := by
  have hall := chunks_all_len 8 (by decide) q.length q (Nat.le_refl _) h8
  have hflat := flatten_chunks 8 (by decide) q.length q (Nat.le_refl _)
  have hnpos : 0 < (chunks 8 q).length := by
    apply List.length_pos_iff.mpr
    intro he
    rw [he] at hflat
    simp at hflat
    rw [hflat] at hq; simp at hq
  have hwf : KwWF (chunks 8 q).length (iv, chunks 8 q) := ⟨hiv, rfl, hall⟩
  have hfold := kw_fold_inv h (chunks 8 q).length hnpos (kwTicks (chunks 8 q).length) (iv, chunks 8 q) hwf
  unfold kwW
  generalize hres : (kwTicks (chunks 8 q).length).foldl (kwStep E (chunks 8 q).length) (iv, chunks 8 q) = res at hfold
  obtain ⟨a, r⟩ := res
  have hw := hfold.2
  have hrl : r.length = (chunks 8 q).length := hw.2.1
  have e1 : ∀ (l : List Bytes), (∀ x ∈ l, x.length = 8) → l.flatten.length = 8 * l.length := by
    intro l
    induction l with
    | nil => intro _; rfl
    | cons x xs ih => intro hx; simp only [List.flatten_cons, List.length_append, List.length_cons]; rw [hx x (by simp), ih (fun y hy => hx y (by simp [hy]))]; omega
  refine ⟨?_, hw.1, ?_, hw.2.2⟩
  · unfold kwWinv
    dsimp only
    rw [hrl]
    exact hfold.1
  · dsimp only
    rw [e1 r hw.2.2, hrl, ← e1 (chunks 8 q) hall, hflat]

theorem zeroPad8_length_mod (p : Bytes) : (zeroPad8 p).length % 8 = 0 := by
  simp only [zeroPad8, List.length_append, List.length_replicate]; omega

theorem zeroPad8_length_bounds (p : Bytes) : p.length ≤ (zeroPad8 p).length ∧ (zeroPad8 p).length < p.length + 8 := by
  simp only [zeroPad8, List.length_append, List.length_replicate]; omega

theorem zeroPad8_take (p : Bytes) : (zeroPad8 p).take p.length = p := by simp [zeroPad8]

theorem zeroPad8_drop_zero (p : Bytes) : ((zeroPad8 p).drop p.length).all (· == 0) = true := by
  simp [zeroPad8, List.all_replicate]

theorem nat32_decode (n : Nat) (h : n < 2 ^ 32) : (nat32Bytes n).foldl (fun acc b => acc * 256 + b.toNat) 0 = n := by
  simp only [nat32Bytes, List.foldl_cons, List.foldl_nil, UInt8.toNat_ofNat']
  omega

/-- **RFC 5649**: `unwrap (wrap P) = P` for every non-empty plaintext shorter than 2^32 bytes, over every block function with a left inverse on 16-byte blocks
    (the padded length, the alternative initial value with its length field, the one-block special case and the zero padding check included) -/
theorem rfc5649_roundtrip {E D : Bytes → Bytes} (h : BlockInv E D) (p : Bytes) (h0 : 0 < p.length) (h32 : p.length < 2 ^ 32) :
    rfc5649Unwrap D (rfc5649Wrap E p) = some p := by
  have hm := zeroPad8_length_mod p
  have hb := zeroPad8_length_bounds p
  have haiv : ([0xA6, 0x59, 0x59, 0xA6] ++ nat32Bytes p.length : Bytes).length = 8 := rfl
  -- what the common tail of the unwrap makes of (aiv, padded)
  have tail : ∀ (a body : Bytes), a = [0xA6, 0x59, 0x59, 0xA6] ++ nat32Bytes p.length → body = zeroPad8 p →
      (if a.take 4 != [0xA6, 0x59, 0x59, 0xA6] then none else
        let mli := (a.drop 4).foldl (fun acc b => acc * 256 + b.toNat) 0
        if mli > body.length || mli + 8 ≤ body.length || mli == 0 then none
        else if (body.drop mli).all (· == 0) then some (body.take mli) else none) = some p := by
    intro a body ha hbody
    subst ha hbody
    have ht : ([0xA6, 0x59, 0x59, 0xA6] ++ nat32Bytes p.length : Bytes).take 4 = [0xA6, 0x59, 0x59, 0xA6] := rfl
    have hd : ([0xA6, 0x59, 0x59, 0xA6] ++ nat32Bytes p.length : Bytes).drop 4 = nat32Bytes p.length := rfl
    simp only [ht, hd, nat32_decode _ h32, bne_self_eq_false, Bool.false_eq_true, if_false]
    have hp : p ≠ [] := by intro e; simp [e] at h0
    have c : (decide (p.length > (zeroPad8 p).length) || decide (p.length + 8 ≤ (zeroPad8 p).length) || (p.length == 0)) = false := by
      simp [hp]; omega
    simp only [c, Bool.false_eq_true, if_false, zeroPad8_drop_zero, if_true, zeroPad8_take]
  unfold rfc5649Wrap
  by_cases h8 : (zeroPad8 p).length = 8
  · -- one block: a single application of the block function
    have hin : (([0xA6, 0x59, 0x59, 0xA6] ++ nat32Bytes p.length : Bytes) ++ zeroPad8 p).length = 16 := by rw [List.length_append, haiv, h8]
    have hlen := h.len _ hin
    simp only [h8, beq_self_eq_true, if_true]
    unfold rfc5649Unwrap
    have c1 : (decide ((E (([0xA6, 0x59, 0x59, 0xA6] ++ nat32Bytes p.length : Bytes) ++ zeroPad8 p)).length < 16) ||
        ((E (([0xA6, 0x59, 0x59, 0xA6] ++ nat32Bytes p.length : Bytes) ++ zeroPad8 p)).length % 8 != 0)) = false := by rw [hlen]; decide
    simp only [c1, Bool.false_eq_true, if_false, hlen, beq_self_eq_true, if_true, h.inv _ hin]
    exact tail _ _ (List.take_left' haiv) (List.drop_left' haiv)
  · have h16 : 16 ≤ (zeroPad8 p).length := by omega
    have hne : ((zeroPad8 p).length == 8) = false := by simpa using h8
    simp only [hne, Bool.false_eq_true, if_false]
    have core := kw_core h ([0xA6, 0x59, 0x59, 0xA6] ++ nat32Bytes p.length) (zeroPad8 p) haiv hm (by omega)
    generalize hw : kwW E ([0xA6, 0x59, 0x59, 0xA6] ++ nat32Bytes p.length) (chunks 8 (zeroPad8 p)) = w at core
    obtain ⟨a, r⟩ := w
    obtain ⟨hinv, hal, hfl, hall⟩ := core
    dsimp only at hinv hal hfl hall ⊢
    unfold rfc5649Unwrap
    have hlen : (a ++ r.flatten).length = 8 + (zeroPad8 p).length := by simp [hal, hfl]
    have c1 : (decide ((a ++ r.flatten).length < 16) || ((a ++ r.flatten).length % 8 != 0)) = false := by rw [hlen]; simp; omega
    have c2 : ((a ++ r.flatten).length == 16) = false := by rw [hlen]; simp; omega
    simp only [c1, c2, Bool.false_eq_true, if_false]
    rw [List.take_left' hal, List.drop_left' hal, chunks_flatten 8 (by decide) r hall, hinv]
    dsimp only
    exact tail _ _ rfl (flatten_chunks 8 (by decide) _ _ (Nat.le_refl _))

end Shm.Crypto
