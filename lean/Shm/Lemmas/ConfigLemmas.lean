/-
  Lemmas about the configuration-file loader model (Shm/Pure/Config.lean): what a comment, a NUL byte, blanks around the tokens and a single assignment line mean.
  Restated under the properties they serve in Shm/Props/C17 (any byte content of the configuration file) and C07 (slots.mechanisms).
-/
import Shm.Pure.Config
namespace Shm.Pure.Config
open Shm

theorem takeWhile_append_stop {α : Type} (p : α → Bool) (a b : List α) (x : α) (hx : p x = false) :
    (a ++ x :: b).takeWhile p = a.takeWhile p := by
  induction a with
  | nil => simp [List.takeWhile, hx]
  | cons y ys ih =>
    simp only [List.cons_append, List.takeWhile]
    cases p y <;> simp [ih]

theorem takeWhile_takeWhile {α : Type} (p q : α → Bool) (l : List α) :
    (l.takeWhile p).takeWhile q = l.takeWhile (fun c => p c && q c) := by
  induction l with
  | nil => rfl
  | cons y ys ih =>
    simp only [List.takeWhile]
    cases hp : p y <;> cases hq : q y <;> simp [List.takeWhile, hq, ih]

/-- the text of a line as the loader sees it, with one predicate -/
theorem cutLine_eq (c : Bytes) : cutLine c = c.takeWhile (fun x => x != 0 && (x != 0x23 && x != 0x0a && x != 0x0d)) := by
  unfold cutLine; rw [takeWhile_takeWhile]

/-- **comments**: whatever follows a `#` has no effect on what the line means -/
theorem parseLine_comment (a b : Bytes) : parseLine (a ++ 0x23 :: b) = parseLine a := by
  unfold parseLine
  rw [cutLine_eq, cutLine_eq, takeWhile_append_stop _ a b 0x23 (by decide)]

/-- a NUL byte ends the line for the loader (C strings): nothing behind it is looked at -/
theorem parseLine_nul (a b : Bytes) : parseLine (a ++ 0 :: b) = parseLine a := by
  unfold parseLine
  rw [cutLine_eq, cutLine_eq, takeWhile_append_stop _ a b 0 (by decide)]


def plain (c : UInt8) : Bool := c != 0 && c != 0x23 && c != 0x0a && c != 0x0d && c != 0x3d && !isSpace c

def PlainTok (t : Bytes) : Prop := t ≠ [] ∧ ∀ c ∈ t, plain c = true

theorem takeWhile_all {α : Type} (p : α → Bool) (l : List α) (h : ∀ c ∈ l, p c = true) : l.takeWhile p = l := by
  induction l with
  | nil => rfl
  | cons y ys ih => simp [List.takeWhile, h y (by simp), ih (fun c hc => h c (by simp [hc]))]

theorem dropWhile_all {α : Type} (p : α → Bool) (l : List α) (h : ∀ c ∈ l, p c = true) : l.dropWhile p = [] := by
  induction l with
  | nil => rfl
  | cons y ys ih => simp [List.dropWhile, h y (by simp), ih (fun c hc => h c (by simp [hc]))]

theorem takeWhile_app_stop {α : Type} (p : α → Bool) (a b : List α) (x : α) (ha : ∀ c ∈ a, p c = true) (hx : p x = false) :
    (a ++ x :: b).takeWhile p = a := by
  induction a with
  | nil => simp [List.takeWhile, hx]
  | cons y ys ih => simp [List.takeWhile, ha y (by simp), ih (fun c hc => ha c (by simp [hc]))]

theorem dropWhile_app_stop {α : Type} (p : α → Bool) (a b : List α) (x : α) (ha : ∀ c ∈ a, p c = true) (hx : p x = false) :
    (a ++ x :: b).dropWhile p = x :: b := by
  induction a with
  | nil => simp [List.dropWhile, hx]
  | cons y ys ih => simp [List.dropWhile, ha y (by simp), ih (fun c hc => ha c (by simp [hc]))]

theorem dropWhile_head {α : Type} (p : α → Bool) (x : α) (l : List α) (hx : p x = false) : (x :: l).dropWhile p = x :: l := by
  simp [List.dropWhile, hx]

theorem plain_facts {c : UInt8} (h : plain c = true) : (c != 0) = true ∧ (c != 0x23) = true ∧ (c != 0x0a) = true ∧ (c != 0x0d) = true ∧ (c != 0x3d) = true ∧ isSpace c = false := by
  unfold plain at h
  simp only [Bool.and_eq_true, Bool.not_eq_true'] at h
  obtain ⟨⟨⟨⟨⟨h1, h2⟩, h3⟩, h4⟩, h5⟩, h6⟩ := h
  exact ⟨h1, h2, h3, h4, h5, h6⟩

/-- trimming a plain token with one space on either side gives the token -/
theorem trim_plain (t : Bytes) (ht : PlainTok t) (pre post : Bytes) (hpre : ∀ c ∈ pre, isSpace c = true) (hpost : ∀ c ∈ post, isSpace c = true) :
    trim (pre ++ t ++ post) = some t := by
  obtain ⟨hne, hall⟩ := ht
  obtain ⟨x, xs, rfl⟩ := List.exists_cons_of_ne_nil hne
  have hx := (plain_facts (hall x (by simp))).2.2.2.2.2
  unfold trim
  have h1 : ((pre ++ x :: xs ++ post).dropWhile isSpace) = x :: xs ++ post := by
    rw [List.append_assoc, List.cons_append, dropWhile_app_stop isSpace pre (xs ++ post) x hpre hx]
  -- the reversed string: post.reverse ++ (x :: xs).reverse
  obtain ⟨y, ys, hrev⟩ : ∃ y ys, (x :: xs).reverse = y :: ys := by
    cases h : (x :: xs).reverse with
    | nil => simp at h
    | cons y ys => exact ⟨y, ys, rfl⟩
  have hy : isSpace y = false := by
    have : y ∈ (x :: xs) := by
      have : y ∈ (x :: xs).reverse := by rw [hrev]; simp
      exact List.mem_reverse.mp this
    exact (plain_facts (hall y this)).2.2.2.2.2
  have h2 : ((x :: xs ++ post).reverse.dropWhile isSpace) = y :: ys := by
    rw [List.reverse_append, hrev]
    exact dropWhile_app_stop isSpace post.reverse ys y (by intro c hc; exact hpost c (by simpa using hc)) hy
  simp only [h1, h2]
  rw [← hrev, List.reverse_reverse]
  simp


def blank (c : UInt8) : Bool := c == 0x20 || c == 0x09 || c == 0x0b || c == 0x0c

theorem blank_facts {c : UInt8} (h : blank c = true) : isSpace c = true ∧ (c != 0x3d) = true ∧ (c != 0 && (c != 0x23 && c != 0x0a && c != 0x0d)) = true := by
  unfold blank at h
  simp only [Bool.or_eq_true, beq_iff_eq] at h
  rcases h with ((h | h) | h) | h <;> subst h <;> decide

theorem strtok_noeq (l : Bytes) (hne : l ≠ []) (h : ∀ c ∈ l, (c != 0x3d) = true) : strtok l = some (l, []) := by
  obtain ⟨x, xs, rfl⟩ := List.exists_cons_of_ne_nil hne
  unfold strtok
  have hx : (x == 0x3d) = false := by have := h x (by simp); simpa [bne] using this
  rw [dropWhile_head _ x xs hx]
  simp only [List.isEmpty_cons, Bool.false_eq_true, if_false]
  rw [takeWhile_all _ _ h, dropWhile_all _ _ h]; rfl

theorem strtok_split (pre post : Bytes) (hne : pre ≠ []) (h : ∀ c ∈ pre, (c != 0x3d) = true) : strtok (pre ++ 0x3d :: post) = some (pre, post) := by
  obtain ⟨x, xs, rfl⟩ := List.exists_cons_of_ne_nil hne
  unfold strtok
  have hx : (x == 0x3d) = false := by have := h x (by simp); simpa [bne] using this
  rw [List.cons_append, dropWhile_head _ x _ hx]
  simp only [List.isEmpty_cons, Bool.false_eq_true, if_false]
  rw [← List.cons_append, takeWhile_app_stop _ _ _ _ h (by decide), dropWhile_app_stop _ _ _ _ h (by decide)]; rfl

/-- **an assignment line means what it says**: `name = value` with any blanks around the two plain tokens, followed by a newline and anything, is read as (name, value) -/
theorem parseLine_assign (n v s1 s2 s3 s4 tail : Bytes) (hn : PlainTok n) (hv : PlainTok v)
    (h1 : ∀ c ∈ s1, blank c = true) (h2 : ∀ c ∈ s2, blank c = true) (h3 : ∀ c ∈ s3, blank c = true) (h4 : ∀ c ∈ s4, blank c = true) :
    parseLine (s1 ++ n ++ s2 ++ 0x3d :: (s3 ++ v ++ s4) ++ 0x0a :: tail) = some (n, v) := by
  have hnq : ∀ c ∈ n, (c != 0x3d) = true ∧ (c != 0 && (c != 0x23 && c != 0x0a && c != 0x0d)) = true := by
    intro c hc; have := plain_facts (hn.2 c hc); simp [this.1, this.2.1, this.2.2.1, this.2.2.2.1, this.2.2.2.2.1]
  have hvq : ∀ c ∈ v, (c != 0x3d) = true ∧ (c != 0 && (c != 0x23 && c != 0x0a && c != 0x0d)) = true := by
    intro c hc; have := plain_facts (hv.2 c hc); simp [this.1, this.2.1, this.2.2.1, this.2.2.2.1, this.2.2.2.2.1]
  have hpre_ne : s1 ++ n ++ s2 ≠ [] := by
    intro h; simp only [List.append_eq_nil_iff] at h; exact hn.1 h.1.2
  have hpost_ne : s3 ++ v ++ s4 ≠ [] := by
    intro h; simp only [List.append_eq_nil_iff] at h; exact hv.1 h.1.2
  have hpre_eq : ∀ c ∈ s1 ++ n ++ s2, (c != 0x3d) = true := by
    intro c hc; simp only [List.mem_append] at hc
    rcases hc with (hc | hc) | hc
    · exact (blank_facts (h1 c hc)).2.1
    · exact (hnq c hc).1
    · exact (blank_facts (h2 c hc)).2.1
  have hpost_eq : ∀ c ∈ s3 ++ v ++ s4, (c != 0x3d) = true := by
    intro c hc; simp only [List.mem_append] at hc
    rcases hc with (hc | hc) | hc
    · exact (blank_facts (h3 c hc)).2.1
    · exact (hvq c hc).1
    · exact (blank_facts (h4 c hc)).2.1
  have hline : ∀ c ∈ s1 ++ n ++ s2 ++ 0x3d :: (s3 ++ v ++ s4), (c != 0 && (c != 0x23 && c != 0x0a && c != 0x0d)) = true := by
    intro c hc; simp only [List.mem_append, List.mem_cons] at hc
    rcases hc with ((hc | hc) | hc) | hc | (hc | hc) | hc
    · exact (blank_facts (h1 c hc)).2.2
    · exact (hnq c hc).2
    · exact (blank_facts (h2 c hc)).2.2
    · subst hc; decide
    · exact (blank_facts (h3 c hc)).2.2
    · exact (hvq c hc).2
    · exact (blank_facts (h4 c hc)).2.2
  unfold parseLine
  rw [cutLine_eq, takeWhile_app_stop _ _ _ _ hline (by decide)]
  have hne : (s1 ++ n ++ s2 ++ 0x3d :: (s3 ++ v ++ s4)).isEmpty = false := by
    cases h : s1 ++ n ++ s2 with
    | nil => exact absurd h hpre_ne
    | cons a as => rfl
  simp only [hne, Bool.false_eq_true, if_false]
  rw [strtok_split _ _ hpre_ne hpre_eq]
  simp only [Option.bind_eq_bind, Option.bind_some, Option.pure_def]
  rw [trim_plain n hn s1 s2 (fun c hc => (blank_facts (h1 c hc)).1) (fun c hc => (blank_facts (h2 c hc)).1)]
  simp only [Option.bind_some]
  rw [strtok_noeq _ hpost_ne hpost_eq]
  simp only [Option.bind_some]
  rw [trim_plain v hv s3 s4 (fun c hc => (blank_facts (h3 c hc)).1) (fun c hc => (blank_facts (h4 c hc)).1)]
  rfl


theorem fgetsChunk_line (a r : Bytes) (n : Nat) (ha : ∀ c ∈ a, (c == 0x0a) = false) (hn : a.length < n) :
    fgetsChunk n (a ++ 0x0a :: r) = (a ++ [0x0a], r) := by
  induction a generalizing n with
  | nil =>
    cases n with
    | zero => simp at hn
    | succ m => simp [fgetsChunk]
  | cons x xs ih =>
    cases n with
    | zero => simp at hn
    | succ m =>
      have hx : (x == 0x0a) = false := ha x (by simp)
      simp only [List.cons_append, fgetsChunk, hx, Bool.false_eq_true, if_false]
      rw [ih m (fun c hc => ha c (by simp [hc])) (by simpa using hn)]

/-- a file that is one line of at most 1023 bytes is read as that one line -/
theorem fileChunks_one_line (a : Bytes) (ha : ∀ c ∈ a, (c == 0x0a) = false) (hn : a.length < 1023) :
    fileChunks (a ++ [0x0a]) = [a ++ [0x0a]] := by
  unfold fileChunks
  have hlen : (a ++ [0x0a]).length + 1 = (a.length + 1) + 1 := by simp
  rw [hlen]
  cases a with
  | nil => simp [chunksFuel, fgetsChunk]
  | cons x xs =>
    simp only [chunksFuel, List.cons_append]
    have := fgetsChunk_line (x :: xs) [] 1023 ha hn
    simp only [List.cons_append] at this
    rw [this]
    simp [chunksFuel]

/-- **a one-line configuration file `name = value`** sets exactly that string setting to exactly that value (for the settings of string type, e.g.
    `slots.mechanisms`, `directories.tokendir`) -/
theorem load_single_string (k : String) (v : Bytes) (hk : typeOf (keyBytes k) = some (k, .str)) (hkp : PlainTok (keyBytes k)) (hv : PlainTok v)
    (hlen : (keyBytes k).length + v.length + 3 < 1023) :
    (load (keyBytes k ++ [0x20, 0x3d, 0x20] ++ v ++ [0x0a])).get k = some (.str v) := by
  have hline : keyBytes k ++ [0x20, 0x3d, 0x20] ++ v ++ [0x0a] = ([] ++ keyBytes k ++ [0x20] ++ 0x3d :: ([0x20] ++ v ++ []) ++ 0x0a :: []) := by simp
  have hno : ∀ c ∈ keyBytes k ++ [0x20, 0x3d, 0x20] ++ v, (c == 0x0a) = false := by
    intro c hc; simp only [List.mem_append, List.mem_cons, List.mem_nil_iff, or_false] at hc
    rcases hc with (hc | hc | hc | hc) | hc
    · have := (plain_facts (hkp.2 c hc)).2.2.1; simpa [bne] using this
    · subst hc; decide
    · subst hc; decide
    · subst hc; decide
    · have := (plain_facts (hv.2 c hc)).2.2.1; simpa [bne] using this
  unfold load
  rw [fileChunks_one_line _ hno (by simp; omega)]
  simp only [List.foldl_cons, List.foldl_nil]
  rw [hline, parseLine_assign (keyBytes k) v [] [0x20] [0x20] [] [] hkp hv (by simp) (by simp [blank]) (by simp [blank]) (by simp)]
  simp only [assign, hk, Settings.set, Settings.get]
  simp

/-! ### the last assignment wins -/

/-- the loader as a fold over the chunks `fgets` delivered -/
def loadChunks (s : Settings) (cs : List Bytes) : Settings :=
  cs.foldl (fun s chunk => match parseLine chunk with
    | some (n, v) => assign s n v
    | none => s) s

theorem load_eq (file : Bytes) : load file = loadChunks [] (fileChunks file) := rfl

theorem set_get_same (s : Settings) (k : String) (v : CVal) : (s.set k v).get k = some v := by
  simp [Settings.set, Settings.get]

theorem set_get_other (s : Settings) (k k' : String) (v : CVal) (h : k' ≠ k) : (s.set k' v).get k = s.get k := by
  have h1 : (k' == k) = false := by simpa using h
  simp only [Settings.set, Settings.get, List.find?, h1]
  congr 1
  induction s with
  | nil => rfl
  | cons a t ih =>
    by_cases ha : a.1 = k'
    · have : (a.1 != k') = false := by simp [ha]
      have h2 : (a.1 == k) = false := by rw [ha]; exact h1
      simp only [List.filter, this, List.find?, h2]; exact ih
    · have : (a.1 != k') = true := by simp [ha]
      simp only [List.filter, this, List.find?]
      cases hk : (a.1 == k) <;> simp [ih]

/-- does this chunk assign a value to setting `k`? -/
def touches (k : String) (chunk : Bytes) : Bool :=
  match parseLine chunk with
  | some (n, _) => (match typeOf n with | some (k', _) => k' == k | none => false)
  | none => false

theorem assign_untouched (s : Settings) (n v : Bytes) (k : String)
    (h : (match typeOf n with | some (k', _) => k' == k | none => false) = false) : (assign s n v).get k = s.get k := by
  unfold assign
  cases ht : typeOf n with
  | none => rfl
  | some kt =>
    obtain ⟨k', t⟩ := kt
    rw [ht] at h
    have hne : k' ≠ k := by simpa using h
    cases t with
    | str => exact set_get_other _ _ _ _ hne
    | int => exact set_get_other _ _ _ _ hne
    | oct => exact set_get_other _ _ _ _ hne
    | bool =>
      simp only
      cases string2bool v with
      | none => rfl
      | some b => exact set_get_other _ _ _ _ hne

theorem loadChunks_untouched (k : String) (cs : List Bytes) (s : Settings) (h : ∀ c ∈ cs, touches k c = false) :
    (loadChunks s cs).get k = s.get k := by
  induction cs generalizing s with
  | nil => rfl
  | cons c t ih =>
    have hc := h c (by simp)
    have ht := fun c' hc' => h c' (List.mem_cons_of_mem _ hc')
    show (loadChunks _ t).get k = _
    rw [ih _ ht]
    unfold touches at hc
    cases hp : parseLine c with
    | none => simp only [hp]
    | some nv =>
      obtain ⟨n, v⟩ := nv
      rw [hp] at hc
      simp only [hp]
      exact assign_untouched s n v k hc

/-- THE LAST ASSIGNMENT WINS: whatever precedes it, a string setting has the value of the last chunk that assigns it -/
theorem loadChunks_last_wins (k : String) (pre post : List Bytes) (c n v : Bytes) (s : Settings)
    (hp : parseLine c = some (n, v)) (hk : typeOf n = some (k, .str)) (hpost : ∀ c' ∈ post, touches k c' = false) :
    (loadChunks s (pre ++ c :: post)).get k = some (.str v) := by
  unfold loadChunks
  rw [List.foldl_append, List.foldl_cons]
  show (loadChunks _ post).get k = _
  rw [loadChunks_untouched k post _ hpost, hp]
  simp only [assign, hk]
  exact set_get_same _ _ _

end Shm.Pure.Config
