/-
  Theorems about the pure helpers of Shm/Pure (proved here, restated under the property they serve in Shm/Props/C05, C13, C17).
-/
import Shm.Lemmas.PureLemmas
import Shm.Store.CodecLemmas
import Shm.Crypto.Modes
import Shm.Crypto.KeyWrap
import Shm.Lemmas.ModesLemmas
namespace Shm.Pure
open Shm Shm.Store Shm.Crypto

theorem longVal_beBytes (k n : Nat) (hk : k ≤ 8) : longVal (beBytes k n) = n % 256 ^ k := by
  unfold longVal
  rw [List.take_of_length_le (by rw [beBytes_length]; exact hk), beVal_beBytes]

theorem der_roundtrip (b : Bytes) (h : b.length < 2 ^ 64) : octet2Raw (raw2Octet b) = b := by
  unfold raw2Octet
  by_cases hs : b.length < 0x80
  · simp only [hs, if_true]
    unfold octet2Raw
    have hl : (UInt8.ofNat b.length) < 0x80 := by
      rw [UInt8.lt_iff_toNat_lt]; simp [UInt8.toNat_ofNat']; omega
    have hn : (UInt8.ofNat b.length).toNat = b.length := by simp [UInt8.toNat_ofNat']; omega
    simp [hl, hn]
  · simp only [hs, if_false]
    have hpos : 0 < b.length := by omega
    obtain ⟨h1, h8, hlt⟩ := sigBytes_spec b.length hpos h
    generalize hk : sigBytes b.length = k at *
    have hcases : k = 1 ∨ k = 2 ∨ k = 3 ∨ k = 4 ∨ k = 5 ∨ k = 6 ∨ k = 7 ∨ k = 8 := by omega
    have hlv : longVal (beBytes k b.length) = b.length := by
      rw [longVal_beBytes k _ h8]; exact Nat.mod_eq_of_lt hlt
    have hlen := beBytes_length k b.length
    unfold octet2Raw
    rcases hcases with rfl | rfl | rfl | rfl | rfl | rfl | rfl | rfl <;>
      simp_all [List.take_append_of_le_length, List.drop_append_of_le_length] <;> omega

theorem ser_roundtrip (b rest : Bytes) (h : b.length < 2 ^ 64) : chainDeserialise (serialise b ++ rest) = (b, rest) := by
  unfold chainDeserialise serialise ofULong longVal split
  have h8 : (be8 b.length).length = 8 := be8_length _
  simp [h8, beVal_be8 _ h]

theorem pad5652_eq_model (b : Bytes) (bs : Nat) : rfc5652Pad b bs = pkcs7Pad bs b := rfl

theorem pad3394_eq_model (b : Bytes) : rfc3394Pad b = zeroPad8 b := by
  unfold rfc3394Pad zeroPad8
  by_cases h : b.length % 8 = 0
  · simp [h]
  · have : (8 - b.length % 8) % 8 = 8 - b.length % 8 := by omega
    simp [h, this]

theorem unpad5652_eq_model (p : Bytes) (bs : Nat) (h0 : 0 < bs) (hm : p.length % bs = 0) (hne : p ≠ []) :
    rfc5652Unpad p bs = pkcs7Unpad bs p := by
  unfold rfc5652Unpad pkcs7Unpad
  have hl : p.length ≠ 0 := by simpa using hne
  obtain ⟨x, hx⟩ : ∃ x, p.getLast? = some x := by
    cases h : p.getLast? with
    | none => simp at h; exact absurd h hne
    | some x => exact ⟨x, rfl⟩
  have hbs : bs ≤ p.length := by
    have := Nat.le_of_dvd (by omega) (Nat.dvd_of_mod_eq_zero hm); exact this
  simp only [hx, Option.getD_some]
  simp [hl, hm]
  by_cases hz : x = 0
  · simp [hz]
  · by_cases hb : bs < x.toNat
    · simp [hz, hb]
    · have : ¬ p.length < x.toNat := by omega
      have hz' : x.toNat ≠ 0 := by
        intro h; apply hz; exact UInt8.toNat_inj.mp (by simpa using h)
      simp [hz, hb, this, hz']

/-- what a successful unpadding removed is `k` bytes of value `k`, `1 ≤ k ≤ bs` -/
theorem unpad5652_sound (p v : Bytes) (bs : Nat) (h : rfc5652Unpad p bs = some v) :
    ∃ k : UInt8, 1 ≤ k.toNat ∧ k.toNat ≤ bs ∧ k.toNat ≤ p.length ∧ p = v ++ List.replicate k.toNat k := by
  unfold rfc5652Unpad at h
  dsimp only at h
  split at h
  · cases h
  · rename_i h1
    split at h
    · cases h
    · rename_i h2
      split at h
      · rename_i hall
        injection h with h
        simp only [Bool.or_eq_true, beq_iff_eq, bne_iff_ne, ne_eq, not_or, Decidable.not_not, decide_eq_true_eq, Nat.not_lt] at h1 h2
        obtain ⟨hl, hm⟩ := h1
        obtain ⟨hz, hb⟩ := h2
        have hbs0 : 0 < bs := by
          rcases Nat.eq_zero_or_pos bs with h0 | h0
          · subst h0; simp at hm; exact absurd (by simp [hm]) hl
          · exact h0
        have hbs : bs ≤ p.length := Nat.le_of_dvd (by omega) (Nat.dvd_of_mod_eq_zero hm)
        have hk0 : ((p.getLast?).getD 0).toNat ≠ 0 := by
          intro hh; apply hz; exact UInt8.toNat_inj.mp (by simpa using hh)
        refine ⟨p.getLast?.getD 0, by omega, hb, by omega, ?_⟩
        have hrep : List.drop (p.length - ((p.getLast?).getD 0).toNat) p = List.replicate ((p.getLast?).getD 0).toNat ((p.getLast?).getD 0) := by
          rw [List.eq_replicate_iff]
          refine ⟨by simp; omega, ?_⟩
          intro b hb'
          have := List.all_eq_true.mp hall b hb'
          simpa using this
        rw [← h, ← hrep, List.take_append_drop]
      · cases h

theorem pad5652_roundtrip (b : Bytes) (bs : Nat) (h0 : 0 < bs) (h1 : bs < 256) : rfc5652Unpad (rfc5652Pad b bs) bs = some b := by
  rw [pad5652_eq_model, unpad5652_eq_model _ _ h0 (pkcs7Pad_length bs b h0), pkcs7_roundtrip bs b h0 h1]
  intro h
  have := congrArg List.length h
  simp [pkcs7Pad] at this
  have := Nat.mod_lt b.length h0
  omega

/-- `getECDHPubData` always hands on a DER octet string that decodes: to the caller's bytes when they were raw, to their content when they already were an octet string -/
theorem ecdhPubData_decodes (d : Bytes) (h : d.length < 2 ^ 64) :
    octet2Raw (ecdhPubData d) = if isDerOctet d then octet2Raw d else d := by
  unfold ecdhPubData
  split
  · rfl
  · exact der_roundtrip d h

/-- raw public points of the supported curves (32, 56, 65, 97, 133 bytes) are never mistaken for DER, whatever their bytes -/
theorem ecdhPubData_raw_point (d : Bytes) (h : d.length = 32 ∨ d.length = 56 ∨ d.length = 65 ∨ d.length = 97 ∨ d.length = 133) :
    ecdhPubData d = raw2Octet d ∧ octet2Raw (ecdhPubData d) = d := by
  have hd : isDerOctet d = false := by
    unfold isDerOctet
    rcases h with h | h | h | h | h <;> simp [h]
  have hlen : d.length < 2 ^ 64 := by rcases h with h | h | h | h | h <;> omega
  constructor
  · simp [ecdhPubData, hd]
  · rw [ecdhPubData_decodes d hlen]; simp [hd]

theorem xorMin_involution (a b : Bytes) (h : a.length = b.length) : xorMin (xorMin a b) b = a := by
  induction a generalizing b with
  | nil => simp [xorMin]
  | cons x xs ih =>
    cases b with
    | nil => simp at h
    | cons y ys =>
      simp only [xorMin, List.zipWith_cons_cons, List.cons.injEq]
      refine ⟨?_, ih ys (by simpa using h)⟩
      rw [UInt8.xor_assoc, UInt8.xor_self, UInt8.xor_zero]

theorem xorAssign_length (a b : Bytes) : (xorAssign a b).length = a.length := by
  simp [xorAssign, xorMin]; omega

theorem substr_bounded (b : Bytes) (start len : Nat) : (substr b start len).length ≤ len ∧ (substr b start len).length ≤ b.length - start := by
  simp [substr]; omega

theorem chainDeserialise_bounded (s : Bytes) : (chainDeserialise s).1.length + (chainDeserialise s).2.length = s.length - 8 := by
  simp [chainDeserialise, split]; omega
end Shm.Pure
