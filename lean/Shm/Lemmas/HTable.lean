/-
  Helper lemmas about the association-list handle table.
-/
import Shm.Model.Handles
namespace Shm

/-- keys strictly ascending (what `std::map` + a monotone counter gives) and bounded by the counter -/
structure HTable.WF (t : HTable) (counter : Nat) : Prop where
  asc : t.Pairwise (fun a b => a.1 < b.1)
  bound : ∀ e ∈ t, e.1 ≤ counter

theorem lookup_none_of_forall_ne {β} (k : Nat) (l : List (Nat × β)) (h : ∀ e ∈ l, e.1 ≠ k) :
    l.lookup k = none := by
  induction l with
  | nil => rfl
  | cons x xs ih =>
    obtain ⟨a, b⟩ := x
    have hx : a ≠ k := h (a, b) (by simp)
    have : (k == a) = false := by simp [beq_eq_false_iff_ne]; exact fun e => hx e.symm
    simp only [List.lookup, this]
    exact ih (fun e he => h e (by simp [he]))

theorem lookup_filter {β} (p : Nat × β → Bool) (k : Nat) (l : List (Nat × β))
    (hp : l.Pairwise (fun a b => a.1 < b.1)) :
    (l.filter p).lookup k = (l.lookup k).filter (fun v => p (k, v)) := by
  induction l with
  | nil => rfl
  | cons x xs ih =>
    obtain ⟨a, b⟩ := x
    rw [List.pairwise_cons] at hp
    obtain ⟨hlt, hxs⟩ := hp
    by_cases hka : k = a
    · subst hka
      have htail : ∀ e ∈ xs, e.1 ≠ k := fun e he => by have := hlt e he; simp at this; omega
      by_cases hpx : p (k, b) = true
      · simp [List.filter, hpx, List.lookup, Option.filter]
      · have hpx' : p (k, b) = false := by simpa using hpx
        simp only [List.filter, hpx', List.lookup, beq_self_eq_true, Option.filter]
        exact lookup_none_of_forall_ne k _ (fun e he => htail e (List.mem_filter.mp he).1)
    · have hne : (k == a) = false := by simp [beq_eq_false_iff_ne]; exact hka
      by_cases hpx : p (a, b) = true
      · simp [List.filter, hpx, List.lookup, hne]; exact ih hxs
      · have hpx' : p (a, b) = false := by simpa using hpx
        simp [List.filter, hpx', List.lookup, hne]; exact ih hxs

theorem lookup_append_single {β} (l : List (Nat × β)) (k k' : Nat) (v : β) :
    (l ++ [(k', v)]).lookup k = (l.lookup k).or (if k = k' then some v else none) := by
  induction l with
  | nil =>
    by_cases h : k = k'
    · subst h; simp [List.lookup]
    · have hne : (k == k') = false := by simp [beq_eq_false_iff_ne]; exact h
      simp [List.lookup, hne, h]
  | cons x xs ih =>
    obtain ⟨a, b⟩ := x
    by_cases hka : k = a
    · subst hka; simp [List.lookup]
    · have hne : (k == a) = false := by simp [beq_eq_false_iff_ne]; exact hka
      simp [List.lookup, hne]; exact ih

theorem lookup_eq_none_of_gt {β} (l : List (Nat × β)) (c k : Nat) (hb : ∀ e ∈ l, e.1 ≤ c) (hk : c < k) :
    l.lookup k = none :=
  lookup_none_of_forall_ne k l (fun e he => by have := hb e he; omega)

theorem lookup_mem {β} (l : List (Nat × β)) (k : Nat) (v : β) (h : l.lookup k = some v) : (k, v) ∈ l := by
  induction l with
  | nil => simp [List.lookup] at h
  | cons x xs ih =>
    obtain ⟨a, b⟩ := x
    by_cases hka : k = a
    · subst hka; simp [List.lookup] at h; simp [h]
    · have hne : (k == a) = false := by simp [beq_eq_false_iff_ne]; exact hka
      simp [List.lookup, hne] at h
      exact List.mem_cons_of_mem _ (ih h)

/-- `map` that keeps keys: lookup commutes -/
theorem lookup_map_keep {β} (f : Nat × β → β) (l : List (Nat × β)) (k : Nat) :
    (l.map fun e => (e.1, f e)).lookup k = (l.lookup k).map (fun v => f (k, v)) := by
  induction l with
  | nil => rfl
  | cons x xs ih =>
    obtain ⟨a, b⟩ := x
    by_cases hka : k = a
    · subst hka; simp [List.lookup]
    · have hne : (k == a) = false := by simp [beq_eq_false_iff_ne]; exact hka
      simp [List.lookup, hne]; exact ih

theorem HTable.WF.filter {t : HTable} {c : Nat} (h : t.WF c) (p : Nat × Ent → Bool) : HTable.WF (t.filter p) c :=
  ⟨h.asc.filter p, fun e he => h.bound e (List.mem_filter.mp he).1⟩

theorem HTable.WF.append {t : HTable} {c : Nat} (h : t.WF c) (e : Ent) : HTable.WF (t ++ [(c + 1, e)]) (c + 1) := by
  refine ⟨?_, ?_⟩
  · rw [List.pairwise_append]
    refine ⟨h.asc, by simp, ?_⟩
    intro a ha b hb
    simp at hb; subst hb
    have := h.bound a ha
    show a.1 < c + 1
    omega
  · intro x hx
    rw [List.mem_append] at hx
    rcases hx with hx | hx
    · have := h.bound x hx; omega
    · simp at hx; subst hx; exact Nat.le_refl _

theorem HTable.WF.mono {t : HTable} {c c' : Nat} (h : t.WF c) (hc : c ≤ c') : t.WF c' :=
  ⟨h.asc, fun e he => Nat.le_trans (h.bound e he) hc⟩

end Shm
