/-
  Which calls can change a PIN: a frame lemma over the whole machine.  `pinOf` looks at a slot of ONE library instance;
  what survives re-initialisation is stated per token (by serial) in Props/C04 and Props/C14.
-/
import Shm.Lemmas.Kept
import Shm.Lemmas.Slots
namespace Shm

/-- the PINs of the token in slot `id` (none: no slot / not initialised) -/
def pinOf (ss : List Slot) (id : Nat) : Option (Bytes × Option Bytes) := (findTok ss id).map fun t => (t.soPin, t.userPin)

def PinsKept (s s' : State) : Prop := ∀ id, pinOf s'.slots id = pinOf s.slots id

theorem PinsKept.refl (s : State) : PinsKept s s := fun _ => rfl
theorem pinsKept_same {s s' : State} (h : s'.slots = s.slots) : PinsKept s s' := fun id => by rw [h]

theorem pinOf_setTok_same (ss : List Slot) (slot : Nat) (t t' : Tok) (hf : findTok ss slot = some t)
    (h1 : t'.soPin = t.soPin) (h2 : t'.userPin = t.userPin) (id : Nat) : pinOf (setTok ss slot t') id = pinOf ss id := by
  unfold pinOf
  rw [findTok_setTok]
  by_cases h : id = slot
  · subst h
    have := findTok_some_findSlot hf
    simp [this, hf, h1, h2]
  · simp [h]

theorem pinsKept_setTok {s s' : State} (slot : Nat) (t t' : Tok) (hs : s'.slots = setTok s.slots slot t') (hf : findTok s.slots slot = some t)
    (h1 : t'.soPin = t.soPin) (h2 : t'.userPin = t.userPin) : PinsKept s s' :=
  fun id => by rw [hs]; exact pinOf_setTok_same _ _ _ _ hf h1 h2 id

theorem pinOf_logoutSlot (ss : List Slot) (slot id : Nat) : pinOf (logoutSlot ss slot) id = pinOf ss id := by
  unfold pinOf
  rw [findTok_logoutSlot]
  by_cases h : id = slot
  · simp only [h, if_true, Option.map_map]; cases findTok ss slot <;> simp [Tok.logout]
  · simp [h]

theorem pinsKept_logoutSlot {s s' : State} (slot : Nat) (hs : s'.slots = logoutSlot s.slots slot) : PinsKept s s' :=
  fun id => by rw [hs]; exact pinOf_logoutSlot _ _ _

theorem pinsKept_logoutIf {s s' : State} (c : Bool) (slot : Nat) (hs : s'.slots = if c then logoutSlot s.slots slot else s.slots) : PinsKept s s' := by
  cases c
  · exact pinsKept_same (by simpa using hs)
  · exact pinsKept_logoutSlot slot (by simpa using hs)

theorem findTok_map_logout (ss : List Slot) (id : Nat) :
    findTok (ss.map fun sl => { sl with tok := sl.tok.map Tok.logout }) id = (findTok ss id).map Tok.logout := by
  unfold findTok
  rw [findSlot_map_tok ss (fun sl => sl.tok.map Tok.logout) id]
  cases findSlot ss id <;> simp

theorem pinsKept_finalize (s : State) : PinsKept s (stepFinalize s).1 := by
  unfold stepFinalize
  split
  · exact PinsKept.refl _
  · intro id
    simp only [pinOf, findTok_map_logout, Option.map_map]
    cases findTok s.slots id <;> simp [Tok.logout]

/-- `C_GetSlotList` may add the next free slot: no token appears or changes -/
theorem findTok_ensureFreeSlot (ss : List Slot) (id : Nat) : findTok (ensureFreeSlot ss) id = findTok ss id := by
  unfold ensureFreeSlot
  split
  · rfl
  · dsimp only
    split
    · rfl
    · unfold findTok findSlot
      rw [List.find?_append]
      cases h : List.find? (fun x => x.id == id) ss with
      | some x => simp
      | none =>
        simp only [Option.none_or, Option.bind_none]
        simp only [List.find?_cons]
        split <;> simp

theorem pinsKept_slots (s : State) : PinsKept s (stepSlots s).1 := by
  intro id
  simp only [stepSlots, pinOf, findTok_ensureFreeSlot]

macro "pins_leaf" : tactic =>
  `(tactic| first
      | exact PinsKept.refl _
      | exact pinsKept_same rfl
      | exact pinsKept_logoutSlot _ rfl
      | exact pinsKept_logoutIf _ _ rfl
      | exact pinsKept_setTok _ _ _ rfl (by assumption) (by rfl) (by rfl))

/-- the calls that can change a PIN -/
def Call.isPinCall : Call → Bool
  | .initToken .. | .initPin .. | .setPin .. | .initLib => true
  | _ => false

theorem addObject_slots (s : State) (slot h : Nat) (t p : Bool) (a : Attrs) : (addObject s slot h t p a).1.slots = s.slots := rfl

theorem pinsKept_step (s : State) (c : Call) (hc : c.isPinCall = false) : PinsKept s (step s c).1 := by
  cases c <;> simp only [step, guardInit] <;> simp only [Call.isPinCall] at hc
  all_goals first | contradiction | skip
  case finiLib => exact pinsKept_finalize s
  all_goals (split; · exact PinsKept.refl _)
  case slots => exact pinsKept_slots s
  case openSession => unfold stepOpenSession; step_cases <;> pins_leaf
  case closeSession => unfold stepCloseSession; step_cases <;> pins_leaf
  case closeAll => unfold stepCloseAll; step_cases <;> pins_leaf
  case sessInfo => unfold stepSessInfo; step_cases <;> pins_leaf
  case login => unfold stepLogin; step_cases <;> pins_leaf
  case logout => unfold stepLogout; step_cases <;> pins_leaf
  case create => unfold stepCreate; step_cases <;> pins_leaf
  case getAttr => unfold stepGetAttr; step_cases <;> pins_leaf
  case setAttr => unfold stepSetAttr; step_cases <;> pins_leaf
  case copy => unfold stepCopy; step_cases <;> pins_leaf
  case objSize => unfold stepObjSize; step_cases <;> pins_leaf
  case destroy => unfold stepDestroy; step_cases <;> pins_leaf
  case objProbe => unfold stepObjProbe; step_cases <;> pins_leaf
  case findInit => unfold stepFindInit; step_cases <;> pins_leaf
  case find => unfold stepFind; step_cases <;> pins_leaf
  case findFinal => unfold stepFindFinal; step_cases <;> pins_leaf

/-! ### the rest of the machine -/

def SlotsSame (s : State) (r : State × Resp) : Prop := r.1.slots = s.slots

theorem slotsSame_ite {s : State} (c : Prop) [Decidable c] (a b : State × Resp) (ha : SlotsSame s a) (hb : SlotsSame s b) :
    SlotsSame s (if c then a else b) := by split <;> assumption

theorem slotsSame_rOnly (s : State) (rv : RV) : SlotsSame s (rOnly s rv) := rfl

theorem slotsSame_genKeyFinish (s : State) (ss : Sess) (h mech : Nat) (tpl : Template) (t : Tok) (cls kt dkt : Nat) (a b : Bool) (kl : Nat) :
    SlotsSame s (genKeyFinish s ss h mech tpl t cls kt dkt a b kl) := by
  unfold genKeyFinish SlotsSame; step_cases <;> rfl

theorem slotsSame_genPairFinish (s : State) (ss : Sess) (h mech : Nat) (p v : Template) (t : Tok) (dkt : Nat) (a b c d : Bool) :
    SlotsSame s (genPairFinish s ss h mech p v t dkt a b c d) := by
  unfold genPairFinish SlotsSame
  extract_lets skip pubTpl privTpl
  generalize findClass CKO.PUBLIC_KEY dkt 0 = fc1
  generalize findClass CKO.PRIVATE_KEY dkt 0 = fc2
  cases fc1 with
  | none => rfl
  | some cd1 =>
    cases fc2 with
    | none => rfl
    | some cd2 =>
      dsimp only
      generalize saveTemplate cd1 (initAttrs cd1) pubTpl OP.GENERATE b t.soIn CKR.OK = r1
      cases r1 with
      | error e => rfl
      | ok pa =>
        dsimp only
        generalize saveTemplate cd2 (initAttrs cd2) privTpl OP.GENERATE d t.soIn CKR.OK = r2
        cases r2 with
        | error e => rfl
        | ok va => rfl

theorem slotsSame_genKey (s : State) (h m : Nat) (t : Template) (o : RV) : SlotsSame s (stepGenKey s h m t o) := by
  unfold stepGenKey
  repeat' (first | exact slotsSame_rOnly _ _ | exact slotsSame_genKeyFinish .. | apply slotsSame_ite | split | extract_lets)

theorem slotsSame_genPair (s : State) (h m : Nat) (p v : Template) (o : RV) : SlotsSame s (stepGenPair s h m p v o) := by
  unfold stepGenPair
  repeat' (first | exact slotsSame_rOnly _ _ | exact slotsSame_genPairFinish .. | apply slotsSame_ite | split | extract_lets)

theorem Adds.slots {s : State} {r : State × Resp} (h : Adds s r) : r.1.slots = s.slots := by
  rcases h with h | ⟨slot, hh, t, p, a, h⟩
  · exact h.2.2
  · rw [h]; rfl

theorem pinsKept_stepOp (s : State) (c : OpCall) : PinsKept s (stepOp s c).1 := by
  cases c <;> simp only [stepOp]
  case cfgMechs => exact pinsKept_same rfl
  all_goals (split; · exact PinsKept.refl _)
  case mechList => split <;> exact PinsKept.refl _
  case opInit => exact pinsKept_same (onlyHandles_opInit ..).2.2.1
  case digestInit => exact pinsKept_same (onlyHandles_digestInit ..).2.2.1
  case crypt => exact pinsKept_same (onlyHandles_crypt ..).2.2.1
  case cryptUpdate => exact pinsKept_same (onlyHandles_cryptUpdate ..).2.2.1
  case cryptFinal => exact pinsKept_same (onlyHandles_cryptFinal ..).2.2.1
  case sign => exact pinsKept_same (onlyHandles_signLike ..).2.2.1
  case digest => exact pinsKept_same (onlyHandles_signLike ..).2.2.1
  case update => exact pinsKept_same (onlyHandles_updateLike ..).2.2.1
  case digestKey => exact pinsKept_same (onlyHandles_digestKey ..).2.2.1
  case signFinal => exact pinsKept_same (onlyHandles_finalLike ..).2.2.1
  case digestFinal => exact pinsKept_same (onlyHandles_finalLike ..).2.2.1
  case verify => exact pinsKept_same (onlyHandles_verify ..).2.2.1
  case verifyFinal => exact pinsKept_same (onlyHandles_verify ..).2.2.1
  case genKey => exact pinsKept_same (slotsSame_genKey ..)
  case genPair => exact pinsKept_same (slotsSame_genPair ..)
  case wrap => exact pinsKept_same (by rw [adds_wrap])
  case unwrap => exact pinsKept_same (adds_unwrap ..).slots
  case derive => exact pinsKept_same (adds_derive ..).slots

theorem pinsKept_restart (s : State) : PinsKept s (stepRestart s).1 := by
  have := pinsKept_finalize { s with initialised := true }
  intro id
  have h := this id
  simpa [stepRestart] using h

def AnyCall.isPinCall : AnyCall → Bool
  | .core c => c.isPinCall
  | _ => false

/-- **frame**: within one library instance, only C_InitToken, C_InitPIN and C_SetPIN can change any PIN of any token -/
theorem pinsKept_stepAny (s : State) (c : AnyCall) (hc : c.isPinCall = false) : PinsKept s (stepAny s c).1 := by
  cases c with
  | core c => exact pinsKept_step s c hc
  | op c => exact pinsKept_stepOp s c
  | restart => exact pinsKept_restart s

end Shm
