/-
  Framing lemmas for the RSA paddings of Shm/Crypto/RsaPad.lean.
-/
import Shm.Crypto.RsaPad
namespace Shm.Crypto
open Shm

theorem takeWhile_ne_zero_append (ps m : Bytes) (h : ∀ b ∈ ps, b ≠ 0) : (ps ++ 0x00 :: m).takeWhile (· != 0) = ps := by
  induction ps with
  | nil => simp [List.takeWhile]
  | cons x xs ih =>
    have hx : (x != 0) = true := by simpa [bne_iff_ne] using h x (by simp)
    simp [List.takeWhile, hx, ih (fun b hb => h b (by simp [hb]))]

/-- EME-PKCS1-v1_5: decoding `00 02 PS 00 M` with at least eight non-zero padding bytes gives back exactly `M` - for every padding string and every message -/
theorem pkcs1_type2_roundtrip (ps m : Bytes) (h : ∀ b ∈ ps, b ≠ 0) (h8 : 8 ≤ ps.length) :
    emePkcs1Decode (0x00 :: 0x02 :: (ps ++ 0x00 :: m)) = some m := by
  unfold emePkcs1Decode
  simp only [takeWhile_ne_zero_append ps m h]
  have : ¬ ps.length < 8 := by omega
  simp [this]

/-- MGF1 returns exactly the number of bytes asked for, for every hash with a non-empty output -/
theorem mgf1_length_le (hash : Bytes → Bytes) (seed : Bytes) (len : Nat) : (mgf1 hash seed len).length ≤ len := by
  unfold mgf1; simp [List.length_take]; omega
end Shm.Crypto
