/-
  Framing lemmas for the RSA paddings of Shm/Crypto/RsaPad.lean.
-/
import Shm.Crypto.RsaPad
namespace Shm.Crypto
open Shm

theorem takeWhile_ne_zero_append (ps m : Bytes) (h : ∀ b ∈ ps, b ≠ 0) : (ps ++ 0x00 :: m).takeWhile (· != 0) = ps := by
  induction ps with
  | nil => simp [List.takeWhile]
  | cons x xs ih =>
    have hx : (x != 0) = true := by simpa [bne_iff_ne] using h x (by simp)
    simp [List.takeWhile, hx, ih (fun b hb => h b (by simp [hb]))]

/-- EME-PKCS1-v1_5: decoding `00 02 PS 00 M` with at least eight non-zero padding bytes gives back exactly `M` - for every padding string and every message -/
theorem pkcs1_type2_roundtrip (ps m : Bytes) (h : ∀ b ∈ ps, b ≠ 0) (h8 : 8 ≤ ps.length) :
    emePkcs1Decode (0x00 :: 0x02 :: (ps ++ 0x00 :: m)) = some m := by
  unfold emePkcs1Decode
  simp only [takeWhile_ne_zero_append ps m h]
  have : ¬ ps.length < 8 := by omega
  simp [this]

/-- MGF1 returns exactly the number of bytes asked for, for every hash with a non-empty output -/
theorem mgf1_length_le (hash : Bytes → Bytes) (seed : Bytes) (len : Nat) : (mgf1 hash seed len).length ≤ len := by
  unfold mgf1; simp [List.length_take]; omega
theorem flatMap_const_length {α : Type} (l : List α) (f : α → Bytes) (c : Nat) (h : ∀ x, (f x).length = c) : (l.flatMap f).length = l.length * c := by
  induction l with
  | nil => simp
  | cons x xs ih => simp [List.flatMap_cons, h x, ih, Nat.succ_mul, Nat.add_comm]

/-- MGF1 over a hash with a fixed, non-empty output length returns exactly the number of bytes asked for -/
theorem mgf1_length (hash : Bytes → Bytes) (hLen : Nat) (h0 : 0 < hLen) (hh : ∀ x, (hash x).length = hLen) (seed : Bytes) (len : Nat) :
    (mgf1 hash seed len).length = len := by
  unfold mgf1
  have hne : (hLen == 0) = false := by simpa using (Nat.pos_iff_ne_zero.mp h0)
  simp only [hh, hne, Bool.false_eq_true, if_false]
  rw [List.length_take, flatMap_const_length _ _ hLen (fun c => hh _), List.length_range]
  have : len ≤ (len + hLen - 1) / hLen * hLen := by
    have h1 := Nat.div_add_mod (len + hLen - 1) hLen
    have h2 := Nat.mod_lt (len + hLen - 1) h0
    rw [Nat.mul_comm] at h1
    omega
  omega

theorem xorBytes_length (a b : Bytes) : (xorBytes a b).length = min a.length b.length := by simp [xorBytes]

theorem xorBytes_involution (a b : Bytes) (h : a.length = b.length) : xorBytes (xorBytes a b) b = a := by
  induction a generalizing b with
  | nil => simp [xorBytes]
  | cons x xs ih =>
    cases b with
    | nil => simp at h
    | cons y ys =>
      simp only [xorBytes, List.zipWith_cons_cons, List.cons.injEq]
      refine ⟨?_, ih ys (by simpa using h)⟩
      rw [UInt8.xor_assoc, UInt8.xor_self, UInt8.xor_zero]

theorem dropWhile_zeros (n : Nat) (r : Bytes) : (List.replicate n (0 : UInt8) ++ 0x01 :: r).dropWhile (· == 0) = 0x01 :: r := by
  induction n with
  | zero => simp [List.dropWhile]
  | succ n ih => simp [List.replicate_succ, List.dropWhile, ih]

/-- **EME-OAEP round trip**: what the encoder makes of a message (any seed of hash length, any mask generation function that returns the number of bytes asked for) is decoded to exactly
    that message - for every message that fits -/
theorem oaep_roundtrip (hash mgfHash : Bytes → Bytes) (m seed : Bytes) (k : Nat)
    (hmgf : ∀ s n, (mgf1 mgfHash s n).length = n) (hseed : seed.length = (hash []).length) (hfit : m.length + 2 * (hash []).length + 2 ≤ k) :
    emeOaepDecode hash mgfHash (emeOaepEncode hash mgfHash m seed k) = some m := by
  generalize hh : (hash []).length = hLen at *
  have hdb : (hash [] ++ List.replicate (k - m.length - 2 * hLen - 2) 0 ++ [0x01] ++ m).length = k - hLen - 1 := by
    simp [hh]; omega
  unfold emeOaepEncode
  simp only [hh]
  generalize hdbdef : hash [] ++ List.replicate (k - m.length - 2 * hLen - 2) 0 ++ [0x01] ++ m = db at *
  have hmdb : (xorBytes db (mgf1 mgfHash seed (k - hLen - 1))).length = k - hLen - 1 := by rw [xorBytes_length, hmgf, hdb]; simp
  generalize hmd : xorBytes db (mgf1 mgfHash seed (k - hLen - 1)) = maskedDB at *
  have hms : (xorBytes seed (mgf1 mgfHash maskedDB hLen)).length = hLen := by rw [xorBytes_length, hmgf, hseed]; simp
  generalize hmsd : xorBytes seed (mgf1 mgfHash maskedDB hLen) = maskedSeed at *
  unfold emeOaepDecode
  simp only [hh]
  have hlen : (0x00 :: maskedSeed ++ maskedDB).length = k := by simp [hms, hmdb]; omega
  have hk : ¬ k < 2 * hLen + 2 := by omega
  simp only [List.cons_append, List.length_cons, List.length_append, hms, hmdb]
  have hk' : ¬ (hLen + (k - hLen - 1) + 1 < 2 * hLen + 2) := by omega
  simp only [hk', if_false, List.headD_cons, List.drop_succ_cons, List.drop_zero]
  have htake : (maskedSeed ++ maskedDB).take hLen = maskedSeed := by rw [List.take_append_of_le_length (by omega)]; rw [List.take_of_length_le (by omega)]
  have hdrop : (maskedSeed ++ maskedDB).drop hLen = maskedDB := by rw [List.drop_append_of_le_length (by omega)]; rw [List.drop_of_length_le (by omega)]; simp
  have hdrop1 : (0x00 :: (maskedSeed ++ maskedDB)).drop (1 + hLen) = maskedDB := by rw [Nat.add_comm]; simpa using hdrop
  rw [htake, hdrop1]
  have hseed' : xorBytes maskedSeed (mgf1 mgfHash maskedDB hLen) = seed := by
    rw [← hmsd]; exact xorBytes_involution _ _ (by rw [hmgf, hseed])
  rw [hseed']
  have hklen : hLen + (k - hLen - 1) + 1 - hLen - 1 = k - hLen - 1 := by omega
  rw [hklen]
  have hdb' : xorBytes maskedDB (mgf1 mgfHash seed (k - hLen - 1)) = db := by
    rw [← hmd]; exact xorBytes_involution _ _ (by rw [hmgf, hdb])
  rw [hdb', ← hdbdef]
  have ht : (hash [] ++ List.replicate (k - m.length - 2 * hLen - 2) 0 ++ [0x01] ++ m).take hLen = hash [] := by
    rw [List.append_assoc, List.append_assoc, List.take_append_of_le_length (by omega), List.take_of_length_le (by omega)]
  have hd : (hash [] ++ List.replicate (k - m.length - 2 * hLen - 2) 0 ++ [0x01] ++ m).drop hLen = List.replicate (k - m.length - 2 * hLen - 2) 0 ++ 0x01 :: m := by
    rw [List.append_assoc, List.append_assoc, List.drop_append_of_le_length (by omega), List.drop_of_length_le (by omega)]; simp
  rw [ht, hd, dropWhile_zeros]
  simp

/-! ### EMSA-PSS: what the encoder makes, the verifier accepts -/

theorem u8_and_not (x t : UInt8) : (x &&& t) &&& (~~~ t) = 0 := by
  apply UInt8.eq_of_toBitVec_eq
  simp only [UInt8.toBitVec_and, UInt8.toBitVec_not, UInt8.toBitVec_zero]
  ext i hi
  simp
theorem u8_mask_roundtrip (d m t : UInt8) : (((d ^^^ m) &&& t) ^^^ m) &&& t = d &&& t := by
  apply UInt8.eq_of_toBitVec_eq
  simp only [UInt8.toBitVec_and, UInt8.toBitVec_xor]
  ext i hi
  simp only [BitVec.getElem_and, BitVec.getElem_xor]
  cases d.toBitVec[i] <;> cases m.toBitVec[i] <;> cases t.toBitVec[i] <;> rfl
theorem topmask_odd (z : Nat) (hz : z ≤ 7) : (0x01 : UInt8) &&& UInt8.ofNat (0xFF >>> z) = 0x01 := by
  have : z = 0 ∨ z = 1 ∨ z = 2 ∨ z = 3 ∨ z = 4 ∨ z = 5 ∨ z = 6 ∨ z = 7 := by omega
  rcases this with h | h | h | h | h | h | h | h <;> subst h <;> decide

/-- the first byte of `PS ‖ 01 ‖ salt` survives the clearing of the leftmost bits -/
theorem db_head_mask (psLen : Nat) (salt : Bytes) (t : UInt8) (ht : (0x01 : UInt8) &&& t = 0x01) :
    ∃ d0 dr, List.replicate psLen (0 : UInt8) ++ 0x01 :: salt = d0 :: dr ∧ d0 &&& t = d0 := by
  cases psLen with
  | zero => exact ⟨0x01, salt, by simp, ht⟩
  | succ n => exact ⟨0, List.replicate n 0 ++ 0x01 :: salt, by simp [List.replicate_succ], by simp⟩

/-- **EMSA-PSS round trip** -/
theorem pss_roundtrip (hash mgfHash : Bytes → Bytes) (mHash salt : Bytes) (emBits hLen : Nat)
    (hh : ∀ x, (hash x).length = hLen) (hmgf : ∀ s n, (mgf1 mgfHash s n).length = n)
    (hm : mHash.length = hLen) (hfit : hLen + salt.length + 2 ≤ (emBits + 7) / 8) :
    emsaPssVerify hash mgfHash mHash (emsaPssEncode hash mgfHash mHash salt emBits) emBits salt.length = true := by
  generalize hemLen : (emBits + 7) / 8 = emLen at *
  have hz : 8 * emLen - emBits ≤ 7 := by omega
  generalize htm : UInt8.ofNat (0xFF >>> (8 * emLen - emBits)) = t
  have ht : (0x01 : UInt8) &&& t = 0x01 := by rw [← htm]; exact topmask_odd _ hz
  generalize hps : emLen - hLen - salt.length - 2 = psLen
  obtain ⟨d0, dr, hdb, hd0⟩ := db_head_mask psLen salt t ht
  have hdblen : (List.replicate psLen (0 : UInt8) ++ 0x01 :: salt).length = emLen - hLen - 1 := by simp; omega
  generalize hhd : hash (List.replicate 8 0 ++ mHash ++ salt) = h
  have hhl : h.length = hLen := by rw [← hhd]; exact hh _
  have hmasklen := hmgf h (emLen - hLen - 1)
  generalize hmk : mgf1 mgfHash h (emLen - hLen - 1) = mask at *
  -- the mask has a head too
  have hdrl : dr.length + 1 = emLen - hLen - 1 := by rw [hdb] at hdblen; simpa using hdblen
  obtain ⟨m0, mr, hmask⟩ : ∃ m0 mr, mask = m0 :: mr := by
    cases mask with
    | nil => simp at hmasklen; omega
    | cons a b => exact ⟨a, b, rfl⟩
  have hmrl : mr.length = dr.length := by rw [hmask] at hmasklen; simp at hmasklen; omega
  have hxr : (xorBytes dr mr).length = dr.length := by rw [xorBytes_length, hmrl]; simp
  -- the encoded message
  have henc : emsaPssEncode hash mgfHash mHash salt emBits = ((d0 ^^^ m0) &&& t) :: xorBytes dr mr ++ h ++ [0xbc] := by
    unfold emsaPssEncode
    simp only [hh, hemLen, hps, hhd, hmk, htm, hdb, hmask, xorBytes, List.zipWith_cons_cons]
  rw [henc]
  unfold emsaPssVerify
  simp only [hh, hemLen, htm]
  have hlen : (((d0 ^^^ m0) &&& t) :: xorBytes dr mr ++ h ++ [0xbc]).length = emLen := by
    simp [hxr, hhl]; omega
  have hlast : (((d0 ^^^ m0) &&& t) :: xorBytes dr mr ++ h ++ [0xbc]).getLast? = some 0xbc := by
    rw [List.getLast?_append]; simp
  have htake : (((d0 ^^^ m0) &&& t) :: xorBytes dr mr ++ h ++ [0xbc]).take (emLen - hLen - 1) = ((d0 ^^^ m0) &&& t) :: xorBytes dr mr := by
    rw [List.append_assoc, List.take_append_of_le_length (by simp [hxr]; omega), List.take_of_length_le (by simp [hxr]; omega)]
  have hdrop : ((((d0 ^^^ m0) &&& t) :: xorBytes dr mr ++ h ++ [0xbc]).drop (emLen - hLen - 1)).take hLen = h := by
    rw [List.append_assoc, List.drop_append_of_le_length (by simp [hxr]; omega), List.drop_of_length_le (by simp [hxr]; omega)]
    simp [hhl]
  rw [hlen, hlast, htake, hdrop, hmk, hmask]
  have h1 : ¬ emLen < hLen + salt.length + 2 := by omega
  have hinv : xorBytes (xorBytes dr mr) mr = dr := xorBytes_involution dr mr hmrl.symm
  simp only [hm, bne_self_eq_false, Bool.or_self, Bool.false_eq_true, if_false, h1, List.headD_cons, u8_and_not, xorBytes, List.zipWith_cons_cons]
  have hinv' : List.zipWith (fun x1 x2 => x1 ^^^ x2) (List.zipWith (fun x1 x2 => x1 ^^^ x2) dr mr) mr = dr := hinv
  simp only [hinv', u8_mask_roundtrip, hd0, hps]
  simp only [← hdb]
  have hz' : ((List.replicate psLen (0 : UInt8) ++ 0x01 :: salt).take psLen).any (· != 0) = false := by
    rw [List.take_append_of_le_length (by simp), List.take_of_length_le (by simp)]; simp
  have hone : (List.replicate psLen (0 : UInt8) ++ 0x01 :: salt).getD psLen 0 = 0x01 := by
    simp [List.getD, List.getElem?_append_right]
  have hsalt : (List.replicate psLen (0 : UInt8) ++ 0x01 :: salt).drop (psLen + 1) = salt := by
    rw [List.drop_append]; simp
  simp [hz', hone, hsalt]
  simpa using hhd


end Shm.Crypto
