/-
  Framing lemmas for the RSA paddings of Shm/Crypto/RsaPad.lean.
-/
import Shm.Crypto.RsaPad
namespace Shm.Crypto
open Shm

theorem takeWhile_ne_zero_append (ps m : Bytes) (h : ∀ b ∈ ps, b ≠ 0) : (ps ++ 0x00 :: m).takeWhile (· != 0) = ps := by
  induction ps with
  | nil => simp [List.takeWhile]
  | cons x xs ih =>
    have hx : (x != 0) = true := by simpa [bne_iff_ne] using h x (by simp)
    simp [List.takeWhile, hx, ih (fun b hb => h b (by simp [hb]))]

/-- EME-PKCS1-v1_5: decoding `00 02 PS 00 M` with at least eight non-zero padding bytes gives back exactly `M` - for every padding string and every message -/
theorem pkcs1_type2_roundtrip (ps m : Bytes) (h : ∀ b ∈ ps, b ≠ 0) (h8 : 8 ≤ ps.length) :
    emePkcs1Decode (0x00 :: 0x02 :: (ps ++ 0x00 :: m)) = some m := by
  unfold emePkcs1Decode
  simp only [takeWhile_ne_zero_append ps m h]
  have : ¬ ps.length < 8 := by omega
  simp [this]

/-- MGF1 returns exactly the number of bytes asked for, for every hash with a non-empty output -/
theorem mgf1_length_le (hash : Bytes → Bytes) (seed : Bytes) (len : Nat) : (mgf1 hash seed len).length ≤ len := by
  unfold mgf1; simp [List.length_take]; omega
theorem flatMap_const_length {α : Type} (l : List α) (f : α → Bytes) (c : Nat) (h : ∀ x, (f x).length = c) : (l.flatMap f).length = l.length * c := by
  induction l with
  | nil => simp
  | cons x xs ih => simp [List.flatMap_cons, h x, ih, Nat.succ_mul, Nat.add_comm]

/-- MGF1 over a hash with a fixed, non-empty output length returns exactly the number of bytes asked for -/
theorem mgf1_length (hash : Bytes → Bytes) (hLen : Nat) (h0 : 0 < hLen) (hh : ∀ x, (hash x).length = hLen) (seed : Bytes) (len : Nat) :
    (mgf1 hash seed len).length = len := by
  unfold mgf1
  have hne : (hLen == 0) = false := by simpa using (Nat.pos_iff_ne_zero.mp h0)
  simp only [hh, hne, Bool.false_eq_true, if_false]
  rw [List.length_take, flatMap_const_length _ _ hLen (fun c => hh _), List.length_range]
  have : len ≤ (len + hLen - 1) / hLen * hLen := by
    have h1 := Nat.div_add_mod (len + hLen - 1) hLen
    have h2 := Nat.mod_lt (len + hLen - 1) h0
    rw [Nat.mul_comm] at h1
    omega
  omega

theorem xorBytes_length (a b : Bytes) : (xorBytes a b).length = min a.length b.length := by simp [xorBytes]

theorem xorBytes_involution (a b : Bytes) (h : a.length = b.length) : xorBytes (xorBytes a b) b = a := by
  induction a generalizing b with
  | nil => simp [xorBytes]
  | cons x xs ih =>
    cases b with
    | nil => simp at h
    | cons y ys =>
      simp only [xorBytes, List.zipWith_cons_cons, List.cons.injEq]
      refine ⟨?_, ih ys (by simpa using h)⟩
      rw [UInt8.xor_assoc, UInt8.xor_self, UInt8.xor_zero]

theorem dropWhile_zeros (n : Nat) (r : Bytes) : (List.replicate n (0 : UInt8) ++ 0x01 :: r).dropWhile (· == 0) = 0x01 :: r := by
  induction n with
  | zero => simp [List.dropWhile]
  | succ n ih => simp [List.replicate_succ, List.dropWhile, ih]

/-- **EME-OAEP round trip**: what the encoder makes of a message (any seed of hash length, any mask generation function that returns the number of bytes asked for) is decoded to exactly
    that message - for every message that fits -/
theorem oaep_roundtrip (hash mgfHash : Bytes → Bytes) (m seed : Bytes) (k : Nat)
    (hmgf : ∀ s n, (mgf1 mgfHash s n).length = n) (hseed : seed.length = (hash []).length) (hfit : m.length + 2 * (hash []).length + 2 ≤ k) :
    emeOaepDecode hash mgfHash (emeOaepEncode hash mgfHash m seed k) = some m := by
  generalize hh : (hash []).length = hLen at *
  have hdb : (hash [] ++ List.replicate (k - m.length - 2 * hLen - 2) 0 ++ [0x01] ++ m).length = k - hLen - 1 := by
    simp [hh]; omega
  unfold emeOaepEncode
  simp only [hh]
  generalize hdbdef : hash [] ++ List.replicate (k - m.length - 2 * hLen - 2) 0 ++ [0x01] ++ m = db at *
  have hmdb : (xorBytes db (mgf1 mgfHash seed (k - hLen - 1))).length = k - hLen - 1 := by rw [xorBytes_length, hmgf, hdb]; simp
  generalize hmd : xorBytes db (mgf1 mgfHash seed (k - hLen - 1)) = maskedDB at *
  have hms : (xorBytes seed (mgf1 mgfHash maskedDB hLen)).length = hLen := by rw [xorBytes_length, hmgf, hseed]; simp
  generalize hmsd : xorBytes seed (mgf1 mgfHash maskedDB hLen) = maskedSeed at *
  unfold emeOaepDecode
  simp only [hh]
  have hlen : (0x00 :: maskedSeed ++ maskedDB).length = k := by simp [hms, hmdb]; omega
  have hk : ¬ k < 2 * hLen + 2 := by omega
  simp only [List.cons_append, List.length_cons, List.length_append, hms, hmdb]
  have hk' : ¬ (hLen + (k - hLen - 1) + 1 < 2 * hLen + 2) := by omega
  simp only [hk', if_false, List.headD_cons, List.drop_succ_cons, List.drop_zero]
  have htake : (maskedSeed ++ maskedDB).take hLen = maskedSeed := by rw [List.take_append_of_le_length (by omega)]; rw [List.take_of_length_le (by omega)]
  have hdrop : (maskedSeed ++ maskedDB).drop hLen = maskedDB := by rw [List.drop_append_of_le_length (by omega)]; rw [List.drop_of_length_le (by omega)]; simp
  have hdrop1 : (0x00 :: (maskedSeed ++ maskedDB)).drop (1 + hLen) = maskedDB := by rw [Nat.add_comm]; simpa using hdrop
  rw [htake, hdrop1]
  have hseed' : xorBytes maskedSeed (mgf1 mgfHash maskedDB hLen) = seed := by
    rw [← hmsd]; exact xorBytes_involution _ _ (by rw [hmgf, hseed])
  rw [hseed']
  have hklen : hLen + (k - hLen - 1) + 1 - hLen - 1 = k - hLen - 1 := by omega
  rw [hklen]
  have hdb' : xorBytes maskedDB (mgf1 mgfHash seed (k - hLen - 1)) = db := by
    rw [← hmd]; exact xorBytes_involution _ _ (by rw [hmgf, hdb])
  rw [hdb', ← hdbdef]
  have ht : (hash [] ++ List.replicate (k - m.length - 2 * hLen - 2) 0 ++ [0x01] ++ m).take hLen = hash [] := by
    rw [List.append_assoc, List.append_assoc, List.take_append_of_le_length (by omega), List.take_of_length_le (by omega)]
  have hd : (hash [] ++ List.replicate (k - m.length - 2 * hLen - 2) 0 ++ [0x01] ++ m).drop hLen = List.replicate (k - m.length - 2 * hLen - 2) 0 ++ 0x01 :: m := by
    rw [List.append_assoc, List.append_assoc, List.drop_append_of_le_length (by omega), List.drop_of_length_le (by omega)]; simp
  rw [ht, hd, dropWhile_zeros]
  simp

end Shm.Crypto
