/-
  Calls of DIFFERENT sessions on session-local operations commute (C18).

  Every multi-part / single-part cryptographic call and every C_*Init reads only its own session's record (plus tokens, objects, configuration, which none of them
  writes) and writes only its own session's record.  Hence two such calls on different sessions give each caller the same answer and leave the same state in either
  order: whatever the interleaving of two threads that each work in a session of their own, every thread gets the results it would get alone.
-/
import Shm.Model.Machine
import Shm.Lemmas.Get
namespace Shm

theorem getSess_setSess_ne (t : HTable) (h h1 : Nat) (x : Sess) (hne : h ≠ h1) : (t.setSess h1 x).getSess h = t.getSess h := by
  unfold HTable.getSess
  rw [get_setSess]
  have : (h == h1) = false := by simpa using hne
  cases t.get h with
  | none => rfl
  | some e => simp [updSess, this]

theorem setSess_comm (t : HTable) (h h1 : Nat) (x y : Sess) (hne : h ≠ h1) : (t.setSess h1 x).setSess h y = (t.setSess h y).setSess h1 x := by
  unfold HTable.setSess
  simp only [List.map_map]
  apply List.map_congr_left
  intro e _
  simp only [Function.comp]
  by_cases h1e : e.1 = h1 <;> by_cases h2e : e.1 = h
  · exact absurd (h2e.symm.trans h1e) hne
  · simp [h1e, Ne.symm hne]
  · simp [h2e, hne]
  · simp [h1e, h2e]

/-- the state with session `h1`'s record replaced -/
def withSess (s : State) (h1 : Nat) (x : Sess) : State := { s with handles := s.handles.setSess h1 x }

/-- `f` (a call on another session) neither reads nor writes the record of session `h1` -/
def Frame (h1 : Nat) (f : State → State × Resp) : Prop := ∀ (s : State) (x : Sess), f (withSess s h1 x) = (withSess (f s).1 h1 x, (f s).2)

theorem frame_updateLike (kind : OpKind) (h : Nat) (i : Option Nat) (oRv : RV) (h1 : Nat) (hne : h ≠ h1) :
    Frame h1 (fun s => stepUpdateLike s kind h i oRv) := by
  intro s x
  simp only [stepUpdateLike, withSess, getSess_setSess_ne _ _ _ _ hne]
  cases i with
  | none => rfl
  | some n =>
    cases hg : s.handles.getSess h with
    | none => rfl
    | some ss =>
      simp only [rOnly, resetOp, setOp]
      repeat' split
      all_goals (first | rfl | (simp only [setSess_comm _ _ _ _ _ hne]))

theorem getObjH_setSess (t : HTable) (h1 : Nat) (x : Sess) (k : Nat) : (t.setSess h1 x).getObjH k = t.getObjH k := by
  unfold HTable.getObjH
  rw [get_setSess]
  cases t.get k with
  | none => rfl
  | some e =>
    cases e with
    | sess s0 => by_cases hk : (k == h1) = true <;> simp [updSess, replSess, hk]
    | obj o => by_cases hk : (k == h1) = true <;> simp [updSess, replSess, hk]

theorem resolveObj_withSess (s : State) (h1 : Nat) (x : Sess) (k : Nat) : resolveObj (withSess s h1 x) k = resolveObj s k := by
  unfold resolveObj withSess
  simp only [getObjH_setSess]

macro "frame_tac" hne:term : tactic =>
  `(tactic| (repeat' split) <;> (first | rfl | (simp only [setSess_comm _ _ _ _ _ $hne])))

theorem frame_signLike (kind : OpKind) (h : Nat) (i cap : Option Nat) (oRv : RV) (od : Option Bytes) (h1 : Nat) (hne : h ≠ h1) :
    Frame h1 (fun s => stepSignLike s kind h i cap oRv od) := by
  intro s x
  simp only [stepSignLike, withSess, getSess_setSess_ne _ _ _ _ hne]
  cases i with
  | none => rfl
  | some n =>
    cases hg : s.handles.getSess h with
    | none => rfl
    | some ss =>
      simp only [rOnly, resetOp, setOp, lenProto, finishOp]
      repeat' split
      all_goals (first | rfl | (simp only [setSess_comm _ _ _ _ _ hne]))

theorem frame_finalLike (kind : OpKind) (h : Nat) (cap : Option Nat) (oRv : RV) (od : Option Bytes) (h1 : Nat) (hne : h ≠ h1) :
    Frame h1 (fun s => stepFinalLike s kind h cap oRv od) := by
  intro s x
  simp only [stepFinalLike, withSess, getSess_setSess_ne _ _ _ _ hne]
  cases hg : s.handles.getSess h with
  | none => rfl
  | some ss =>
    simp only [rOnly, resetOp, setOp, lenProto, finishOp]
    repeat' split
    all_goals (first | rfl | (simp only [setSess_comm _ _ _ _ _ hne]))

theorem frame_verify (single : Bool) (h : Nat) (i sl : Option Nat) (oRv : RV) (h1 : Nat) (hne : h ≠ h1) :
    Frame h1 (fun s => stepVerify s single h i sl oRv) := by
  intro s x
  simp only [stepVerify, withSess, getSess_setSess_ne _ _ _ _ hne]
  repeat' split
  all_goals (first | rfl | (simp only [rOnly, resetOp, setOp, setSess_comm _ _ _ _ _ hne]))


/-! ### frame lemmas by structure (no `split`: the functions are too large for it) -/

def Fr (h1 : Nat) (x : Sess) (a a' : State × Resp) : Prop := a = (withSess a'.1 h1 x, a'.2)

theorem fr_ite {h1 : Nat} {x : Sess} {c : Prop} [Decidable c] {a b a' b' : State × Resp} (ha : Fr h1 x a a') (hb : Fr h1 x b b') :
    Fr h1 x (if c then a else b) (if c then a' else b') := by
  unfold Fr at *; split <;> assumption

theorem fr_rOnly (h1 : Nat) (x : Sess) (s : State) (e : RV) : Fr h1 x (rOnly (withSess s h1 x) e) (rOnly s e) := rfl

theorem setOp_withSess (s : State) (h h1 : Nat) (x ss : Sess) (k : OpKind) (d : OpDetail) (hne : h ≠ h1) :
    setOp (withSess s h1 x) h ss k d = withSess (setOp s h ss k d) h1 x := by
  simp only [setOp, withSess, setSess_comm _ _ _ _ _ hne]

theorem fr_setOp {h1 : Nat} {x : Sess} (s : State) (h : Nat) (ss : Sess) (k : OpKind) (d : OpDetail) (r : Resp) (hne : h ≠ h1) :
    Fr h1 x (setOp (withSess s h1 x) h ss k d, r) (setOp s h ss k d, r) := by
  unfold Fr; rw [setOp_withSess _ _ _ _ _ _ _ hne]

theorem fr_reset {h1 : Nat} {x : Sess} (s : State) (h : Nat) (ss : Sess) (r : Resp) (hne : h ≠ h1) :
    Fr h1 x (resetOp (withSess s h1 x) h ss, r) (resetOp s h ss, r) := fr_setOp s h ss .none {} r hne

theorem fr_finish {h1 : Nat} {x : Sess} (s : State) (h : Nat) (ss : Sess) (rv : RV) (n : Nat) (od : Option Bytes) (hne : h ≠ h1) :
    Fr h1 x (finishOp (withSess s h1 x) h ss rv n od) (finishOp s h ss rv n od) := fr_reset s h ss _ hne

theorem fr_same {h1 : Nat} {x : Sess} (s : State) (r : Resp) : Fr h1 x (withSess s h1 x, r) (s, r) := rfl

theorem fr_lenProto {h1 : Nat} {x : Sess} (s : State) (h : Nat) (ss : Sess) (need : Nat) (cap : Option Nat) {p p' : State × Resp} (hp : Fr h1 x p p') :
    Fr h1 x (lenProto (withSess s h1 x) h ss need cap p) (lenProto s h ss need cap p') := by
  unfold lenProto
  cases cap with
  | none => rfl
  | some c => exact fr_ite rfl hp

macro "fr_peel" : tactic =>
  `(tactic| repeat' (first
      | exact fr_rOnly _ _ _ _
      | exact fr_reset _ _ _ _ (by assumption)
      | exact fr_finish _ _ _ _ _ _ (by assumption)
      | exact fr_setOp _ _ _ _ _ _ (by assumption)
      | exact fr_same _ _
      | apply fr_lenProto
      | apply fr_ite))

theorem withSess_getSess (s : State) (h h1 : Nat) (x : Sess) (hne : h ≠ h1) : (withSess s h1 x).handles.getSess h = s.handles.getSess h :=
  getSess_setSess_ne _ _ _ _ hne

theorem frame_crypt (enc : Bool) (h : Nat) (i cap : Option Nat) (oRv : RV) (ol : Nat) (od : Option Bytes) (h1 : Nat) (hne : h ≠ h1) :
    Frame h1 (fun s => stepCrypt s enc h i cap oRv ol od) := by
  intro s x
  show Fr h1 x (stepCrypt (withSess s h1 x) enc h i cap oRv ol od) (stepCrypt s enc h i cap oRv ol od)
  unfold stepCrypt
  rw [withSess_getSess _ _ _ _ hne]
  cases hg : s.handles.getSess h with
  | none => exact fr_rOnly _ _ _ _
  | some ss =>
    cases i with
    | none => exact fr_reset _ _ _ _ hne
    | some n =>
      dsimp only
      apply fr_ite (fr_rOnly _ _ _ _)
      cases hsym : ss.opd.sym with
      | some c => dsimp only; fr_peel
      | none => dsimp only; fr_peel

theorem frame_cryptUpdate (enc : Bool) (h : Nat) (i cap : Option Nat) (oRv : RV) (od : Option Bytes) (h1 : Nat) (hne : h ≠ h1) :
    Frame h1 (fun s => stepCryptUpdate s enc h i cap oRv od) := by
  intro s x
  show Fr h1 x (stepCryptUpdate (withSess s h1 x) enc h i cap oRv od) (stepCryptUpdate s enc h i cap oRv od)
  unfold stepCryptUpdate
  rw [withSess_getSess _ _ _ _ hne]
  cases hg : s.handles.getSess h with
  | none => exact fr_rOnly _ _ _ _
  | some ss =>
    cases i with
    | none => exact fr_reset _ _ _ _ hne
    | some n =>
      dsimp only
      apply fr_ite (fr_rOnly _ _ _ _)
      cases hsym : ss.opd.sym with
      | some c => dsimp only; fr_peel
      | none => exact fr_rOnly _ _ _ _

theorem frame_cryptFinal (enc : Bool) (h : Nat) (cap : Option Nat) (oRv : RV) (ol : Nat) (od : Option Bytes) (h1 : Nat) (hne : h ≠ h1) :
    Frame h1 (fun s => stepCryptFinal s enc h cap oRv ol od) := by
  intro s x
  show Fr h1 x (stepCryptFinal (withSess s h1 x) enc h cap oRv ol od) (stepCryptFinal s enc h cap oRv ol od)
  unfold stepCryptFinal
  rw [withSess_getSess _ _ _ _ hne]
  cases hg : s.handles.getSess h with
  | none => exact fr_rOnly _ _ _ _
  | some ss =>
    dsimp only
    apply fr_ite (fr_rOnly _ _ _ _)
    cases hsym : ss.opd.sym with
    | some c => dsimp only; fr_peel
    | none => exact fr_rOnly _ _ _ _

/-! ### the remaining session-local calls: C_*Init, C_DigestInit, C_DigestKey -/

theorem fr_startOp {h1 : Nat} {x : Sess} (s : State) (h : Nat) (ss : Sess) (k : OpKind) (late : Option RV) (d : OpDetail) (hne : h ≠ h1) :
    Fr h1 x (startOp (withSess s h1 x) h ss k late d) (startOp s h ss k late d) := by
  unfold startOp
  cases late with
  | some e => exact fr_rOnly _ _ _ _
  | none => exact fr_setOp _ _ _ _ _ _ hne

theorem initGuards_withSess (s : State) (kind : InitKind) (h mech keyH h1 : Nat) (x : Sess) (hne : h ≠ h1) :
    initGuards (withSess s h1 x) kind h mech keyH = initGuards s kind h mech keyH := by
  unfold initGuards
  rw [withSess_getSess _ _ _ _ hne]
  simp only [resolveObj_withSess]
  rfl

theorem frame_opInit (kind : InitKind) (h mech : Nat) (p : MParam) (keyH : Nat) (oRv : RV) (h1 : Nat) (hne : h ≠ h1) :
    Frame h1 (fun s => stepOpInit s kind h mech p keyH oRv) := by
  intro s x
  show Fr h1 x (stepOpInit (withSess s h1 x) kind h mech p keyH oRv) (stepOpInit s kind h mech p keyH oRv)
  unfold stepOpInit
  rw [initGuards_withSess _ _ _ _ _ _ _ hne]
  cases hg : initGuards s kind h mech keyH with
  | error rv => exact fr_rOnly _ _ _ _
  | ok r =>
    obtain ⟨ss, t, key⟩ := r
    dsimp only
    cases kind with
    | encrypt | decrypt =>
      dsimp only
      cases symMech mech with
      | some q => obtain ⟨kts, bs, mode, pad⟩ := q; dsimp only; exact fr_ite (fr_rOnly _ _ _ _) (fr_startOp _ _ _ _ _ _ hne)
      | none =>
        dsimp only
        cases asymEncMech mech with
        | some akt => dsimp only; exact fr_ite (fr_rOnly _ _ _ _) (fr_startOp _ _ _ _ _ _ hne)
        | none => exact fr_rOnly _ _ _ _
    | sign | verify =>
      dsimp only
      cases macMech mech with
      | some q => obtain ⟨kts, a, macLen⟩ := q; dsimp only; exact fr_ite (fr_rOnly _ _ _ _) (fr_startOp _ _ _ _ _ _ hne)
      | none =>
        dsimp only
        cases asymSigMech mech with
        | some q => obtain ⟨akt, multi⟩ := q; dsimp only; exact fr_ite (fr_rOnly _ _ _ _) (fr_ite (fr_rOnly _ _ _ _) (fr_startOp _ _ _ _ _ _ hne))
        | none => exact fr_rOnly _ _ _ _

theorem frame_digestInit (h mech : Nat) (oRv : RV) (h1 : Nat) (hne : h ≠ h1) : Frame h1 (fun s => stepDigestInit s h mech oRv) := by
  intro s x
  show Fr h1 x (stepDigestInit (withSess s h1 x) h mech oRv) (stepDigestInit s h mech oRv)
  unfold stepDigestInit
  rw [withSess_getSess _ _ _ _ hne]
  cases hg : s.handles.getSess h with
  | none => exact fr_rOnly _ _ _ _
  | some ss =>
    dsimp only
    apply fr_ite (fr_rOnly _ _ _ _)
    apply fr_ite (fr_rOnly _ _ _ _)
    cases digestMech mech with
    | none => exact fr_rOnly _ _ _ _
    | some len => dsimp only; exact fr_ite (fr_rOnly _ _ _ _) (fr_setOp _ _ _ _ _ _ hne)

theorem frame_digestKey (h keyH : Nat) (oRv : RV) (h1 : Nat) (hne : h ≠ h1) : Frame h1 (fun s => stepDigestKey s h keyH oRv) := by
  intro s x
  show Fr h1 x (stepDigestKey (withSess s h1 x) h keyH oRv) (stepDigestKey s h keyH oRv)
  unfold stepDigestKey
  rw [withSess_getSess _ _ _ _ hne]
  simp only [resolveObj_withSess]
  cases hg : s.handles.getSess h with
  | none => exact fr_rOnly _ _ _ _
  | some ss =>
    dsimp only
    apply fr_ite (fr_rOnly _ _ _ _)
    show Fr h1 x (match findTok s.slots ss.slot with | none => _ | some t => _) _
    cases findTok s.slots ss.slot with
    | none => exact fr_rOnly _ _ _ _
    | some t =>
      dsimp only
      cases resolveObj s keyH with
      | none => exact fr_rOnly _ _ _ _
      | some r => obtain ⟨e, key⟩ := r; dsimp only; fr_peel


/-! ### write locality: these calls change at most their own session's record -/

def Lc (h : Nat) (s : State) (a : State × Resp) : Prop := a.1 = s ∨ ∃ y, a.1 = withSess s h y

theorem lc_ite {h : Nat} {s : State} {c : Prop} [Decidable c] {a b : State × Resp} (ha : Lc h s a) (hb : Lc h s b) : Lc h s (if c then a else b) := by
  split <;> assumption
theorem lc_rOnly (h : Nat) (s : State) (e : RV) : Lc h s (rOnly s e) := Or.inl rfl
theorem lc_same (h : Nat) (s : State) (r : Resp) : Lc h s (s, r) := Or.inl rfl
theorem lc_setOp (h : Nat) (s : State) (ss : Sess) (k : OpKind) (d : OpDetail) (r : Resp) : Lc h s (setOp s h ss k d, r) := Or.inr ⟨_, rfl⟩
theorem lc_reset (h : Nat) (s : State) (ss : Sess) (r : Resp) : Lc h s (resetOp s h ss, r) := Or.inr ⟨_, rfl⟩
theorem lc_finish (h : Nat) (s : State) (ss : Sess) (rv : RV) (n : Nat) (od : Option Bytes) : Lc h s (finishOp s h ss rv n od) := Or.inr ⟨_, rfl⟩
theorem lc_lenProto {h : Nat} {s : State} (ss : Sess) (need : Nat) (cap : Option Nat) {p : State × Resp} (hp : Lc h s p) : Lc h s (lenProto s h ss need cap p) := by
  unfold lenProto
  cases cap with
  | none => exact Or.inl rfl
  | some c => exact lc_ite (Or.inl rfl) hp
theorem lc_startOp (h : Nat) (s : State) (ss : Sess) (k : OpKind) (late : Option RV) (d : OpDetail) : Lc h s (startOp s h ss k late d) := by
  unfold startOp
  cases late with
  | some e => exact lc_rOnly _ _ _
  | none => exact lc_setOp _ _ _ _ _ _

macro "lc_peel" : tactic =>
  `(tactic| repeat' (first
      | exact lc_rOnly _ _ _
      | exact lc_reset _ _ _ _
      | exact lc_finish _ _ _ _ _ _
      | exact lc_setOp _ _ _ _ _ _
      | exact lc_same _ _ _
      | exact lc_startOp _ _ _ _ _ _
      | apply lc_lenProto
      | apply lc_ite))

theorem loc_crypt (s : State) (enc : Bool) (h : Nat) (i cap : Option Nat) (oRv : RV) (ol : Nat) (od : Option Bytes) : Lc h s (stepCrypt s enc h i cap oRv ol od) := by
  unfold stepCrypt
  cases hg : s.handles.getSess h with
  | none => exact lc_rOnly _ _ _
  | some ss =>
    cases i with
    | none => exact lc_reset _ _ _ _
    | some n =>
      dsimp only
      apply lc_ite (lc_rOnly _ _ _)
      cases hsym : ss.opd.sym with
      | some c => dsimp only; lc_peel
      | none => dsimp only; lc_peel

theorem loc_cryptUpdate (s : State) (enc : Bool) (h : Nat) (i cap : Option Nat) (oRv : RV) (od : Option Bytes) : Lc h s (stepCryptUpdate s enc h i cap oRv od) := by
  unfold stepCryptUpdate
  cases hg : s.handles.getSess h with
  | none => exact lc_rOnly _ _ _
  | some ss =>
    cases i with
    | none => exact lc_reset _ _ _ _
    | some n =>
      dsimp only
      apply lc_ite (lc_rOnly _ _ _)
      cases hsym : ss.opd.sym with
      | some c => dsimp only; lc_peel
      | none => exact lc_rOnly _ _ _

theorem loc_cryptFinal (s : State) (enc : Bool) (h : Nat) (cap : Option Nat) (oRv : RV) (ol : Nat) (od : Option Bytes) : Lc h s (stepCryptFinal s enc h cap oRv ol od) := by
  unfold stepCryptFinal
  cases hg : s.handles.getSess h with
  | none => exact lc_rOnly _ _ _
  | some ss =>
    dsimp only
    apply lc_ite (lc_rOnly _ _ _)
    cases hsym : ss.opd.sym with
    | some c => dsimp only; lc_peel
    | none => exact lc_rOnly _ _ _

theorem loc_signLike (s : State) (kind : OpKind) (h : Nat) (i cap : Option Nat) (oRv : RV) (od : Option Bytes) : Lc h s (stepSignLike s kind h i cap oRv od) := by
  unfold stepSignLike
  cases i with
  | none => exact lc_rOnly _ _ _
  | some n =>
    dsimp only
    cases hg : s.handles.getSess h with
    | none => exact lc_rOnly _ _ _
    | some ss => dsimp only; lc_peel

theorem loc_updateLike (s : State) (kind : OpKind) (h : Nat) (i : Option Nat) (oRv : RV) : Lc h s (stepUpdateLike s kind h i oRv) := by
  unfold stepUpdateLike
  cases i with
  | none => exact lc_rOnly _ _ _
  | some n =>
    dsimp only
    cases hg : s.handles.getSess h with
    | none => exact lc_rOnly _ _ _
    | some ss => dsimp only; lc_peel

theorem loc_finalLike (s : State) (kind : OpKind) (h : Nat) (cap : Option Nat) (oRv : RV) (od : Option Bytes) : Lc h s (stepFinalLike s kind h cap oRv od) := by
  unfold stepFinalLike
  cases hg : s.handles.getSess h with
  | none => exact lc_rOnly _ _ _
  | some ss => dsimp only; lc_peel

theorem loc_verify (s : State) (single : Bool) (h : Nat) (i sl : Option Nat) (oRv : RV) : Lc h s (stepVerify s single h i sl oRv) := by
  unfold stepVerify
  cases i with
  | none => exact lc_rOnly _ _ _
  | some n =>
    cases sl with
    | none => exact lc_rOnly _ _ _
    | some l =>
      dsimp only
      cases hg : s.handles.getSess h with
      | none => exact lc_rOnly _ _ _
      | some ss => dsimp only; lc_peel

theorem loc_digestInit (s : State) (h mech : Nat) (oRv : RV) : Lc h s (stepDigestInit s h mech oRv) := by
  unfold stepDigestInit
  cases hg : s.handles.getSess h with
  | none => exact lc_rOnly _ _ _
  | some ss =>
    dsimp only
    apply lc_ite (lc_rOnly _ _ _)
    apply lc_ite (lc_rOnly _ _ _)
    cases digestMech mech with
    | none => exact lc_rOnly _ _ _
    | some len => dsimp only; lc_peel

theorem loc_digestKey (s : State) (h keyH : Nat) (oRv : RV) : Lc h s (stepDigestKey s h keyH oRv) := by
  unfold stepDigestKey
  cases hg : s.handles.getSess h with
  | none => exact lc_rOnly _ _ _
  | some ss =>
    dsimp only
    apply lc_ite (lc_rOnly _ _ _)
    cases findTok s.slots ss.slot with
    | none => exact lc_rOnly _ _ _
    | some t =>
      dsimp only
      cases resolveObj s keyH with
      | none => exact lc_rOnly _ _ _
      | some r => obtain ⟨e, key⟩ := r; dsimp only; lc_peel

theorem loc_opInit (s : State) (kind : InitKind) (h mech : Nat) (p : MParam) (keyH : Nat) (oRv : RV) : Lc h s (stepOpInit s kind h mech p keyH oRv) := by
  unfold stepOpInit
  cases hg : initGuards s kind h mech keyH with
  | error rv => exact lc_rOnly _ _ _
  | ok r =>
    obtain ⟨ss, t, key⟩ := r
    dsimp only
    cases kind with
    | encrypt | decrypt =>
      dsimp only
      cases symMech mech with
      | some q => obtain ⟨kts, bs, mode, pad⟩ := q; dsimp only; lc_peel
      | none =>
        dsimp only
        cases asymEncMech mech with
        | some akt => dsimp only; lc_peel
        | none => exact lc_rOnly _ _ _
    | sign | verify =>
      dsimp only
      cases macMech mech with
      | some q => obtain ⟨kts, a, macLen⟩ := q; dsimp only; lc_peel
      | none =>
        dsimp only
        cases asymSigMech mech with
        | some q => obtain ⟨akt, multi⟩ := q; dsimp only; lc_peel
        | none => exact lc_rOnly _ _ _


/-! ### the calls of the machine, and the commutation theorem -/

/-- the session a session-local call works in; `none` for the calls that touch shared tables (key generation, wrapping, derivation, configuration) -/
def OpCall.sess? : OpCall → Option Nat
  | .opInit _ h _ _ _ _ => some h
  | .digestInit h _ _ => some h
  | .crypt _ h _ _ _ => some h
  | .cryptUpdate _ h _ _ _ => some h
  | .cryptFinal _ h _ _ => some h
  | .sign h _ _ _ => some h
  | .digest h _ _ _ => some h
  | .update _ h _ _ => some h
  | .digestKey h _ _ => some h
  | .signFinal h _ _ => some h
  | .digestFinal h _ _ => some h
  | .verify h _ _ _ => some h
  | .verifyFinal h _ _ => some h
  | _ => none

theorem frame_stepOp (c : OpCall) (h : Nat) (hc : c.sess? = some h) (h1 : Nat) (hne : h ≠ h1) : Frame h1 (fun s => stepOp s c) := by
  intro s x
  show Fr h1 x (stepOp (withSess s h1 x) c) (stepOp s c)
  cases c <;> simp only [OpCall.sess?, Option.some.injEq, reduceCtorEq] at hc <;> subst hc <;> simp only [stepOp] <;> apply fr_ite (fr_rOnly _ _ _ _)
  · exact frame_opInit _ _ _ _ _ _ _ hne s x
  · exact frame_digestInit _ _ _ _ hne s x
  · exact frame_crypt _ _ _ _ _ _ _ _ hne s x
  · exact frame_cryptUpdate _ _ _ _ _ _ _ hne s x
  · exact frame_cryptFinal _ _ _ _ _ _ _ hne s x
  · exact frame_signLike _ _ _ _ _ _ _ hne s x
  · exact frame_signLike _ _ _ _ _ _ _ hne s x
  · exact frame_updateLike _ _ _ _ _ hne s x
  · exact frame_digestKey _ _ _ _ hne s x
  · exact frame_finalLike _ _ _ _ _ _ hne s x
  · exact frame_finalLike _ _ _ _ _ _ hne s x
  · exact frame_verify _ _ _ _ _ _ hne s x
  · exact frame_verify _ _ _ _ _ _ hne s x

theorem loc_stepOp (c : OpCall) (h : Nat) (hc : c.sess? = some h) (s : State) : Lc h s (stepOp s c) := by
  cases c <;> simp only [OpCall.sess?, Option.some.injEq, reduceCtorEq] at hc <;> subst hc <;> simp only [stepOp] <;> apply lc_ite (lc_rOnly _ _ _)
  · exact loc_opInit _ _ _ _ _ _ _
  · exact loc_digestInit _ _ _ _
  · exact loc_crypt _ _ _ _ _ _ _ _
  · exact loc_cryptUpdate _ _ _ _ _ _ _
  · exact loc_cryptFinal _ _ _ _ _ _ _
  · exact loc_signLike _ _ _ _ _ _ _
  · exact loc_signLike _ _ _ _ _ _ _
  · exact loc_updateLike _ _ _ _ _
  · exact loc_digestKey _ _ _ _
  · exact loc_finalLike _ _ _ _ _ _
  · exact loc_finalLike _ _ _ _ _ _
  · exact loc_verify _ _ _ _ _ _
  · exact loc_verify _ _ _ _ _ _

theorem withSess_comm (s : State) (h h1 : Nat) (x y : Sess) (hne : h ≠ h1) : withSess (withSess s h1 x) h y = withSess (withSess s h y) h1 x := by
  simp only [withSess, setSess_comm _ _ _ _ _ hne]

/-- two functions that each read and write only their own session's record commute, and each returns what it returns alone -/
theorem commute_frames {f g : State → State × Resp} {h h1 : Nat} (hne : h ≠ h1) (Ff : Frame h1 f) (Fg : Frame h g)
    (Lf : ∀ s, Lc h s (f s)) (Lg : ∀ s, Lc h1 s (g s)) (s : State) :
    (g (f s).1).1 = (f (g s).1).1 ∧ (g (f s).1).2 = (g s).2 ∧ (f (g s).1).2 = (f s).2 := by
  rcases Lf s with hf | ⟨y, hf⟩ <;> rcases Lg s with hg | ⟨x, hg⟩
  · have e1 : g (f s).1 = g s := by rw [hf]
    have e2 : f (g s).1 = f s := by rw [hg]
    rw [e1, e2]; exact ⟨hg.trans hf.symm, rfl, rfl⟩
  · have e1 : g (f s).1 = g s := by rw [hf]
    have e2 : f (g s).1 = (withSess (f s).1 h1 x, (f s).2) := by rw [hg]; exact Ff s x
    rw [e1, e2]
    refine ⟨?_, rfl, rfl⟩
    show (g s).1 = withSess (f s).1 h1 x
    rw [hg, hf]
  · have e1 : g (f s).1 = (withSess (g s).1 h y, (g s).2) := by rw [hf]; exact Fg s y
    have e2 : f (g s).1 = f s := by rw [hg]
    rw [e1, e2]
    refine ⟨?_, rfl, rfl⟩
    show withSess (g s).1 h y = (f s).1
    rw [hg, hf]
  · have e1 : g (f s).1 = (withSess (g s).1 h y, (g s).2) := by rw [hf]; exact Fg s y
    have e2 : f (g s).1 = (withSess (f s).1 h1 x, (f s).2) := by rw [hg]; exact Ff s x
    rw [e1, e2]
    refine ⟨?_, rfl, rfl⟩
    show withSess (g s).1 h y = withSess (f s).1 h1 x
    rw [hg, hf]
    exact withSess_comm _ _ _ _ _ hne

end Shm
