/-
  The login-state invariant and its preservation by every call.
-/
import Shm.Lemmas.Sessions
import Shm.Lemmas.Slots
namespace Shm

/-- login state of the token in slot `id` of a slot list: (SO logged in, user logged in) -/
def loginAt (ss : List Slot) (id : Nat) : Option (Bool × Bool) :=
  (findTok ss id).map fun t => (t.soIn, t.userIn)

/-- login state of the token in slot `id` -/
def loginOf (s : State) (id : Nat) : Option (Bool × Bool) := loginAt s.slots id

structure LInv (ss : List Slot) (t : HTable) : Prop where
  /-- SO and user are never logged in together -/
  excl : ∀ id, loginAt ss id ≠ some (true, true)
  /-- while the SO is logged in no read-only session exists on the slot -/
  soNoRO : ∀ id u, loginAt ss id = some (true, u) → t.haveROSession id = false
  /-- a token without sessions is in the public state -/
  noSessPublic : ∀ id l, loginAt ss id = some l → t.haveSession id = false → l = (false, false)

def LoginInv (s : State) : Prop := LInv s.slots s.handles

theorem LInv.frame {ss ss' : List Slot} {t t' : HTable} (hl : ∀ id, loginAt ss' id = loginAt ss id)
    (hs : ∀ id, t'.haveSession id = t.haveSession id)
    (hr : ∀ id, t'.haveROSession id = t.haveROSession id) (h : LInv ss t) : LInv ss' t' :=
  ⟨fun id => by rw [hl]; exact h.excl id,
   fun id u hu => by rw [hr]; exact h.soNoRO id u (by rw [← hl]; exact hu),
   fun id l hlo hse => h.noSessPublic id l (by rw [← hl]; exact hlo) (by rw [← hs]; exact hse)⟩

/-- all tokens logged out and no sessions: the invariant holds -/
theorem LInv.of_all_public {ss : List Slot}
    (hp : ∀ id l, loginAt ss id = some l → l = (false, false)) : LInv ss [] :=
  ⟨fun id hc => by have := hp id _ hc; simp at this,
   fun id _ _ => rfl,
   fun id l hl _ => hp id l hl⟩

theorem findTok_mem {ss : List Slot} {id : Nat} {t : Tok} (h : findTok ss id = some t) :
    ∃ sl ∈ ss, sl.tok = some t := by
  unfold findTok findSlot at h
  cases hf : ss.find? (·.id == id) with
  | none => simp [hf] at h
  | some sl => exact ⟨sl, List.mem_of_find?_eq_some hf, by simpa [hf] using h⟩

theorem loginAt_of_all_loggedOut {ss : List Slot}
    (h : ∀ sl ∈ ss, ∀ t, sl.tok = some t → t.soIn = false ∧ t.userIn = false) :
    ∀ id l, loginAt ss id = some l → l = (false, false) := by
  intro id l hl
  unfold loginAt at hl
  cases hf : findTok ss id with
  | none => simp [hf] at hl
  | some t =>
    obtain ⟨sl, hm, ht⟩ := findTok_mem hf
    have := h sl hm t ht
    simp [hf] at hl
    rw [← hl, this.1, this.2]

theorem loginAt_setTok (ss : List Slot) (id : Nat) (t : Tok) (id' : Nat) (hs : (findSlot ss id).isSome) :
    loginAt (setTok ss id t) id' = if id' = id then some (t.soIn, t.userIn) else loginAt ss id' := by
  unfold loginAt
  rw [findTok_setTok]
  by_cases h : id' = id
  · subst h; simp [hs]
  · simp [h]

theorem loginAt_logoutSlot (ss : List Slot) (id id' : Nat) :
    loginAt (logoutSlot ss id) id' = if id' = id then (loginAt ss id').map (fun _ => (false, false)) else loginAt ss id' := by
  unfold loginAt
  rw [findTok_logoutSlot]
  by_cases h : id' = id
  · subst h; simp [Tok.logout]; cases findTok ss id' <;> rfl
  · simp [h]

theorem getSess_mem {t : HTable} {h : Nat} {ss : Sess} (hs : t.getSess h = some ss) : (h, Ent.sess ss) ∈ t :=
  lookup_mem _ _ _ (getSess_get hs)

theorem haveSession_of_getSess {t : HTable} {h : Nat} {ss : Sess} (hs : t.getSess h = some ss) :
    t.haveSession ss.slot = true := by
  rw [haveSession_anyE, anyE_true_iff]
  exact ⟨_, getSess_mem hs, by simp [isSessOn]⟩

/-- under WF the entry stored under a key is unique -/
theorem mem_unique {t : HTable} {c : Nat} (hwf : t.WF c) {k : Nat} {e e' : Ent} (h1 : (k, e) ∈ t) (h2 : (k, e') ∈ t) :
    e = e' := by
  have hp := hwf.asc
  induction t with
  | nil => simp at h1
  | cons x xs ih =>
    rw [List.pairwise_cons] at hp
    simp only [List.mem_cons] at h1 h2
    rcases h1 with h1 | h1 <;> rcases h2 with h2 | h2
    · rw [← h1] at h2; exact (Prod.mk.inj h2).2.symm ▸ rfl
    · have := hp.1 _ h2; rw [← h1] at this; simp at this
    · have := hp.1 _ h1; rw [← h2] at this; simp at this
    · exact ih ⟨hp.2, fun e he => hwf.bound e (List.mem_cons_of_mem _ he)⟩ h1 h2 hp.2

end Shm
