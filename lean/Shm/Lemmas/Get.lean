/-
  How each handle-table operation changes `get` (lookup), under the well-formedness invariant.
-/
import Shm.Lemmas.StepInv
namespace Shm

theorem get_eraseIf {t : HTable} {c : Nat} (h : t.WF c) (p : Nat → Ent → Bool) (k : Nat) :
    (t.eraseIf p).get k = (t.get k).filter (fun e => !p k e) := by
  unfold HTable.eraseIf HTable.get
  exact lookup_filter _ k t h.asc

theorem get_append_old {t : HTable} {c : Nat} (_h : t.WF c) (e : Ent) (k : Nat) (hk : k ≤ c) :
    (t ++ [(c + 1, e)]).get k = t.get k := by
  unfold HTable.get
  rw [lookup_append_single]
  have : k ≠ c + 1 := by omega
  simp [this]

theorem get_append_new {t : HTable} {c : Nat} (h : t.WF c) (e : Ent) :
    (t ++ [(c + 1, e)]).get (c + 1) = some e := by
  unfold HTable.get
  rw [lookup_append_single, lookup_eq_none_of_gt t c (c + 1) h.bound (by omega)]
  simp

theorem get_none_of_gt {t : HTable} {c : Nat} (h : t.WF c) (k : Nat) (hk : c < k) : t.get k = none :=
  lookup_eq_none_of_gt t c k h.bound hk

/-- what `setSess h s` does to one entry -/
def updSess (h : Nat) (s : Sess) (k : Nat) (e : Ent) : Ent :=
  if k == h then replSess s e else e

theorem get_setSess (t : HTable) (h : Nat) (s : Sess) (k : Nat) :
    (t.setSess h s).get k = (t.get k).map (updSess h s k) := by
  unfold HTable.setSess HTable.get
  exact lookup_map_keep (fun e : Nat × Ent => if e.1 == h then replSess s e.2 else e.2) t k

theorem get_mintAll_old {t : HTable} {c : Nat} (h : t.WF c) (slot hs : Nat) (os : List Obj) (k : Nat) (hk : k ≤ c) :
    (mintAll t c slot hs os).get k = t.get k := by
  induction os generalizing t c with
  | nil => rfl
  | cons o rest ih =>
    simp only [mintAll]
    rw [ih (h.append _) (by omega)]
    exact get_append_old h _ k hk

end Shm
