/-
  Lemmas about the slot list: `findTok`, `setTok`, `logoutSlot`.
-/
import Shm.Model.Step
namespace Shm

theorem findSlot_map_tok (ss : List Slot) (f : Slot → Option Tok) (id : Nat) :
    findSlot (ss.map fun sl => { sl with tok := f sl }) id =
      (findSlot ss id).map (fun sl => { sl with tok := f sl }) := by
  unfold findSlot
  induction ss with
  | nil => rfl
  | cons x xs ih =>
    simp only [List.map, List.find?]
    cases h : (x.id == id) <;> simp [h, ih]

theorem setTok_eq_map (ss : List Slot) (id : Nat) (t : Tok) :
    setTok ss id t = ss.map (fun sl => { sl with tok := if sl.id == id then some t else sl.tok }) := by
  unfold setTok
  congr 1; funext sl
  cases h : (sl.id == id) <;> simp [h]

theorem logoutSlot_eq_map (ss : List Slot) (id : Nat) :
    logoutSlot ss id = ss.map (fun sl => { sl with tok := if sl.id == id then sl.tok.map Tok.logout else sl.tok }) := by
  unfold logoutSlot
  congr 1; funext sl
  cases h : (sl.id == id) <;> simp [h]

theorem findSlot_id {ss : List Slot} {id : Nat} {sl : Slot} (h : findSlot ss id = some sl) : sl.id = id := by
  unfold findSlot at h
  have := List.find?_some h
  simpa using this

theorem findTok_setTok (ss : List Slot) (id : Nat) (t : Tok) (id' : Nat) :
    findTok (setTok ss id t) id' =
      if id' = id then (if (findSlot ss id').isSome then some t else none) else findTok ss id' := by
  unfold findTok
  rw [setTok_eq_map, findSlot_map_tok]
  cases hf : findSlot ss id' with
  | none => by_cases h : id' = id <;> simp [h]
  | some sl =>
    have hid := findSlot_id hf
    by_cases h : id' = id
    · subst h; simp [hid]
    · have hne : sl.id ≠ id := by rw [hid]; exact h
      simp [h, hne]

theorem findTok_logoutSlot (ss : List Slot) (id : Nat) (id' : Nat) :
    findTok (logoutSlot ss id) id' =
      if id' = id then (findTok ss id').map Tok.logout else findTok ss id' := by
  unfold findTok
  rw [logoutSlot_eq_map, findSlot_map_tok]
  cases hf : findSlot ss id' with
  | none => by_cases h : id' = id <;> simp [h]
  | some sl =>
    have hid := findSlot_id hf
    by_cases h : id' = id
    · subst h; simp [hid]
    · have hne : sl.id ≠ id := by rw [hid]; exact h
      simp [h, hne]

theorem findTok_some_findSlot {ss : List Slot} {id : Nat} {t : Tok} (h : findTok ss id = some t) :
    (findSlot ss id).isSome := by
  unfold findTok at h
  cases hf : findSlot ss id <;> simp_all

end Shm
