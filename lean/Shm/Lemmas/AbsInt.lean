/-
  A sound abstract interpreter for the translated attribute-update programs: it tracks what is known about ONE
  boolean attribute (the "target") along every path of a program, so that statements of the form
      "no successful C_SetAttributeValue / C_CopyObject template entry can switch CKA_SENSITIVE off"
  become `decide`-able facts about the GENERATED programs, lifted to all inputs by the soundness theorem.
-/
import Shm.Model.Objects
namespace Shm

/-! ### `setA` / `getA` -/

theorem getA_setA_same (o : Attrs) (t : Nat) (v : AVal) : getA (setA o t v) t = some v := by
  induction o with
  | nil => simp [setA, getA, List.lookup]
  | cons x xs ih =>
    obtain ⟨a, b⟩ := x
    unfold setA
    by_cases h1 : t = a
    · subst h1; simp [getA, List.lookup]
    · have hne : (t == a) = false := by simp [beq_eq_false_iff_ne]; exact h1
      simp only [hne]
      by_cases h2 : t < a
      · simp [h2, getA, List.lookup]
      · simp only [h2, if_false, Bool.false_eq_true]
        simp only [getA, List.lookup, hne]
        exact ih

theorem getA_setA_other (o : Attrs) (t t' : Nat) (v : AVal) (hne : t' ≠ t) : getA (setA o t v) t' = getA o t' := by
  induction o with
  | nil =>
    have : (t' == t) = false := by simp [beq_eq_false_iff_ne]; exact hne
    simp [setA, getA, List.lookup, this]
  | cons x xs ih =>
    obtain ⟨a, b⟩ := x
    unfold setA
    by_cases h1 : t = a
    · subst h1
      have : (t' == t) = false := by simp [beq_eq_false_iff_ne]; exact hne
      simp [getA, List.lookup, this]
    · have hne1 : (t == a) = false := by simp [beq_eq_false_iff_ne]; exact h1
      simp only [hne1]
      by_cases h2 : t < a
      · have : (t' == t) = false := by simp [beq_eq_false_iff_ne]; exact hne
        simp [h2, getA, List.lookup, this]
      · simp only [h2, if_false, Bool.false_eq_true]
        by_cases h3 : t' = a
        · subst h3; simp [getA, List.lookup]
        · have hne3 : (t' == a) = false := by simp [beq_eq_false_iff_ne]; exact h3
          simp only [getA, List.lookup, hne3]
          exact ih

/-- the target attribute is present as a boolean with value `tv` -/
def Knows (o : Attrs) (T : Nat) (tv : Bool) : Prop := getA o T = some (.bool tv)

instance (o : Attrs) (T : Nat) (tv : Bool) : Decidable (Knows o T tv) := by unfold Knows; infer_instance

theorem Knows.getBoolD {o : Attrs} {T : Nat} {tv : Bool} (h : Knows o T tv) (d : Bool) : getBoolD o T d = tv := by
  unfold Shm.getBoolD; rw [h]

theorem Knows.setA_other {o : Attrs} {T : Nat} {tv : Bool} (h : Knows o T tv) (t : Nat) (v : AVal) (hne : T ≠ t) :
    Knows (setA o t v) T tv := by
  unfold Knows; rw [getA_setA_other o t T v hne]; exact h

theorem Knows.setA_same (o : Attrs) (T : Nat) (v : Bool) : Knows (setA o T (.bool v)) T v := getA_setA_same o T _

/-! ### the abstract domain -/

structure AbsCtx where
  op : Nat
  soIn : Option Bool := none
  isPrivate : Option Bool := none
  selfTy : Nat
  target : Nat
  deriving Repr

def Cons (c : AbsCtx) (e : UEnv) : Prop :=
  e.op = c.op ∧ e.selfTy = c.selfTy ∧ (∀ b, c.soIn = some b → e.soIn = b) ∧ (∀ b, c.isPrivate = some b → e.isPrivate = b)

def or3 : Option Bool → Option Bool → Option Bool
  | some true, _ => some true
  | _, some true => some true
  | some false, some false => some false
  | _, _ => none

def and3 : Option Bool → Option Bool → Option Bool
  | some false, _ => some false
  | _, some false => some false
  | some true, some true => some true
  | _, _ => none

/-- three-valued evaluation of a condition: `none` = unknown -/
def absCond (c : AbsCtx) (tv : Bool) : UCond → Option Bool
  | .f => some false
  | .objBool a _ => if a == c.target then some tv else none
  | .opIs op => some (c.op == op)
  | .soLoggedIn => c.soIn
  | .isPrivate => c.isPrivate
  | .not a => (absCond c tv a).map (!·)
  | .or a b => or3 (absCond c tv a) (absCond c tv b)
  | .and a b => and3 (absCond c tv a) (absCond c tv b)
  | _ => none

theorem absCond_sound (c : AbsCtx) (e : UEnv) (hc : Cons c e) (o : Attrs) (tv : Bool) (hk : Knows o c.target tv) :
    ∀ (cnd : UCond) (b : Bool), absCond c tv cnd = some b → evalCond e o cnd = b := by
  intro cnd
  induction cnd with
  | f => intro b h; simp [absCond] at h; simp [evalCond, h]
  | objBool a d =>
    intro b h
    simp only [absCond] at h
    split at h
    · rename_i ha
      have : a = c.target := by simpa using ha
      subst this
      simp at h; subst h
      simp [evalCond, hk.getBoolD]
    · cases h
  | opIs op => intro b h; simp [absCond] at h; simp [evalCond, hc.1, h]
  | soLoggedIn => intro b h; simp only [absCond] at h; simp [evalCond, hc.2.2.1 b h]
  | isPrivate => intro b h; simp only [absCond] at h; simp [evalCond, hc.2.2.2 b h]
  | not a ih =>
    intro b h
    simp only [absCond] at h
    cases ha : absCond c tv a with
    | none => simp [ha] at h
    | some x =>
      have hx := ih x ha
      simp [ha] at h; subst h; simp [evalCond, hx]
  | or a b iha ihb =>
    intro r h
    simp only [absCond] at h
    cases ha : absCond c tv a <;> cases hb : absCond c tv b <;> simp [ha, hb, or3] at h
    all_goals (first
      | (rename_i x y; cases x <;> cases y <;> simp [or3] at h <;> subst h <;> simp [evalCond, iha _ ha, ihb _ hb])
      | (rename_i x; cases x <;> simp [or3] at h <;> subst h <;> first | simp [evalCond, iha _ ha] | simp [evalCond, ihb _ hb]))
  | and a b iha ihb =>
    intro r h
    simp only [absCond] at h
    cases ha : absCond c tv a <;> cases hb : absCond c tv b <;> simp [ha, hb, and3] at h
    all_goals (first
      | (rename_i x y; cases x <;> cases y <;> simp [and3] at h <;> subst h <;> simp [evalCond, iha _ ha, ihb _ hb])
      | (rename_i x; cases x <;> simp [and3] at h <;> subst h <;> first | simp [evalCond, iha _ ha] | simp [evalCond, ihb _ hb]))
  | _ => intro b h; simp [absCond] at h

/-- does the action overwrite the target with a non-boolean? -/
def clobbers (c : AbsCtx) : UAct → Bool
  | .setBool _ _ => false
  | .setULongVal => c.selfTy == c.target
  | .setBytesPlain => c.selfTy == c.target

def absAct (c : AbsCtx) (tv : Bool) : UAct → Bool
  | .setBool none v => if c.selfTy == c.target then v else tv
  | .setBool (some a) v => if a == c.target then v else tv
  | _ => tv

theorem absAct_sound (c : AbsCtx) (e : UEnv) (hc : Cons c e) (o : Attrs) (tv : Bool) (hk : Knows o c.target tv)
    (a : UAct) (hcl : clobbers c a = false) : Knows (doAct e o a) c.target (absAct c tv a) := by
  cases a with
  | setBool tgt v =>
    cases tgt with
    | none =>
      simp only [doAct, absAct, hc.2.1]
      by_cases h : c.selfTy = c.target
      · simp [h]; exact Knows.setA_same o c.target v
      · have : (c.selfTy == c.target) = false := by simp [beq_eq_false_iff_ne]; exact h
        simp only [this]; exact hk.setA_other _ _ (fun hh => h hh.symm)
    | some x =>
      simp only [doAct, absAct]
      by_cases h : x = c.target
      · subst h; simp; exact Knows.setA_same o _ v
      · have : (x == c.target) = false := by simp [beq_eq_false_iff_ne]; exact h
        simp only [this]; exact hk.setA_other _ _ (fun hh => h hh.symm)
  | setULongVal =>
    simp only [clobbers] at hcl
    have : c.selfTy ≠ c.target := by simpa using hcl
    simp only [doAct, absAct, hc.2.1]
    exact hk.setA_other _ _ (fun hh => this hh.symm)
  | setBytesPlain =>
    simp only [clobbers] at hcl
    have : c.selfTy ≠ c.target := by simpa using hcl
    simp only [doAct, absAct, hc.2.1]
    exact hk.setA_other _ _ (fun hh => this hh.symm)

inductive OKind
  | done (rv : Nat)
  | call
  | base
  | fell
  | bad
  deriving DecidableEq, Repr

structure Outcome where
  kind : OKind
  tv : Bool
  deriving DecidableEq, Repr

/-- all abstract outcomes of a program started with knowledge `tv` -/
def absRun (c : AbsCtx) : UProg → Bool → List Outcome
  | .ret rv, tv => [⟨.done rv, tv⟩]
  | .callUpdateAttr, tv => [⟨.call, tv⟩]
  | .callBase, tv => [⟨.base, tv⟩]
  | .fall, tv => [⟨.fell, tv⟩]
  | .act a k, tv => if clobbers c a then [⟨.bad, tv⟩] else absRun c k (absAct c tv a)
  | .ite cnd t e k, tv =>
    let branches :=
      match absCond c tv cnd with
      | some true => absRun c t tv
      | some false => absRun c e tv
      | none => absRun c t tv ++ absRun c e tv
    (branches.filter fun o => o.kind != .fell) ++
      (if branches.any (fun o => o.kind == .fell && o.tv == true) then absRun c k true else []) ++
      (if branches.any (fun o => o.kind == .fell && o.tv == false) then absRun c k false else [])

/-- the concrete result is described by the abstract outcome -/
def Describes (T : Nat) (r : URes) (out : Outcome) : Prop :=
  match r with
  | .done rv o' => out.kind = .done rv ∧ Knows o' T out.tv
  | .call o' => out.kind = .call ∧ Knows o' T out.tv
  | .base o' => out.kind = .base ∧ Knows o' T out.tv
  | .fell o' => out.kind = .fell ∧ Knows o' T out.tv

/-- soundness: either some path is flagged `bad`, or the concrete result is described by one of the outcomes -/
theorem absRun_sound (c : AbsCtx) (e : UEnv) (hc : Cons c e) :
    ∀ (p : UProg) (tv : Bool) (o : Attrs), Knows o c.target tv →
      (∃ out ∈ absRun c p tv, out.kind = .bad) ∨ (∃ out ∈ absRun c p tv, Describes c.target (runProg e p o) out) := by
  intro p
  induction p with
  | ret rv => intro tv o hk; exact Or.inr ⟨⟨.done rv, tv⟩, by simp [absRun], by simp [runProg, Describes, hk]⟩
  | callUpdateAttr => intro tv o hk; exact Or.inr ⟨⟨.call, tv⟩, by simp [absRun], by simp [runProg, Describes, hk]⟩
  | callBase => intro tv o hk; exact Or.inr ⟨⟨.base, tv⟩, by simp [absRun], by simp [runProg, Describes, hk]⟩
  | fall => intro tv o hk; exact Or.inr ⟨⟨.fell, tv⟩, by simp [absRun], by simp [runProg, Describes, hk]⟩
  | act a k ih =>
    intro tv o hk
    simp only [absRun]
    by_cases hcl : clobbers c a = true
    · simp only [hcl, if_true]; exact Or.inl ⟨⟨.bad, tv⟩, by simp, rfl⟩
    · have hcl' : clobbers c a = false := by simpa using hcl
      simp only [hcl', Bool.false_eq_true, if_false, runProg]
      exact ih _ _ (absAct_sound c e hc o tv hk a hcl')
  | ite cnd t el k iht ihe ihk =>
    intro tv o hk
    -- the branch actually taken
    have hbranch : ∀ (bs : List Outcome),
        ((∃ out ∈ bs, out.kind = OKind.bad) ∨
         (∃ out ∈ bs, Describes c.target (if evalCond e o cnd then runProg e t o else runProg e el o) out)) →
        (∃ out ∈ (bs.filter fun o => o.kind != .fell) ++
            (if bs.any (fun o => o.kind == .fell && o.tv == true) then absRun c k true else []) ++
            (if bs.any (fun o => o.kind == .fell && o.tv == false) then absRun c k false else []), out.kind = OKind.bad) ∨
        (∃ out ∈ (bs.filter fun o => o.kind != .fell) ++
            (if bs.any (fun o => o.kind == .fell && o.tv == true) then absRun c k true else []) ++
            (if bs.any (fun o => o.kind == .fell && o.tv == false) then absRun c k false else []),
            Describes c.target (runProg e (.ite cnd t el k) o) out) := by
      intro bs hbs
      rcases hbs with ⟨out, hm, hbad⟩ | ⟨out, hm, hd⟩
      · left
        refine ⟨out, ?_, hbad⟩
        simp only [List.mem_append, List.mem_filter]
        left; left; exact ⟨hm, by simp [hbad]⟩
      · simp only [runProg]
        cases hr : (if evalCond e o cnd then runProg e t o else runProg e el o) with
        | fell o' =>
          rw [hr] at hd
          simp only [Describes] at hd
          -- continue with k under the knowledge of that outcome
          have hany : bs.any (fun x => x.kind == .fell && x.tv == out.tv) = true := by
            rw [List.any_eq_true]; exact ⟨out, hm, by simp [hd.1]⟩
          rcases ihk out.tv o' hd.2 with ⟨o2, hm2, hb2⟩ | ⟨o2, hm2, hd2⟩
          · left
            refine ⟨o2, ?_, hb2⟩
            simp only [List.mem_append]
            cases htv : out.tv
            · right; rw [htv] at hany hm2; simp only [hany, if_true]; exact hm2
            · left; right; rw [htv] at hany hm2; simp only [hany, if_true]; exact hm2
          · right
            refine ⟨o2, ?_, hd2⟩
            simp only [List.mem_append]
            cases htv : out.tv
            · right; rw [htv] at hany hm2; simp only [hany, if_true]; exact hm2
            · left; right; rw [htv] at hany hm2; simp only [hany, if_true]; exact hm2
        | done rv o' =>
          rw [hr] at hd
          right
          refine ⟨out, ?_, by simpa [Describes] using hd⟩
          simp only [List.mem_append, List.mem_filter]
          left; left; exact ⟨hm, by simp [Describes] at hd; simp [hd.1]⟩
        | call o' =>
          rw [hr] at hd
          right
          refine ⟨out, ?_, by simpa [Describes] using hd⟩
          simp only [List.mem_append, List.mem_filter]
          left; left; exact ⟨hm, by simp [Describes] at hd; simp [hd.1]⟩
        | base o' =>
          rw [hr] at hd
          right
          refine ⟨out, ?_, by simpa [Describes] using hd⟩
          simp only [List.mem_append, List.mem_filter]
          left; left; exact ⟨hm, by simp [Describes] at hd; simp [hd.1]⟩
    simp only [absRun]
    apply hbranch
    cases hcv : evalCond e o cnd
    · -- else branch taken
      simp only [Bool.false_eq_true, if_false]
      cases hac : absCond c tv cnd with
      | none =>
        rcases ihe tv o hk with ⟨out, hm, hb⟩ | ⟨out, hm, hd⟩
        · exact Or.inl ⟨out, by simp [hm], hb⟩
        · exact Or.inr ⟨out, by simp [hm], hd⟩
      | some b =>
        have := absCond_sound c e hc o tv hk cnd b hac
        rw [hcv] at this; subst this
        exact ihe tv o hk
    · simp only [if_true]
      cases hac : absCond c tv cnd with
      | none =>
        rcases iht tv o hk with ⟨out, hm, hb⟩ | ⟨out, hm, hd⟩
        · exact Or.inl ⟨out, by simp [hm], hb⟩
        · exact Or.inr ⟨out, by simp [hm], hd⟩
      | some b =>
        have := absCond_sound c e hc o tv hk cnd b hac
        rw [hcv] at this; subst this
        exact iht tv o hk

end Shm
