/-
  Object identities are unique in every reachable state (so "the object with id n" is well defined, and
  C_SetAttributeValue / C_DestroyObject touch exactly one object).
-/
import Shm.Lemmas.Kept
namespace Shm

def OidInv (s : State) : Prop := ∀ o ∈ s.objs, o.oid < s.nextOid
def OidNodup (s : State) : Prop := (s.objs.map (·.oid)).Nodup

theorem oidInv_of_evolves {s s' : State} (h : OidInv s) (e : Evolves s s') : OidInv s' := by
  intro o ho
  rcases e.2 o ho with ⟨o0, hm, he, _⟩ | ⟨_, h2⟩
  · have := h o0 hm; have := e.1; omega
  · exact h2

/-- `s'` has no duplicated identity if `s` has none (given that `s` allocates fresh ids) -/
def NodupStep (s s' : State) : Prop := OidInv s → OidNodup s → OidNodup s'

theorem nodupStep_same {s s' : State} (h : s'.objs = s.objs) : NodupStep s s' := fun _ hn => by unfold OidNodup; rw [h]; exact hn

theorem nodupStep_filter {s s' : State} (p : Obj → Bool) (h : s'.objs = s.objs.filter p) : NodupStep s s' := by
  intro _ hn
  unfold OidNodup; rw [h]
  exact List.Nodup.sublist (List.Sublist.map _ List.filter_sublist) hn

theorem updObj_oids (os : List Obj) (oid : Nat) (a : Attrs) : (updObj os oid a).map (·.oid) = os.map (·.oid) := by
  unfold updObj
  rw [List.map_map]
  apply List.map_congr_left
  intro o _
  simp only [Function.comp]
  split <;> rfl

theorem nodupStep_updObj {s s' : State} (oid : Nat) (a : Attrs) (h : s'.objs = updObj s.objs oid a) : NodupStep s s' := by
  intro _ hn
  unfold OidNodup; rw [h, updObj_oids]; exact hn

theorem nodupStep_addObject (s : State) (slot h : Nat) (t p : Bool) (a : Attrs) : NodupStep s (addObject s slot h t p a).1 := by
  intro hi hn
  unfold OidNodup
  simp only [addObject, List.map_append, List.map_cons, List.map_nil]
  refine List.nodup_append.mpr ⟨hn, by simp, ?_⟩
  intro x hx y hy
  simp at hy
  subst hy
  obtain ⟨o, ho, he⟩ := List.mem_map.mp hx
  have := hi o ho
  omega

theorem NodupStep.trans {a b c : State} (eab : Evolves a b) (h1 : NodupStep a b) (h2 : NodupStep b c) : NodupStep a c :=
  fun hi hn => h2 (oidInv_of_evolves hi eab) (h1 hi hn)

theorem nodupStep_initialize (s : State) : NodupStep s (stepInitialize s).1 := by
  intro _ hn
  unfold stepInitialize
  split
  · exact hn
  · unfold OidNodup
    have hm : ∀ (f : Obj → Obj), (∀ o, (f o).oid = o.oid) → ∀ l : List Obj, (l.map f).map (·.oid) = l.map (·.oid) := by
      intro f hf l
      rw [List.map_map]
      exact List.map_congr_left (fun o _ => hf o)
    dsimp only
    rw [hm _ (fun o => by split <;> rfl)]
    exact List.Nodup.sublist (List.Sublist.map _ List.filter_sublist) hn

macro "nd_leaf" : tactic =>
  `(tactic| first
      | exact nodupStep_same rfl
      | exact nodupStep_filter _ rfl
      | exact nodupStep_updObj _ _ rfl
      | exact nodupStep_addObject _ _ _ _ _ _)

theorem nodupStep_step (s : State) (c : Call) : NodupStep s (step s c).1 := by
  cases c <;> simp only [step, guardInit]
  case initLib => exact nodupStep_initialize s
  case finiLib => unfold stepFinalize; step_cases <;> nd_leaf
  all_goals (split; · exact nodupStep_same rfl)
  case slots => unfold stepSlots; exact nodupStep_same rfl
  case initToken => unfold stepInitToken; step_cases <;> nd_leaf
  case openSession => unfold stepOpenSession; step_cases <;> nd_leaf
  case closeSession => unfold stepCloseSession objsSessionClosed; step_cases <;> nd_leaf
  case closeAll => unfold stepCloseAll objsAllSessionsClosed; step_cases <;> nd_leaf
  case sessInfo => unfold stepSessInfo; step_cases <;> nd_leaf
  case login => unfold stepLogin; step_cases <;> nd_leaf
  case logout => unfold stepLogout objsTokenLoggedOut; step_cases <;> nd_leaf
  case initPin => unfold stepInitPin; step_cases <;> nd_leaf
  case setPin => unfold stepSetPin; step_cases <;> nd_leaf
  case create => unfold stepCreate; step_cases <;> nd_leaf
  case getAttr => unfold stepGetAttr; step_cases <;> nd_leaf
  case setAttr => unfold stepSetAttr; step_cases <;> nd_leaf
  case copy => unfold stepCopy; step_cases <;> nd_leaf
  case objSize => unfold stepObjSize; step_cases <;> nd_leaf
  case destroy => unfold stepDestroy; step_cases <;> nd_leaf
  case objProbe => unfold stepObjProbe; step_cases <;> nd_leaf
  case findInit => unfold stepFindInit; step_cases <;> nd_leaf
  case find => unfold stepFind; step_cases <;> nd_leaf
  case findFinal => unfold stepFindFinal; step_cases <;> nd_leaf

theorem nodupStep_ite {s : State} (c : Prop) [Decidable c] (a b : State × Resp) (ha : NodupStep s a.1) (hb : NodupStep s b.1) :
    NodupStep s (if c then a else b).1 := by split <;> assumption

theorem nodupStep_genKeyFinish (s : State) (ss : Sess) (h mech : Nat) (tpl : Template) (t : Tok) (cls kt dkt : Nat) (a b : Bool) (kl : Nat) :
    NodupStep s (genKeyFinish s ss h mech tpl t cls kt dkt a b kl).1 := by
  unfold genKeyFinish; step_cases <;> nd_leaf

theorem nodupStep_genPairFinish (s : State) (ss : Sess) (h mech : Nat) (p v : Template) (t : Tok) (dkt : Nat) (a b c d : Bool) :
    NodupStep s (genPairFinish s ss h mech p v t dkt a b c d).1 := by
  unfold genPairFinish
  extract_lets skip pubTpl privTpl
  generalize findClass CKO.PUBLIC_KEY dkt 0 = fc1
  generalize findClass CKO.PRIVATE_KEY dkt 0 = fc2
  cases fc1 with
  | none => exact nodupStep_same rfl
  | some cd1 =>
    cases fc2 with
    | none => exact nodupStep_same rfl
    | some cd2 =>
      dsimp only
      generalize saveTemplate cd1 (initAttrs cd1) pubTpl OP.GENERATE b t.soIn CKR.OK = r1
      cases r1 with
      | error e => exact nodupStep_same rfl
      | ok pa =>
        dsimp only
        generalize saveTemplate cd2 (initAttrs cd2) privTpl OP.GENERATE d t.soIn CKR.OK = r2
        cases r2 with
        | error e => exact nodupStep_same rfl
        | ok va =>
          dsimp only
          exact NodupStep.trans (evolves_addObject _ _ _ _ _ _) (nodupStep_addObject _ _ _ _ _ _) (nodupStep_addObject _ _ _ _ _ _)

theorem nodupStep_genKey (s : State) (h m : Nat) (t : Template) (o : RV) : NodupStep s (stepGenKey s h m t o).1 := by
  unfold stepGenKey
  repeat' (first | exact nodupStep_same rfl | exact nodupStep_genKeyFinish _ _ _ _ _ _ _ _ _ _ _ _ | apply nodupStep_ite | split | extract_lets)

theorem nodupStep_genPair (s : State) (h m : Nat) (p v : Template) (o : RV) : NodupStep s (stepGenPair s h m p v o).1 := by
  unfold stepGenPair
  repeat' (first | exact nodupStep_same rfl | exact nodupStep_genPairFinish _ _ _ _ _ _ _ _ _ _ _ _ | apply nodupStep_ite | split | extract_lets)

theorem Adds.nodup {s : State} {r : State × Resp} (h : Adds s r) : NodupStep s r.1 := by
  rcases h with h | ⟨slot, hh, t, p, a, h⟩
  · exact nodupStep_same h.1
  · rw [h]; exact nodupStep_addObject _ _ _ _ _ _

theorem nodupStep_stepOp (s : State) (c : OpCall) : NodupStep s (stepOp s c).1 := by
  cases c <;> simp only [stepOp]
  case cfgMechs => exact nodupStep_same rfl
  all_goals (split; · exact nodupStep_same rfl)
  case mechList => split <;> exact nodupStep_same rfl
  case opInit => exact nodupStep_same (onlyHandles_opInit ..).1
  case digestInit => exact nodupStep_same (onlyHandles_digestInit ..).1
  case crypt => exact nodupStep_same (onlyHandles_crypt ..).1
  case cryptUpdate => exact nodupStep_same (onlyHandles_cryptUpdate ..).1
  case cryptFinal => exact nodupStep_same (onlyHandles_cryptFinal ..).1
  case sign => exact nodupStep_same (onlyHandles_signLike ..).1
  case digest => exact nodupStep_same (onlyHandles_signLike ..).1
  case update => exact nodupStep_same (onlyHandles_updateLike ..).1
  case digestKey => exact nodupStep_same (onlyHandles_digestKey ..).1
  case signFinal => exact nodupStep_same (onlyHandles_finalLike ..).1
  case digestFinal => exact nodupStep_same (onlyHandles_finalLike ..).1
  case verify => exact nodupStep_same (onlyHandles_verify ..).1
  case verifyFinal => exact nodupStep_same (onlyHandles_verify ..).1
  case genKey => exact nodupStep_genKey _ _ _ _ _
  case genPair => exact nodupStep_genPair _ _ _ _ _ _
  case wrap => rw [adds_wrap]; exact nodupStep_same rfl
  case unwrap => exact (adds_unwrap _ _ _ _ _ _ _ _).nodup
  case derive => exact (adds_derive _ _ _ _ _ _ _).nodup

theorem nodupStep_restart (s : State) : NodupStep s (stepRestart s).1 := by
  unfold stepRestart stepFinalize
  simp only [Bool.not_true, Bool.false_eq_true, if_false]
  exact nodupStep_filter _ rfl

theorem nodupStep_stepAny (s : State) (c : AnyCall) : NodupStep s (stepAny s c).1 := by
  cases c with
  | core c => exact nodupStep_step s c
  | op c => exact nodupStep_stepOp s c
  | restart => exact nodupStep_restart s

/-- the two identity invariants hold in every reachable state -/
theorem oid_invariants (cs : List AnyCall) : ∀ s, OidInv s → OidNodup s → OidInv (runAny s cs) ∧ OidNodup (runAny s cs) := by
  induction cs with
  | nil => intro s h1 h2; exact ⟨h1, h2⟩
  | cons c cs ih =>
    intro s h1 h2
    exact ih _ (oidInv_of_evolves h1 (evolves_stepAny s c)) (nodupStep_stepAny s c h1 h2)

theorem oid_invariants_init (cs : List AnyCall) : OidInv (runAny {} cs) ∧ OidNodup (runAny {} cs) :=
  oid_invariants cs {} (fun _ h => by simp at h) (by simp [OidNodup])

theorem inj_of_nodup_map {α β : Type} (f : α → β) : ∀ (l : List α), (l.map f).Nodup → ∀ a ∈ l, ∀ b ∈ l, f a = f b → a = b := by
  intro l
  induction l with
  | nil => intro _ a ha; simp at ha
  | cons x xs ih =>
    intro hn a ha b hb he
    simp only [List.map_cons, List.nodup_cons, List.mem_map, not_exists, not_and] at hn
    rcases List.mem_cons.mp ha with ha' | ha' <;> rcases List.mem_cons.mp hb with hb' | hb'
    · rw [ha', hb']
    · rw [ha'] at he; exact absurd he.symm (hn.1 b hb')
    · rw [hb'] at he; exact absurd he (hn.1 a ha')
    · exact ih hn.2 a ha' b hb' he

/-- with unique identities, "the object with this id" is one object -/
theorem unique_of_nodup {s : State} (h : OidNodup s) {o1 o2 : Obj} (h1 : o1 ∈ s.objs) (h2 : o2 ∈ s.objs) (he : o1.oid = o2.oid) : o1 = o2 := by
  unfold OidNodup at h
  exact inj_of_nodup_map (·.oid) s.objs h o1 h1 o2 h2 he

end Shm
