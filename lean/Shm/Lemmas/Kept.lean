/-
  Attribute values are stable: no call other than C_SetAttributeValue changes the attributes of an existing object, and
  C_SetAttributeValue changes only the object it is given.
-/
import Shm.Lemmas.Evolves
namespace Shm

/-- every object of `s'` that is not new (and is not `except`) is an object of `s` with identical attributes -/
def Kept (except : Option Nat) (s s' : State) : Prop :=
  ∀ o' ∈ s'.objs, o'.oid < s.nextOid → some o'.oid ≠ except →
    ∃ o ∈ s.objs, o.oid = o'.oid ∧ o.attrs = o'.attrs ∧ o.onToken = o'.onToken ∧ o.isPriv = o'.isPriv

theorem Kept.refl (e : Option Nat) (s : State) : Kept e s s := fun o h _ _ => ⟨o, h, rfl, rfl, rfl, rfl⟩

theorem kept_same {e : Option Nat} {s s' : State} (ho : s'.objs = s.objs) : Kept e s s' :=
  fun o h _ _ => ⟨o, ho ▸ h, rfl, rfl, rfl, rfl⟩

theorem kept_filter {e : Option Nat} {s s' : State} (p : Obj → Bool) (ho : s'.objs = s.objs.filter p) : Kept e s s' :=
  fun o h _ _ => ⟨o, (List.mem_filter.mp (ho ▸ h)).1, rfl, rfl, rfl, rfl⟩

theorem kept_addObject (e : Option Nat) (s : State) (slot h : Nat) (t p : Bool) (a : Attrs) : Kept e s (addObject s slot h t p a).1 := by
  intro o ho hlt _
  simp only [addObject, List.mem_append, List.mem_singleton] at ho
  rcases ho with ho | ho
  · exact ⟨o, ho, rfl, rfl, rfl, rfl⟩
  · subst ho; simp at hlt

theorem kept_addObject2 (e : Option Nat) (s : State) (slot h : Nat) (t p : Bool) (a : Attrs) (slot' h' : Nat) (t' p' : Bool) (a' : Attrs) :
    Kept e s (addObject (addObject s slot h t p a).1 slot' h' t' p' a').1 := by
  intro o ho hlt _
  simp only [addObject, List.mem_append, List.mem_singleton] at ho
  rcases ho with (ho | ho) | ho
  · exact ⟨o, ho, rfl, rfl, rfl, rfl⟩
  · subst ho; simp at hlt
  · subst ho; simp at hlt; omega

theorem kept_updObj {s s' : State} (oid : Nat) (a : Attrs) (ho : s'.objs = updObj s.objs oid a) : Kept (some oid) s s' := by
  intro o h _ hne
  rw [ho] at h
  simp only [updObj, List.mem_map] at h
  obtain ⟨o0, hm, he⟩ := h
  split at he
  · next heq => subst he; simp at hne; simp at heq; exact absurd heq hne
  · subst he; exact ⟨o0, hm, rfl, rfl, rfl, rfl⟩

theorem kept_initialize (e : Option Nat) (s : State) : Kept e s (stepInitialize s).1 := by
  unfold stepInitialize
  split
  · exact Kept.refl _ _
  · intro o ho _ _
    simp only [List.mem_map, List.mem_filter] at ho
    obtain ⟨o0, ⟨hm, _⟩, he⟩ := ho
    refine ⟨o0, hm, ?_⟩
    split at he <;> subst he <;> simp

macro "kept_leaf" : tactic =>
  `(tactic| first
      | exact Kept.refl _ _
      | exact kept_same rfl
      | exact kept_filter _ rfl
      | exact kept_addObject _ _ _ _ _ _ _)

/-- the object a C_SetAttributeValue call may change -/
def setAttrTarget (s : State) : Call → Option Nat
  | .setAttr _ o _ _ => (resolveObj s o).map (·.2.oid)
  | _ => none

theorem kept_step (s : State) (c : Call) : Kept (setAttrTarget s c) s (step s c).1 := by
  cases c <;> simp only [step, guardInit, setAttrTarget]
  case initLib => exact kept_initialize _ s
  case finiLib => unfold stepFinalize; step_cases <;> kept_leaf
  all_goals (split; · exact Kept.refl _ _)
  case slots => unfold stepSlots; exact kept_same rfl
  case initToken => unfold stepInitToken; step_cases <;> kept_leaf
  case openSession => unfold stepOpenSession; step_cases <;> kept_leaf
  case closeSession => unfold stepCloseSession objsSessionClosed; step_cases <;> kept_leaf
  case closeAll => unfold stepCloseAll objsAllSessionsClosed; step_cases <;> kept_leaf
  case sessInfo => unfold stepSessInfo; step_cases <;> kept_leaf
  case login => unfold stepLogin; step_cases <;> kept_leaf
  case logout => unfold stepLogout objsTokenLoggedOut; step_cases <;> kept_leaf
  case initPin => unfold stepInitPin; step_cases <;> kept_leaf
  case setPin => unfold stepSetPin; step_cases <;> kept_leaf
  case create => unfold stepCreate; step_cases <;> kept_leaf
  case getAttr => unfold stepGetAttr; step_cases <;> kept_leaf
  case copy => unfold stepCopy; step_cases <;> kept_leaf
  case objSize => unfold stepObjSize; step_cases <;> kept_leaf
  case destroy => unfold stepDestroy; step_cases <;> kept_leaf
  case objProbe => unfold stepObjProbe; step_cases <;> kept_leaf
  case findInit => unfold stepFindInit; step_cases <;> kept_leaf
  case find => unfold stepFind; step_cases <;> kept_leaf
  case findFinal => unfold stepFindFinal; step_cases <;> kept_leaf
  case setAttr h o tpl oe =>
    unfold stepSetAttr
    step_cases <;> first | exact Kept.refl _ _ | skip
    all_goals
      rw [‹resolveObj s h = some _›]
      exact kept_updObj _ _ rfl

theorem kept_ite {e : Option Nat} {s : State} (c : Prop) [Decidable c] (a b : State × Resp) (ha : Kept e s a.1) (hb : Kept e s b.1) :
    Kept e s (if c then a else b).1 := by split <;> assumption

theorem kept_genKeyFinish (s : State) (ss : Sess) (h mech : Nat) (tpl : Template) (t : Tok) (cls kt dkt : Nat) (a b : Bool) (kl : Nat) :
    Kept none s (genKeyFinish s ss h mech tpl t cls kt dkt a b kl).1 := by
  unfold genKeyFinish; step_cases <;> kept_leaf

theorem kept_genPairFinish (s : State) (ss : Sess) (h mech : Nat) (p v : Template) (t : Tok) (dkt : Nat) (a b c d : Bool) :
    Kept none s (genPairFinish s ss h mech p v t dkt a b c d).1 := by
  unfold genPairFinish
  extract_lets skip pubTpl privTpl
  generalize findClass CKO.PUBLIC_KEY dkt 0 = fc1
  generalize findClass CKO.PRIVATE_KEY dkt 0 = fc2
  cases fc1 with
  | none => exact Kept.refl _ _
  | some cd1 =>
    cases fc2 with
    | none => exact Kept.refl _ _
    | some cd2 =>
      dsimp only
      generalize saveTemplate cd1 (initAttrs cd1) pubTpl OP.GENERATE b t.soIn CKR.OK = r1
      cases r1 with
      | error e => exact Kept.refl _ _
      | ok pa =>
        dsimp only
        generalize saveTemplate cd2 (initAttrs cd2) privTpl OP.GENERATE d t.soIn CKR.OK = r2
        cases r2 with
        | error e => exact Kept.refl _ _
        | ok va =>
          dsimp only
          exact kept_addObject2 _ _ _ _ _ _ _ _ _ _ _ _

theorem kept_genKey (s : State) (h m : Nat) (t : Template) (o : RV) : Kept none s (stepGenKey s h m t o).1 := by
  unfold stepGenKey
  repeat' (first | exact Kept.refl _ _ | exact kept_genKeyFinish _ _ _ _ _ _ _ _ _ _ _ _ | apply kept_ite | split | extract_lets)

theorem kept_genPair (s : State) (h m : Nat) (p v : Template) (o : RV) : Kept none s (stepGenPair s h m p v o).1 := by
  unfold stepGenPair
  repeat' (first | exact Kept.refl _ _ | exact kept_genPairFinish _ _ _ _ _ _ _ _ _ _ _ _ | apply kept_ite | split | extract_lets)

theorem OnlyHandles.kept {s s' : State} (h : OnlyHandles s s') : Kept none s s' := kept_same h.1

theorem Adds.kept {s : State} {r : State × Resp} (h : Adds s r) : Kept none s r.1 := by
  rcases h with h | ⟨slot, hh, t, p, a, h⟩
  · exact kept_same h.1
  · rw [h]; exact kept_addObject _ _ _ _ _ _ _

theorem kept_stepOp (s : State) (c : OpCall) : Kept none s (stepOp s c).1 := by
  cases c <;> simp only [stepOp]
  case cfgMechs => exact kept_same rfl
  all_goals (split; · exact Kept.refl _ _)
  case mechList => split <;> exact Kept.refl _ _
  case opInit => exact (onlyHandles_opInit ..).kept
  case digestInit => exact (onlyHandles_digestInit ..).kept
  case crypt => exact (onlyHandles_crypt ..).kept
  case cryptUpdate => exact (onlyHandles_cryptUpdate ..).kept
  case cryptFinal => exact (onlyHandles_cryptFinal ..).kept
  case sign => exact (onlyHandles_signLike ..).kept
  case digest => exact (onlyHandles_signLike ..).kept
  case update => exact (onlyHandles_updateLike ..).kept
  case digestKey => exact (onlyHandles_digestKey ..).kept
  case signFinal => exact (onlyHandles_finalLike ..).kept
  case digestFinal => exact (onlyHandles_finalLike ..).kept
  case verify => exact (onlyHandles_verify ..).kept
  case verifyFinal => exact (onlyHandles_verify ..).kept
  case genKey => exact kept_genKey _ _ _ _ _
  case genPair => exact kept_genPair _ _ _ _ _ _
  case wrap => rw [adds_wrap]; exact Kept.refl _ _
  case unwrap => exact (adds_unwrap _ _ _ _ _ _ _ _).kept
  case derive => exact (adds_derive _ _ _ _ _ _ _).kept

theorem kept_restart (s : State) : Kept none s (stepRestart s).1 := by
  unfold stepRestart stepFinalize
  simp only [Bool.not_true, Bool.false_eq_true, if_false]
  exact kept_filter _ rfl

/-- the object a call may change the attributes of: only C_SetAttributeValue has one -/
def changeTarget (s : State) : AnyCall → Option Nat
  | .core c => setAttrTarget s c
  | _ => none

theorem kept_stepAny (s : State) (c : AnyCall) : Kept (changeTarget s c) s (stepAny s c).1 := by
  cases c with
  | core c => exact kept_step s c
  | op c => exact kept_stepOp s c
  | restart => exact kept_restart s

end Shm
