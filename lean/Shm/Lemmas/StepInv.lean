/-
  The well-formedness invariant of the handle table is preserved by every call.
-/
import Shm.Model.Step
import Shm.Lemmas.HTable
namespace Shm

def State.WF (s : State) : Prop := s.handles.WF s.counter

theorem HTable.WF.eraseIf {t : HTable} {c : Nat} (h : t.WF c) (p : Nat → Ent → Bool) : (t.eraseIf p).WF c :=
  WF.filter h _

theorem HTable.WF.setSess {t : HTable} {c : Nat} (h : t.WF c) (k : Nat) (s : Sess) : (t.setSess k s).WF c := by
  unfold HTable.setSess
  refine ⟨?_, ?_⟩
  · rw [List.pairwise_map]; exact h.asc
  · intro e he
    rw [List.mem_map] at he
    obtain ⟨x, hx, rfl⟩ := he
    exact h.bound x hx

theorem HTable.WF.sessionClosed {t : HTable} {c : Nat} (h : t.WF c) (k : Nat) : (t.sessionClosed k).WF c := by
  unfold HTable.sessionClosed
  split
  · exact h
  · dsimp only
    split
    · exact (h.eraseIf _).eraseIf _
    · unfold HTable.allSessionsClosed; exact ((h.eraseIf _).eraseIf _).eraseIf _

theorem HTable.WF.destroyObject {t : HTable} {c : Nat} (h : t.WF c) (k : Nat) : (t.destroyObject k).WF c := by
  unfold HTable.destroyObject
  split
  · exact h
  · exact h.eraseIf _

theorem HTable.WF.mintAll {t : HTable} {c : Nat} (h : t.WF c) (slot hs : Nat) (os : List Obj) :
    (mintAll t c slot hs os).WF (c + os.length) := by
  induction os generalizing t c with
  | nil => simpa [Shm.mintAll] using h
  | cons o rest ih =>
    simp only [Shm.mintAll, List.length_cons]
    have := ih (h.append (.obj { slot := slot, owner := if o.onToken then 0 else hs, isPriv := o.isPriv, oid := o.oid }))
    rw [show c + (rest.length + 1) = c + 1 + rest.length by omega]
    exact this

theorem wf_nil (c : Nat) : HTable.WF [] c := ⟨List.Pairwise.nil, fun _ h => by simp at h⟩

theorem wf_init : State.WF {} := wf_nil 0

theorem HTable.WF.allSessionsClosed {t : HTable} {c : Nat} (h : t.WF c) (k : Nat) : (t.allSessionsClosed k).WF c :=
  h.eraseIf _

theorem HTable.WF.tokenLoggedOut {t : HTable} {c : Nat} (h : t.WF c) (k : Nat) : (t.tokenLoggedOut k).WF c :=
  h.eraseIf _

/-- split every `if`/`match` of an unfolded step function, removing `have` bindings on the way -/
macro "step_cases" : tactic => `(tactic| repeat' (first | split | (dsimp only)))

macro "wf_leaf" h:ident : tactic =>
  `(tactic| first
      | exact $h
      | exact wf_nil 0
      | exact HTable.WF.append $h _
      | exact HTable.WF.sessionClosed $h _
      | exact HTable.WF.allSessionsClosed $h _
      | exact HTable.WF.tokenLoggedOut $h _
      | exact HTable.WF.destroyObject $h _
      | exact HTable.WF.setSess $h _ _
      | exact HTable.WF.setSess (HTable.WF.mintAll $h _ _ _) _ _)

theorem wf_step (s : State) (c : Call) (h : s.WF) : (step s c).1.WF := by
  unfold State.WF at *
  cases c <;> simp only [step, guardInit]
  case initLib => unfold stepInitialize; step_cases <;> wf_leaf h
  case finiLib => unfold stepFinalize; step_cases <;> wf_leaf h
  all_goals (split; · exact h)
  case slots => exact h
  case initToken => unfold stepInitToken; step_cases <;> wf_leaf h
  case openSession => unfold stepOpenSession; step_cases <;> wf_leaf h
  case closeSession => unfold stepCloseSession; step_cases <;> wf_leaf h
  case closeAll => unfold stepCloseAll; step_cases <;> wf_leaf h
  case sessInfo => unfold stepSessInfo; step_cases <;> wf_leaf h
  case login => unfold stepLogin; step_cases <;> wf_leaf h
  case logout => unfold stepLogout; step_cases <;> wf_leaf h
  case initPin => unfold stepInitPin; step_cases <;> wf_leaf h
  case setPin => unfold stepSetPin; step_cases <;> wf_leaf h
  case create => unfold stepCreate addObject; step_cases <;> wf_leaf h
  case getAttr => unfold stepGetAttr; step_cases <;> wf_leaf h
  case setAttr => unfold stepSetAttr; step_cases <;> wf_leaf h
  case copy => unfold stepCopy addObject; step_cases <;> wf_leaf h
  case objSize => unfold stepObjSize; step_cases <;> wf_leaf h
  case destroy => unfold stepDestroy; step_cases <;> wf_leaf h
  case objProbe => unfold stepObjProbe; step_cases <;> wf_leaf h
  case findInit => unfold stepFindInit; step_cases <;> wf_leaf h
  case find => unfold stepFind; step_cases <;> wf_leaf h
  case findFinal => unfold stepFindFinal; step_cases <;> wf_leaf h

theorem wf_run (s : State) (cs : List Call) (h : s.WF) : (run s cs).WF := by
  induction cs generalizing s with
  | nil => exact h
  | cons c cs ih => exact ih _ (wf_step s c h)

end Shm
