/-
  C06, machine side: in every reachable state every non-empty byte-string attribute of every object is stored encrypted exactly
  when the object is private — for every creation path the model has (C_CreateObject, C_CopyObject incl. the public→private
  upgrade, C_SetAttributeValue, C_GenerateKey, C_GenerateKeyPair) and across every other call.
-/
import Shm.Lemmas.Enc
import Shm.Lemmas.OidUnique
namespace Shm

def EncInv (s : State) : Prop := ∀ o ∈ s.objs, EncOK o.isPriv o.attrs

/-- every object of `s'` has the attributes and privacy of an object of `s`, or satisfies the encryption rule by construction -/
def EncStep (s s' : State) : Prop :=
  ∀ o' ∈ s'.objs, (∃ o ∈ s.objs, o.attrs = o'.attrs ∧ o.isPriv = o'.isPriv) ∨ EncOK o'.isPriv o'.attrs

theorem EncStep.inv {s s' : State} (h : EncStep s s') (hi : EncInv s) : EncInv s' := by
  intro o' ho'
  rcases h o' ho' with ⟨o, hm, ha, hp⟩ | h
  · rw [← ha, ← hp]; exact hi o hm
  · exact h

theorem encStep_same {s s' : State} (h : s'.objs = s.objs) : EncStep s s' := fun o ho => Or.inl ⟨o, h ▸ ho, rfl, rfl⟩
theorem encStep_filter {s s' : State} (p : Obj → Bool) (h : s'.objs = s.objs.filter p) : EncStep s s' :=
  fun o ho => Or.inl ⟨o, (List.mem_filter.mp (h ▸ ho)).1, rfl, rfl⟩

theorem encStep_addObject (s : State) (slot h : Nat) (t p : Bool) (a : Attrs) (ha : EncOK p a) : EncStep s (addObject s slot h t p a).1 := by
  intro o ho
  simp only [addObject, List.mem_append, List.mem_singleton] at ho
  rcases ho with ho | ho
  · exact Or.inl ⟨o, ho, rfl, rfl⟩
  · subst ho; exact Or.inr ha

theorem EncStep.trans {a b c : State} (h1 : EncStep a b) (h2 : EncStep b c) : EncStep a c := by
  intro o ho
  rcases h2 o ho with ⟨o1, hm1, e1, e2⟩ | h
  · rcases h1 o1 hm1 with ⟨o0, hm0, f1, f2⟩ | h
    · exact Or.inl ⟨o0, hm0, f1.trans e1, f2.trans e2⟩
    · right; rw [← e1, ← e2]; exact h
  · exact Or.inr h

theorem encStep_initialize (s : State) : EncStep s (stepInitialize s).1 := by
  unfold stepInitialize
  split
  · exact encStep_same rfl
  · intro o ho
    simp only [List.mem_map, List.mem_filter] at ho
    obtain ⟨o0, ⟨hm, _⟩, he⟩ := ho
    refine Or.inl ⟨o0, hm, ?_⟩
    split at he <;> subst he <;> simp

macro "enc_leaf" : tactic =>
  `(tactic| first
      | exact encStep_same rfl
      | exact encStep_filter _ rfl)

/-- postCreate only writes booleans -/
theorem encOK_postCreate {p : Bool} {a : Attrs} (h : EncOK p a) (cls : Nat) : EncOK p (postCreate cls a) := by
  unfold postCreate
  split
  · exact encOK_setA h _ (.bool false) trivial
  · split
    · exact encOK_setA (encOK_setA (encOK_setA h _ (.bool false) trivial) _ (.bool false) trivial) _ (.bool false) trivial
    · exact h

theorem encStep_create (s : State) (h : Nat) (tpl : Template) (oe : RV) : EncStep s (stepCreate s h tpl oe).1 := by
  unfold stepCreate
  split
  · split <;> exact encStep_same rfl
  · split
    · exact encStep_same rfl
    · dsimp only
      split
      · exact encStep_same rfl
      · split
        · exact encStep_same rfl
        · split
          · exact encStep_same rfl
          · next cd hcd =>
            split
            · exact encStep_same rfl
            · next attrs hst =>
              have hc := class_ok (findClass_mem hcd)
              exact encStep_addObject _ _ _ _ _ _ (encOK_postCreate (saveTemplate_enc _ _ _ _ _ _ _ hc.1 (hc.2 _) _ hst) _)

theorem classOfAttrs_mem {o : Attrs} {cd : ClassDesc} (h : classOfAttrs o = some cd) : cd ∈ Gen.classTable := findClass_mem h

theorem getObj_mem {os : List Obj} {oid : Nat} {o : Obj} (h : getObj os oid = some o) : o ∈ os ∧ o.oid = oid := by
  unfold getObj at h
  exact ⟨List.mem_of_find?_eq_some h, by simpa using List.find?_some h⟩

theorem resolveObj_mem {s : State} {h : Nat} {oh : ObjH} {ob : Obj} (hr : resolveObj s h = some (oh, ob)) : ob ∈ s.objs := by
  unfold resolveObj at hr
  cases hg : s.handles.getObjH h with
  | none => simp [hg] at hr
  | some x =>
    simp only [hg, Option.bind_some] at hr
    cases hgo : getObj s.objs x.oid with
    | none => simp [hgo] at hr
    | some o =>
      simp only [hgo, Option.map_some, Option.some.injEq, Prod.mk.injEq] at hr
      rw [← hr.2]; exact (getObj_mem hgo).1

/-- C_SetAttributeValue: needs the state invariants (unique ids) to know that the object updated is the object resolved -/
theorem encStep_setAttr (s : State) (hn : OidNodup s) (hi : EncInv s) (h o : Nat) (tpl : Template) (oe : RV) : EncStep s (stepSetAttr s h o tpl oe).1 := by
  unfold stepSetAttr
  split
  · split <;> exact encStep_same rfl
  · split
    · exact encStep_same rfl
    · next oh ob hres =>
      dsimp only
      split
      · exact encStep_same rfl
      · split
        · exact encStep_same rfl
        · split
          · exact encStep_same rfl
          · next cd hcd =>
            split
            · exact encStep_same rfl
            · next attrs hst =>
              have hob := resolveObj_mem hres
              have hc := class_ok (classOfAttrs_mem hcd)
              have hnew := saveTemplate_enc _ _ _ _ _ _ _ hc.1 (hi ob hob) _ hst
              intro o' ho'
              simp only [updObj, List.mem_map] at ho'
              obtain ⟨o0, hm0, he⟩ := ho'
              split at he
              · next heq =>
                have : o0 = ob := unique_of_nodup hn hm0 hob (by simpa using heq)
                subst this; subst he
                exact Or.inr hnew
              · subst he; exact Or.inl ⟨o0, hm0, rfl, rfl⟩

theorem encOK_copyAttrs {wasPriv isPriv : Bool} {o : Attrs} (h : EncOK wasPriv o) (hdown : ¬(wasPriv = true ∧ isPriv = false)) :
    EncOK isPriv (copyAttrs o wasPriv isPriv) := by
  intro ty v enc hm hne
  simp only [copyAttrs, List.mem_map] at hm
  obtain ⟨e, hme, he⟩ := hm
  obtain ⟨t, x⟩ := e
  cases x with
  | bytes b en =>
    simp only [reEnc, Prod.mk.injEq, AVal.bytes.injEq] at he
    obtain ⟨_, hb, hen⟩ := he
    subst hb
    have h0 := h t b en hme hne
    have hemp : b.isEmpty = false := by cases b <;> simp_all
    cases wasPriv <;> cases isPriv <;> simp_all
  | bool _ => simp [reEnc] at he
  | ulong _ => simp [reEnc] at he
  | mechs _ => simp [reEnc] at he
  | amap _ => simp [reEnc] at he
  | unk => simp [reEnc] at he

theorem encStep_copy (s : State) (hi : EncInv s) (h o : Nat) (tpl : Template) (oe : RV) : EncStep s (stepCopy s h o tpl oe).1 := by
  unfold stepCopy
  split
  · split <;> exact encStep_same rfl
  · split
    · exact encStep_same rfl
    · next oh ob hres =>
      dsimp only
      split
      · exact encStep_same rfl
      · split
        · exact encStep_same rfl
        · split
          · exact encStep_same rfl
          · next hdown =>
            split
            · exact encStep_same rfl
            · split
              · exact encStep_same rfl
              · next cd hcd =>
                split
                · exact encStep_same rfl
                · next attrs hst =>
                  have hob := resolveObj_mem hres
                  have hc := class_ok (classOfAttrs_mem hcd)
                  have hsrc := encOK_copyAttrs (isPriv := (tplBool tpl CKA.PRIVATE).getD ob.isPriv) (hi ob hob) (by
                    intro ⟨h1, h2⟩; apply hdown; rw [h2, h1]; rfl)
                  exact encStep_addObject _ _ _ _ _ _ (saveTemplate_enc _ _ _ _ _ _ _ hc.1 hsrc _ hst)

theorem encStep_step (s : State) (hn : OidNodup s) (hi : EncInv s) (c : Call) : EncStep s (step s c).1 := by
  cases c <;> simp only [step, guardInit]
  case initLib => exact encStep_initialize s
  case finiLib => unfold stepFinalize; step_cases <;> enc_leaf
  all_goals (split; · exact encStep_same rfl)
  case slots => unfold stepSlots; exact encStep_same rfl
  case initToken => unfold stepInitToken; step_cases <;> enc_leaf
  case openSession => unfold stepOpenSession; step_cases <;> enc_leaf
  case closeSession => unfold stepCloseSession objsSessionClosed; step_cases <;> enc_leaf
  case closeAll => unfold stepCloseAll objsAllSessionsClosed; step_cases <;> enc_leaf
  case sessInfo => unfold stepSessInfo; step_cases <;> enc_leaf
  case login => unfold stepLogin; step_cases <;> enc_leaf
  case logout => unfold stepLogout objsTokenLoggedOut; step_cases <;> enc_leaf
  case initPin => unfold stepInitPin; step_cases <;> enc_leaf
  case setPin => unfold stepSetPin; step_cases <;> enc_leaf
  case create => exact encStep_create _ _ _ _
  case getAttr => unfold stepGetAttr; step_cases <;> enc_leaf
  case setAttr => exact encStep_setAttr s hn hi _ _ _ _
  case copy => exact encStep_copy s hi _ _ _ _
  case objSize => unfold stepObjSize; step_cases <;> enc_leaf
  case destroy => unfold stepDestroy; step_cases <;> enc_leaf
  case objProbe => unfold stepObjProbe; step_cases <;> enc_leaf
  case findInit => unfold stepFindInit; step_cases <;> enc_leaf
  case find => unfold stepFind; step_cases <;> enc_leaf
  case findFinal => unfold stepFindFinal; step_cases <;> enc_leaf

/-! ### key generation -/

theorem encOK_postGenerate {p : Bool} {a : Attrs} (h : EncOK p a) (mech : Nat) (sp : Bool) : EncOK p (postGenerate mech sp a) := by
  unfold postGenerate
  dsimp only
  have h1 : EncOK p (setA (setA a CKA.LOCAL (.bool true)) CKA.KEY_GEN_MECHANISM (.ulong mech)) :=
    encOK_setA (encOK_setA h _ (.bool true) trivial) _ (.ulong mech) trivial
  split
  · exact encOK_setA (encOK_setA h1 _ (.bool _) trivial) _ (.bool _) trivial
  · exact h1

theorem encOK_markUnk {p : Bool} (tys : List Nat) : ∀ {a : Attrs}, EncOK p a → EncOK p (markUnk a tys) := by
  unfold markUnk
  induction tys with
  | nil => intro a h; exact h
  | cons t ts ih =>
    intro a h
    simp only [List.foldl_cons]
    apply ih
    split
    · exact encOK_setA h _ .unk trivial
    · exact h

theorem encStep_ite {s : State} (c : Prop) [Decidable c] (a b : State × Resp) (ha : EncStep s a.1) (hb : EncStep s b.1) :
    EncStep s (if c then a else b).1 := by split <;> assumption

theorem encStep_genKeyFinish (s : State) (ss : Sess) (h mech : Nat) (tpl : Template) (t : Tok) (cls kt dkt : Nat) (a b : Bool) (kl : Nat) :
    EncStep s (genKeyFinish s ss h mech tpl t cls kt dkt a b kl).1 := by
  unfold genKeyFinish
  split
  · exact encStep_same rfl
  · extract_lets keyTpl
    cases hcd : findClass cls kt 0 with
    | none => exact encStep_same rfl
    | some cd =>
      dsimp only
      have hc := class_ok (findClass_mem hcd)
      cases hst : saveTemplate cd (initAttrs cd) (reorderTpl keyTpl) OP.GENERATE b t.soIn CKR.OK with
      | error e => exact encStep_same rfl
      | ok attrs =>
        dsimp only
        have h0 := saveTemplate_enc _ _ _ _ _ _ _ hc.1 (hc.2 b) _ hst
        have h2 : EncOK b (setA (postGenerate mech true attrs) CKA.VALUE .unk) := encOK_setA (encOK_postGenerate h0 _ _) _ .unk trivial
        refine encStep_addObject _ _ _ _ _ _ (encOK_setA ?_ _ (.ulong _) trivial)
        split
        · exact h2
        · exact encOK_setA h2 _ .unk trivial

theorem encStep_genPairFinish (s : State) (ss : Sess) (h mech : Nat) (p v : Template) (t : Tok) (dkt : Nat) (a b c d : Bool) :
    EncStep s (genPairFinish s ss h mech p v t dkt a b c d).1 := by
  unfold genPairFinish
  extract_lets skip pubTpl privTpl
  cases hc1 : findClass CKO.PUBLIC_KEY dkt 0 with
  | none => exact encStep_same rfl
  | some cd1 =>
    cases hc2 : findClass CKO.PRIVATE_KEY dkt 0 with
    | none => exact encStep_same rfl
    | some cd2 =>
      dsimp only
      have k1 := class_ok (findClass_mem hc1)
      have k2 := class_ok (findClass_mem hc2)
      cases hs1 : saveTemplate cd1 (initAttrs cd1) pubTpl OP.GENERATE b t.soIn CKR.OK with
      | error e => exact encStep_same rfl
      | ok pa =>
        dsimp only
        cases hs2 : saveTemplate cd2 (initAttrs cd2) privTpl OP.GENERATE d t.soIn CKR.OK with
        | error e => exact encStep_same rfl
        | ok va =>
          dsimp only
          have hpa := saveTemplate_enc _ _ _ _ _ _ _ k1.1 (k1.2 b) _ hs1
          have hva := saveTemplate_enc _ _ _ _ _ _ _ k2.1 (k2.2 d) _ hs2
          have hpub : EncOK b (markUnk (postGenerate mech false pa) [0x120, 0x122, 0x123, 0x124, 0x125, 0x126, 0x127, 0x128, 0x11, 0x181, 0x130, 0x131, 0x132, 0x129]) :=
            encOK_markUnk _ (encOK_postGenerate hpa _ _)
          have hva0 : EncOK d (match getA pa 0x180 with
              | some v => (if (getA va 0x180).isSome then setA va 0x180 (match v with | .bytes b _ => .bytes b d | x => x) else va)
              | none => va) := by
            split
            · next v _ =>
              split
              · refine encOK_setA hva _ _ ?_
                cases v <;> first | trivial | exact Or.inr rfl
              · exact hva
            · exact hva
          refine EncStep.trans (encStep_addObject _ _ _ _ _ _ hpub) (encStep_addObject _ _ _ _ _ _ ?_)
          exact encOK_setA (encOK_markUnk _ (encOK_postGenerate hva0 _ _)) _ (.ulong _) trivial

theorem encStep_genKey (s : State) (h m : Nat) (t : Template) (o : RV) : EncStep s (stepGenKey s h m t o).1 := by
  unfold stepGenKey
  repeat' (first | exact encStep_same rfl | exact encStep_genKeyFinish _ _ _ _ _ _ _ _ _ _ _ _ | apply encStep_ite | split | extract_lets)

theorem encStep_genPair (s : State) (h m : Nat) (p v : Template) (o : RV) : EncStep s (stepGenPair s h m p v o).1 := by
  unfold stepGenPair
  repeat' (first | exact encStep_same rfl | exact encStep_genPairFinish _ _ _ _ _ _ _ _ _ _ _ _ | apply encStep_ite | split | extract_lets)

/-! ### C_UnwrapKey / C_DeriveKey: the new key's value is stored encrypted exactly when the key is private -/

def AddsEnc (s : State) (r : State × Resp) : Prop := r.1.objs = s.objs ∨ ∃ slot h t p a, r.1 = (addObject s slot h t p a).1 ∧ EncOK p a

theorem addsEnc_rOnly (s : State) (rv : RV) : AddsEnc s (rOnly s rv) := Or.inl rfl
theorem addsEnc_bump (s : State) (x : Resp) : AddsEnc s ({ s with counter := s.counter + 1 }, x) := Or.inl rfl
theorem addsEnc_ite {s : State} (c : Prop) [Decidable c] (a b : State × Resp) (ha : AddsEnc s a) (hb : AddsEnc s b) : AddsEnc s (if c then a else b) := by
  split <;> assumption
theorem addsEnc_add (s : State) (slot h : Nat) (t p : Bool) (a : Attrs) (x : Resp) (ha : EncOK p a) : AddsEnc s ((addObject s slot h t p a).1, x) :=
  Or.inr ⟨slot, h, t, p, a, rfl, ha⟩

theorem AddsEnc.encStep {s : State} {r : State × Resp} (h : AddsEnc s r) : EncStep s r.1 := by
  rcases h with h | ⟨slot, hh, t, p, a, h, ha⟩
  · exact encStep_same h
  · rw [h]; exact encStep_addObject _ _ _ _ _ _ ha

/-- the attribute writes of the unwrap / derive tails keep the rule: booleans, unknowns, and a value flagged with the key's privacy -/
theorem encOK_tail {p : Bool} {a : Attrs} (h : EncOK p a) (v : AVal) (hv : valOK p v) (tys : List Nat) :
    EncOK p (markUnk (setA (setA (setA (setA a CKA.LOCAL (.bool false)) CKA.ALWAYS_SENSITIVE (.bool false)) CKA.NEVER_EXTRACTABLE (.bool false)) CKA.VALUE v) tys) :=
  encOK_markUnk _ (encOK_setA (encOK_setA (encOK_setA (encOK_setA h _ (.bool false) trivial) _ (.bool false) trivial) _ (.bool false) trivial) _ v hv)

theorem addsEnc_unwrapFinish (s : State) (slot h cls kt : Nat) (a b c : Bool) (t : Template) (kd : Option (Except RV Bytes)) (rv : RV) :
    AddsEnc s (unwrapFinish s slot h cls kt a b c t kd rv) := by
  unfold unwrapFinish
  cases hcd : findClass cls kt 0 with
  | none => exact addsEnc_rOnly _ _
  | some cd =>
    dsimp only
    have hc := class_ok (findClass_mem hcd)
    cases hst : saveTemplate cd (initAttrs cd) (reorderTpl (keyTemplate cls kt a b t [])) OP.UNWRAP b c rv with
    | error e => exact addsEnc_rOnly _ _
    | ok attrs =>
      dsimp only
      have h0 := saveTemplate_enc _ _ _ _ _ _ _ hc.1 (hc.2 b) _ hst
      have h1 := encOK_setA (encOK_setA (encOK_setA h0 CKA.LOCAL (.bool false) trivial) CKA.ALWAYS_SENSITIVE (.bool false) trivial) CKA.NEVER_EXTRACTABLE (.bool false) trivial
      split
      · refine addsEnc_add _ _ _ _ _ _ _ (encOK_setA h1 _ _ ?_)
        split
        · exact Or.inr rfl
        · trivial
      · split
        · exact addsEnc_rOnly _ _
        · exact addsEnc_add _ _ _ _ _ _ _ (encOK_markUnk _ h1)

theorem valOK_deriveValue (s : State) (mech : Nat) (p : MParam) (bk : Obj) (kt vl : Nat) (isPriv : Bool) : valOK isPriv (deriveValue s mech p bk kt vl isPriv) := by
  unfold deriveValue
  repeat' (first | trivial | exact Or.inr rfl | split | extract_lets)

theorem encOK_deriveFlags {p : Bool} {a : Attrs} (h : EncOK p a) (m : Nat) (ba : Attrs) (oa : Option Attrs) : EncOK p (deriveFlags m ba oa a) := by
  unfold deriveFlags
  split
  · split
    · exact encOK_markUnk _ h
    · dsimp only
      refine encOK_setA (encOK_setA ?_ _ (.bool _) trivial) _ (.bool _) trivial
      refine encOK_iteSet (encOK_iteSet h _ _ (.bool true) trivial) _ _ (.bool false) trivial
  · split
    · dsimp only
      refine encOK_setA (encOK_setA ?_ _ (.bool _) trivial) _ (.bool _) trivial
      refine encOK_iteSet (encOK_iteSet h _ _ (.bool true) trivial) _ _ (.bool false) trivial
    · exact encOK_setA (encOK_setA h _ (.bool _) trivial) _ (.bool _) trivial

theorem addsEnc_deriveFinish (s : State) (slot h cls kt : Nat) (a b c : Bool) (t : Template) (v : AVal) (m : Nat) (ba : Attrs) (oa : Option Attrs) (hv : valOK b v) :
    AddsEnc s (deriveFinish s slot h cls kt a b c t v m ba oa) := by
  unfold deriveFinish
  cases hcd : findClass cls kt 0 with
  | none => exact addsEnc_rOnly _ _
  | some cd =>
    dsimp only
    have hc := class_ok (findClass_mem hcd)
    cases hst : saveTemplate cd (initAttrs cd) (reorderTpl (keyTemplate cls kt a b t [CKA.CHECK_VALUE])) OP.DERIVE b c CKR.OK with
    | error e => exact addsEnc_rOnly _ _
    | ok attrs =>
      dsimp only
      have h0 := saveTemplate_enc _ _ _ _ _ _ _ hc.1 (hc.2 b) _ hst
      exact addsEnc_add _ _ _ _ _ _ _ (encOK_markUnk _ (encOK_setA (encOK_deriveFlags (encOK_setA h0 CKA.LOCAL (.bool false) trivial) _ _ _) _ _ hv))

theorem addsEnc_unwrap (s : State) (h m : Nat) (p : MParam) (uk : Nat) (b : Option Bytes) (t : Template) (rv : RV) : AddsEnc s (stepUnwrap s h m p uk b t rv) := by
  unfold stepUnwrap
  repeat' (first | exact addsEnc_rOnly _ _ | exact addsEnc_unwrapFinish _ _ _ _ _ _ _ _ _ _ _ | apply addsEnc_ite | split | extract_lets)

theorem addsEnc_derive (s : State) (h m : Nat) (p : MParam) (bk : Nat) (t : Template) (rv : RV) : AddsEnc s (stepDerive s h m p bk t rv) := by
  unfold stepDerive
  repeat' (first | exact addsEnc_rOnly _ _ | exact addsEnc_bump _ _ | exact addsEnc_deriveFinish _ _ _ _ _ _ _ _ _ _ _ _ _ (valOK_deriveValue _ _ _ _ _ _ _) | apply addsEnc_ite | split | extract_lets)

theorem encStep_stepOp (s : State) (c : OpCall) : EncStep s (stepOp s c).1 := by
  cases c <;> simp only [stepOp]
  case cfgMechs => exact encStep_same rfl
  all_goals (split; · exact encStep_same rfl)
  case mechList => split <;> exact encStep_same rfl
  case opInit => exact encStep_same (onlyHandles_opInit ..).1
  case digestInit => exact encStep_same (onlyHandles_digestInit ..).1
  case crypt => exact encStep_same (onlyHandles_crypt ..).1
  case cryptUpdate => exact encStep_same (onlyHandles_cryptUpdate ..).1
  case cryptFinal => exact encStep_same (onlyHandles_cryptFinal ..).1
  case sign => exact encStep_same (onlyHandles_signLike ..).1
  case digest => exact encStep_same (onlyHandles_signLike ..).1
  case update => exact encStep_same (onlyHandles_updateLike ..).1
  case digestKey => exact encStep_same (onlyHandles_digestKey ..).1
  case signFinal => exact encStep_same (onlyHandles_finalLike ..).1
  case digestFinal => exact encStep_same (onlyHandles_finalLike ..).1
  case verify => exact encStep_same (onlyHandles_verify ..).1
  case verifyFinal => exact encStep_same (onlyHandles_verify ..).1
  case genKey => exact encStep_genKey _ _ _ _ _
  case genPair => exact encStep_genPair _ _ _ _ _ _
  case wrap => rw [adds_wrap]; exact encStep_same rfl
  case unwrap => exact (addsEnc_unwrap _ _ _ _ _ _ _ _).encStep
  case derive => exact (addsEnc_derive _ _ _ _ _ _ _).encStep

theorem encStep_restart (s : State) : EncStep s (stepRestart s).1 := by
  unfold stepRestart stepFinalize
  simp only [Bool.not_true, Bool.false_eq_true, if_false]
  exact encStep_filter _ rfl

theorem encStep_stepAny (s : State) (hn : OidNodup s) (hi : EncInv s) (c : AnyCall) : EncStep s (stepAny s c).1 := by
  cases c with
  | core c => exact encStep_step s hn hi c
  | op c => exact encStep_stepOp s c
  | restart => exact encStep_restart s

/-- **the encryption rule holds in every reachable state** -/
theorem encInv_runAny (cs : List AnyCall) : ∀ s, OidInv s → OidNodup s → EncInv s → EncInv (runAny s cs) := by
  induction cs with
  | nil => intro s _ _ h; exact h
  | cons c cs ih =>
    intro s h1 h2 h3
    exact ih _ (oidInv_of_evolves h1 (evolves_stepAny s c)) (nodupStep_stepAny s c h1 h2) ((encStep_stepAny s h2 h3 c).inv h3)

theorem encInv_reachable (cs : List AnyCall) : EncInv (runAny {} cs) :=
  encInv_runAny cs {} (fun _ h => by simp at h) (by simp [OidNodup]) (fun _ h => by simp at h)

end Shm
