/-
  How the handle-table operations change `haveSession` / `haveROSession` (and any other predicate that
  only looks at session entries).
-/
import Shm.Lemmas.Purge
namespace Shm

/-- predicates on entries that are false on every object entry -/
def SessOnly (q : Ent → Bool) : Prop := ∀ o, q (.obj o) = false

theorem sessOnly_isSessOn (slot : Nat) : SessOnly (isSessOn slot) := fun _ => rfl
theorem sessOnly_isROSessOn (slot : Nat) : SessOnly (isROSessOn slot) := fun _ => rfl

def anyE (t : HTable) (q : Ent → Bool) : Bool := t.any fun e => q e.2

theorem haveSession_anyE (t : HTable) (slot : Nat) : t.haveSession slot = anyE t (isSessOn slot) := rfl
theorem haveROSession_anyE (t : HTable) (slot : Nat) : t.haveROSession slot = anyE t (isROSessOn slot) := rfl

theorem anyE_true_iff (t : HTable) (q : Ent → Bool) : anyE t q = true ↔ ∃ e ∈ t, q e.2 = true := by
  simp [anyE]

theorem anyE_nil (q : Ent → Bool) : anyE [] q = false := rfl

theorem anyE_append (t : HTable) (k : Nat) (e : Ent) (q : Ent → Bool) :
    anyE (t ++ [(k, e)]) q = (anyE t q || q e) := by
  simp [anyE, List.any_append]

/-- erasing entries on which `q` is false does not change `any q` -/
theorem anyE_eraseIf_irrelevant (t : HTable) (p : Nat → Ent → Bool) (q : Ent → Bool)
    (h : ∀ e ∈ t, p e.1 e.2 = true → q e.2 = false) : anyE (t.eraseIf p) q = anyE t q := by
  rw [Bool.eq_iff_iff, anyE_true_iff, anyE_true_iff]
  unfold HTable.eraseIf
  constructor
  · rintro ⟨e, he, hq⟩
    exact ⟨e, (List.mem_filter.mp he).1, hq⟩
  · rintro ⟨e, he, hq⟩
    refine ⟨e, List.mem_filter.mpr ⟨he, ?_⟩, hq⟩
    cases hp : p e.1 e.2
    · rfl
    · have := h e he hp; simp [this] at hq

theorem anyE_eraseIf (t : HTable) (p : Nat → Ent → Bool) (q : Ent → Bool) :
    anyE (t.eraseIf p) q = t.any (fun e => !p e.1 e.2 && q e.2) := by
  unfold anyE HTable.eraseIf
  rw [List.any_filter]

theorem anyE_setSess (t : HTable) (h : Nat) (x : Sess) (q : Ent → Bool)
    (hq : ∀ e, (h, e) ∈ t → q (updSess h x h e) = q e) : anyE (t.setSess h x) q = anyE t q := by
  unfold anyE HTable.setSess
  rw [List.any_map]
  rw [Bool.eq_iff_iff, List.any_eq_true, List.any_eq_true]
  have key : ∀ e ∈ t, (q (if e.1 == h then replSess x e.2 else e.2)) = q e.2 := by
    intro e he
    obtain ⟨k, v⟩ := e
    by_cases hk : k = h
    · subst hk
      have := hq v he
      simpa [updSess] using this
    · have : (k == h) = false := by simp [beq_eq_false_iff_ne]; exact hk
      simp [this]
  constructor
  · rintro ⟨e, he, hqe⟩; exact ⟨e, he, by rw [← key e he]; exact hqe⟩
  · rintro ⟨e, he, hqe⟩; exact ⟨e, he, by show q (if (e.fst == h) = true then replSess x e.snd else e.snd) = true; rw [key e he]; exact hqe⟩

theorem anyE_mintAll (t : HTable) (c slot hs : Nat) (os : List Obj) (q : Ent → Bool) (hq : SessOnly q) :
    anyE (mintAll t c slot hs os) q = anyE t q := by
  induction os generalizing t c with
  | nil => rfl
  | cons o rest ih =>
    simp only [mintAll]
    rw [ih, anyE_append, hq]; simp

/-- after `sessionClosed h` the sessions seen by `q` are those of `t` other than `h` -/
theorem anyE_sessionClosed (t : HTable) (h : Nat) (ss : Sess) (hs : t.getSess h = some ss) (q : Ent → Bool)
    (hq : SessOnly q) (hslot : ∀ x : Sess, q (.sess x) = true → x.slot = ss.slot → isSessOn ss.slot (.sess x) = true) :
    anyE (t.sessionClosed h) q = t.any (fun e => e.1 != h && q e.2) := by
  unfold HTable.sessionClosed
  simp only [hs]
  have h2 : anyE ((t.eraseIf fun k _ => k == h).eraseIf fun _ e => ownedBy h e) q = t.any (fun e => e.1 != h && q e.2) := by
    rw [anyE_eraseIf_irrelevant _ _ q (by
      intro e _ hp
      cases he : e.2 with
      | sess x => simp [he, ownedBy] at hp
      | obj o => exact hq o)]
    rw [anyE_eraseIf]
    congr 1
  split
  · exact h2
  · rename_i hno
    unfold HTable.allSessionsClosed
    rw [anyE_eraseIf_irrelevant _ _ q ?_, h2]
    intro e he hp
    cases hev : e.2 with
    | obj o => exact hq o
    | sess x =>
      -- a session entry of the slot would contradict "no session of the slot is left"
      cases hqx : q (.sess x) with
      | false => rfl
      | true =>
        exfalso
        apply hno
        rw [haveSession_anyE, anyE_true_iff]
        refine ⟨e, he, ?_⟩
        rw [hev]
        apply hslot x hqx
        simpa [hev, Ent.slot] using hp

end Shm
