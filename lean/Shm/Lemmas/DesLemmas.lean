/-
  The Feistel structure of DES inverts itself under the reversed key schedule - for EVERY round function and EVERY key schedule.
-/
import Shm.Crypto.DES
namespace Shm.Crypto.DES

theorem rounds_cons {K : Type} (f : K → UInt32 → UInt32) (k : K) (ks : List K) (l r : UInt32) :
    rounds f (k :: ks) (l, r) = rounds f ks (r, l ^^^ f k r) := rfl

theorem rounds_append_single {K : Type} (f : K → UInt32 → UInt32) (k : K) (ks : List K) (x : UInt32 × UInt32) :
    rounds f (ks ++ [k]) x = ((rounds f ks x).2, (rounds f ks x).1 ^^^ f k (rounds f ks x).2) := by
  simp [rounds, List.foldl_append]

/-- running the rounds again on the exchanged halves with the reversed schedule gives the exchanged input back -/
theorem rounds_inverse {K : Type} (f : K → UInt32 → UInt32) (ks : List K) (l r : UInt32) :
    rounds f ks.reverse ((rounds f ks (l, r)).2, (rounds f ks (l, r)).1) = (r, l) := by
  induction ks generalizing l r with
  | nil => rfl
  | cons k ks ih =>
    rw [rounds_cons, List.reverse_cons, rounds_append_single, ih]
    simp only
    rw [UInt32.xor_assoc, UInt32.xor_self, UInt32.xor_zero]

theorem core_inverse {K : Type} (f : K → UInt32 → UInt32) (ks : List K) (x : UInt32 × UInt32) :
    core f ks.reverse (core f ks x) = x := by
  obtain ⟨l, r⟩ := x
  simp only [core]
  rw [rounds_inverse]

end Shm.Crypto.DES
