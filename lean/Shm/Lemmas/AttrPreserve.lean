/-
  Lifting the abstract interpreter to `updateAttribute`, `applyEntries`, `saveTemplate`:
  a decidable check on an attribute descriptor implies that applying ANY template entry to it
  keeps the tracked boolean attribute at `goal` whenever the update succeeds.
-/
import Shm.Lemmas.AbsInt
namespace Shm

/-- abstract check of an `updateAttr` body reached from `P11Attribute::update` with knowledge `tv` -/
def kindPreserves (k : UKind) (c : AbsCtx) (tv goal : Bool) : Bool :=
  match k with
  | .prog p =>
    (absRun c p tv).all fun o =>
      match o.kind with
      | .bad => false
      | .done rv => rv != CKR.OK || o.tv == goal
      | .base => c.selfTy != c.target && o.tv == goal
      | .call => true          -- not a valid end of an updateAttr body: reported as GENERAL_ERROR
      | .fell => true
  | .bytesEnc => c.selfTy != c.target && tv == goal
  | .checkValue => c.selfTy != c.target && tv == goal
  | .attrMap => c.selfTy != c.target && tv == goal
  | .mechSet => c.selfTy != c.target && tv == goal
  | .value => c.selfTy != c.target && c.target != 0x161 && c.target != 0x160 && c.target != CKA.CHECK_VALUE && tv == goal
  | .bytesEncModulus => c.selfTy != c.target && c.target != 0x121 && tv == goal
  | .bytesEncPrime => c.selfTy != c.target && c.target != 0x133 && tv == goal
  | .unknown => false

/-- abstract check of one attribute: `P11Attribute::update` followed by its `updateAttr` -/
def attrPreserves (d : AttrDesc) (op : Nat) (soIn : Option Bool) (T : Nat) (goal : Bool) : Bool :=
  let c : AbsCtx := { op := op, soIn := soIn, selfTy := d.ty, target := T }
  (absRun c Gen.genericUpdate goal).all fun o1 =>
    match o1.kind with
    | .bad => false
    | .done rv => rv != CKR.OK || o1.tv == goal
    | .call => kindPreserves d.upd c o1.tv goal
    | .base => true            -- GENERAL_ERROR in `updateAttribute`
    | .fell => true

theorem kindPreserves_sound (k : UKind) (c : AbsCtx) (e : UEnv) (hc : Cons c e) (tv goal : Bool)
    (hchk : kindPreserves k c tv goal = true) (o : Attrs) (hk : Knows o c.target tv)
    (nested : Option (List (Nat × Option Bytes × Nat))) (oRv : RV) (o' : Attrs)
    (hrun : runUpdateAttr k e nested o oRv = (CKR.OK, o')) : Knows o' c.target goal := by
  have hself : e.selfTy = c.selfTy := hc.2.1
  cases k with
  | prog p =>
    simp only [kindPreserves, List.all_eq_true] at hchk
    simp only [runUpdateAttr] at hrun
    rcases absRun_sound c e hc p tv o hk with ⟨out, hm, hb⟩ | ⟨out, hm, hd⟩
    · have := hchk out hm; simp [hb] at this
    · have hch := hchk out hm
      cases hr : runProg e p o with
      | done rv o2 =>
        rw [hr] at hrun hd
        simp only [Describes] at hd
        simp at hrun
        obtain ⟨h1, h2⟩ := hrun
        subst h2; rw [hd.1] at hch; subst h1
        simp at hch
        rw [← hch]; exact hd.2
      | base o2 =>
        rw [hr] at hrun hd
        simp only [Describes] at hd
        simp at hrun
        subst hrun
        rw [hd.1] at hch
        simp at hch
        rw [← hch.2, hself]
        exact hd.2.setA_other _ _ (fun hh => hch.1 hh.symm)
      | call o2 => rw [hr] at hrun; simp at hrun
      | fell o2 => rw [hr] at hrun; simp at hrun
  | bytesEnc =>
    simp [kindPreserves] at hchk
    simp only [runUpdateAttr] at hrun
    simp at hrun; subst hrun; rw [← hchk.2, hself]
    exact hk.setA_other _ _ (fun hh => hchk.1 hh.symm)
  | checkValue =>
    simp [kindPreserves] at hchk
    simp only [runUpdateAttr] at hrun
    rw [← hchk.2]
    split at hrun
    · simp at hrun; subst hrun; rw [hself]; exact hk.setA_other _ _ (fun hh => hchk.1 hh.symm)
    · split at hrun
      · simp at hrun; subst hrun; rw [hself]; exact hk.setA_other _ _ (fun hh => hchk.1 hh.symm)
      · simp at hrun; rw [← hrun.2]; exact hk
  | attrMap =>
    simp [kindPreserves] at hchk
    simp only [runUpdateAttr] at hrun
    rw [← hchk.2]
    split at hrun
    · simp at hrun
    · split at hrun
      · simp at hrun; subst hrun; rw [hself]; exact hk.setA_other _ _ (fun hh => hchk.1 hh.symm)
      · simp at hrun; rw [← hrun.2]; exact hk
  | mechSet =>
    simp [kindPreserves] at hchk
    simp only [runUpdateAttr] at hrun
    rw [← hchk.2]
    split at hrun
    · simp at hrun
    · simp at hrun; subst hrun; rw [hself]; exact hk.setA_other _ _ (fun hh => hchk.1 hh.symm)
  | value =>
    simp [kindPreserves] at hchk
    obtain ⟨⟨⟨⟨h1, h2⟩, h3⟩, h4⟩, h5⟩ := hchk
    simp only [runUpdateAttr] at hrun
    simp at hrun
    subst hrun; rw [← h5, hself]
    have k1 : Knows (setA o c.selfTy (AVal.bytes e.bytes e.isPrivate)) c.target tv := hk.setA_other _ _ (fun hh => h1 hh.symm)
    repeat' (first | split | exact k1 | (apply Knows.setA_other _ _ _ (by intro hh; first | exact h2 hh | exact h3 hh | exact h4 hh)))
  | bytesEncModulus =>
    simp [kindPreserves] at hchk
    obtain ⟨⟨h1, h2⟩, h5⟩ := hchk
    simp only [runUpdateAttr] at hrun
    simp at hrun
    subst hrun; rw [← h5, hself]
    have k1 : Knows (setA o c.selfTy (AVal.bytes e.bytes e.isPrivate)) c.target tv := hk.setA_other _ _ (fun hh => h1 hh.symm)
    split
    · exact k1.setA_other _ _ h2
    · exact k1
  | bytesEncPrime =>
    simp [kindPreserves] at hchk
    obtain ⟨⟨h1, h2⟩, h5⟩ := hchk
    simp only [runUpdateAttr] at hrun
    simp at hrun
    subst hrun; rw [← h5, hself]
    have k1 : Knows (setA o c.selfTy (AVal.bytes e.bytes e.isPrivate)) c.target tv := hk.setA_other _ _ (fun hh => h1 hh.symm)
    split
    · exact k1.setA_other _ _ h2
    · exact k1
  | unknown => simp [kindPreserves] at hchk

theorem attrPreserves_sound (d : AttrDesc) (t : TEntry) (op : Nat) (isPrivate soIn : Bool) (soK : Option Bool)
    (hso : ∀ b, soK = some b → soIn = b) (T : Nat) (goal : Bool)
    (hchk : attrPreserves d op soK T goal = true) (o : Attrs) (hk : Knows o T goal) (oRv : RV) (o' : Attrs)
    (hrun : updateAttribute d t op isPrivate soIn o oRv = (CKR.OK, o')) : Knows o' T goal := by
  unfold updateAttribute at hrun
  unfold attrPreserves at hchk
  simp only [List.all_eq_true] at hchk
  generalize he : mkEnv d t op isPrivate soIn = e at hrun
  have hc : Cons { op := op, soIn := soK, selfTy := d.ty, target := T } e := by
    subst he
    exact ⟨rfl, rfl, fun b hb => hso b hb, fun b hb => by cases hb⟩
  rcases absRun_sound _ e hc Gen.genericUpdate goal o hk with ⟨out, hm, hb⟩ | ⟨out, hm, hd⟩
  · have := hchk out hm; simp [hb] at this
  · have hch := hchk out hm
    cases hr : runProg e Gen.genericUpdate o with
    | done rv o2 =>
      rw [hr] at hrun hd
      simp only [Describes] at hd
      simp at hrun
      obtain ⟨h1, h2⟩ := hrun
      subst h2; rw [hd.1] at hch; subst h1
      simp at hch
      rw [← hch]; exact hd.2
    | fell o2 => rw [hr] at hrun; simp at hrun
    | base o2 => rw [hr] at hrun; simp at hrun
    | call o2 =>
      rw [hr] at hrun hd
      simp only [Describes] at hd
      simp only [] at hrun
      rw [hd.1] at hch
      exact kindPreserves_sound d.upd _ e hc out.tv goal hch o2 hd.2 t.nested oRv o' hrun

/-- the loop of `saveTemplate`: if every attribute of the class passes the abstract check, a template that is
    accepted as a whole keeps the tracked attribute at `goal` -/
theorem applyEntries_preserves (cd : ClassDesc) (op : Nat) (isPrivate soIn : Bool) (soK : Option Bool)
    (hso : ∀ b, soK = some b → soIn = b) (T : Nat) (goal : Bool)
    (hall : cd.attrs.all (fun d => attrPreserves d op soK T goal) = true) (oRv : RV) :
    ∀ (tpl : Template) (o o' : Attrs), Knows o T goal →
      applyEntries cd op isPrivate soIn oRv tpl o = (CKR.OK, o') → Knows o' T goal := by
  intro tpl
  induction tpl with
  | nil => intro o o' hk h; simp [applyEntries] at h; subst h; exact hk
  | cons t rest ih =>
    intro o o' hk h
    unfold applyEntries at h
    cases hd : descOf cd t.ty with
    | none => simp [hd] at h
    | some d =>
      simp only [hd] at h
      have hmem : d ∈ cd.attrs := by
        unfold descOf at hd; exact List.mem_of_find?_eq_some hd
      have hchk : attrPreserves d op soK T goal = true := by
        rw [List.all_eq_true] at hall; exact hall d hmem
      cases hu : updateAttribute d t op isPrivate soIn o oRv with
      | mk rv o1 =>
        rw [hu] at h
        simp only [] at h
        by_cases hrv : rv = CKR.OK
        · subst hrv
          simp at h
          exact ih o1 o' (attrPreserves_sound d t op isPrivate soIn soK hso T goal hchk o hk oRv o1 hu) h
        · have : (rv != CKR.OK) = true := by simp [bne_iff_ne]; exact hrv
          simp [this] at h
          exact absurd h.1 hrv

theorem saveTemplate_preserves (cd : ClassDesc) (op : Nat) (isPrivate soIn : Bool) (soK : Option Bool)
    (hso : ∀ b, soK = some b → soIn = b) (T : Nat) (goal : Bool)
    (hall : cd.attrs.all (fun d => attrPreserves d op soK T goal) = true) (oRv : RV)
    (tpl : Template) (o o' : Attrs) (hk : Knows o T goal)
    (h : saveTemplate cd o tpl op isPrivate soIn oRv = .ok o') : Knows o' T goal := by
  unfold saveTemplate at h
  split at h
  · cases h
  · split at h
    · cases h
    · dsimp only at h
      split at h
      · cases h
      · split at h
        · cases h
        · rename_i hne _
          simp at h
          have hrv : (applyEntries cd op isPrivate soIn oRv tpl o).1 = CKR.OK := by simpa using hne
          apply applyEntries_preserves cd op isPrivate soIn soK hso T goal hall oRv tpl o o' hk
          rw [← h, ← hrv]

end Shm
