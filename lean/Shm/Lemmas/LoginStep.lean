/-
  Preservation of the login invariant by every call.
-/
import Shm.Lemmas.LoginInv
namespace Shm

theorem haveSession_append_sess (t : HTable) (k : Nat) (x : Sess) (id : Nat) :
    HTable.haveSession (t ++ [(k, .sess x)]) id = (t.haveSession id || x.slot == id) := by
  rw [haveSession_anyE, anyE_append]; rfl

theorem haveROSession_append_sess (t : HTable) (k : Nat) (x : Sess) (id : Nat) :
    HTable.haveROSession (t ++ [(k, .sess x)]) id = (t.haveROSession id || (x.slot == id && !x.rw)) := by
  rw [haveROSession_anyE, anyE_append]; rfl

theorem haveSession_append_obj (t : HTable) (k : Nat) (o : ObjH) (id : Nat) :
    HTable.haveSession (t ++ [(k, .obj o)]) id = t.haveSession id := by
  rw [haveSession_anyE, anyE_append]; simp [isSessOn, haveSession_anyE]

theorem haveROSession_append_obj (t : HTable) (k : Nat) (o : ObjH) (id : Nat) :
    HTable.haveROSession (t ++ [(k, .obj o)]) id = t.haveROSession id := by
  rw [haveROSession_anyE, anyE_append]; simp [isROSessOn, haveROSession_anyE]

/-- erasing only object entries changes neither predicate -/
theorem anyE_eraseIf_objs (t : HTable) (p : Nat → Ent → Bool) (q : Ent → Bool) (hq : SessOnly q)
    (hp : ∀ k x, p k (.sess x) = false) : anyE (t.eraseIf p) q = anyE t q := by
  apply anyE_eraseIf_irrelevant
  intro e _ hpe
  cases he : e.2 with
  | sess x => rw [he, hp] at hpe; simp at hpe
  | obj o => exact hq o

theorem anyE_destroyObject (t : HTable) (o : Nat) (q : Ent → Bool) (hq : SessOnly q) (c : Nat) (hwf : t.WF c) :
    anyE (t.destroyObject o) q = anyE t q := by
  unfold HTable.destroyObject
  split
  · rfl
  · rename_i e he
    apply anyE_eraseIf_irrelevant
    intro x hx hpe
    have hk : x.1 = o := by simpa using hpe
    have hm : (o, Ent.obj e) ∈ t := by
      unfold HTable.getObjH at he
      split at he
      · rename_i o' hg; cases he; exact lookup_mem _ _ _ hg
      · simp at he
    have : x.2 = Ent.obj e := by
      obtain ⟨k, v⟩ := x
      simp at hk; subst hk
      exact mem_unique hwf hx hm
    rw [this]; exact hq e

theorem anyE_allSessionsClosed_isSessOn (t : HTable) (slot id : Nat) :
    anyE (t.allSessionsClosed slot) (isSessOn id) = (if id = slot then false else anyE t (isSessOn id)) := by
  unfold HTable.allSessionsClosed
  by_cases h : id = slot
  · subst h
    simp only [if_true]
    rw [anyE_eraseIf, List.any_eq_false]
    intro e _
    cases he : e.2 <;> simp [he, isSessOn, Ent.slot]
  · simp only [h, if_false]
    apply anyE_eraseIf_irrelevant
    intro e _ hp
    cases he : e.2 with
    | obj o => rfl
    | sess x =>
      simp [he, Ent.slot] at hp
      simp [isSessOn, hp]; exact fun hh => h hh.symm

theorem anyE_allSessionsClosed_isROSessOn (t : HTable) (slot id : Nat) :
    anyE (t.allSessionsClosed slot) (isROSessOn id) = (if id = slot then false else anyE t (isROSessOn id)) := by
  unfold HTable.allSessionsClosed
  by_cases h : id = slot
  · subst h
    simp only [if_true]
    rw [anyE_eraseIf, List.any_eq_false]
    intro e _
    cases he : e.2 <;> simp [he, isROSessOn, Ent.slot]
    intro hh; simp [hh]
  · simp only [h, if_false]
    apply anyE_eraseIf_irrelevant
    intro e _ hp
    cases he : e.2 with
    | obj o => rfl
    | sess x =>
      simp [he, Ent.slot] at hp
      simp [isROSessOn, hp]; intro hh; exact absurd hh.symm h

end Shm

namespace Shm

/-- table changed only in object entries / session op state -/
theorem LInv.of_sess_same {ss : List Slot} {t t' : HTable}
    (hq : ∀ q, SessOnly q → (∀ x y : Sess, x.slot = y.slot → x.rw = y.rw → q (.sess x) = q (.sess y)) →
      anyE t' q = anyE t q) (h : LInv ss t) : LInv ss t' :=
  h.frame (fun _ => rfl)
    (fun id => hq _ (sessOnly_isSessOn id) (fun x y h1 _ => by simp [isSessOn, h1]))
    (fun id => hq _ (sessOnly_isROSessOn id) (fun x y h1 h2 => by simp [isROSessOn, h1, h2]))

/-- a token's record replaced by one with the same login flags -/
theorem LInv.of_setTok_same {ss : List Slot} {tb : HTable} {id : Nat} {t t' : Tok} (ht : findTok ss id = some t)
    (h1 : t'.soIn = t.soIn) (h2 : t'.userIn = t.userIn) (h : LInv ss tb) : LInv (setTok ss id t') tb := by
  apply h.frame _ (fun _ => rfl) (fun _ => rfl)
  intro id'
  rw [loginAt_setTok ss id t' id' (findTok_some_findSlot ht)]
  by_cases hid : id' = id
  · subst hid; simp [loginAt, ht, h1, h2]
  · simp [hid]

theorem LInv.append_obj {ss : List Slot} {t : HTable} (k : Nat) (o : ObjH) (h : LInv ss t) : LInv ss (t ++ [(k, .obj o)]) :=
  h.frame (fun _ => rfl) (fun id => haveSession_append_obj t k o id) (fun id => haveROSession_append_obj t k o id)

theorem inv_openSession (s : State) (slot flags : Nat) (h : LoginInv s) : LoginInv (stepOpenSession s slot flags).1 := by
  unfold LoginInv at *
  unfold stepOpenSession
  step_cases <;> try exact h
  rename_i _ sl hsl hser _ t ht hrefuse
  have hft : findTok s.slots slot = some t := by simp [findTok, hsl, ht]
  have hla : loginAt s.slots slot = some (t.soIn, t.userIn) := by simp [loginAt, hft]
  refine ⟨fun id => h.excl id, ?_, ?_⟩
  · intro id u hu
    rw [haveROSession_append_sess, h.soNoRO id u hu]
    by_cases hid : slot = id
    · subst hid
      rw [hla] at hu
      have hso : t.soIn = true := by simpa using congrArg (fun o => o.map Prod.fst) hu
      simp [hso] at hrefuse
      simp [hrefuse]
    · have : (slot == id) = false := by simp [beq_eq_false_iff_ne]; exact hid
      simp [this]
  · intro id l hl hse
    rw [haveSession_append_sess] at hse
    exact h.noSessPublic id l hl (by cases hh : s.handles.haveSession id <;> simp_all)

theorem inv_closeAll (s : State) (slot : Nat) (h : LoginInv s) : LoginInv (stepCloseAll s slot).1 := by
  unfold LoginInv at *
  unfold stepCloseAll
  step_cases <;> try exact h
  refine ⟨?_, ?_, ?_⟩
  · intro id; rw [loginAt_logoutSlot]
    by_cases hid : id = slot
    · subst hid; simp
    · simp [hid]; exact h.excl id
  · intro id u hu; rw [loginAt_logoutSlot] at hu
    rw [haveROSession_anyE, anyE_allSessionsClosed_isROSessOn]
    by_cases hid : id = slot
    · simp [hid]
    · simp [hid] at hu ⊢; exact h.soNoRO id u hu
  · intro id l hl hse; rw [loginAt_logoutSlot] at hl
    by_cases hid : id = slot
    · subst hid
      rw [if_pos rfl] at hl
      cases hlo' : loginAt s.slots id with
      | none => rw [hlo'] at hl; cases hl
      | some v => rw [hlo'] at hl; exact (Option.some.inj hl).symm
    · simp [hid] at hl
      rw [haveSession_anyE, anyE_allSessionsClosed_isSessOn] at hse
      simp [hid] at hse
      exact h.noSessPublic id l hl hse

theorem inv_logout (s : State) (k : Nat) (h : LoginInv s) : LoginInv (stepLogout s k).1 := by
  unfold LoginInv at *
  unfold stepLogout
  step_cases <;> try exact h
  rename_i _ ss hs _ t ht
  have hq : ∀ q, SessOnly q → anyE (s.handles.tokenLoggedOut ss.slot) q = anyE s.handles q := by
    intro q hq
    unfold HTable.tokenLoggedOut
    exact anyE_eraseIf_objs _ _ q hq (fun _ _ => rfl)
  refine ⟨?_, ?_, ?_⟩
  · intro id; rw [loginAt_logoutSlot]
    by_cases hid : id = ss.slot
    · subst hid; simp
    · simp [hid]; exact h.excl id
  · intro id u hu; rw [loginAt_logoutSlot] at hu
    rw [haveROSession_anyE, hq _ (sessOnly_isROSessOn id)]
    by_cases hid : id = ss.slot
    · subst hid; simp at hu
    · simp [hid] at hu; exact h.soNoRO id u hu
  · intro id l hl hse; rw [loginAt_logoutSlot] at hl
    rw [haveSession_anyE, hq _ (sessOnly_isSessOn id)] at hse
    by_cases hid : id = ss.slot
    · subst hid
      rw [if_pos rfl] at hl
      cases hlo' : loginAt s.slots ss.slot with
      | none => rw [hlo'] at hl; cases hl
      | some v => rw [hlo'] at hl; exact (Option.some.inj hl).symm
    · simp [hid] at hl; exact h.noSessPublic id l hl hse

theorem anyE_setSess_same (t : HTable) (k : Nat) (ss x : Sess) (c : Nat) (hwf : t.WF c) (hs : t.getSess k = some ss)
    (h1 : x.slot = ss.slot) (h2 : x.rw = ss.rw) (q : Ent → Bool)
    (hq : ∀ x y : Sess, x.slot = y.slot → x.rw = y.rw → q (.sess x) = q (.sess y)) :
    anyE (t.setSess k x) q = anyE t q := by
  apply anyE_setSess
  intro e he
  have := mem_unique hwf he (getSess_mem hs)
  subst this
  simp [updSess, replSess]
  exact hq _ _ h1 h2

/-- SO login at `slot` under the conditions `Token::loginSO` / `C_Login` check -/
theorem LInv.login_so {ss : List Slot} {tb : HTable} {slot : Nat} {t t' : Tok} (h : LInv ss tb)
    (ht : findTok ss slot = some t) (hro : tb.haveROSession slot = false) (hu : t.userIn = false)
    (hsess : tb.haveSession slot = true) (h1 : t'.soIn = true) (h2 : t'.userIn = t.userIn) :
    LInv (setTok ss slot t') tb := by
  have hsome := findTok_some_findSlot ht
  refine ⟨?_, ?_, ?_⟩
  · intro id; rw [loginAt_setTok _ _ _ _ hsome]; by_cases hid : id = slot
    · simp [hid, h1, h2, hu]
    · simp [hid]; exact h.excl id
  · intro id u' hu2; rw [loginAt_setTok _ _ _ _ hsome] at hu2
    by_cases hid : id = slot
    · subst hid; exact hro
    · simp [hid] at hu2; exact h.soNoRO id u' hu2
  · intro id l hl hse; rw [loginAt_setTok _ _ _ _ hsome] at hl
    by_cases hid : id = slot
    · subst hid; rw [hsess] at hse; simp at hse
    · simp [hid] at hl; exact h.noSessPublic id l hl hse

theorem LInv.login_user {ss : List Slot} {tb : HTable} {slot : Nat} {t t' : Tok} (h : LInv ss tb)
    (ht : findTok ss slot = some t) (hso : t.soIn = false)
    (hsess : tb.haveSession slot = true) (h1 : t'.soIn = t.soIn) :
    LInv (setTok ss slot t') tb := by
  have hsome := findTok_some_findSlot ht
  refine ⟨?_, ?_, ?_⟩
  · intro id; rw [loginAt_setTok _ _ _ _ hsome]; by_cases hid : id = slot
    · simp [hid, h1, hso]
    · simp [hid]; exact h.excl id
  · intro id u' hu2; rw [loginAt_setTok _ _ _ _ hsome] at hu2
    by_cases hid : id = slot
    · simp [hid, h1, hso] at hu2
    · simp [hid] at hu2; exact h.soNoRO id u' hu2
  · intro id l hl hse; rw [loginAt_setTok _ _ _ _ hsome] at hl
    by_cases hid : id = slot
    · subst hid; rw [hsess] at hse; simp at hse
    · simp [hid] at hl; exact h.noSessPublic id l hl hse

theorem inv_login (s : State) (hwf : s.WF) (k u : Nat) (p : Option Bytes) (h : LoginInv s) : LoginInv (stepLogin s k u p).1 := by
  unfold LoginInv at *
  unfold stepLogin
  split
  · exact h
  next ss hs =>
    have hsess := haveSession_of_getSess hs
    split
    · exact h
    next p =>
      split
      · exact h
      next t ht =>
        split
        · -- SO
          step_cases <;> try exact h
          · exact h.of_setTok_same ht rfl rfl
          · rename_i hro hu hso hp
            exact h.login_so ht (by simpa using hro) (by simpa using hu) hsess rfl rfl
        · -- user
          step_cases <;> try exact h
          · exact h.of_setTok_same ht rfl rfl
          · rename_i hso hu _ up hup hp
            exact h.login_user ht (by simpa using hso) hsess rfl
        · -- context specific: flags of the token unchanged, the session keeps slot and R/W flag
          step_cases <;> try exact h
          all_goals first
            | exact h.of_setTok_same ht rfl rfl
            | exact (h.of_setTok_same ht (by rfl) (by rfl)).of_sess_same
                (fun q _ hq2 => anyE_setSess_same s.handles k ss _ s.counter hwf hs (by rfl) (by rfl) q hq2)
        · exact h

theorem any_mono {α} (l : List α) (p q : α → Bool) (h : ∀ a, p a = true → q a = true) (hq : l.any q = false) :
    l.any p = false := by
  rw [List.any_eq_false] at *
  intro x hx hp
  exact hq x hx (h x hp)

theorem inv_closeSession (s : State) (hwf : s.WF) (k : Nat) (h : LoginInv s) : LoginInv (stepCloseSession s k).1 := by
  unfold LoginInv at *
  unfold stepCloseSession
  split
  · exact h
  next ss hs =>
    dsimp only
    have hmem := getSess_mem hs
    have hSess : ∀ id, (s.handles.sessionClosed k).haveSession id = s.handles.any (fun e => e.1 != k && isSessOn id e.2) :=
      fun id => anyE_sessionClosed s.handles k ss hs _ (sessOnly_isSessOn id) (fun x _ hx => by simp [isSessOn, hx])
    have hRO : ∀ id, (s.handles.sessionClosed k).haveROSession id = s.handles.any (fun e => e.1 != k && isROSessOn id e.2) :=
      fun id => anyE_sessionClosed s.handles k ss hs _ (sessOnly_isROSessOn id) (fun x _ hx => by simp [isSessOn, hx])
    have hlast : (s.handles.eraseIf fun k' _ => k' == k).haveSession ss.slot = s.handles.any (fun e => e.1 != k && isSessOn ss.slot e.2) := by
      rw [haveSession_anyE, anyE_eraseIf]; congr 1
    -- sessions of other slots are not affected by removing `k`
    have hother : ∀ id, id ≠ ss.slot → s.handles.any (fun e => e.1 != k && isSessOn id e.2) = s.handles.haveSession id := by
      intro id hid
      rw [haveSession_anyE, Bool.eq_iff_iff, List.any_eq_true, anyE_true_iff]
      constructor
      · rintro ⟨e, he, hq⟩; exact ⟨e, he, by simp at hq; exact hq.2⟩
      · rintro ⟨e, he, hq⟩
        refine ⟨e, he, ?_⟩
        have hne : e.1 ≠ k := by
          intro hek
          obtain ⟨a, v⟩ := e
          simp at hek; subst hek
          have := mem_unique hwf he hmem
          subst this
          simp [isSessOn] at hq
          exact hid hq.symm
        simp [hq, hne]
    have hROle : ∀ id, s.handles.haveROSession id = false → s.handles.any (fun e => e.1 != k && isROSessOn id e.2) = false :=
      fun id hf => any_mono _ _ _ (fun a ha => by simp at ha; exact ha.2) hf
    split
    · -- last session of the slot: the token is logged out
      rename_i hl
      rw [hlast] at hl
      have hl' : s.handles.any (fun e => e.1 != k && isSessOn ss.slot e.2) = false := by simpa using hl
      refine ⟨?_, ?_, ?_⟩
      · intro id; rw [loginAt_logoutSlot]
        by_cases hid : id = ss.slot
        · subst hid; simp
        · simp [hid]; exact h.excl id
      · intro id u hu; rw [loginAt_logoutSlot] at hu
        by_cases hid : id = ss.slot
        · subst hid; simp at hu
        · simp [hid] at hu; rw [hRO]; exact hROle id (h.soNoRO id u hu)
      · intro id l hl2 hse; rw [loginAt_logoutSlot] at hl2
        by_cases hid : id = ss.slot
        · subst hid
          rw [if_pos rfl] at hl2
          cases hlo' : loginAt s.slots ss.slot with
          | none => rw [hlo'] at hl2; cases hl2
          | some v => rw [hlo'] at hl2; exact (Option.some.inj hl2).symm
        · simp [hid] at hl2
          rw [hSess, hother id hid] at hse
          exact h.noSessPublic id l hl2 hse
    · -- another session of the slot remains: login state unchanged
      rename_i hl
      rw [hlast] at hl
      have hl' : s.handles.any (fun e => e.1 != k && isSessOn ss.slot e.2) = true := by simpa using hl
      refine ⟨h.excl, ?_, ?_⟩
      · intro id u hu; rw [hRO]; exact hROle id (h.soNoRO id u hu)
      · intro id l hl2 hse
        rw [hSess] at hse
        by_cases hid : id = ss.slot
        · subst hid; rw [hl'] at hse; cases hse
        · rw [hother id hid] at hse; exact h.noSessPublic id l hl2 hse

theorem findTok_append_free (ss : List Slot) (fid id : Nat) (hno : ss.any (·.id == fid) = false) :
    findTok (ss ++ [{ id := fid, tok := none }]) id = findTok ss id := by
  unfold findTok findSlot
  rw [List.find?_append]
  cases hf : ss.find? (·.id == id) with
  | some sl => simp
  | none =>
    simp only [Option.none_or]
    by_cases h : fid = id
    · subst h; simp [List.find?]
    · have : (fid == id) = false := by simp [beq_eq_false_iff_ne]; exact h
      simp [List.find?, this]

theorem loginAt_ensureFreeSlot (ss : List Slot) (id : Nat) : loginAt (ensureFreeSlot ss) id = loginAt ss id := by
  unfold ensureFreeSlot loginAt
  split
  · rfl
  · dsimp only
    split
    · rfl
    · rename_i hno
      rw [findTok_append_free _ _ _ (by simpa using hno)]

theorem inv_slots (s : State) (h : LoginInv s) : LoginInv (stepSlots s).1 := by
  unfold LoginInv at *
  unfold stepSlots
  exact h.frame (fun id => loginAt_ensureFreeSlot s.slots id) (fun _ => rfl) (fun _ => rfl)

theorem inv_initToken (s : State) (slot : Nat) (pin : Option Bytes) (label ser : Bytes) (h : LoginInv s) :
    LoginInv (stepInitToken s slot pin label ser).1 := by
  unfold LoginInv at *
  unfold stepInitToken
  split
  · exact h
  next sl hsl =>
    have hsome : (findSlot s.slots slot).isSome := by simp [hsl]
    -- a token record that is in the public state may replace whatever was in the slot
    have key : ∀ t' : Tok, t'.soIn = false → t'.userIn = false → LInv (setTok s.slots slot t') s.handles := by
      intro t' h1 h2
      refine ⟨?_, ?_, ?_⟩
      · intro id; rw [loginAt_setTok _ _ _ _ hsome]; by_cases hid : id = slot
        · simp [hid, h1]
        · simp [hid]; exact h.excl id
      · intro id u hu; rw [loginAt_setTok _ _ _ _ hsome] at hu; by_cases hid : id = slot
        · simp [hid, h1] at hu
        · simp [hid] at hu; exact h.soNoRO id u hu
      · intro id l hl hse; rw [loginAt_setTok _ _ _ _ hsome] at hl; by_cases hid : id = slot
        · simp [hid, h1, h2] at hl; exact hl.symm
        · simp [hid] at hl; exact h.noSessPublic id l hl hse
    step_cases <;> try exact h
    · rename_i t ht _
      have hft : findTok s.slots slot = some t := by simp [findTok, hsl, ht]
      exact h.of_setTok_same hft rfl rfl
    · exact key _ rfl rfl
    · exact key _ rfl rfl

theorem inv_initPin (s : State) (k : Nat) (p : Option Bytes) (h : LoginInv s) : LoginInv (stepInitPin s k p).1 := by
  unfold LoginInv at *
  unfold stepInitPin
  split
  · exact h
  next ss hs =>
    split
    · exact h
    next t ht =>
      step_cases <;> first | exact h | exact h.of_setTok_same ht rfl rfl

theorem inv_setPin (s : State) (k : Nat) (o n : Option Bytes) (h : LoginInv s) : LoginInv (stepSetPin s k o n).1 := by
  unfold LoginInv at *
  unfold stepSetPin
  split
  · exact h
  next ss hs =>
    split
    · exact h
    · exact h
    next o n =>
      split
      · exact h
      · split
        · exact h
        next t ht =>
          step_cases <;> first | exact h | exact h.of_setTok_same ht rfl rfl

theorem inv_create (s : State) (k : Nat) (tpl : Template) (e : RV) (h : LoginInv s) : LoginInv (stepCreate s k tpl e).1 := by
  unfold LoginInv at *
  unfold stepCreate addObject
  step_cases <;> first | exact h | exact h.append_obj _ _

theorem inv_destroy (s : State) (hwf : s.WF) (k o : Nat) (h : LoginInv s) : LoginInv (stepDestroy s k o).1 := by
  unfold LoginInv at *
  unfold stepDestroy
  step_cases <;> first | exact h | skip
  exact h.of_sess_same (fun q hq _ => anyE_destroyObject s.handles o q hq s.counter hwf)

theorem inv_copy (s : State) (k o : Nat) (tpl : Template) (e : RV) (h : LoginInv s) : LoginInv (stepCopy s k o tpl e).1 := by
  unfold LoginInv at *
  unfold stepCopy addObject
  step_cases <;> first | exact h | exact h.append_obj _ _

theorem inv_getAttr (s : State) (k o : Nat) (r : List (Nat × Option Nat)) (ov : List (Nat × Option Bytes)) (h : LoginInv s) :
    LoginInv (stepGetAttr s k o r ov).1 := by
  unfold LoginInv at *
  unfold stepGetAttr
  step_cases <;> exact h

theorem inv_setAttr (s : State) (k o : Nat) (tpl : Template) (e : RV) (h : LoginInv s) : LoginInv (stepSetAttr s k o tpl e).1 := by
  unfold LoginInv at *
  unfold stepSetAttr
  step_cases <;> exact h

theorem inv_objSize (s : State) (k o : Nat) (h : LoginInv s) : LoginInv (stepObjSize s k o).1 := by
  unfold LoginInv at *
  unfold stepObjSize
  step_cases <;> exact h

theorem inv_objProbe (s : State) (k o : Nat) (h : LoginInv s) : LoginInv (stepObjProbe s k o).1 := by
  unfold LoginInv at *
  unfold stepObjProbe
  step_cases <;> exact h

theorem inv_find (s : State) (hwf : s.WF) (k m : Nat) (h : LoginInv s) : LoginInv (stepFind s k m).1 := by
  unfold LoginInv at *
  unfold stepFind
  split
  · exact h
  next ss hs =>
    split
    · exact h
    · exact h.of_sess_same (fun q _ hq2 => anyE_setSess_same s.handles k ss _ s.counter hwf hs (by rfl) (by rfl) q hq2)

theorem inv_findFinal (s : State) (hwf : s.WF) (k : Nat) (h : LoginInv s) : LoginInv (stepFindFinal s k).1 := by
  unfold LoginInv at *
  unfold stepFindFinal
  split
  · exact h
  next ss hs =>
    split
    · exact h
    · exact h.of_sess_same (fun q _ hq2 => anyE_setSess_same s.handles k ss _ s.counter hwf hs (by rfl) (by rfl) q hq2)

theorem getSess_mintAll {t : HTable} {c : Nat} (hwf : t.WF c) (slot hS : Nat) (os : List Obj) (k : Nat) (ss : Sess)
    (hs : t.getSess k = some ss) : (mintAll t c slot hS os).getSess k = some ss := by
  have hk : k ≤ c := by have := hwf.bound _ (getSess_mem hs); simpa using this
  unfold HTable.getSess
  rw [get_mintAll_old hwf _ _ _ k hk, getSess_get hs]

theorem inv_findInit (s : State) (hwf : s.WF) (k : Nat) (tpl : Template) (m : List (Nat × Bytes)) (h : LoginInv s) :
    LoginInv (stepFindInit s k tpl m).1 := by
  unfold LoginInv at *
  unfold stepFindInit
  split
  · split <;> exact h
  next ss t hst =>
    have hs := sessTok_getSess hst
    step_cases <;> first | exact h | skip
    apply h.of_sess_same
    intro q hq1 hq2
    refine (anyE_setSess_same _ k ss _ _ (hwf.mintAll _ _ _) (getSess_mintAll hwf _ _ _ k ss hs) (by rfl) (by rfl) q hq2).trans ?_
    exact anyE_mintAll _ _ _ _ _ q hq1

theorem inv_initialize (s : State) (h : LoginInv s) : LoginInv (stepInitialize s).1 := by
  unfold LoginInv at *
  unfold stepInitialize
  split
  · exact h
  · dsimp only
    apply LInv.of_all_public
    apply loginAt_of_all_loggedOut
    intro sl hsl t ht
    have hmem : sl ∈ (s.slots.filterMap fun sl => sl.tok.map fun t =>
        ({ id := slotIdOfSerial t.serial, tok := some { t with soIn := false, userIn := false } } : Slot)) ∨ sl.tok = none := by
      split at hsl
      · exact Or.inl hsl
      · rw [List.mem_append] at hsl
        rcases hsl with hsl | hsl
        · exact Or.inl hsl
        · simp at hsl; exact Or.inr (by rw [hsl])
    rcases hmem with hmem | hmem
    · rw [List.mem_filterMap] at hmem
      obtain ⟨sl0, _, hsl0⟩ := hmem
      cases ht0 : sl0.tok with
      | none => simp [ht0] at hsl0
      | some t0 =>
        simp [ht0] at hsl0
        rw [← hsl0] at ht
        simp at ht
        rw [← ht]; exact ⟨rfl, rfl⟩
    · rw [hmem] at ht; cases ht

theorem inv_finalize (s : State) (h : LoginInv s) : LoginInv (stepFinalize s).1 := by
  unfold LoginInv at *
  unfold stepFinalize
  split
  · exact h
  · dsimp only
    apply LInv.of_all_public
    apply loginAt_of_all_loggedOut
    intro sl hsl t ht
    rw [List.mem_map] at hsl
    obtain ⟨sl0, _, hsl0⟩ := hsl
    rw [← hsl0] at ht
    cases ht0 : sl0.tok with
    | none => simp [ht0] at ht
    | some t0 => simp [ht0, Tok.logout] at ht; rw [← ht]; exact ⟨rfl, rfl⟩

theorem inv_sessInfo (s : State) (k : Nat) (h : LoginInv s) : LoginInv (stepSessInfo s k).1 := by
  unfold LoginInv at *
  unfold stepSessInfo
  step_cases <;> exact h

theorem linv_init : LoginInv {} := LInv.of_all_public (fun id l hl => by simp [loginAt, findTok, findSlot] at hl)

/-- the login invariant (together with table well-formedness) is preserved by every call -/
theorem linv_step (s : State) (c : Call) (hwf : s.WF) (h : LoginInv s) : LoginInv (step s c).1 := by
  cases c with
  | initLib => exact inv_initialize s h
  | finiLib => exact inv_finalize s h
  | slots => simp only [step, guardInit]; split <;> first | exact h | exact inv_slots s h
  | initToken slot pin label ser => simp only [step, guardInit]; split <;> first | exact h | exact inv_initToken s slot pin label ser h
  | openSession slot flags => simp only [step, guardInit]; split <;> first | exact h | exact inv_openSession s slot flags h
  | closeSession k => simp only [step, guardInit]; split <;> first | exact h | exact inv_closeSession s hwf k h
  | closeAll slot => simp only [step, guardInit]; split <;> first | exact h | exact inv_closeAll s slot h
  | sessInfo k => simp only [step, guardInit]; split <;> first | exact h | exact inv_sessInfo s k h
  | login k u p => simp only [step, guardInit]; split <;> first | exact h | exact inv_login s hwf k u p h
  | logout k => simp only [step, guardInit]; split <;> first | exact h | exact inv_logout s k h
  | initPin k p => simp only [step, guardInit]; split <;> first | exact h | exact inv_initPin s k p h
  | setPin k o n => simp only [step, guardInit]; split <;> first | exact h | exact inv_setPin s k o n h
  | create k tpl e => simp only [step, guardInit]; split <;> first | exact h | exact inv_create s k tpl e h
  | destroy k o => simp only [step, guardInit]; split <;> first | exact h | exact inv_destroy s hwf k o h
  | objProbe k o => simp only [step, guardInit]; split <;> first | exact h | exact inv_objProbe s k o h
  | getAttr k o r ov => simp only [step, guardInit]; split <;> first | exact h | exact inv_getAttr s k o r ov h
  | setAttr k o tpl e => simp only [step, guardInit]; split <;> first | exact h | exact inv_setAttr s k o tpl e h
  | copy k o tpl e => simp only [step, guardInit]; split <;> first | exact h | exact inv_copy s k o tpl e h
  | objSize k o => simp only [step, guardInit]; split <;> first | exact h | exact inv_objSize s k o h
  | findInit k tpl m => simp only [step, guardInit]; split <;> first | exact h | exact inv_findInit s hwf k tpl m h
  | find k m => simp only [step, guardInit]; split <;> first | exact h | exact inv_find s hwf k m h
  | findFinal k => simp only [step, guardInit]; split <;> first | exact h | exact inv_findFinal s hwf k h

theorem linv_run (s : State) (cs : List Call) (hwf : s.WF) (h : LoginInv s) : LoginInv (run s cs) := by
  induction cs generalizing s with
  | nil => exact h
  | cons c cs ih => exact ih _ (wf_step s c hwf) (linv_step s c hwf h)

end Shm
