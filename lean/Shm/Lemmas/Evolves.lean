/-
  How the object population changes in one call — for EVERY call of the machine (core, cryptographic, key generation, restart):
  objects are only (a) kept, possibly with new attribute values, (b) removed, or (c) added with a fresh object id.
  Consequences: an object's identity, its token/session nature and its slot never change (except the slot renumbering of
  C_Initialize), object ids are never reused, a destroyed object never reappears.
-/
import Shm.Model.Machine
import Shm.Lemmas.StepInv
namespace Shm

/-- every object of `s'` is an object of `s` with the same identity and token/session nature, or was created by this call -/
def Evolves (s s' : State) : Prop :=
  s.nextOid ≤ s'.nextOid ∧
  ∀ o' ∈ s'.objs, (∃ o ∈ s.objs, o.oid = o'.oid ∧ o.onToken = o'.onToken ∧ o.isPriv = o'.isPriv ∧ o.owner = o'.owner) ∨
                  (s.nextOid ≤ o'.oid ∧ o'.oid < s'.nextOid)

theorem Evolves.refl (s : State) : Evolves s s := ⟨Nat.le_refl _, fun o h => Or.inl ⟨o, h, rfl, rfl, rfl, rfl⟩⟩

theorem evolves_same {s s' : State} (ho : s'.objs = s.objs) (hn : s'.nextOid = s.nextOid) : Evolves s s' :=
  ⟨by omega, fun o h => Or.inl ⟨o, ho ▸ h, rfl, rfl, rfl, rfl⟩⟩

theorem evolves_filter {s s' : State} (p : Obj → Bool) (ho : s'.objs = s.objs.filter p) (hn : s'.nextOid = s.nextOid) : Evolves s s' :=
  ⟨by omega, fun o h => Or.inl ⟨o, (List.mem_filter.mp (ho ▸ h)).1, rfl, rfl, rfl, rfl⟩⟩

theorem evolves_updObj {s s' : State} (oid : Nat) (a : Attrs) (ho : s'.objs = updObj s.objs oid a) (hn : s'.nextOid = s.nextOid) : Evolves s s' := by
  refine ⟨by omega, fun o h => Or.inl ?_⟩
  rw [ho] at h
  simp only [updObj, List.mem_map] at h
  obtain ⟨o0, hm, he⟩ := h
  refine ⟨o0, hm, ?_⟩
  split at he <;> subst he <;> simp

theorem evolves_addObject (s : State) (slot h : Nat) (t p : Bool) (a : Attrs) : Evolves s (addObject s slot h t p a).1 := by
  refine ⟨by simp [addObject], fun o ho => ?_⟩
  simp only [addObject, List.mem_append, List.mem_singleton] at ho
  rcases ho with ho | ho
  · exact Or.inl ⟨o, ho, rfl, rfl, rfl, rfl⟩
  · subst ho; exact Or.inr ⟨Nat.le_refl _, by simp [addObject]⟩

theorem Evolves.trans {a b c : State} (h1 : Evolves a b) (h2 : Evolves b c) : Evolves a c := by
  refine ⟨Nat.le_trans h1.1 h2.1, fun o ho => ?_⟩
  rcases h2.2 o ho with ⟨o1, hm1, e1, e2, e3, e4⟩ | ⟨h3, h4⟩
  · rcases h1.2 o1 hm1 with ⟨o0, hm0, f1, f2, f3, f4⟩ | ⟨h5, h6⟩
    · exact Or.inl ⟨o0, hm0, f1.trans e1, f2.trans e2, f3.trans e3, f4.trans e4⟩
    · exact Or.inr ⟨by omega, by have := h2.1; omega⟩
  · exact Or.inr ⟨by have := h1.1; omega, h4⟩

macro "ev_leaf" : tactic =>
  `(tactic| first
      | exact Evolves.refl _
      | exact evolves_same rfl rfl
      | exact evolves_filter _ rfl rfl
      | exact evolves_updObj _ _ rfl rfl
      | exact evolves_addObject _ _ _ _ _ _
      | exact Evolves.trans (evolves_addObject _ _ _ _ _ _) (evolves_addObject _ _ _ _ _ _))

theorem evolves_initialize (s : State) : Evolves s (stepInitialize s).1 := by
  unfold stepInitialize
  split
  · exact Evolves.refl _
  · refine ⟨Nat.le_refl _, fun o ho => Or.inl ?_⟩
    simp only [List.mem_map, List.mem_filter] at ho
    obtain ⟨o0, ⟨hm, _⟩, he⟩ := ho
    refine ⟨o0, hm, ?_⟩
    split at he <;> subst he <;> simp

theorem evolves_step (s : State) (c : Call) : Evolves s (step s c).1 := by
  cases c <;> simp only [step, guardInit]
  case initLib => exact evolves_initialize s
  case finiLib => unfold stepFinalize; step_cases <;> ev_leaf
  all_goals (split; · exact Evolves.refl _)
  case slots => unfold stepSlots; exact evolves_same rfl rfl
  case initToken => unfold stepInitToken; step_cases <;> ev_leaf
  case openSession => unfold stepOpenSession; step_cases <;> ev_leaf
  case closeSession => unfold stepCloseSession objsSessionClosed; step_cases <;> ev_leaf
  case closeAll => unfold stepCloseAll objsAllSessionsClosed; step_cases <;> ev_leaf
  case sessInfo => unfold stepSessInfo; step_cases <;> ev_leaf
  case login => unfold stepLogin; step_cases <;> ev_leaf
  case logout => unfold stepLogout objsTokenLoggedOut; step_cases <;> ev_leaf
  case initPin => unfold stepInitPin; step_cases <;> ev_leaf
  case setPin => unfold stepSetPin; step_cases <;> ev_leaf
  case create => unfold stepCreate; step_cases <;> ev_leaf
  case getAttr => unfold stepGetAttr; step_cases <;> ev_leaf
  case setAttr => unfold stepSetAttr; step_cases <;> ev_leaf
  case copy => unfold stepCopy; step_cases <;> ev_leaf
  case objSize => unfold stepObjSize; step_cases <;> ev_leaf
  case destroy => unfold stepDestroy; step_cases <;> ev_leaf
  case objProbe => unfold stepObjProbe; step_cases <;> ev_leaf
  case findInit => unfold stepFindInit; step_cases <;> ev_leaf
  case find => unfold stepFind; step_cases <;> ev_leaf
  case findFinal => unfold stepFindFinal; step_cases <;> ev_leaf

end Shm

namespace Shm

/-- the cryptographic calls touch nothing but the operation state kept in the session entry of the handle table -/
def OnlyHandles (s s' : State) : Prop :=
  s'.objs = s.objs ∧ s'.nextOid = s.nextOid ∧ s'.slots = s.slots ∧ s'.initialised = s.initialised ∧ s'.counter = s.counter ∧ s'.mechCfg = s.mechCfg

theorem OnlyHandles.refl (s : State) : OnlyHandles s s := ⟨rfl, rfl, rfl, rfl, rfl, rfl⟩

macro "oh_leaf" : tactic =>
  `(tactic| first
      | exact ⟨rfl, rfl, rfl, rfl, rfl, rfl⟩
      | (simp only [setOp, resetOp, finishOp, lenProto, startOp, rOnly]; exact ⟨rfl, rfl, rfl, rfl, rfl, rfl⟩))

macro "oh_cases" : tactic =>
  `(tactic| (step_cases <;> (try simp only [setOp, resetOp, finishOp, lenProto, startOp, rOnly]) <;> step_cases <;> oh_leaf))

theorem onlyHandles_opInit (s : State) (k : InitKind) (h m : Nat) (p : MParam) (key : Nat) (o : RV) : OnlyHandles s (stepOpInit s k h m p key o).1 := by
  unfold stepOpInit; oh_cases
theorem onlyHandles_digestInit (s : State) (h m : Nat) (o : RV) : OnlyHandles s (stepDigestInit s h m o).1 := by
  unfold stepDigestInit; oh_cases
theorem onlyHandles_crypt (s : State) (e : Bool) (h : Nat) (i c : Option Nat) (rv : RV) (l : Nat) (d : Option Bytes) : OnlyHandles s (stepCrypt s e h i c rv l d).1 := by
  unfold stepCrypt; oh_cases
theorem onlyHandles_cryptUpdate (s : State) (e : Bool) (h : Nat) (i c : Option Nat) (rv : RV) (d : Option Bytes) : OnlyHandles s (stepCryptUpdate s e h i c rv d).1 := by
  unfold stepCryptUpdate; oh_cases
theorem onlyHandles_cryptFinal (s : State) (e : Bool) (h : Nat) (c : Option Nat) (rv : RV) (l : Nat) (d : Option Bytes) : OnlyHandles s (stepCryptFinal s e h c rv l d).1 := by
  unfold stepCryptFinal; oh_cases
theorem onlyHandles_signLike (s : State) (k : OpKind) (h : Nat) (i c : Option Nat) (rv : RV) (d : Option Bytes) : OnlyHandles s (stepSignLike s k h i c rv d).1 := by
  unfold stepSignLike; oh_cases
theorem onlyHandles_updateLike (s : State) (k : OpKind) (h : Nat) (i : Option Nat) (rv : RV) : OnlyHandles s (stepUpdateLike s k h i rv).1 := by
  unfold stepUpdateLike; oh_cases
theorem onlyHandles_digestKey (s : State) (h k : Nat) (rv : RV) : OnlyHandles s (stepDigestKey s h k rv).1 := by
  unfold stepDigestKey; oh_cases
theorem onlyHandles_finalLike (s : State) (k : OpKind) (h : Nat) (c : Option Nat) (rv : RV) (d : Option Bytes) : OnlyHandles s (stepFinalLike s k h c rv d).1 := by
  unfold stepFinalLike; oh_cases
theorem onlyHandles_verify (s : State) (sg : Bool) (h : Nat) (i l : Option Nat) (rv : RV) : OnlyHandles s (stepVerify s sg h i l rv).1 := by
  unfold stepVerify; oh_cases

theorem OnlyHandles.evolves {s s' : State} (h : OnlyHandles s s') : Evolves s s' := evolves_same h.1 h.2.1

theorem ite_fst_eq {s : State} {c : Prop} [Decidable c] {a b : State × Resp} (ha : a.1 = s) (hb : b.1 = s) : (if c then a else b).1 = s := by
  split <;> assumption

theorem evolves_ite {s : State} (c : Prop) [Decidable c] (a b : State × Resp) (ha : Evolves s a.1) (hb : Evolves s b.1) :
    Evolves s (if c then a else b).1 := by split <;> assumption

theorem evolves_genKeyFinish (s : State) (ss : Sess) (h mech : Nat) (tpl : Template) (t : Tok) (cls kt dkt : Nat) (a b : Bool) (kl : Nat) :
    Evolves s (genKeyFinish s ss h mech tpl t cls kt dkt a b kl).1 := by
  unfold genKeyFinish; step_cases <;> ev_leaf

theorem evolves_genPairFinish (s : State) (ss : Sess) (h mech : Nat) (p v : Template) (t : Tok) (dkt : Nat) (a b c d : Bool) :
    Evolves s (genPairFinish s ss h mech p v t dkt a b c d).1 := by
  unfold genPairFinish
  extract_lets skip pubTpl privTpl
  generalize findClass CKO.PUBLIC_KEY dkt 0 = fc1
  generalize findClass CKO.PRIVATE_KEY dkt 0 = fc2
  cases fc1 with
  | none => exact Evolves.refl _
  | some cd1 =>
    cases fc2 with
    | none => exact Evolves.refl _
    | some cd2 =>
      dsimp only
      generalize saveTemplate cd1 (initAttrs cd1) pubTpl OP.GENERATE b t.soIn CKR.OK = r1
      cases r1 with
      | error e => exact Evolves.refl _
      | ok pa =>
        dsimp only
        generalize saveTemplate cd2 (initAttrs cd2) privTpl OP.GENERATE d t.soIn CKR.OK = r2
        cases r2 with
        | error e => exact Evolves.refl _
        | ok va =>
          dsimp only
          exact Evolves.trans (evolves_addObject ..) (evolves_addObject ..)

theorem evolves_genKey (s : State) (h m : Nat) (t : Template) (o : RV) : Evolves s (stepGenKey s h m t o).1 := by
  unfold stepGenKey
  repeat' (first | exact Evolves.refl _ | exact evolves_genKeyFinish .. | apply evolves_ite | split | extract_lets)

theorem evolves_genPair (s : State) (h m : Nat) (p v : Template) (o : RV) : Evolves s (stepGenPair s h m p v o).1 := by
  unfold stepGenPair
  repeat' (first | exact Evolves.refl _ | exact evolves_genPairFinish .. | apply evolves_ite | split | extract_lets)

/-! ### C_WrapKey / C_UnwrapKey / C_DeriveKey: the state is unchanged, or exactly one object is added -/

/-- objects, allocation counter and slots unchanged (a handle value may have been used up), or exactly one object added -/
def Adds (s : State) (r : State × Resp) : Prop :=
  (r.1.objs = s.objs ∧ r.1.nextOid = s.nextOid ∧ r.1.slots = s.slots) ∨ ∃ slot h t p a, r.1 = (addObject s slot h t p a).1

theorem adds_rOnly (s : State) (rv : RV) : Adds s (rOnly s rv) := Or.inl ⟨rfl, rfl, rfl⟩
theorem adds_same (s : State) (x : Resp) : Adds s (s, x) := Or.inl ⟨rfl, rfl, rfl⟩
theorem adds_bump (s : State) (x : Resp) : Adds s ({ s with counter := s.counter + 1 }, x) := Or.inl ⟨rfl, rfl, rfl⟩
theorem adds_add (s : State) (slot h : Nat) (t p : Bool) (a : Attrs) (x : Resp) : Adds s ((addObject s slot h t p a).1, x) := Or.inr ⟨slot, h, t, p, a, rfl⟩
theorem adds_ite {s : State} (c : Prop) [Decidable c] (a b : State × Resp) (ha : Adds s a) (hb : Adds s b) : Adds s (if c then a else b) := by
  split <;> assumption

macro "adds_peel" : tactic =>
  `(tactic| repeat' (first | exact adds_rOnly _ _ | exact adds_same _ _ | exact adds_add _ _ _ _ _ _ _ | apply adds_ite | split | extract_lets))

theorem wrapOutput_state (s : State) (cap : Option Nat) (rv : RV) (l : Nat) (d : Option Bytes) (c : Option (Except RV Bytes)) :
    (wrapOutput s cap rv l d c).1 = s := by
  unfold wrapOutput
  repeat' (first | rfl | (apply ite_fst_eq) | split)

theorem adds_wrap (s : State) (h m : Nat) (p : MParam) (wk k : Nat) (c : Option Nat) (rv : RV) (l : Nat) (d : Option Bytes) :
    (stepWrap s h m p wk k c rv l d).1 = s := by
  unfold stepWrap
  repeat' (first | rfl | exact wrapOutput_state _ _ _ _ _ _ | (apply ite_fst_eq) | split | extract_lets)

theorem adds_unwrapFinish (s : State) (slot h cls kt : Nat) (a b c : Bool) (t : Template) (kd : Option (Except RV Bytes)) (rv : RV) :
    Adds s (unwrapFinish s slot h cls kt a b c t kd rv) := by
  unfold unwrapFinish
  generalize findClass cls kt 0 = fc
  cases fc with
  | none => exact adds_rOnly _ _
  | some cd =>
    dsimp only
    generalize saveTemplate cd (initAttrs cd) (reorderTpl (keyTemplate cls kt a b t [])) OP.UNWRAP b c rv = r
    cases r with
    | error e => exact adds_rOnly _ _
    | ok attrs =>
      dsimp only
      split
      · exact adds_add _ _ _ _ _ _ _
      · split
        · exact adds_rOnly _ _
        · exact adds_add _ _ _ _ _ _ _

theorem adds_deriveFinish (s : State) (slot h cls kt : Nat) (a b c : Bool) (t : Template) (v : AVal) (m : Nat) (ba : Attrs) (oa : Option Attrs) : Adds s (deriveFinish s slot h cls kt a b c t v m ba oa) := by
  unfold deriveFinish
  generalize findClass cls kt 0 = fc
  cases fc with
  | none => exact adds_rOnly _ _
  | some cd =>
    dsimp only
    generalize saveTemplate cd (initAttrs cd) (reorderTpl (keyTemplate cls kt a b t [CKA.CHECK_VALUE])) OP.DERIVE b c CKR.OK = r
    cases r with
    | error e => exact adds_rOnly _ _
    | ok attrs => exact adds_add _ _ _ _ _ _ _

theorem adds_unwrap (s : State) (h m : Nat) (p : MParam) (uk : Nat) (b : Option Bytes) (t : Template) (rv : RV) : Adds s (stepUnwrap s h m p uk b t rv) := by
  unfold stepUnwrap
  repeat' (first | exact adds_rOnly _ _ | exact adds_unwrapFinish _ _ _ _ _ _ _ _ _ _ _ | apply adds_ite | split | extract_lets)

theorem adds_derive (s : State) (h m : Nat) (p : MParam) (bk : Nat) (t : Template) (rv : RV) : Adds s (stepDerive s h m p bk t rv) := by
  unfold stepDerive
  repeat' (first | exact adds_rOnly _ _ | exact adds_bump _ _ | exact adds_deriveFinish _ _ _ _ _ _ _ _ _ _ _ _ _ | apply adds_ite | split | extract_lets)

theorem Adds.evolves {s : State} {r : State × Resp} (h : Adds s r) : Evolves s r.1 := by
  rcases h with h | ⟨slot, hh, t, p, a, h⟩
  · exact evolves_same h.1 h.2.1
  · rw [h]; exact evolves_addObject _ _ _ _ _ _

theorem evolves_stepOp (s : State) (c : OpCall) : Evolves s (stepOp s c).1 := by
  cases c <;> simp only [stepOp]
  case cfgMechs => exact evolves_same rfl rfl
  all_goals (split; · exact Evolves.refl _)
  case mechList => split <;> exact Evolves.refl _
  case opInit => exact (onlyHandles_opInit ..).evolves
  case digestInit => exact (onlyHandles_digestInit ..).evolves
  case crypt => exact (onlyHandles_crypt ..).evolves
  case cryptUpdate => exact (onlyHandles_cryptUpdate ..).evolves
  case cryptFinal => exact (onlyHandles_cryptFinal ..).evolves
  case sign => exact (onlyHandles_signLike ..).evolves
  case digest => exact (onlyHandles_signLike ..).evolves
  case update => exact (onlyHandles_updateLike ..).evolves
  case digestKey => exact (onlyHandles_digestKey ..).evolves
  case signFinal => exact (onlyHandles_finalLike ..).evolves
  case digestFinal => exact (onlyHandles_finalLike ..).evolves
  case verify => exact (onlyHandles_verify ..).evolves
  case verifyFinal => exact (onlyHandles_verify ..).evolves
  case genKey => exact evolves_genKey ..
  case genPair => exact evolves_genPair ..
  case wrap => rw [adds_wrap]; exact Evolves.refl _
  case unwrap => exact (adds_unwrap ..).evolves
  case derive => exact (adds_derive ..).evolves

theorem evolves_restart (s : State) : Evolves s (stepRestart s).1 := by
  unfold stepRestart stepFinalize
  simp only [Bool.not_true, Bool.false_eq_true, if_false]
  exact evolves_filter _ rfl rfl

theorem evolves_stepAny (s : State) (c : AnyCall) : Evolves s (stepAny s c).1 := by
  cases c with
  | core c => exact evolves_step s c
  | op c => exact evolves_stepOp s c
  | restart => exact evolves_restart s

theorem evolves_runAny (s : State) (cs : List AnyCall) : Evolves s (runAny s cs) := by
  induction cs generalizing s with
  | nil => exact Evolves.refl s
  | cons c cs ih => exact Evolves.trans (evolves_stepAny s c) (ih _)

end Shm
