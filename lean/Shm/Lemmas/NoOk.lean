/-
  Programs that can never report success (used for the history attributes, which no caller may supply).
-/
import Shm.Lemmas.AttrPreserve
namespace Shm

/-- syntactic check: every `return` carries an error code and the generic store is never called -/
def noOk : UProg → Bool
  | .ret rv => rv != CKR.OK
  | .callUpdateAttr => true
  | .callBase => false
  | .fall => true
  | .act _ k => noOk k
  | .ite _ t e k => noOk t && noOk e && noOk k

def ResNoOk : URes → Prop
  | .done rv _ => rv ≠ CKR.OK
  | .base _ => False
  | _ => True

theorem noOk_sound (e : UEnv) : ∀ (p : UProg) (o : Attrs), noOk p = true → ResNoOk (runProg e p o) := by
  intro p
  induction p with
  | ret rv => intro o h; simpa [noOk, runProg, ResNoOk] using h
  | callUpdateAttr => intro o _; simp [runProg, ResNoOk]
  | callBase => intro o h; simp [noOk] at h
  | fall => intro o _; simp [runProg, ResNoOk]
  | act a k ih => intro o h; simp only [noOk] at h; simp only [runProg]; exact ih _ h
  | ite c t el k iht ihe ihk =>
    intro o h
    simp only [noOk, Bool.and_eq_true] at h
    simp only [runProg]
    have hb : ResNoOk (if evalCond e o c then runProg e t o else runProg e el o) := by
      split
      · exact iht o h.1.1
      · exact ihe o h.1.2
    cases hr : (if evalCond e o c then runProg e t o else runProg e el o) with
    | fell o' => exact ihk o' h.2
    | done rv o' => rw [hr] at hb; simpa [ResNoOk] using hb
    | call o' => simp [ResNoOk]
    | base o' => rw [hr] at hb; simp [ResNoOk] at hb

/-- the attribute can never be updated successfully, whatever the operation and the value -/
def attrNeverOk (d : AttrDesc) : Bool :=
  match d.upd with
  | .prog p => noOk p
  | _ => false

/-- `P11Attribute::update` itself never reports success: it ends in an error or in `updateAttr` -/
theorem genericUpdate_noOk : noOk Gen.genericUpdate = true := by decide

theorem attrNeverOk_sound (d : AttrDesc) (h : attrNeverOk d = true) (t : TEntry) (op : Nat) (p so : Bool) (o : Attrs) (oRv : RV) :
    (updateAttribute d t op p so o oRv).1 ≠ CKR.OK := by
  unfold updateAttribute
  have hg := noOk_sound (mkEnv d t op p so) Gen.genericUpdate o genericUpdate_noOk
  cases hr : runProg (mkEnv d t op p so) Gen.genericUpdate o with
  | done rv o' => rw [hr] at hg; simpa [ResNoOk] using hg
  | fell o' => simp
  | base o' => simp
  | call o' =>
    simp only []
    unfold attrNeverOk at h
    cases hk : d.upd with
    | prog q =>
      rw [hk] at h
      simp only [runUpdateAttr]
      have := noOk_sound (mkEnv d t op p so) q o' h
      cases hq : runProg (mkEnv d t op p so) q o' with
      | done rv o2 => rw [hq] at this; simpa [ResNoOk] using this
      | base o2 => rw [hq] at this; simp [ResNoOk] at this
      | call o2 => simp
      | fell o2 => simp
    | _ => rw [hk] at h; simp at h

/-- a template containing an entry whose attribute can never be updated (or is unknown to the class) is rejected -/
theorem applyEntries_rejects (cd : ClassDesc) (op : Nat) (p so : Bool) (oRv : RV) (bad : Nat → Bool)
    (hbad : ∀ d ∈ cd.attrs, bad d.ty = true → attrNeverOk d = true) :
    ∀ (tpl : Template) (o : Attrs), (∃ e ∈ tpl, bad e.ty = true) → (applyEntries cd op p so oRv tpl o).1 ≠ CKR.OK := by
  intro tpl
  induction tpl with
  | nil => intro o h; simp at h
  | cons t rest ih =>
    intro o h
    unfold applyEntries
    cases hd : descOf cd t.ty with
    | none => simp
    | some d =>
      simp only []
      have hmem : d ∈ cd.attrs := by unfold descOf at hd; exact List.mem_of_find?_eq_some hd
      have hty : d.ty = t.ty := by
        unfold descOf at hd; have := List.find?_some hd; simpa using this
      cases hu : updateAttribute d t op p so o oRv with
      | mk rv o1 =>
        simp only []
        by_cases hrv : rv = CKR.OK
        · subst hrv
          simp only [bne_self_eq_false, Bool.false_eq_true, if_false]
          obtain ⟨e, he, hbe⟩ := h
          rw [List.mem_cons] at he
          rcases he with he | he
          · subst he
            have := attrNeverOk_sound d (hbad d hmem (by rw [hty]; exact hbe)) e op p so o oRv
            rw [hu] at this; simp at this
          · exact ih o1 ⟨e, he, hbe⟩
        · have : (rv != CKR.OK) = true := by simp [bne_iff_ne]; exact hrv
          simp [this]; exact hrv

theorem saveTemplate_rejects (cd : ClassDesc) (op : Nat) (p so : Bool) (oRv : RV) (bad : Nat → Bool)
    (hbad : ∀ d ∈ cd.attrs, bad d.ty = true → attrNeverOk d = true)
    (tpl : Template) (o : Attrs) (h : ∃ e ∈ tpl, bad e.ty = true) :
    ∃ rv, saveTemplate cd o tpl op p so oRv = .error rv := by
  unfold saveTemplate
  split
  · exact ⟨_, rfl⟩
  · split
    · exact ⟨_, rfl⟩
    · dsimp only
      split
      · exact ⟨_, rfl⟩
      · rename_i hne
        have := applyEntries_rejects cd op p so oRv bad hbad tpl o h
        simp at hne
        exact absurd hne this

end Shm
