/-
  Helper lemmas about the pure helpers of Shm/Pure (big-endian encodings, the DER length header).
-/
import Shm.Pure.ByteStr
namespace Shm.Pure
open Shm Shm.Store

theorem beBytes_length (k n : Nat) : (beBytes k n).length = k := by
  induction k generalizing n with
  | zero => rfl
  | succ k ih => simp [beBytes, ih]

theorem beVal_append_single (xs : Bytes) (y : UInt8) : beVal (xs ++ [y]) = beVal xs * 256 + y.toNat := by
  simp [beVal, List.foldl_append]

theorem beVal_beBytes (k n : Nat) : beVal (beBytes k n) = n % 256 ^ k := by
  induction k generalizing n with
  | zero => simp [beBytes, beVal, Nat.mod_one]
  | succ k ih =>
    rw [beBytes, beVal_append_single, ih]
    have h : (UInt8.ofNat n).toNat = n % 256 := by simp [UInt8.toNat_ofNat']
    rw [h, Nat.pow_succ, Nat.mul_comm (256 ^ k) 256, Nat.mod_mul]
    omega

theorem sigBytes_spec (len : Nat) (h0 : 0 < len) (h : len < 2 ^ 64) :
    1 ≤ sigBytes len ∧ sigBytes len ≤ 8 ∧ len < 256 ^ sigBytes len := by
  unfold sigBytes
  repeat' split
  all_goals (refine ⟨by omega, by omega, ?_⟩; omega)

end Shm.Pure
