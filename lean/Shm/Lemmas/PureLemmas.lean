/-
  Helper lemmas about the pure helpers of Shm/Pure (big-endian encodings, the DER length header).
-/
import Shm.Pure.ByteStr
namespace Shm.Pure
open Shm Shm.Store

theorem beBytes_length (k n : Nat) : (beBytes k n).length = k := by
  induction k generalizing n with
  | zero => rfl
  | succ k ih => simp [beBytes, ih]

theorem beVal_append_single (xs : Bytes) (y : UInt8) : beVal (xs ++ [y]) = beVal xs * 256 + y.toNat := by
  simp [beVal, List.foldl_append]

theorem beVal_beBytes (k n : Nat) : beVal (beBytes k n) = n % 256 ^ k := by
  induction k generalizing n with
  | zero => simp [beBytes, beVal, Nat.mod_one]
  | succ k ih =>
    rw [beBytes, beVal_append_single, ih]
    have h : (UInt8.ofNat n).toNat = n % 256 := by simp [UInt8.toNat_ofNat']
    rw [h, Nat.pow_succ, Nat.mul_comm (256 ^ k) 256, Nat.mod_mul]
    omega

theorem sigBytes_spec (len : Nat) (h0 : 0 < len) (h : len < 2 ^ 64) :
    1 ≤ sigBytes len ∧ sigBytes len ≤ 8 ∧ len < 256 ^ sigBytes len := by
  unfold sigBytes
  repeat' split
  all_goals (refine ⟨by omega, by omega, ?_⟩; omega)

theorem foldl_be (l : Bytes) (acc : Nat) :
    l.foldl (fun a (b : UInt8) => a * 256 + b.toNat) acc = acc * 256 ^ l.length + l.foldl (fun a (b : UInt8) => a * 256 + b.toNat) 0 := by
  induction l generalizing acc with
  | nil => simp
  | cons x r ih =>
    simp only [List.foldl_cons, List.length_cons, Nat.pow_succ]
    rw [ih (acc * 256 + x.toNat), ih (0 * 256 + x.toNat)]
    simp only [Nat.zero_mul, Nat.zero_add, Nat.add_mul]
    rw [Nat.mul_assoc, Nat.mul_comm 256 (256 ^ r.length)]
    omega

theorem beVal_cons (x : UInt8) (r : Bytes) : beVal (x :: r) = x.toNat * 256 ^ r.length + beVal r := by
  unfold beVal
  rw [List.foldl_cons, foldl_be]
  simp

theorem beVal_lt (r : Bytes) : beVal r < 256 ^ r.length := by
  induction r with
  | nil => simp [beVal]
  | cons x r ih =>
    rw [beVal_cons, List.length_cons, Nat.pow_succ]
    have hx := x.toNat_lt
    have : x.toNat * 256 ^ r.length + beVal r < (x.toNat + 1) * 256 ^ r.length := by rw [Nat.add_mul]; omega
    calc x.toNat * 256 ^ r.length + beVal r < (x.toNat + 1) * 256 ^ r.length := this
      _ ≤ 256 * 256 ^ r.length := Nat.mul_le_mul_right _ (by omega)
      _ = 256 ^ r.length * 256 := Nat.mul_comm _ _

theorem beVal_dropZeros (b : Bytes) : beVal (b.dropWhile (· == 0)) = beVal b := by
  induction b with
  | nil => rfl
  | cons x r ih =>
    by_cases hx : x = 0
    · subst hx; simp [List.dropWhile, ih, beVal_cons]
    · have : (x == 0) = false := by simpa using hx
      simp [List.dropWhile, this]

theorem byteBits_spec (x : UInt8) (hx : x ≠ 0) : 2 ^ (byteBits x - 1) ≤ x.toNat ∧ x.toNat < 2 ^ byteBits x := by
  have h0 : x.toNat ≠ 0 := by intro h; apply hx; exact UInt8.toNat_inj.mp (by simpa using h)
  have hb : (x == 0) = false := by simpa using hx
  simp only [byteBits, hb, Bool.false_eq_true, if_false, Nat.add_sub_cancel]
  exact ⟨Nat.log2_self_le h0, Nat.lt_log2_self⟩

/-- **`ByteString::bits` is the bit length of the number the bytes spell** (big endian): the value is below 2^bits, and at least 2^(bits-1) unless it is zero (bits = 0) -/
theorem bits_spec (b : Bytes) : beVal b < 2 ^ bits b ∧ (bits b ≠ 0 → 2 ^ (bits b - 1) ≤ beVal b) := by
  unfold bits
  rw [← beVal_dropZeros b]
  cases h : b.dropWhile (· == 0) with
  | nil => simp [beVal]
  | cons x r =>
    have hx : x ≠ 0 := by
      have hne : b.dropWhile (· == 0) ≠ [] := by rw [h]; simp
      have := List.head_dropWhile_not (· == 0) hne
      simp only [h, List.head_cons] at this
      simpa using this
    obtain ⟨hlo, hhi⟩ := byteBits_spec x hx
    have h256 : (256 : Nat) ^ r.length = 2 ^ (r.length * 8) := by
      rw [show (256 : Nat) = 2 ^ 8 by rfl, ← Nat.pow_mul, Nat.mul_comm]
    have hr : beVal r < 2 ^ (r.length * 8) := by rw [← h256]; exact beVal_lt r
    simp only []
    rw [beVal_cons, h256]
    have hbb : 1 ≤ byteBits x := by
      have hb : (x == 0) = false := by simpa using hx
      simp [byteBits, hb]
    constructor
    · calc x.toNat * 2 ^ (r.length * 8) + beVal r < (x.toNat + 1) * 2 ^ (r.length * 8) := by rw [Nat.add_mul]; omega
        _ ≤ 2 ^ byteBits x * 2 ^ (r.length * 8) := Nat.mul_le_mul_right _ hhi
        _ = 2 ^ (r.length * 8 + byteBits x) := by rw [← Nat.pow_add, Nat.add_comm]
    · intro _
      have he : r.length * 8 + byteBits x - 1 = (byteBits x - 1) + r.length * 8 := by omega
      calc 2 ^ (r.length * 8 + byteBits x - 1) = 2 ^ (byteBits x - 1) * 2 ^ (r.length * 8) := by rw [he, Nat.pow_add]
        _ ≤ x.toNat * 2 ^ (r.length * 8) := Nat.mul_le_mul_right _ hlo
        _ ≤ x.toNat * 2 ^ (r.length * 8) + beVal r := Nat.le_add_right _ _

end Shm.Pure
