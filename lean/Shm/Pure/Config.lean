/-
  The configuration file loader (common/SimpleConfigLoader.cpp `loadConfiguration`, `trimString`, `string2bool`;
  common/Configuration.cpp `valid_config`, `getType`, set*/get*), as a total function from the BYTES of the file to the settings
  the library ends up with.  Every C-library detail that decides the outcome is reproduced: `fgets` with a 1024-byte buffer (a longer
  line is read in pieces, each treated as a line), C strings ending at the first NUL byte, `strcspn(.., "#\n\r")`, the two `strtok(.., "=")`
  calls (which skip leading `=` and ignore what follows the second token), `isspace` in the "C" locale, `strtol(.., 8)` for the umask
  and its narrowing to `int`, case-insensitive booleans, unknown names ignored, the last assignment winning.
  Unit tie: `purefn conf <bytes>` (the library's loader on a file with exactly these bytes) against `confLine` below.
-/
import Shm.Base.Hex
namespace Shm.Pure.Config
open Shm

def isSpace (c : UInt8) : Bool := c == 0x20 || (0x09 ≤ c && c ≤ 0x0d)

/-- `fgets(buf, n+1, fp)`: at most `n` bytes, stopping after a newline.  (chunk, rest) -/
def fgetsChunk : Nat → Bytes → Bytes × Bytes
  | _, [] => ([], [])
  | 0, r => ([], r)
  | n + 1, b :: r =>
    if b == 0x0a then ([b], r) else
    let (c, r') := fgetsChunk n r
    (b :: c, r')

/-- all the chunks `fgets` delivers until end of file (fuel: every chunk of a non-empty input takes at least one byte) -/
def chunksFuel : Nat → Bytes → List Bytes
  | 0, _ => []
  | _, [] => []
  | f + 1, r => let (c, r') := fgetsChunk 1023 r; c :: chunksFuel f r'

def fileChunks (file : Bytes) : List Bytes := chunksFuel (file.length + 1) file

/-- the chunk as the C string functions see it, cut at the first `#`, `\n` or `\r` -/
def cutLine (chunk : Bytes) : Bytes :=
  (chunk.takeWhile (· != 0)).takeWhile (fun c => c != 0x23 && c != 0x0a && c != 0x0d)

/-- `strtok(s, "=")` / `strtok(NULL, "=")`: (token, where the next call continues); `none` when only delimiters are left -/
def strtok (s : Bytes) : Option (Bytes × Bytes) :=
  let s1 := s.dropWhile (· == 0x3d)
  if s1.isEmpty then none else
  some (s1.takeWhile (· != 0x3d), (s1.dropWhile (· != 0x3d)).drop 1)

/-- `trimString`: `none` for an empty result -/
def trim (s : Bytes) : Option Bytes :=
  let t := ((s.dropWhile isSpace).reverse.dropWhile isSpace).reverse
  if t.isEmpty then none else some t

/-- name and value of one line, when the line is an assignment -/
def parseLine (chunk : Bytes) : Option (Bytes × Bytes) := do
  let l := cutLine chunk
  if l.isEmpty then none else
  let (name, rest) ← strtok l
  let n ← trim name
  let (value, _) ← strtok rest
  let v ← trim value
  pure (n, v)

inductive CType | str | int | oct | bool
  deriving DecidableEq, Repr

/-- `Configuration::valid_config` -/
def validConfig : List (String × CType) :=
  [("directories.tokendir", .str), ("objectstore.backend", .str), ("objectstore.umask", .oct), ("log.level", .str),
   ("slots.removable", .bool), ("slots.mechanisms", .str), ("library.reset_on_fork", .bool)]

inductive CVal
  | str (v : Bytes)
  | int (v : Int)
  | bool (b : Bool)
  deriving DecidableEq, Repr

def keyBytes (k : String) : Bytes := k.toUTF8.toList

def typeOf (name : Bytes) : Option (String × CType) := validConfig.find? (fun kv => keyBytes kv.1 == name)

def octDigit (c : UInt8) : Option Nat := if 0x30 ≤ c && c ≤ 0x37 then some (c.toNat - 0x30) else none
def decDigit (c : UInt8) : Option Nat := if 0x30 ≤ c && c ≤ 0x39 then some (c.toNat - 0x30) else none

/-- the digits of base `b` at the front of `s`, as a number -/
def leadingNum (digit : UInt8 → Option Nat) (b : Nat) (s : Bytes) : Nat :=
  (s.takeWhile (fun c => (digit c).isSome)).foldl (fun acc c => acc * b + (digit c).getD 0) 0

/-- `(int) strtol(s, NULL, base)` for base 8 / 10 on glibc: optional white space and sign, the leading digits, saturation at the range of `long`,
    then the narrowing conversion to a 32-bit `int` -/
def strtolInt (digit : UInt8 → Option Nat) (b : Nat) (s : Bytes) : Int :=
  let s := s.dropWhile isSpace
  let (neg, s) := match s with
    | 0x2d :: r => (true, r)
    | 0x2b :: r => (false, r)
    | _ => (false, s)
  let m := leadingNum digit b s
  let l : Int := if neg then (if m > 2^63 then -(2^63 : Int) else -(m : Int)) else (if m > 2^63 - 1 then (2^63 - 1 : Int) else (m : Int))
  let w := l.emod (2^32)
  if w ≥ 2^31 then w - 2^32 else w

def toLower (c : UInt8) : UInt8 := if 0x41 ≤ c && c ≤ 0x5a then c + 0x20 else c

def string2bool (v : Bytes) : Option Bool :=
  let l := v.map toLower
  if l == keyBytes "true" then some true else if l == keyBytes "false" then some false else none

abbrev Settings := List (String × CVal)

def Settings.set (s : Settings) (k : String) (v : CVal) : Settings := (k, v) :: s.filter (·.1 != k)
def Settings.get (s : Settings) (k : String) : Option CVal := (s.find? (·.1 == k)).map (·.2)

/-- one assignment applied to the settings (the `switch (Configuration::i()->getType(stringName))`) -/
def assign (s : Settings) (name value : Bytes) : Settings :=
  match typeOf name with
  | none => s
  | some (k, .str) => s.set k (.str value)
  | some (k, .int) => s.set k (.int (strtolInt decDigit 10 value))
  | some (k, .oct) => s.set k (.int (strtolInt octDigit 8 value))
  | some (k, .bool) => match string2bool value with
    | some b => s.set k (.bool b)
    | none => s

/-- `SimpleConfigLoader::loadConfiguration` on a file with these bytes (after `Configuration::reload` emptied the maps) -/
def load (file : Bytes) : Settings :=
  (fileChunks file).foldl (fun s chunk => match parseLine chunk with
    | some (n, v) => assign s n v
    | none => s) []

/-- the answer line of `purefn conf` -/
def render (s : Settings) : String :=
  let str (k : String) : String := match s.get k with | some (.str v) => s!"{k}={toHex v}" | _ => s!"{k}=-"
  let int (k : String) : String := match s.get k with | some (.int v) => s!"{k}={v}" | _ => s!"{k}=-"
  let bool (k : String) : String := match s.get k with | some (.bool b) => s!"{k}={if b then 1 else 0}" | _ => s!"{k}=-"
  " ".intercalate ["1", str "directories.tokendir", str "objectstore.backend", str "log.level", str "slots.mechanisms", int "objectstore.umask",
                   bool "slots.removable", bool "library.reset_on_fork"]

end Shm.Pure.Config
