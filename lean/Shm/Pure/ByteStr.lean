/-
  Pure helper functions of the library, modelled one by one (data_mgr/ByteString.cpp, crypto/DerUtil.cpp,
  SoftHSM::getECDHPubData).  These definitions are tied to the code at UNIT level: `harness/purefn.cpp` calls the compiled C++
  functions and `shm-driver --pure` evaluates these definitions on the same inputs (vlib/pure.py diffs the streams on every run).
  Theorems about them are in Shm/Props (C13, C05, C17).
-/
import Shm.Store.Codec
namespace Shm.Pure
open Shm Shm.Store

/-- `ByteString::ByteString(unsigned long)`: 8 bytes, big endian -/
def ofULong (n : Nat) : Bytes := be8 n

/-- `ByteString::long_val`: the first (at most 8) bytes as a big-endian number -/
def longVal (b : Bytes) : Nat := beVal (b.take 8)

/-- number of significant bits of one byte (0 for 0) -/
def byteBits (x : UInt8) : Nat := if x == 0 then 0 else Nat.log2 x.toNat + 1

/-- `ByteString::bits`: size in bits without the leading zero bits (0 for an all-zero or empty string) -/
def bits (b : Bytes) : Nat :=
  match b.dropWhile (· == 0) with
  | [] => 0
  | x :: r => r.length * 8 + byteBits x

/-- `operator^`: as long as the shorter operand -/
def xorMin (a b : Bytes) : Bytes := List.zipWith (· ^^^ ·) a b

/-- `operator^=`: the left operand keeps its length -/
def xorAssign (a b : Bytes) : Bytes := xorMin a b ++ a.drop b.length

/-- `ByteString::substr(start, len)` -/
def substr (b : Bytes) (start len : Nat) : Bytes := (b.drop start).take len

/-- `ByteString::split(len)`: (what is returned, what remains) -/
def split (b : Bytes) (len : Nat) : Bytes × Bytes := (b.take len, b.drop len)

/-- `ByteString::serialise` -/
def serialise (b : Bytes) : Bytes := ofULong b.length ++ b

/-- `ByteString::chainDeserialise`: (value, remainder); total on every input (short input gives short / empty values) -/
def chainDeserialise (s : Bytes) : Bytes × Bytes :=
  let len := longVal s
  split (s.drop 8) len

/-! ### DER octet strings (DerUtil.cpp) -/

/-- number of significant bytes of a size_t (8-byte) length: index of the highest non-zero byte + 1 (the loop
    `for (bytes = 8; bytes > 0; bytes--) if ((len >> ((bytes - 1) * 8)) & 0xFF) break;`, written out) -/
def sigBytes (len : Nat) : Nat :=
  if len / 2^56 % 256 ≠ 0 then 8 else if len / 2^48 % 256 ≠ 0 then 7 else if len / 2^40 % 256 ≠ 0 then 6 else if len / 2^32 % 256 ≠ 0 then 5
  else if len / 2^24 % 256 ≠ 0 then 4 else if len / 2^16 % 256 ≠ 0 then 3 else if len / 2^8 % 256 ≠ 0 then 2 else if len % 256 ≠ 0 then 1 else 0

/-- `k` bytes, big endian, of `n` (the loop `header[2+bytes-i] = len & 0xFF; len >>= 8`) -/
def beBytes : Nat → Nat → Bytes
  | 0, _ => []
  | k + 1, n => beBytes k (n / 256) ++ [UInt8.ofNat n]

/-- `DERUTIL::raw2Octet` -/
def raw2Octet (b : Bytes) : Bytes :=
  let len := b.length
  if len < 0x80 then [0x04, UInt8.ofNat len] ++ b
  else
    let k := sigBytes len
    [0x04, UInt8.ofNat (0x80 ||| k)] ++ beBytes k len ++ b

/-- `DERUTIL::octet2Raw`: the empty string is also the answer to every malformed input -/
def octet2Raw (r : Bytes) : Bytes :=
  match r with
  | t :: l :: _ =>
    if t != 0x04 then [] else
    let len := r.length
    if l < 0x80 then (if l.toNat != len - 2 then [] else r.drop 2)
    else
      let lo := (l &&& 0x7f).toNat
      let control := 2 + lo
      if control ≥ len then [] else
      if longVal ((r.drop 2).take lo) != len - control then [] else r.drop control
  | _ => []

/-- `SoftHSM::getECDHPubData`: public data that is not a well-formed DER octet string (or has the length of a raw point of a supported
    curve) is taken as raw and wrapped -/
def isDerOctet (d : Bytes) : Bool :=
  let len := d.length
  if len == 32 || len == 56 || len == 65 || len == 97 || len == 133 then false
  else match d with
    | t :: l :: _ =>
      if t != 0x04 then false
      else if l < 0x80 then l.toNat == len - 2
      else
        let lo := (l &&& 0x7f).toNat
        let control := 2 + lo
        if control ≥ len then false else longVal ((d.drop 2).take lo) == len - control
    | _ => false

def ecdhPubData (d : Bytes) : Bytes := if isDerOctet d then d else raw2Octet d

/-! ### padding helpers of C_WrapKey / C_UnwrapKey (SoftHSM::RFC5652Pad, RFC3394Pad, RFC5652Unpad) -/

/-- `SoftHSM::RFC5652Pad` (blocksize > 0): the padded data -/
def rfc5652Pad (b : Bytes) (bs : Nat) : Bytes :=
  let n := bs - b.length % bs
  b ++ List.replicate n (UInt8.ofNat n)

def rfc3394Pad (b : Bytes) : Bytes :=
  let a := b.length % 8
  if a != 0 then b ++ List.replicate (8 - a) 0 else b

/-- `SoftHSM::RFC5652Unpad` -/
def rfc5652Unpad (p : Bytes) (bs : Nat) : Option Bytes :=
  if p.length == 0 || p.length % bs != 0 then none else
  let pb := p.getLast?.getD 0
  if pb == 0 || pb.toNat > bs then none else
  if (p.drop (p.length - pb.toNat)).all (· == pb) then some (p.take (p.length - pb.toNat)) else none

end Shm.Pure
