/-
  `shm-driver --pure`: evaluates the model definitions of the library's pure helpers on the lines of the unit-level correspondence
  (see harness/purefn.cpp).  One answer line per input line, in the format the harness prints.
-/
import Shm.Model.MutexLife
import Shm.Pure.ByteStr
import Shm.Pure.Config
import Shm.Model.Wrap
import Shm.Crypto.Modes
namespace Shm.Pure
open Shm

def hx (w : String) : Option Bytes := parseHex w

def pureLine (ws : List String) : String :=
  match ws with
  | ["r2o", a] => (hx a).elim "?" fun b => toHex (raw2Octet b)
  | ["o2r", a] => (hx a).elim "?" fun b => toHex (octet2Raw b)
  | ["ecdhpub", a] => (hx a).elim "?" fun b => toHex (ecdhPubData b)
  | ["ser", a] => (hx a).elim "?" fun b => toHex (serialise b)
  | ["deser", a] => (hx a).elim "?" fun b => let (v, r) := chainDeserialise b; s!"{toHex v} {toHex r}"
  | ["long", a] => (hx a).elim "?" fun b => toString (longVal b)
  | ["oflong", n] => n.toNat?.elim "?" fun k => toHex (ofULong k)
  | ["bits", a] => (hx a).elim "?" fun b => toString (bits b)
  | ["xor", a, b] => match hx a, hx b with
    | some x, some y => s!"{toHex (xorMin x y)} {toHex (xorAssign x y)}"
    | _, _ => "?"
  | ["split", a, n] => match hx a, n.toNat? with
    | some x, some k => let (v, r) := split x k; s!"{toHex v} {toHex r}"
    | _, _ => "?"
  | ["substr", a, s, l] => match hx a, s.toNat?, l.toNat? with
    | some x, some i, some k => toHex (substr x i k)
    | _, _, _ => "?"
  | ["pad5652", a, n] => match hx a, n.toNat? with
    | some x, some k => let p := rfc5652Pad x k; s!"{p.length} {toHex p}"
    | _, _ => "?"
  | ["unpad5652", a, n] => match hx a, n.toNat? with
    | some x, some k => (match rfc5652Unpad x k with | some v => s!"1 {toHex v}" | none => "0")
    | _, _ => "?"
  | ["pad3394", a] => (hx a).elim "?" fun b => let p := rfc3394Pad b; s!"{p.length} {toHex p}"
  | ["parity", a] => (hx a).elim "?" fun b => toHex (b.map oddParity)
  | ["pbe", p, s] => match hx p, hx s with
    | some pw, some salt => if salt.length < 8 || pw.isEmpty then "0" else s!"1 {toHex (Shm.Crypto.pbeDeriveKey pw salt)}"
    | _, _ => "?"
  | ["conf", a] => (hx a).elim "?" fun b => Config.render (Config.load b)
  | ["mxseq", s] => Shm.MutexLife.mxLine s
  | _ => "?"

end Shm.Pure
