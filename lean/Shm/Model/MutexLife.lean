/-
  Life cycle of the library's mutexes across C_Initialize / C_Finalize (SoftHSM.cpp, MutexFactory.cpp, SecureMemoryRegistry, CryptoFactory).
  A mutex is made by the mutex functions installed at the time (none = locking disabled: an invalid handle that is never used while locking stays disabled; the OS functions;
  the application's callbacks) and must only ever be locked / destroyed by the SAME functions.  The two singletons are created on first use and live until they are reset.
  `release = true` is the code as repaired (`fix: a failed C_Initialize releases the singletons it created`), `release = false` the pinned tree.
  Tie to the code: K17-conf mixes the three flavours and failing C_Initialize calls; the index-handle callbacks of the harness count every handle they did not issue
  (`mutex-bad-handle`) and `nop mxstat` shows created = destroyed whenever the library is not initialised (`mutex-leak`).
-/
namespace Shm.MutexLife

inductive Flavour | none | os | app
  deriving DecidableEq, Repr

structure St where
  initialised : Bool := false
  current : Flavour := .os
  singletons : List Flavour := []     -- creator flavour of the mutexes of SecureMemoryRegistry / CryptoFactory, when they exist
  managers : List Flavour := []       -- of the session / handle / slot managers and object stores (exist while initialised)
  misuse : Nat := 0                   -- uses (lock, destroy) of a mutex by functions other than its creator's
  deriving Repr

inductive Op
  | init (f : Flavour) (ok : Bool)    -- C_Initialize with these mutex functions; `ok = false`: it fails behind the creation of the singletons
  | fini                              -- C_Finalize
  | work                              -- any other call: locks the singletons' mutexes (every ByteString registers its memory)
  deriving Repr

def foreign (cur : Flavour) (l : List Flavour) : Nat := (l.filter (· != cur)).length

def step (release : Bool) (s : St) : Op → St
  | .init f ok =>
    if s.initialised then s else
    -- the mutex functions are switched first; the singletons are created only when absent, and used at once
    let sing := if s.singletons.isEmpty then [f, f] else s.singletons
    let s1 : St := { s with current := f, singletons := sing, misuse := s.misuse + foreign f sing }
    if ok then { s1 with initialised := true, managers := [f, f, f] }
    else if release then { s1 with singletons := [], misuse := s1.misuse + foreign f sing }     -- destroyed by the functions of this call
    else s1
  | .fini =>
    if !s.initialised then s else
    { s with initialised := false, managers := [], singletons := [], current := .os,
             misuse := s.misuse + foreign s.current s.managers + foreign s.current s.singletons }
  | .work => if s.initialised then { s with misuse := s.misuse + foreign s.current s.singletons } else s

def run (release : Bool) (ops : List Op) (s : St) : St := ops.foldl (step release) s

/-- the invariant of the repaired code -/
def St.Inv (s : St) : Prop :=
  s.misuse = 0 ∧ (s.initialised = false → s.singletons = [] ∧ s.managers = []) ∧
  (s.initialised = true → (∀ m ∈ s.singletons, m = s.current) ∧ (∀ m ∈ s.managers, m = s.current))

theorem foreign_all_eq (cur : Flavour) (l : List Flavour) (h : ∀ m ∈ l, m = cur) : foreign cur l = 0 := by
  unfold foreign
  simp only [List.length_eq_zero_iff, List.filter_eq_nil_iff]
  intro m hm; simp [h m hm]

theorem step_inv (s : St) (op : Op) (h : s.Inv) : (step true s op).Inv := by
  obtain ⟨h0, hoff, hon⟩ := h
  cases op with
  | init f ok =>
    unfold step
    by_cases hi : s.initialised = true
    · simp only [hi, if_true]; exact ⟨h0, hoff, hon⟩
    · have hi' : s.initialised = false := by simpa using hi
      obtain ⟨hs, hm⟩ := hoff hi'
      have hf : foreign f [f, f] = 0 := foreign_all_eq f _ (by simp)
      cases ok <;> simp [hi', hs, hm, hf, h0, St.Inv]
  | fini =>
    unfold step
    by_cases hi : s.initialised = true
    · obtain ⟨h1, h2⟩ := hon hi
      simp [hi, St.Inv, h0, foreign_all_eq _ _ h1, foreign_all_eq _ _ h2]
    · have hi' : s.initialised = false := by simpa using hi
      simp only [hi', Bool.not_false, if_true]; exact ⟨h0, hoff, hon⟩
  | work =>
    unfold step
    by_cases hi : s.initialised = true
    · obtain ⟨h1, _⟩ := hon hi
      simp only [hi, if_true]
      refine ⟨by simp [h0, foreign_all_eq _ _ h1], fun hc => by simp at hc, fun _ => hon hi⟩
    · have hi' : s.initialised = false := by simpa using hi
      simp only [hi', Bool.false_eq_true, if_false]; exact ⟨h0, hoff, hon⟩

/-- **Every history of C_Initialize (any flavour, succeeding or failing) / C_Finalize / other calls**: no mutex is ever locked or destroyed by functions other than the ones that made
    it, and none survives outside an initialised period -/
theorem run_inv (ops : List Op) (s : St) (h : s.Inv) : (run true ops s).Inv := by
  induction ops generalizing s with
  | nil => exact h
  | cons op t ih => exact ih _ (step_inv s op h)

theorem init_inv : ({} : St).Inv := by simp [St.Inv]

/-- the pinned tree: a failed C_Initialize with the application's callbacks, then OS locking - the registry's mutex is locked by pthread functions -/
theorem pinned_tree_misuses : (run false [.init .app false, .init .os true, .work] {}).misuse > 0 := by decide

/-! ### is locking switched on?  (`MutexFactory::enabled`, tied at unit level: `purefn mxseq`) -/

inductive MxAns
  | fin (rv : Nat)                       -- C_Finalize
  | ini (rv : Nat) (enabled : Bool)      -- C_Initialize: return code, mutex factory switched on afterwards?
  deriving DecidableEq, Repr

/-- the answers of a sequence of C_Initialize (n / o / a: no locking, OS locking, application callbacks; upper case: failing behind the choice of the mutex functions) and
    C_Finalize (f) calls.  (initialised, enabled) is the state; the factory starts switched on. -/
def mxTrace : List Char → Bool → Bool → List MxAns
  | [], _, _ => []
  | c :: r, ini, en =>
    if c == 'f' then (if ini then .fin 0 :: mxTrace r false en else .fin 400 :: mxTrace r ini en)
    else if ini then .ini 401 en :: mxTrace r ini en
    else
      let en' := !(c == 'n' || c == 'N')
      let fails := c == 'N' || c == 'O' || c == 'A'
      .ini (if fails then 5 else 0) en' :: mxTrace r (!fails) en'

def MxAns.render : MxAns → String
  | .fin rv => s!"f{rv}"
  | .ini rv en => s!"{rv}:{if en then 1 else 0}"

def mxLine (s : String) : String := ",".intercalate ((mxTrace s.toList false true).map MxAns.render)

/-- whatever came before - locking switched off by an earlier C_Initialize(NULL), failed attempts, C_Finalize - a C_Initialize that asks for locking leaves it switched ON -/
theorem init_with_locking_enables (c : Char) (r : List Char) (en : Bool) (hc : c = 'o' ∨ c = 'a') :
    (mxTrace (c :: r) false en).head? = some (.ini 0 true) := by
  rcases hc with h | h <;> subst h <;> simp [mxTrace]

end Shm.MutexLife
