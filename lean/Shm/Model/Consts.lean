/-
  PKCS#11 numeric constants used by the model (values from pkcs11.h; they are part of the ABI and are
  compared numerically with what the library returns).
-/
namespace Shm

abbrev RV := Nat

namespace CKR
@[reducible] def OK : RV := 0x0
@[reducible] def SLOT_ID_INVALID : RV := 0x3
@[reducible] def GENERAL_ERROR : RV := 0x5
@[reducible] def FUNCTION_FAILED : RV := 0x6
@[reducible] def ARGUMENTS_BAD : RV := 0x7
@[reducible] def ATTRIBUTE_READ_ONLY : RV := 0x10
@[reducible] def ATTRIBUTE_SENSITIVE : RV := 0x11
@[reducible] def ATTRIBUTE_TYPE_INVALID : RV := 0x12
@[reducible] def ATTRIBUTE_VALUE_INVALID : RV := 0x13
@[reducible] def ACTION_PROHIBITED : RV := 0x1B
@[reducible] def DATA_INVALID : RV := 0x20
@[reducible] def DATA_LEN_RANGE : RV := 0x21
@[reducible] def DEVICE_ERROR : RV := 0x30
@[reducible] def ENCRYPTED_DATA_INVALID : RV := 0x40
@[reducible] def ENCRYPTED_DATA_LEN_RANGE : RV := 0x41
@[reducible] def FUNCTION_NOT_SUPPORTED : RV := 0x54
@[reducible] def KEY_HANDLE_INVALID : RV := 0x60
@[reducible] def KEY_SIZE_RANGE : RV := 0x62
@[reducible] def KEY_TYPE_INCONSISTENT : RV := 0x63
@[reducible] def KEY_INDIGESTIBLE : RV := 0x67
@[reducible] def KEY_FUNCTION_NOT_PERMITTED : RV := 0x68
@[reducible] def KEY_NOT_WRAPPABLE : RV := 0x69
@[reducible] def KEY_UNEXTRACTABLE : RV := 0x6A
@[reducible] def MECHANISM_INVALID : RV := 0x70
@[reducible] def MECHANISM_PARAM_INVALID : RV := 0x71
@[reducible] def OBJECT_HANDLE_INVALID : RV := 0x82
@[reducible] def OPERATION_ACTIVE : RV := 0x90
@[reducible] def OPERATION_NOT_INITIALIZED : RV := 0x91
@[reducible] def PIN_INCORRECT : RV := 0xA0
@[reducible] def PIN_LEN_RANGE : RV := 0xA2
@[reducible] def SESSION_HANDLE_INVALID : RV := 0xB3
@[reducible] def SESSION_PARALLEL_NOT_SUPPORTED : RV := 0xB4
@[reducible] def SESSION_READ_ONLY : RV := 0xB5
@[reducible] def SESSION_EXISTS : RV := 0xB6
@[reducible] def SESSION_READ_ONLY_EXISTS : RV := 0xB7
@[reducible] def SESSION_READ_WRITE_SO_EXISTS : RV := 0xB8
@[reducible] def SIGNATURE_INVALID : RV := 0xC0
@[reducible] def SIGNATURE_LEN_RANGE : RV := 0xC1
@[reducible] def TEMPLATE_INCOMPLETE : RV := 0xD0
@[reducible] def TEMPLATE_INCONSISTENT : RV := 0xD1
@[reducible] def TOKEN_NOT_PRESENT : RV := 0xE0
@[reducible] def TOKEN_NOT_RECOGNIZED : RV := 0xE1
@[reducible] def UNWRAPPING_KEY_HANDLE_INVALID : RV := 0xF0
@[reducible] def USER_ALREADY_LOGGED_IN : RV := 0x100
@[reducible] def USER_NOT_LOGGED_IN : RV := 0x101
@[reducible] def USER_PIN_NOT_INITIALIZED : RV := 0x102
@[reducible] def USER_TYPE_INVALID : RV := 0x103
@[reducible] def USER_ANOTHER_ALREADY_LOGGED_IN : RV := 0x104
@[reducible] def WRAPPED_KEY_INVALID : RV := 0x110
@[reducible] def WRAPPED_KEY_LEN_RANGE : RV := 0x112
@[reducible] def WRAPPING_KEY_HANDLE_INVALID : RV := 0x113
@[reducible] def RANDOM_SEED_NOT_SUPPORTED : RV := 0x120
@[reducible] def BUFFER_TOO_SMALL : RV := 0x150
@[reducible] def CRYPTOKI_NOT_INITIALIZED : RV := 0x190
@[reducible] def CRYPTOKI_ALREADY_INITIALIZED : RV := 0x191
end CKR

namespace CKA
@[reducible] def CLASS := 0x0
@[reducible] def TOKEN := 0x1
@[reducible] def PRIVATE := 0x2
@[reducible] def LABEL := 0x3
@[reducible] def APPLICATION := 0x10
@[reducible] def VALUE := 0x11
@[reducible] def OBJECT_ID := 0x12
@[reducible] def CERTIFICATE_TYPE := 0x80
@[reducible] def TRUSTED := 0x86
@[reducible] def KEY_TYPE := 0x100
@[reducible] def ID := 0x102
@[reducible] def SENSITIVE := 0x103
@[reducible] def ENCRYPT := 0x104
@[reducible] def DECRYPT := 0x105
@[reducible] def WRAP := 0x106
@[reducible] def UNWRAP := 0x107
@[reducible] def SIGN := 0x108
@[reducible] def VERIFY := 0x10A
@[reducible] def DERIVE := 0x10C
@[reducible] def EXTRACTABLE := 0x162
@[reducible] def LOCAL := 0x163
@[reducible] def NEVER_EXTRACTABLE := 0x164
@[reducible] def ALWAYS_SENSITIVE := 0x165
@[reducible] def KEY_GEN_MECHANISM := 0x166
@[reducible] def MODIFIABLE := 0x170
@[reducible] def COPYABLE := 0x171
@[reducible] def DESTROYABLE := 0x172
@[reducible] def ALWAYS_AUTHENTICATE := 0x202
@[reducible] def WRAP_WITH_TRUSTED := 0x210
@[reducible] def CHECK_VALUE := 0x90
end CKA

namespace CKO
@[reducible] def DATA := 0
@[reducible] def CERTIFICATE := 1
@[reducible] def PUBLIC_KEY := 2
@[reducible] def PRIVATE_KEY := 3
@[reducible] def SECRET_KEY := 4
@[reducible] def DOMAIN_PARAMETERS := 6
end CKO

/-- CK_UNAVAILABLE_INFORMATION = (CK_ULONG)-1 on LP64 -/
@[reducible] def UNAVAILABLE : Nat := 2^64 - 1

/-- CK_STATE -/
inductive SState | roPublic | roUser | rwPublic | rwUser | rwSO
  deriving DecidableEq, Repr, Inhabited

def SState.toNat : SState → Nat
  | .roPublic => 0 | .roUser => 1 | .rwPublic => 2 | .rwUser => 3 | .rwSO => 4

def SState.all : List SState := [.roPublic, .roUser, .rwPublic, .rwUser, .rwSO]

end Shm
